"""Composed engine (`Mhd.ConnRead`, sub-commands crinit/crfeed of engine `mem`) for C01:
the real get_request_line / switch_to_rq_headers_processing / get_req_headers /
check_and_grow_read_buffer_space on a fabricated connection with a real pool, fed chunk by
chunk, against the composed Lean model: after EVERY chunk the state class, read_buffer
offset (relative to the pool base), read_buffer_size, read_buffer_offset, the pool cursors,
the number of request elements and the unread bytes of the window must be equal."""
import json, re
import vlib
from dlog import hx


def kv(line):
    d = {}
    for w in line.split():
        if "=" in w:
            k, _, v = w.partition("=")
            d[k] = v
    return d


NOSPACE_CODES = {"413", "414", "431", "501", "0"}


def same(h, m):
    """model line vs code line; error outcomes are compared by class (the reply is C04/C08's business)"""
    if h == m:
        return True
    dh, dm = kv(h.replace("ok ", "")), kv(m.replace("ok ", ""))
    if dh.get("ph") == "err" and dm.get("ph") == "err":
        ch, cm = dh.get("code"), dm.get("code")
        if cm == "ns":
            return ch in NOSPACE_CODES
        # a reply that cannot be built in a tiny pool ends in a plain close
        return ch == cm or ch == "0"
    return False


def oracle(line, size, inc):
    """independent statements over what the real code printed"""
    d = kv(line)
    ph = d.get("ph")
    if ph in ("err", None):
        return None
    try:
        rbs, rbo, pos, end = int(d["rbs"]), int(d["rbo"]), int(d["pos"]), int(d["end"])
    except (KeyError, ValueError):
        return "unparsable state line: " + line[:80]
    if d["rb"] == "null":
        return "no read buffer while receiving"
    rb = int(d["rb"])
    if not (pos <= end <= size):
        return "pool cursors out of order"
    if rbo > rbs:
        return "read fill beyond the read buffer size"
    if rb + rbs > pos:
        return "read window [%d,+%d) outside the allocated front region (pos=%d)" % (rb, rbs, pos)
    if ph == "c100":
        return None
    if (ph in ("line", "hdrs", "foot") or (ph == "body" and d.get("ev") == "1")) and rbo >= rbs:
        return "connection waits for data with a full read buffer"
    return None


def mk_case(ps, inc, lvl, pieces, pat=None, fill=None, beh=None):
    return ["crinit %d %d %d%s" % (ps, inc, lvl, (" " + (",".join(map(str, pat)) if pat else "-") + ((" " + beh) if beh else "")) if (pat or beh) else ""),
            "crfill %s" % ("off" if fill is None else str(fill))] + ["crfeed " + hx(p) for p in pieces]


FILLS = [10, 13, 48, 0, 90, 58, 32]     # LF CR '0' NUL 'Z' ':' SP — what stale bytes behind the fill level could look like


def twin(ps, inc, lvl, pieces, pat, rng, beh=None):
    """the same script twice with two different bytes behind the fill level: the outcomes must not differ"""
    f1 = 10
    f2 = rng.choice([90, 13, 48, 0])
    a = mk_case(ps, inc, lvl, pieces, pat, f1, beh)
    return a + mk_case(ps, inc, lvl, pieces, pat, f2, beh), len(a)


LOOKED_UP = [b"Connection", b"Host", b"Content-Length", b"Transfer-Encoding", b"Expect", b"Cookie", b"Authorization", b"Upgrade"]


def recase(name, rng):
    return rng.choice([name, name.lower(), name.upper(), bytes(c ^ 32 if chr(c).isalpha() and rng.random() < 0.5 else c for c in name)])


def collision_requests(rng):
    """request elements of OTHER kinds (query arguments with value / empty value / valueless, trailers) named exactly
    like the header fields MHD looks up itself"""
    out = []
    for name in LOOKED_UP:
        for form in (b"", b"=", b"=x", b"=close", b"=Keep-Alive"):
            for ver in (b"1.1", b"1.0"):
                n = recase(name, rng)
                q = rng.choice([b"?" + n + form, b"?a=1&" + n + form, b"?" + n + form + b"&b", b"?" + n + form + b"&" + n])
                hdr = rng.choice([b"", b"Connection: Keep-Alive\r\n", b"Connection: close\r\n"])
                out.append(b"GET /page" + q + b" HTTP/" + ver + b"\r\nHost: h\r\n" + hdr + b"\r\n" + rng.choice([b"", b"GET /n HTTP/1.1\r\nHost: h\r\n\r\n"]))
        # a trailer named like a looked-up header
        n = recase(name, rng)
        out.append(b"POST /u HTTP/1.1\r\nHost: h\r\nTransfer-Encoding: chunked\r\n\r\n2\r\nab\r\n0\r\n" + n + b": close\r\n\r\nGET /n HTTP/1.1\r\nHost: h\r\n\r\n")
    return out


def framing_requests(rng):
    """small chunked uploads whose payload, once compacted away, leaves remnants behind the fill level that look
    like valid framing (LF, last-chunk line, a pipelined request line)"""
    head = b"POST /u HTTP/1.1\r\nHost: h\r\nTransfer-Encoding: chunked\r\n\r\n"
    pay = [b"ab\n0\r\n\r\ngh", b"\n0\r\n\r\nGET / HTTP/1.1\r\n\r\n", b"\r\n0\r\n\r\n\n\n\n", b"xy\n\n0\n\n", b"0\r\n\r\n0\r\n\r\n"]
    out = []
    for p1 in pay:
        p2 = rng.choice([b"wxyz", b"w", b"\n\n\n\n", b"0\r\nq"])
        tr = rng.choice([b"", b"T: v\r\n", b"Connection: close\r\n"])
        out.append((head, b"%x\r\n" % len(p1) + p1 + b"\r\n" + b"%x\r\n" % len(p2) + p2 + b"\r\n" + b"0\r\n" + tr + b"\r\n"))
        out.append((head, b"%x;e=1\r\n" % len(p1) + p1 + b"\r\n" + b"0;l\r\n" + tr + b"\r\n" + b"GET /n HTTP/1.1\r\nHost: h\r\n\r\n"))
    return out



def body_request(rng, ps):
    """a request with a body (identity / chunked incl. extensions and trailers), maybe malformed, maybe pipelined"""
    size = rng.choice([0, 1, 5, 17, ps // 8, ps // 3, ps // 2, ps, 2 * ps])
    data = bytes((97 + i % 26) for i in range(size))
    ver = rng.choice([b"1.1", b"1.1", b"1.0"])
    conn = rng.choice([b"", b"", b"Connection: close\r\n", b"Connection: Keep-Alive\r\n"])
    if rng.random() < 0.25:
        conn += rng.choice([b"Expect: 100-continue\r\n", b"expect: 100-Continue\r\n", b"Expect: 200-ok\r\n"])
    if rng.random() < 0.5:
        req = b"POST /u HTTP/" + ver + b"\r\nHost: h\r\n" + conn + b"Content-Length: %d\r\n\r\n" % size + data
    else:
        req = b"POST /u HTTP/" + ver + b"\r\nHost: h\r\n" + conn + b"Transfer-Encoding: chunked\r\n\r\n"
        left, i = size, 0
        while left > 0:
            n = min(left, rng.choice([1, 7, 16, 100, 1000] if size <= 600 else [100, 333, 1000]))
            ext = rng.choice([b"", b"", b";x=y", b" ;a", b";" + b"e" * rng.choice([3, 40])])
            eol = rng.choice([b"\r\n", b"\r\n", b"\r\n", b"\n"])
            req += (b"%x" % n if rng.random() < 0.8 else b"%X" % n) + ext + eol + data[i:i + n] + eol
            left -= n; i += n
        req += b"0" + rng.choice([b"\r\n", b";last\r\n"]) + rng.choice([b"", b"T: v\r\n", b"Tr1: a\r\nTr2:  b \r\n"]) + b"\r\n"
    return req



def gen_cases(ctx, n_random):
    import importlib
    C01 = importlib.import_module("props.C01")
    rng = ctx.rng
    cases = []
    pools = [64, 128, 256, 512, 1024, 1536, 2048, 4096, 32768]
    incs = [0, 16, 64, 256, 1500, 4000, 8, 1, 7, 3]
    # size-directed: head length around read-buffer size / pool size, last element kind, pipelined tail
    for ps in pools:
        marks = sorted({max(ps // 2 + d, 1) for d in (-2, -1, 0, 1)} | {max(ps // 4, 1), max(ps - 64, 1)})
        totals = sorted({t + d for t in (ps // 4, ps // 2, (ps * 3) // 4, ps - 64, ps - 16, ps) for d in (-2, -1, 0, 1, 2) if t + d > 20})
        for total in totals:
            for last in ("arg", "argnoeq", "args2", "header", "none"):
                if ctx.tier == "quick" and rng.random() < 0.75:
                    continue
                data = C01.build_request(total, last, rng.choice([b"1.0", b"1.1"]), rng.choice(["none", "junk", "next"]), rng)
                how = rng.choice(["whole", "mark", "rand"] + (["bytes"] if len(data) <= 300 else []))
                cases.append((mk_case(ps, rng.choice(incs), rng.randint(-3, 3), C01.splits_of(data, how, rng, marks), None, rng.choice(FILLS + [None])),
                              {"fam": "sized:" + last, "how": how}))
    # splits at EVERY byte of the chunk framing, adversarial stale bytes behind the fill level, two fill bytes each
    frs = framing_requests(rng)
    if ctx.tier == "quick":
        frs = rng.sample(frs, 4)
    for head, body in frs:
        ps = rng.choice([256, 512, 1024])
        lvl = rng.choice([0, 0, 1, 3, -1, -3])
        pat = rng.choice([None, None, None, [1000000], [3]])
        for p in range(1, len(body)):
            # the head and the first part in one read (so that the payload is compacted away), then the rest
            for pieces in ([head + body[:p], body[p:]], [head, body[:p], body[p:]]):
                c, half = twin(ps, 16, lvl, pieces + [b""], pat, rng)
                cases.append((c, {"fam": "framing-splits", "how": "every", "half": half}))
        # the split right behind every CR, three pieces
        crs = [i + 1 for i in range(len(body)) if body[i:i + 1] == b"\r"]
        for a in crs:
            for b2 in crs:
                if a < b2:
                    c, half = twin(ps, 16, lvl, [head + body[:a], body[a:b2], body[b2:], b""], pat, rng)
                    cases.append((c, {"fam": "framing-splits", "how": "cr-pairs", "half": half}))
    # names that collide across element kinds
    cols = collision_requests(rng)
    if ctx.tier == "quick":
        cols = rng.sample(cols, 40)
    for data in cols:
        ps = rng.choice([512, 1024, 4096])
        how = rng.choice(["whole", "whole", "rand"])
        c, half = twin(ps, rng.choice([16, 256]), rng.randint(-3, 3), C01.splits_of(data, how, rng) + [b""], None, rng)
        cases.append((c, {"fam": "kind-collisions", "how": how, "half": half}))
    # bodies (identity / chunked / trailers), handler take patterns, pipelined sequences, idle rounds without data
    for i in range(n_random):
        ps = rng.choice([128, 256, 512, 1024, 2048, 4096])
        nreq = rng.choice([1, 1, 2, 3])
        data = b"".join(rng.choice([body_request(rng, ps), b"GET /n HTTP/1.1\r\nHost: h\r\n\r\n",
                                   C01.build_request(rng.choice([40, ps // 2]), "arg", b"1.1", "none", rng)]) for _ in range(nreq))
        fam = "body"
        if rng.random() < 0.25:
            data = C01.mutate(data, rng); fam = "body-mutated"
        how = rng.choice(["whole", "rand", "rand"] + (["bytes"] if len(data) <= 200 else []))
        pieces = []
        for pc in C01.splits_of(data, how, rng):
            pieces.append(pc)
            for _ in range(rng.choice([0, 0, 1, 3])):
                pieces.append(b"")
        pieces += [b""] * rng.choice([0, 2, 6])
        pat = rng.choice([None, None, [1], [0, 5], [3, 0, 0, 100], [ps], [7, 1000000], [0], [5, "n"], ["n"], [1000000, 2, "n", 0]])
        # what the access handler does: first call go on / early reply / MHD_NO, final call reply / MHD_NO
        beh = rng.choice([None, None, None, "cr", "rr", "nr", "cn"])
        if beh:
            fam += "+handler:" + beh
        if rng.random() < 0.5:
            c, half = twin(ps, rng.choice(incs), rng.randint(-3, 3), pieces, pat, rng, beh)
            cases.append((c, {"fam": fam, "how": how, "half": half}))
        else:
            cases.append((mk_case(ps, rng.choice(incs), rng.randint(-3, 3), pieces, pat, rng.choice(FILLS), beh), {"fam": fam, "how": how}))
    for i in range(n_random):
        ps = rng.choice(pools)
        r = rng.random()
        if r < 0.3:
            data = C01.build_hdr_heavy(rng.choice([ps // 2, ps - 40, ps + 30, ps * 2]), rng)
            fam = "hdrs"
        elif r < 0.45:
            # many empty lines / whitespace shapes in front of and inside the request line
            pre = rng.choice([b"", b"\r\n", b"\n", b"\r\n\r\n\r\n", b"\r\n" * rng.randint(1, 40)])
            tgt = rng.choice([b"/a b", b"/a  b?c=d e", b"/%41%zz?x=%20+&y&=z&&", b"/", b"*", b"/a?" + b"k=v&" * rng.randint(1, 30)])
            data = pre + rng.choice([b"GET", b"POST", b"X" * rng.randint(1, 40)]) + rng.choice([b" ", b"\t", b"  "]) + tgt + \
                rng.choice([b" ", b"  ", b"\t"]) + rng.choice([b"HTTP/1.1", b"HTTP/1.0", b"HTTP/2.0", b"HTTP/1.15", b"?TTP/1.1"]) + \
                rng.choice([b"\r\n", b"\n"]) + b"Host: h\r\nA:  b \r\n c\r\n\r\nNEXT"
            fam = "line-shapes"
        elif r < 0.6:
            base = rng.choice([b"GET /c HTTP/1.1\r\nHost: h\r\nCookie: a=b; c=\"d e\"; f\r\n\r\n",
                               b"GET /x?a=1&b=2 HTTP/1.0\r\n\r\nZZZZZZZZ", b"GET / HTTP/1.1\r\nA: b\r\n folded\r\nC:d\r\n\r\n"])
            data = C01.mutate(base, rng)
            fam = "mutated"
        else:
            data = C01.mutate(C01.build_request(rng.choice([40, ps // 2, ps]), rng.choice(["arg", "argnoeq", "header", "none"]),
                                                rng.choice([b"1.0", b"1.1"]), "next", rng), rng)
            fam = "mutated-sized"
        how = rng.choice(["whole", "rand", "rand"] + (["bytes"] if len(data) <= 200 else []))
        cases.append((mk_case(ps, rng.choice(incs), rng.randint(-3, 3), C01.splits_of(data, how, rng), None, rng.choice(FILLS + [None])), {"fam": fam, "how": how}))
    return cases


def run_batch(harness, driver, batch, failures, stats):
    lines = [l for c, _ in batch for l in c]
    hout, hrc, herr = vlib.run_lines(harness, lines)
    mout, mrc, merr = vlib.run_lines(driver, lines)
    if hrc != 0:
        pos, k = len(hout), 0
        for c, meta in batch:
            if k + len(c) > pos:
                failures.append(vlib.Failure("sanitizer", "connread: harness aborted (rc=%d)" % hrc, herr[-1500:], c, "mem"))
                break
            k += len(c)
        return
    k = 0
    for c, meta in batch:
        half = meta.get("half")
        if half and k + len(c) <= len(hout):
            # independent oracle: what the real code does must not depend on the bytes behind the fill level
            for j in range(2, half):
                a, b2 = hout[k + j], hout[k + half + j]
                if a != b2:
                    failures.append(vlib.Failure("oracle", "connread: outcome depends on bytes behind the fill level (read beyond read_buffer_offset)",
                                                 "fill %s: '%s' / fill %s: '%s'" % (c[1].split()[1], a[:160], c[half + 1].split()[1], b2[:160]),
                                                 c[:j + 1] + c[half:half + j + 1], "mem"))
                    break
        size, inc = 0, 0
        prev = None
        for j, l in enumerate(c):
            h = hout[k + j] if k + j < len(hout) else ""
            m = mout[k + j] if k + j < len(mout) else ""
            if l.startswith("crinit"):
                w = l.split()
                inc = int(w[2])
                size = int(kv(h).get("end", "0"))
                prev = None
            if l.startswith("crfill"):
                continue
            e = oracle(h, size, inc)
            if e:
                failures.append(vlib.Failure("oracle", "connread: " + re.sub(r"\d+", "N", e), e + " | " + h[:160], c[:j + 1], "mem"))
                break
            if "sync=0" in m or "fault" in m or "refused" in m:
                failures.append(vlib.Failure("model", "connread: model " + ("fault" if "sync=0" not in m else "arena/parser-buffer desync"),
                                             m[:200], c[:j + 1], "mem"))
                break
            if not same(h, m):
                failures.append(vlib.Failure("diff", "connread: model/code differ", "code '%s' model '%s'" % (h[:200], m[:200]), c[:j + 1], "mem"))
                break
            d = kv(h)
            if prev is not None and d.get("ph") in ("line", "hdrs") and prev.get("ph") in ("body", "foot"):
                stats["resets(next request)"] += 1
            if d.get("ph") == "c100":
                stats["continue_sending"] = stats.get("continue_sending", 0) + 1
            if d.get("ph") == "body" and d.get("ev") == "0":
                stats["body_process_only"] += 1
            if prev is not None and d.get("ph") in ("line", "hdrs", "body", "foot"):
                if int(d["rbs"]) + int(d["rb"]) > int(prev["rbs"]) + int(prev["rb"]):
                    stats["grown"] += 1
            prev = d if d.get("ph") != "err" else None
        last = kv(hout[k + len(c) - 1]) if k + len(c) - 1 < len(hout) else {}
        ph = last.get("ph", "?")
        key = "final:" + ph + ((":" + last.get("code", "")) if ph == "err" else "")
        stats[key] = stats.get(key, 0) + 1
        if ph == "done":
            stats["elements_total"] += int(last.get("ne", "0"))
            if int(last["rbs"]) + int(last["rb"]) and last.get("win", "-") != "-":
                stats["done_with_readahead"] += 1
        stats["fam:" + meta["fam"] + "/" + meta["how"]] = stats.get("fam:" + meta["fam"] + "/" + meta["how"], 0) + 1
        k += len(c)


def explore(ctx, harness, driver, boost):
    failures = []
    stats = {"grown": 0, "elements_total": 0, "done_with_readahead": 0, "resets(next request)": 0, "body_process_only": 0}
    n = (2500 if ctx.tier == "thorough" else 220) * (3 if boost else 1)
    cases = gen_cases(ctx, n)
    for i in range(0, len(cases), 400):
        run_batch(harness, driver, cases[i:i + 400], failures, stats)
        if len(failures) > 20:
            break
    nontriv = {json.dumps(c) for c, _ in cases if len(c) > 1}
    cov = {"evaluations": len(cases), "chunks_compared": sum(sum(1 for l in c if l.startswith("crfeed")) for c, _ in cases),
           "twin_fill_cases": sum(1 for _, m in cases if m.get("half")),
           "distinct_nontrivial": len(nontriv), "rule": "distinct scripts that feed at least one chunk",
           "samples": [cases[0][0][:3], cases[len(cases) // 2][0][:3]], "outcomes": stats, "exhaustive": False}
    return failures, cov


def replay_one(harness, driver, lines):
    hout, hrc, herr = vlib.run_lines(harness, lines)
    mout, mrc, merr = vlib.run_lines(driver, lines)
    for h, m in zip(hout, mout):
        print("code : " + h[:300]); print("model: " + m[:300])
    print(herr[-1500:])
    return 1 if hrc != 0 or any(not same(h, m) for h, m in zip(hout, mout)) else 0
