"""C04 — every reply is a well-formed, self-consistently framed HTTP message.  Engine `reply`.

(A) gen_reply(): constants/tables of response.c / connection.c / reason_phrase.c -> lean/Mhd/Gen/Reply.lean
(B) correspondence (harness/h_reply.c vs lean/Driver/Reply.lean):
    a. decision functions keepalive_possible / is_reply_body_needed / setup_reply_properties /
       need_100_continue / MHD_queue_response validation: exhaustive over the abstracted input space
    b. response-object API: all add/del/footer/options call sequences up to a bound
    c. complete exchanges through a real daemon (socketpair), wire image compared and parsed
(iii) independent oracle: strict HTTP/1.x response parser + flags_auto/list consistency (knows nothing
    about the Lean model).
"""
import itertools, json, os, re
import vlib, extract


# ------------------------------------------------------------------ (A) translator

def _bytes_lit(b):
    return "[" + ", ".join(str(x) for x in b) + "]"


def gen_reply():
    from extract import c_eval, src, prev_value, HEADER, GEN
    prel = ('#include "MHD_config.h"\n#include "platform.h"\n#include "microhttpd.h"\n#include "internal.h"\n'
            '#include "reason_phrase.c"\n'
            'static void hx(const char*s,size_t n){for(size_t i=0;i<n;i++)printf("%02x",(unsigned char)s[i]);}\n')
    ints = [("rfHttp10Strict", "MHD_RF_HTTP_1_0_COMPATIBLE_STRICT"), ("rfHttp10Server", "MHD_RF_HTTP_1_0_SERVER"),
            ("rfInsanity", "MHD_RF_INSANITY_HEADER_CONTENT_LENGTH"), ("rfSendKeepAlive", "MHD_RF_SEND_KEEP_ALIVE_HEADER"),
            ("rfHeadOnly", "MHD_RF_HEAD_ONLY_RESPONSE"),
            ("rafConnHdr", "MHD_RAF_HAS_CONNECTION_HDR"), ("rafConnClose", "MHD_RAF_HAS_CONNECTION_CLOSE"),
            ("rafTransEnc", "MHD_RAF_HAS_TRANS_ENC_CHUNKED"), ("rafContentLength", "MHD_RAF_HAS_CONTENT_LENGTH"),
            ("rafDate", "MHD_RAF_HAS_DATE_HDR"),
            ("verInvalid", "MHD_HTTP_VER_INVALID"), ("verUnknown", "MHD_HTTP_VER_UNKNOWN"), ("verTooOld", "MHD_HTTP_VER_TOO_OLD"),
            ("ver10", "MHD_HTTP_VER_1_0"), ("ver11", "MHD_HTTP_VER_1_1"), ("ver12", "MHD_HTTP_VER_1_2__1_9"),
            ("verFuture", "MHD_HTTP_VER_FUTURE"),
            ("kaMustClose", "MHD_CONN_MUST_CLOSE"), ("kaUnknown", "MHD_CONN_KEEPALIVE_UNKOWN"),
            ("kaUseKeepalive", "MHD_CONN_USE_KEEPALIVE"), ("kaMustUpgrade", "MHD_CONN_MUST_UPGRADE"),
            ("mthdNone", "MHD_HTTP_MTHD_NO_METHOD"), ("mthdGet", "MHD_HTTP_MTHD_GET"), ("mthdHead", "MHD_HTTP_MTHD_HEAD"),
            ("mthdPost", "MHD_HTTP_MTHD_POST"), ("mthdPut", "MHD_HTTP_MTHD_PUT"), ("mthdDelete", "MHD_HTTP_MTHD_DELETE"),
            ("mthdConnect", "MHD_HTTP_MTHD_CONNECT"), ("mthdOptions", "MHD_HTTP_MTHD_OPTIONS"),
            ("mthdTrace", "MHD_HTTP_MTHD_TRACE"), ("mthdOther", "MHD_HTTP_MTHD_OTHER"),
            ("httpSwitchingProtocols", "MHD_HTTP_SWITCHING_PROTOCOLS"), ("httpProcessing", "MHD_HTTP_PROCESSING"),
            ("httpOk", "MHD_HTTP_OK"), ("httpNoContent", "MHD_HTTP_NO_CONTENT"), ("httpNotModified", "MHD_HTTP_NOT_MODIFIED"),
            ("stHeadersProcessed", "MHD_CONNECTION_HEADERS_PROCESSED"), ("stFullReqReceived", "MHD_CONNECTION_FULL_REQ_RECEIVED"),
            ("stStartReply", "MHD_CONNECTION_START_REPLY")]
    prints = [(n, "%lld", "(long long) (%s)" % e) for n, e in ints]
    prints.append(("sizeUnknown", "%llu", "(unsigned long long) MHD_SIZE_UNKNOWN"))
    prints.append(("icyFlag", "%llu", "(unsigned long long) MHD_ICY_FLAG"))
    strs = [("hdrConnection", "MHD_HTTP_HEADER_CONNECTION"), ("hdrTransferEncoding", "MHD_HTTP_HEADER_TRANSFER_ENCODING"),
            ("hdrDate", "MHD_HTTP_HEADER_DATE"), ("hdrContentLength", "MHD_HTTP_HEADER_CONTENT_LENGTH"),
            ("hdrExpect", "MHD_HTTP_HEADER_EXPECT"), ("httpVersion10", "MHD_HTTP_VERSION_1_0"),
            ("httpVersion11", "MHD_HTTP_VERSION_1_1")]
    # the reason phrase of every status code 100..999, as MHD_get_reason_phrase_len_for/_for give it
    body = "".join('  printf("%s=%s\\n", %s);\n' % (n, f, e) for n, f, e in prints)
    body += "".join('  printf("S_%s="); hx(%s, strlen(%s)); printf("\\n");\n' % (n, e, e) for n, e in strs)
    prog = prel + "\n#include <stdio.h>\nint main(void){\n" + body + \
        '  for (unsigned c=100;c<=999;c++){size_t l=MHD_get_reason_phrase_len_for(c);' \
        'if(l){printf("R_%u=",c);hx(MHD_get_reason_phrase_for(c),l);printf("\\n");}}\n  return 0;}\n'
    v = _c_run(prog)
    cs = src("src/microhttpd/connection.c")
    m = re.search(r'#define\s+HTTP_100_CONTINUE\s+"((?:[^"\\]|\\.)*)"', cs)
    cont = m.group(1).encode().decode("unicode_escape").encode("latin1") if m else None
    m2 = re.search(r"static const size_t max_chunk = (0x[0-9A-Fa-f]+|\d+);", cs)
    maxchunk = int(m2.group(1), 0) if m2 else int(prev_value("Reply.lean", "maxChunk", "16777215"))
    m3 = re.search(r'buffer_append_s \(buf, &pos, buf_size, "(Non-Standard Status)"\)', cs)
    nonstd = (m3.group(1) if m3 else "Non-Standard Status").encode()
    out = [HEADER % "src/microhttpd/{internal.h,connection.c,reason_phrase.c}, src/include/microhttpd.h",
           "namespace Mhd.Gen.Reply"]
    for n, _ in ints:
        val = int(v[n])
        out.append("def %s : Int := %d" % (n, val))
    out.append("def sizeUnknown : Nat := %s" % v["sizeUnknown"])
    out.append("def icyFlag : Nat := %s" % v["icyFlag"])
    out.append("def maxChunk : Nat := %d" % maxchunk)
    for n, _ in strs:
        b = bytes.fromhex(v["S_" + n])
        out.append("/-- %s -/\ndef %s : List UInt8 := %s" % (b.decode("latin1"), n, _bytes_lit(b)))
    if cont is None:
        raise RuntimeError("HTTP_100_CONTINUE not found in connection.c")
    out.append("/-- %r -/\ndef http100Continue : List UInt8 := %s" % (cont.decode("latin1"), _bytes_lit(cont)))
    out.append("/-- %s -/\ndef nonStandardStatus : List UInt8 := %s" % (nonstd.decode(), _bytes_lit(nonstd)))
    out.append("/-- status codes with a non-empty reason phrase (every other code in 100..999 has length 0) -/")
    out.append("def reasons : List (Nat × List UInt8) := [")
    rs = sorted((int(k[2:]), bytes.fromhex(val)) for k, val in v.items() if k.startswith("R_"))
    out.append(",\n".join("  (%d, %s) /- %s -/" % (c, _bytes_lit(b), b.decode("latin1")) for c, b in rs))
    out.append("]")
    out.append("end Mhd.Gen.Reply\n")
    return vlib.write_if_changed(os.path.join(GEN, "Reply.lean"), "\n".join(out))


def _c_run(prog):
    import tempfile, subprocess
    d = tempfile.mkdtemp(prefix="vx04", dir=vlib.BUILD if os.path.isdir(vlib.BUILD) else None)
    try:
        c = os.path.join(d, "x.c")
        open(c, "w").write(prog)
        exe = os.path.join(d, "x")
        r = vlib.sh(["gcc", "-O0", "-w"] + vlib.CFLAGS_COMMON + [c, "-o", exe, "-lgnutls", "-lpthread"])
        if r.returncode != 0:
            raise RuntimeError("extractor C program does not compile:\n" + r.stderr[-3000:])
        r = vlib.sh([exe])
        if r.returncode != 0:
            raise RuntimeError("extractor C program failed: " + r.stderr[-1000:])
        out = {}
        for line in r.stdout.splitlines():
            k, _, val = line.partition("=")
            out[k] = val
        return out
    finally:
        subprocess.run(["rm", "-rf", d])


# ------------------------------------------------------------------ helpers shared by generators / oracle

def hx(s):
    b = s if isinstance(s, bytes) else s.encode("latin1")
    return b.hex() if b else "-"


def unhx(s):
    return b"" if s == "-" else bytes.fromhex(s)


def pat(i):
    return 97 + (i * 7 + i // 26) % 26


def pat_range(start, n):
    return bytes(pat(start + j) for j in range(n))


MANAGED = (b"connection", b"transfer-encoding", b"date", b"content-length")
TOKEN_RE = re.compile(rb"^[!#$%&'*+\-.^_`|~0-9A-Za-z]+$")
SIZE_UNKNOWN = (1 << 64) - 1
ICY = 1 << 31
KA = {-1: "close", 0: "unknown", 1: "keepalive", 2: "upgrade"}
VERS = (-1, 0, 1, 2, 3, 4, 100)
MTHDS = (0, 1, 2, 3, 4, 5, 6, 7, 8, 1000)
B32 = "0123456789ABCDEFGHIJKLMNOPQRSTUV"


def tokens(value):
    return [t.strip(b" \t") for t in value.split(b",")]


def has_token(value, tok):
    return any(t.lower() == tok for t in tokens(value))


# ------------------------------------------------------------------ (iii) independent oracle: strict HTTP/1.x response parser

class Malformed(Exception):
    pass


def take_line(buf, pos):
    e = buf.find(b"\r\n", pos)
    if e < 0:
        raise Malformed("line not terminated by CRLF at offset %d" % pos)
    line = buf[pos:e]
    if b"\r" in line or b"\n" in line:
        raise Malformed("bare CR or LF inside a line at offset %d" % pos)
    return line, e + 2


def parse_fields(buf, pos):
    out = []
    while True:
        line, pos = take_line(buf, pos)
        if line == b"":
            return out, pos
        name, sep, value = line.partition(b":")
        if not sep or not TOKEN_RE.match(name):
            raise Malformed("bad field line %r" % line[:60])
        out.append((name, value.strip(b" \t")))


def parse_reply(buf, pos, req_head, req_ver, at_eof_closed):
    """parse one response starting at pos. Returns dict.  Raises Malformed.
    req_ver: 10/11/12; at_eof_closed: the server closed after the last byte."""
    line, p = take_line(buf, pos)
    m = re.match(rb"^(HTTP/1\.[01]|ICY) ([0-9]{3}) ([\t -~\x80-\xff]+)$", line)
    if not m:
        raise Malformed("bad status line %r" % line[:60])
    code = int(m.group(2))
    fields, p = parse_fields(buf, p)
    low = [(n.lower(), v) for n, v in fields]
    cl = [v for n, v in low if n == b"content-length"]
    te = [v for n, v in low if n == b"transfer-encoding"]
    conn = [v for n, v in low if n == b"connection"]
    date = [v for n, v in low if n == b"date"]
    if len(conn) > 1:
        raise Malformed("more than one Connection field")
    if len(date) > 1:
        raise Malformed("more than one Date field")
    if len(cl) > 1:
        raise Malformed("more than one Content-Length field")
    if len(te) > 1:
        raise Malformed("more than one Transfer-Encoding field")
    if cl and te:
        raise Malformed("both Content-Length and Transfer-Encoding")
    if cl and not re.match(rb"^[0-9]+$", cl[0]):
        raise Malformed("Content-Length is not a number: %r" % cl[0])
    if te and te[0].lower() != b"chunked":
        raise Malformed("Transfer-Encoding other than chunked: %r" % te[0])
    if te and req_ver == 10:
        raise Malformed("chunked coding sent to an HTTP/1.0 client")
    close = bool(conn) and has_token(conn[0], b"close")
    r = {"version": m.group(1), "code": code, "reason": m.group(3), "fields": fields, "close": close,
         "trailers": [], "body": b"", "chunks": []}
    nobody_hdrs = code < 200 or code == 204
    nobody = nobody_hdrs or req_head or code == 304
    if nobody_hdrs and (cl or te):
        raise Malformed("Content-Length / Transfer-Encoding in a %d reply" % code)
    if nobody:
        r["framing"] = "none"
        r["end"] = p
        return r
    if te:
        body = b""
        while True:
            line, p = take_line(buf, p)
            if not re.match(rb"^[0-9A-Fa-f]+$", line):
                raise Malformed("bad chunk-size line %r" % line[:40])
            n = int(line, 16)
            if n == 0:
                if not re.match(rb"^0+$", line):
                    raise Malformed("bad last chunk")
                break
            if p + n + 2 > len(buf):
                raise Malformed("chunk data truncated")
            body += buf[p:p + n]
            r["chunks"].append(n)
            if buf[p + n:p + n + 2] != b"\r\n":
                raise Malformed("chunk data not followed by CRLF")
            p += n + 2
        r["trailers"], p = parse_fields(buf, p)
        r["framing"], r["body"], r["end"] = "chunked", body, p
        return r
    if cl:
        n = int(cl[0])
        if p + n > len(buf):
            raise Malformed("body shorter (%d) than Content-Length %d" % (len(buf) - p, n))
        r["framing"], r["body"], r["end"] = "length", buf[p:p + n], p + n
        return r
    # close-delimited
    if not close:
        raise Malformed("no Content-Length, not chunked and no 'Connection: close'")
    if not at_eof_closed:
        raise Malformed("close-delimited body but the connection stays open")
    r["framing"], r["body"], r["end"] = "close", buf[p:], len(buf)
    return r


class RespState:
    """what the script did to one response object, as seen through the API return values and
    MHD_get_response_headers (no knowledge of the model): kind, body, flags, entries in order."""

    def __init__(self, kind, **kw):
        self.kind = kind
        self.total = kw.get("total", 0)
        self.body = kw.get("body", b"")        # what the application supplies when the whole body is sent
        self.complete = kw.get("complete", True)  # the application supplies the body completely and ends regularly
        self.flags = kw.get("flags", 0)
        self.entries = [("H", b"Connection", b"Upgrade")] if kind == "upg" else []
        self.upgrade = kind == "upg"

    @property
    def user(self):
        return [(k, n, v) for k, n, v in self.entries if not (k == "H" and n.lower() in MANAGED)]

    def step(self, call, out):
        """judge one add/del/foot/opt output line and follow the list. Returns error text or None."""
        w = out.split()
        if not w or not w[0].startswith("ret=") or len(w) < 3:
            return "call %r: unexpected output %s" % (call, out[:60])
        ret = w[0] == "ret=1"
        d = dict(x.split("=", 1) for x in w[:3])
        fa, fl = int(d["fa"]), int(d["fl"])
        ents = []
        for x in w[3:]:
            k, _, rest = x.partition(":")
            n, _, v = rest.partition("=")
            ents.append((k, unhx(n), unhx(v)))
        prev = self.entries
        op = call[0]
        if op == "opt":
            if ret:
                self.flags = call[1]
            if fl != self.flags:
                return "response flags %d differ from the accepted options %d" % (fl, self.flags)
            if ents != prev:
                return "set_response_options changed the header list"
        else:
            name, value = call[1], call[2]
            lname = name.lower()
            valid = bool(name) and bool(value) and not re.search(rb"[\t \r\n]", name) and not re.search(rb"[\r\n]", value)
            if op == "foot" or (op == "add" and lname not in MANAGED):
                if ret != valid:
                    return "%s %r: returned %d" % (op, call[1:], ret)
                want = prev + [("F" if op == "foot" else "H", name, value)] if ret else prev
                if ents != want:
                    return "%s %r: list is %r, expected %r" % (op, call[1:], ents[-3:], want[-3:])
            elif op == "del" and not (lname == b"connection" and any(k == "H" and n.lower() == b"connection" for k, n, v in prev)):
                idx = next((i for i, (k, n, v) in enumerate(prev) if n == name and v == value), None)
                if ret != (idx is not None):
                    return "del %r: returned %d" % (call[1:], ret)
                want = prev[:idx] + prev[idx + 1:] if idx is not None else prev
                if ents != want:
                    return "del %r: list is %r, expected %r" % (call[1:], ents[:4], want[:4])
            elif not ret and not (op == "add" and lname == b"date"):
                if ents != prev:
                    return "%s %r failed but changed the list" % (op, call[1:])
            # every other entry must be untouched by a managed-header call
            mine = [e for e in ents if not (e[0] == "H" and e[1].lower() == lname)]
            theirs = [e for e in prev if not (e[0] == "H" and e[1].lower() == lname)]
            if op != "foot" and lname in MANAGED and mine != theirs and not (op == "del" and ret):
                return "%s %r changed unrelated entries: %r -> %r" % (op, call[1:], theirs[:4], mine[:4])
        self.entries = ents
        return check_flags(fa, fl, ents)


def check_flags(fa, fl, ents):
    """flags_auto must say what the list contains"""
    H = [(n, v) for k, n, v in ents if k == "H"]
    conn = [v for n, v in H if n.lower() == b"connection"]
    te = [v for n, v in H if n.lower() == b"transfer-encoding"]
    cl = [v for n, v in H if n.lower() == b"content-length"]
    dt = [v for n, v in H if n.lower() == b"date"]
    insanity = bool(fl & 4)
    if bool(fa & 1) != bool(conn):
        return "flags_auto HAS_CONNECTION_HDR=%d but %d Connection headers in the list" % (fa & 1, len(conn))
    if len(conn) > 1:
        return "two Connection headers in the list"
    if bool(fa & 2) != (bool(conn) and has_token(conn[0], b"close")):
        return "flags_auto HAS_CONNECTION_CLOSE=%d disagrees with Connection value %r" % ((fa >> 1) & 1, conn)
    if conn and (conn[0] == b"" or b"\r" in conn[0] or b"\n" in conn[0]):
        return "bad Connection value %r" % conn[0]
    if bool(fa & 4) != bool(te):
        return "flags_auto HAS_TRANS_ENC_CHUNKED=%d but %d Transfer-Encoding headers in the list" % ((fa >> 2) & 1, len(te))
    if len(te) > 1 or (te and te[0].lower() != b"chunked"):
        return "bad Transfer-Encoding headers %r" % te
    if bool(fa & 8) != bool(cl):
        return "flags_auto HAS_CONTENT_LENGTH=%d but %d Content-Length headers in the list" % ((fa >> 3) & 1, len(cl))
    if not insanity and (len(cl) > 1 or (cl and te)):
        return "Content-Length headers %r together with Transfer-Encoding %r" % (cl, te)
    if not insanity and cl and not (fl & 16):
        return "application Content-Length on a response that is not HEAD-only"
    if bool(fa & 16) != bool(dt):
        return "flags_auto HAS_DATE_HDR=%d but %d Date headers in the list" % ((fa >> 4) & 1, len(dt))
    if len(dt) > 1:
        return "two Date headers in the list"
    if conn and not (ents[0][0] == "H" and ents[0][1].lower() == b"connection"):
        return "Connection header is not the first entry"
    return None


def check_header_block(out_hex, rs, req_head, req_ver, code, ka, pch):
    """oracle for one `hdr` line (white-box build_header_response with a large buffer)"""
    buf = unhx(out_hex)
    try:
        # parse only the head: pretend no body follows by treating it as HEAD for the parser, then
        # apply the framing rules by hand
        r = parse_reply(buf, 0, True, req_ver, True)
    except Malformed as ex:
        return "header block malformed: %s" % ex
    if r["end"] != len(buf):
        return "bytes after the header block"
    return check_reply_fields(r, rs, req_head, req_ver, code, False, ka == -1 if ka is not None else None)


def check_reply_fields(r, rs, req_head, req_ver, code, icy, closes):
    low = [(n.lower(), v) for n, v in r["fields"]]
    if r["code"] != code:
        return "status code %d sent instead of %d" % (r["code"], code)
    want_v = b"ICY" if icy else (b"HTTP/1.0" if rs.flags & 2 else b"HTTP/1.1")
    if r["version"] != want_v:
        return "status line version %r, expected %r" % (r["version"], want_v)
    cl = [v for n, v in low if n == b"content-length"]
    te = [v for n, v in low if n == b"transfer-encoding"]
    nobody_hdrs = code < 200 or code == 204
    nobody = nobody_hdrs or req_head or code == 304
    if not nobody_hdrs and not rs.upgrade and not (rs.flags & 16):
        if not cl and not te and not r["close"]:
            return "no body delimitation at all (no CL, no chunked, no close)"
        if rs.total != SIZE_UNKNOWN and not te and cl and int(cl[0]) != rs.total:
            return "Content-Length %s but the response has %d bytes" % (cl[0], rs.total)
        if rs.total != SIZE_UNKNOWN and not te and not cl:
            return "known size but neither Content-Length nor chunked"
    # user headers verbatim, once, in insertion order
    want = [(n, v.strip(b" \t")) for k, n, v in rs.user if k == "H"]
    got = [(n, v) for n, v in r["fields"] if n.lower() not in MANAGED]
    if got != want:
        return "user headers on the wire %r differ from what was added %r" % (got[:6], want[:6])
    if rs.upgrade and code == 101 and r["close"]:
        return "the 101 reply of an upgrade response carries 'Connection: close'"
    if closes is not None and not rs.upgrade and closes != r["close"]:
        return "daemon %s after the reply but 'Connection: close' is %s" % (
            "closes" if closes else "keeps the connection", "present" if r["close"] else "absent")
    return None


def check_exchange(x, out_line):
    """x: dict describing the scripted exchange (see gen_exchange); out_line: harness output."""
    m = re.match(r"^q=(\S*) wire=(\S+) closed=([01])$", out_line)
    if not m:
        return "unparsable harness line: " + out_line[:80]
    q, wire, closed = m.group(1), unhx(m.group(2)), m.group(3) == "1"
    pos = 0
    cont = b"HTTP/1.1 100 Continue\r\n\r\n"
    ncont = 0
    while wire.startswith(cont, pos):
        pos += len(cont)
        ncont += 1
    asked = (x["ver"] in (11, 12) and x["expect"] is not None and x["expect"].lower() == b"100-continue"
             and x["up"] > 0 and not x["early"])
    if ncont and not asked:
        return "100 Continue sent although the client did not ask an HTTP/1.1 100-continue with a pending body"
    if ncont > 1:
        return "100 Continue sent twice"
    req_head = x["mthd"] == "HEAD"
    specs = x["specs"]
    for k, (rs, code) in enumerate(specs):
        if k >= len(q):
            return "response %d was never queued" % k
        if q[k] == "N":
            # refused by MHD_queue_response: nothing of it may reach the wire, the handler fails the connection
            if pos != len(wire):
                return "bytes on the wire after a refused MHD_queue_response"
            if not closed:
                return "handler returned MHD_NO but the connection stays open"
            return None
        icy = bool(code & ICY)
        c = code & ~ICY
        last = (c != 102) or k == len(specs) - 1
        aborted = not rs.complete
        if aborted and getattr(rs, "eos_early", False):
            try:    # with chunked coding an end-of-stream before the announced size is a regular end
                r0 = parse_reply(wire, pos, req_head, x["ver"], closed)
                if r0["framing"] == "chunked":
                    aborted = False
            except Malformed:
                pass
        try:
            r = parse_reply(wire, pos, req_head, x["ver"], closed)
        except Malformed as ex:
            if aborted and closed:
                # the application ended the body irregularly: the reply is cut short on purpose; the head must still parse
                try:
                    r = parse_reply(wire, pos, True, x["ver"], closed)
                except Malformed as ex2:
                    return "reply %d: %s" % (k, ex2)
                return check_reply_fields(r, rs, req_head, x["ver"], c, icy, None)
            return "reply %d: %s" % (k, ex)
        nobody = c < 200 or c == 204 or req_head or c == 304
        if aborted and not nobody:
            if not closed:
                return "application aborted the body but the connection stays open"
        err = check_reply_fields(r, rs, req_head, x["ver"], c, icy, (closed if last and not aborted else None))
        if err:
            return "reply %d: %s" % (k, err)
        if nobody:
            if r["body"]:
                return "reply %d: body bytes sent for a reply that must not have a body" % k
        elif not rs.upgrade:
            if not aborted and r["body"] != rs.body:
                return "reply %d: body on the wire (%d bytes, %s) differs from what the application supplied (%d bytes)" % (
                    k, len(r["body"]), r["framing"], len(rs.body))
            if r["framing"] == "chunked":
                want_tr = [(n, v.strip(b" \t")) for kk, n, v in rs.user if kk == "F"]
                if r["trailers"] != want_tr:
                    return "reply %d: trailers %r differ from the added footers %r" % (k, r["trailers"][:4], want_tr[:4])
        pos = r["end"]
        if c != 102:
            break
    if pos != len(wire):
        return "%d unexpected bytes after the complete reply" % (len(wire) - pos)
    return None


# ------------------------------------------------------------------ generators

class Case:
    """a self-contained group of script lines + how to judge the harness output"""
    __slots__ = ("lines", "kind", "meta")

    def __init__(self, kind, lines, meta=None):
        self.kind, self.lines, self.meta = kind, lines, meta


def gen_decisions(tier):
    cases = []
    for m in MTHDS:
        cases.append(Case("rb", ["rb %d" % m], m))
    for ka, upg, rc, dr, ver, ct in itertools.product((-1, 0, 1, 2), (0, 1), (0, 1), (0, 1), VERS, range(4)):
        cases.append(Case("kp", ["kp %d %d %d %d %d %d" % (ka, upg, rc, dr, ver, ct)], (ka, upg, rc, dr, ver, ct)))
    codes = (100, 199, 200, 204, 304, 999) if tier == "quick" else (100, 101, 102, 199, 200, 203, 204, 205, 303, 304, 305, 599, 999)
    mth = (1, 2) if tier == "quick" else (0, 1, 2, 3, 6, 1000)
    for ka, upg, rc, dr, ver, ct, m, size, code in itertools.product((-1, 0, 1, 2), (0, 1), (0, 1), (0, 1), VERS, range(4),
                                                                      mth, "0nu", codes):
        cases.append(Case("sp", ["sp %d %d %d %d %d %d %d %s %d" % (ka, upg, rc, dr, ver, ct, m, size, code)],
                          (ka, upg, rc, dr, ver, ct, m, size, code)))
    exps = [None, b"", b"100-continue", b"100-Continue", b"100-CONTINUE", b"100-continue ", b" 100-continue",
            b"100-continu", b"100-continuee", b"200-ok", b"100-continue, x"]
    for ver, rem, e in itertools.product(VERS, (0, 1, 5, SIZE_UNKNOWN), exps):
        cases.append(Case("n100", ["n100 %d %d %s" % (ver, rem, "none" if e is None else hx(e))], (ver, rem, e)))
    return cases


def judge_decision(c, out):
    """independent re-statement of what the decision functions must answer (RFC 7230 §3.3, §6)"""
    if c.kind == "rb":
        if len(out) != 900:
            return "bad output length"
        for i, ch in enumerate(out):
            code = 100 + i
            want = "0" if (code < 200 or code == 204) else ("1" if (c.meta == 2 or code == 304) else "2")
            if ch != want:
                return "is_reply_body_needed(method %d, %d) = %s, expected %s" % (c.meta, code, ch, want)
        return None
    if c.kind == "n100":
        ver, rem, e = c.meta
        want = ver in (3, 4) and rem != 0 and e is not None and e.lower() == b"100-continue"
        if out != ("1" if want else "0"):
            return "need_100_continue(ver %d, remaining %d, Expect %r) = %s" % (ver, rem, e, out)
        return None
    if c.kind == "kp":
        ka, upg, rc, dr, ver, ct = c.meta
        if len(out) != 1024:
            return "bad output length"
        for i, ch in enumerate(out):
            fl, fa = i // 32, i % 32
            res = int(ch) - 1
            if upg:
                want = 2        # an upgrade response always hands the connection over
            elif ka == -1:
                want = -1
            elif rc or dr or (fl & 1) or (fa & 2) or ver not in (2, 3, 4) or (ct & 1):
                want = -1
            elif ver == 2 or (fl & 2):
                want = 1 if ct & 2 else -1
            else:
                want = 1
            if res != want:
                return "keepalive_possible(ka=%d upg=%d rc=%d dr=%d ver=%d conn-tokens=%d flags=%d flags_auto=%d) = %d, expected %d" % (
                    ka, upg, rc, dr, ver, ct, fl, fa, res, want)
        return None
    if c.kind == "sp":
        ka, upg, rc, dr, ver, ct, m, size, code = c.meta
        if len(out) != 1024:
            return "bad output length"
        for i, ch in enumerate(out):
            fl, fa = i // 32, i % 32
            v = B32.index(ch)
            k, send, hdrs, chunked = v // 8 - 1, bool(v & 4), bool(v & 2), bool(v & 1)
            w_hdrs = not (code < 200 or code == 204)
            w_send = w_hdrs and m != 2 and code != 304
            w_chunked = w_hdrs and (size == "u" or bool(fa & 4)) and ver in (3, 4) and not (fl & 3)
            if (send, hdrs, chunked) != (w_send, w_hdrs, w_chunked):
                return "setup_reply_properties%r flags=%d fa=%d: send/hdrs/chunked = %r, expected %r" % (
                    c.meta, fl, fa, (send, hdrs, chunked), (w_send, w_hdrs, w_chunked))
            if w_hdrs and size == "u" and not chunked and k != -1:
                return "setup_reply_properties%r flags=%d fa=%d: close-delimited body without MUST_CLOSE" % (c.meta, fl, fa)
        return None
    return None


NAMES = {"C": b"Connection", "c": b"connection", "T": b"Transfer-Encoding", "t": b"transfer-encoding",
         "D": b"Date", "d": b"DATE", "L": b"Content-Length", "l": b"content-length", "X": b"X-A", "Y": b"X-B"}


def seq_alphabet(tier):
    a = [("add", b"Connection", b"close"), ("add", b"connection", b"Keep-Alive"), ("add", b"CONNECTION", b"upgrade, foo"),
         ("add", b"Connection", b"bar ,CLOSE"), ("add", b"Transfer-Encoding", b"chunked"), ("add", b"transfer-encoding", b"Chunked"),
         ("add", b"Transfer-Encoding", b"gzip"), ("add", b"Date", b"x"), ("add", b"date", b"y\rz"),
         ("add", b"Content-Length", b"5"), ("add", b"X-A", b"v"),
         ("del", b"Connection", b"close"), ("del", b"connection", b"foo,upgrade"), ("del", b"Transfer-Encoding", b"chunked"),
         ("del", b"Date", b"x"), ("del", b"Content-Length", b"5"), ("del", b"X-A", b"v"),
         ("foot", b"Transfer-Encoding", b"chunked"), ("foot", b"Date", b"x"), ("foot", b"X-T", b"t"),
         ("opt", 16, None), ("opt", 0, None)]
    return a


def call_line(slot, call):
    if call[0] == "opt":
        return "opt %d %d" % (slot, call[1])
    return "%s %d %s %s" % (call[0], slot, hx(call[1]), hx(call[2]))


def new_line(slot, kind):
    """kind: ('buf', n) | ('cb', total|'u', [lens], 'eos'|'err') | ('empty', flags) | ('upg',)"""
    if kind[0] == "buf":
        return "new %d buf %d" % (slot, kind[1])
    if kind[0] == "cb":
        return "new %d cb %s %s %s" % (slot, kind[1], ",".join(map(str, kind[2])) or "-", kind[3])
    if kind[0] == "empty":
        return "new %d empty %d" % (slot, kind[1])
    if kind[0] == "iov":
        return "new %d iov %s" % (slot, iov_spec(kind[1]))
    if kind[0] == "bufnull":
        return "new %d bufnull %d" % (slot, kind[1])
    if kind[0] == "fd":
        return "new %d fd %d %d %d" % (slot, kind[1], kind[2], kind[3])
    if kind[0] == "pipe":
        return "new %d pipe %d" % (slot, kind[1])
    return "new %d upg" % slot


def iov_spec(elems):
    """elems: None (NULL array, count 0) | ('N', cnt) | list of 'z' | 'd' | ('n', len) | (off, len)"""
    if isinstance(elems, tuple) and elems[0] == "N":
        return "N%d" % elems[1]
    if not elems:
        return "-"
    return ",".join(e if isinstance(e, str) else ("n%d" % e[1] if e[0] == "n" else "%d:%d" % e) for e in elems)


def resp_state(kind):
    if kind[0] == "buf":
        return RespState("buf", total=kind[1], body=pat_range(0, kind[1]))
    if kind[0] == "cb":
        total = SIZE_UNKNOWN if kind[1] == "u" else kind[1]
        body, pos = b"", 0
        for n in kind[2]:
            if pos == total:
                break
            n = min(n, total - pos)
            body += pat_range(pos, n)
            pos += n
        complete = (pos == total) or (total == SIZE_UNKNOWN and kind[3] == "eos")
        rs = RespState("cb", total=total, body=body, complete=complete)
        rs.eos_early = (pos != total and kind[3] == "eos")   # a regular end for a chunked reply
        return rs
    if kind[0] == "empty":
        return RespState("empty", total=0, flags=kind[1])
    if kind[0] == "iov":
        # documented: zero-length elements are skipped (whatever their base); a non-empty element needs a buffer;
        # the body is the concatenation of the elements in order.  None = the constructor must refuse.
        el = kind[1]
        if isinstance(el, tuple) and el[0] == "N":
            return None if el[1] > 0 else RespState("iov", total=0, body=b"")
        body = b""
        for e in el:
            if isinstance(e, str):
                continue
            if e[0] == "n":
                if e[1] > 0:
                    return None
                continue
            body += pat_range(e[0], e[1])
        return RespState("iov", total=len(body), body=body)
    if kind[0] == "bufnull":
        return None if kind[1] > 0 else RespState("buf", total=0, body=b"")
    if kind[0] == "fd":
        size, off, fsize = kind[1:]
        if size >= 1 << 63 or off >= 1 << 63 or size + off >= 1 << 63:
            return None
        return RespState("fd", total=size, body=pat_range(off, size))
    if kind[0] == "pipe":
        return RespState("pipe", total=SIZE_UNKNOWN, body=pat_range(0, kind[1]))
    return RespState("upg", total=0)


HDR_PROBES = [  # (ka, rc, dr, ver, ct, mthd, code, icy, sup, nodate)
    (0, 0, 0, 3, 0, 1, 200, 0, 0, 0), (0, 0, 0, 2, 2, 2, 200, 0, 0, 0), (0, 0, 0, 3, 0, 1, 204, 0, 0, 0)]


def gen_sequences(tier, rng):
    alpha = seq_alphabet(tier)
    maxlen = 4 if tier == "thorough" else 3
    kinds = [("buf", 5), ("empty", 16), ("upg",), ("cb", "u", [3], "eos")]
    cases = []
    for L in range(1, maxlen + 1):
        ks = kinds if L <= 3 else kinds[:2]
        for combo in itertools.product(alpha, repeat=L):
            for kind in ks:
                lines = [new_line(0, kind)] + [call_line(0, c) for c in combo]
                probes = HDR_PROBES if L <= 2 else HDR_PROBES[:1]
                if kind[0] == "upg" and L <= 2:
                    # the 101 reply on a connection that is already MUST_CLOSE (request with ambiguous framing)
                    probes = probes + [(-1, 0, 0, 3, 0, 1, 101, 0, 0, 0), (-1, 0, 1, 3, 1, 1, 101, 0, 0, 0)]
                for p in probes:
                    lines.append("hdr 0 %d %d %d %d %d %d %d %d %d %d 4096" % p)
                lines.append("foot? 0 4096")
                cases.append(Case("seq", lines, (kind, combo, probes)))
    return cases


def judge_seq(c, out):
    kind, combo, probes = c.meta
    rs = resp_state(kind)
    if out[0] != "ok":
        return "new failed: " + out[0]
    for j, call in enumerate(combo):
        e = rs.step(call, out[1 + j])
        if e:
            return "after %r: %s" % (call, e)
    base = 1 + len(combo)
    for j, p in enumerate(probes):
        o = out[base + j]
        m = re.match(r"^ka=(-?\d+) p=(\S) (?:out=(\S+)|NO)$", o)
        if not m or m.group(3) is None:
            return "hdr probe failed: " + o[:60]
        ka, rc, dr, ver, ct, mthd, code, icy, sup, nodate = p
        e = check_header_block(m.group(3), rs, mthd == 2, {2: 10, 3: 11, 4: 12}[ver], code, int(m.group(1)), m.group(2))
        if e:
            return "hdr probe %r: %s" % (p, e)
    return None


def gen_hdr_sizes(tier, rng):
    """build_header_response / footer against every buffer size around the needed one"""
    cases = []
    variants = [(("buf", 5), []), (("buf", 5), [("add", b"Connection", b"foo"), ("add", b"X-A", b"v")]),
                (("cb", "u", [3], "eos"), [("foot", b"X-T", b"t")]), (("empty", 16), [("add", b"Content-Length", b"5")]),
                (("cb", 12345678901, [], "eos"), [("add", b"Date", b"x")]),
                (("cb", 18446744073709551614, [], "eos"), [("add", b"Transfer-Encoding", b"chunked")])]
    for kind, calls in variants:
        lines = [new_line(0, kind)] + [call_line(0, c) for c in calls]
        for p in [(0, 0, 0, 3, 0, 1, 200, 0, 0, 0), (0, 0, 1, 2, 2, 1, 404, 1, 0, 0), (0, 0, 0, 3, 0, 1, 200, 0, 1, 0),
                  (0, 0, 0, 3, 0, 1, 200, 0, 0, 1)]:
            for bs in range(0, 200):
                lines.append(("hdr 0 %d %d %d %d %d %d %d %d %d %d " % p) + str(bs))
        for bs in range(0, 40):
            lines.append("foot? 0 %d" % bs)
        cases.append(Case("raw", lines, None))
    lines = []
    for wb in (128, 129, 137, 138, 139, 200, 1000, 4105, 4106, 4107, 65546, 70000):
        for total, pos, dlen in ((1000, 0, 1000), (1000, 990, 1000), ("u", 0, 500), (5, 0, 5), (300, 150, 300), (17, 16, 17),
                                 (70000, 0, 70000), (70000, 4464, 70000), ("u", 100, 66000)):
            lines.append("crb %d %s %d %d" % (wb, total, pos, dlen))
    if tier == "thorough":   # the 0xFFFFFF chunk limit (16 MiB chunks: slow, so only here)
        for wb in ((1 << 24) + 9, (1 << 24) + 10):
            lines.append("crb %d %d 0 %d" % (wb, 1 << 25, 1 << 25))
    cases.append(Case("raw", lines, None))
    return cases


def gen_strfuncs(tier, rng):
    """the three token helpers of mhd_str.c that the response code relies on (model copy in ReplyStr.lean):
    bounded-exhaustive strings over a separator-heavy alphabet"""
    lines = []
    alpha = [b"a", b"B", b",", b" ", b"\t"]
    L = 6 if tier == "thorough" else 5
    for n in range(0, L + 1):
        for combo in itertools.product(alpha, repeat=n):
            sv = b"".join(combo)
            for tok in (b"a", b"ab", b"Ba"):
                lines.append("rt %s %s" % (hx(sv), hx(tok)))
                if sv:
                    lines.append("ht %s %s" % (hx(sv), hx(tok)))
    # in-place removal: normalised strings (as the response code stores them) x arbitrary token arguments
    toks = [b"a", b"ab", b"B", b"a b", b"close", b"x"]
    norms = []
    for k in range(1, 4):
        for combo in itertools.product(toks, repeat=k):
            norms.append(b", ".join(combo))
    args = []
    for n in range(0, 5 if tier == "thorough" else 4):
        for combo in itertools.product([b"a", b"b", b",", b" ", b"B"], repeat=n):
            args.append(b"".join(combo))
    args += [b"close", b"Close , x", b"a b", b"a  b", b"x,close", b"ab,a", b"\tab\t,\ta"]
    for nv in norms:
        for av in args:
            lines.append("rts %s %s" % (hx(nv), hx(av)))
    for sv in (b"close", b"foo, close", b"Close ,keep-alive", b"keep-alive", b"close   x", b"clo se", b"a,,b", b" a , b ",
               b"clo,close", b"upgrade", b"Upgrade, foo", b"x upgrade", b"upgradex, upgrade"):
        for tok in (b"close", b"keep-alive", b"upgrade"):
            lines.append("rt %s %s" % (hx(sv), hx(tok)))
            lines.append("ht %s %s" % (hx(sv), hx(tok)))
    return [Case("raw", lines[i:i + 5000], None) for i in range(0, len(lines), 5000)]


QR_CODES = (0, 99, 100, 101, 102, 199, 200, 204, 299, 304, 999, 1000, ICY | 200, ICY | 99, ICY | 101, (1 << 32) - 1)


def gen_queue(tier, rng):
    cases = []
    kinds = [(("buf", 5), []), (("cb", "u", [], "eos"), []), (("upg",), []),
             (("upg",), [("del", b"Connection", b"Upgrade")]), (("upg",), [("add", b"Connection", b"foo"), ("del", b"Connection", b"upgrade")]),
             (("upg",), [("add", b"X-A", b"v")])]
    fls = (0, 1, 2, 3, 8, 16, 17, 18, 4, 20) if tier == "quick" else range(32)
    for f in fls:
        kinds.append((("empty", f), []))
    for kind, calls in kinds:
        lines = [new_line(0, kind)] + [call_line(0, c) for c in calls]
        for st, hr, sh in (("fr", 0, 0), ("hp", 0, 0), ("ot", 0, 0), ("fr", 1, 0), ("fr", 0, 1)):
            for al, ver, m, code in itertools.product((0, 1), VERS, MTHDS, QR_CODES):
                if (st, hr, sh) != ("fr", 0, 0) and (ver not in (2, 3) or m not in (1, 2) or code not in (101, 200)):
                    continue
                lines.append("qr 0 %s %d %d %d %d %d %d" % (st, hr, sh, al, ver, m, code))
        cases.append(Case("raw", lines, None))
    return cases


XCONN = [None, b"close", b"Keep-Alive", b"keep-alive, close", b"foo", b"Close", b"upgrade"]
XCALLS = [[], [("add", b"X-A", b"v")], [("add", b"Connection", b"close")], [("add", b"Connection", b"foo")],
          [("add", b"Transfer-Encoding", b"chunked")], [("add", b"Date", b"Mon, 01 Jan 2001 00:00:00 GMT")],
          [("add", b"X-A", b"v"), ("add", b"X-B", b"w  w"), ("add", b"X-A", b"v")],
          [("foot", b"X-T", b"t"), ("add", b"X-A", b"v"), ("foot", b"X-U", b"u")],
          [("add", b"Transfer-Encoding", b"chunked"), ("add", b"Connection", b"foo")],
          [("add", b"Date", b"d"), ("add", b"Connection", b"Keep-Alive, bar")],
          [("add", b"Connection", b"close, foo"), ("del", b"Connection", b"close")],
          [("foot", b"Transfer-Encoding", b"chunked"), ("add", b"Transfer-Encoding", b"chunked"), ("del", b"Transfer-Encoding", b"chunked")]]
XKINDS = [("buf", 0), ("buf", 5), ("buf", 300), ("cb", 7, [3, 4], "eos"), ("cb", 9, [9], "eos"), ("cb", "u", [3, 4], "eos"),
          ("cb", "u", [], "eos"), ("cb", "u", [200, 1, 30], "eos"), ("empty", 0), ("empty", 16), ("cb", 0, [], "eos")]
XCODES = [200, 200, 200, 404, 204, 304, 100, 199, 201, 500, 999, 205]


def gen_degenerate_kinds(tier):
    """every constructor with degenerate-but-legal (and a few illegal) inputs"""
    A, B, C = (0, 5), (3, 4), (20, 1)            # A and B share memory
    alpha = ["z", "d", A, B, C]
    kinds = [("iov", []), ("iov", ("N", 0)), ("iov", ("N", 2)), ("iov", [("n", 3)]), ("iov", [A, ("n", 1)]), ("iov", [("n", 0), A]),
             ("iov", ["z"] * 10 + [C] + ["d"] * 10), ("iov", [(0, 300), "z", (100, 300)]), ("iov", [(i, 1) for i in range(40)])]
    for L in range(1, 5 if tier == "thorough" else 4):
        for combo in itertools.product(alpha, repeat=L):
            kinds.append(("iov", list(combo)))
    kinds += [("bufnull", 0), ("bufnull", 5), ("buf", 0), ("cb", 0, [], "eos"), ("cb", 0, [3], "eos"), ("cb", 0, [], "err"),
              ("pipe", 0), ("pipe", 1), ("pipe", 300),
              ("fd", 0, 0, 0), ("fd", 0, 0, 10), ("fd", 0, 7, 10), ("fd", 5, 0, 5), ("fd", 5, 5, 10), ("fd", 3, 7, 10), ("fd", 10, 0, 10),
              ("fd", 300, 4000, 5000), ("fd", 1 << 63, 0, 0), ("fd", 0, 1 << 63, 0), ("fd", (1 << 62), (1 << 62), 0), ("fd", (1 << 64) - 1, 0, 0)]
    return kinds


def make_x(mthd, ver, conn, expect, up, early, resp_specs):
    """resp_specs: [(kind, flags|None, calls, code)]"""
    lines, specs = [], []
    for slot, (kind, flags, calls, code) in enumerate(resp_specs):
        lines.append(new_line(slot, kind))
        if flags is not None:
            lines.append("opt %d %d" % (slot, flags))
        lines += [call_line(slot, c) for c in calls]
        specs.append("%d:%d" % (slot, code))
    lines.append("x %s %d %s %s %d %d %s" % (mthd, ver, "none" if conn is None else hx(conn),
                                              "none" if expect is None else hx(expect), up, early, ",".join(specs)))
    return Case("x", lines, {"mthd": mthd, "ver": ver, "conn": conn, "expect": expect, "up": up, "early": early,
                             "resp": resp_specs})


def gen_exchanges(tier, rng):
    cases = []
    # every status code once
    for code in range(100, 1000):
        if code == 101:
            continue
        rs = [(("buf", 5), None, [], code)]
        if code == 102:
            rs.append((("buf", 3), None, [], 200))
        cases.append(make_x("GET", 11, None, None, 0, 0, rs))
    # systematic small grid
    for mthd, ver, conn, kind in itertools.product(("GET", "HEAD"), (10, 11), XCONN[:4], XKINDS):
        for flags in (None, 1, 2, 8):
            if kind[0] == "empty" and flags is not None:
                continue
            cases.append(make_x(mthd, ver, conn, None, 0, 0, [(kind, flags, [], 200)]))
    for calls, kind, ver, mthd in itertools.product(XCALLS, XKINDS[:6], (10, 11), ("GET", "HEAD")):
        cases.append(make_x(mthd, ver, None, None, 0, 0, [(kind, None, calls, 200)]))
    # every constructor with degenerate inputs: the body on the wire must be what the application supplied
    for kind in gen_degenerate_kinds(tier):
        cases.append(make_x("GET", 11, None, None, 0, 0, [(kind, None, [], 200)]))
        if kind[0] != "iov" or len(kind[1]) <= 2:
            cases.append(make_x("HEAD", 11, None, None, 0, 0, [(kind, None, [], 200)]))
            cases.append(make_x("GET", 10, None, None, 0, 0, [(kind, None, [], 200)]))
            cases.append(make_x("GET", 11, None, None, 0, 0, [(kind, None, [("add", b"Transfer-Encoding", b"chunked")], 200)]))
    # 102 Processing followed by the final reply
    for k1, k2, mthd in itertools.product([("buf", 0), ("empty", 0), ("buf", 4), ("buf", 5), ("buf", 9)],
                                          [("buf", 5), ("cb", "u", [2, 3], "eos"), ("buf", 0)], ("GET", "HEAD")):
        cases.append(make_x(mthd, 11, None, None, 0, 0, [(k1, None, [], 102), (k2, None, [], 200)]))
    # upgrade
    for conn, early in itertools.product((None, b"Upgrade", b"close"), (0, 1)):
        cases.append(make_x("GET", 11, conn, None, 0, early, [(("upg",), None, [("add", b"Upgrade", b"foo")], 101)]))
    # random
    n = (12000 if tier == "thorough" else 1500)
    for _ in range(n):
        mthd = rng.choice(["GET", "GET", "GET", "HEAD", "POST", "PUT", "DELETE", "OPTIONS", "FOO"])
        ver = rng.choice([10, 11, 11, 11, 12])
        conn = rng.choice(XCONN)
        up = rng.choice([0, 0, 0, 7]) if mthd in ("POST", "PUT", "FOO") else 0
        expect = rng.choice([None, None, b"100-continue", b"100-Continue", b"200-ok"]) if up else rng.choice([None, None, None, b"100-continue"])
        early = rng.choice([0, 0, 0, 1])
        kind = rng.choice(XKINDS)
        if rng.random() < 0.15:
            kind = ("cb", rng.choice([5, 12, "u"]), [rng.randint(1, 6) for _ in range(rng.randint(0, 4))], rng.choice(["eos", "eos", "err"]))
        flags = rng.choice([None, None, None, 0, 1, 2, 3, 8, 9, 10])
        if kind[0] == "empty":
            flags = None
        calls = list(rng.choice(XCALLS))
        if rng.random() < 0.3:
            calls = calls + [rng.choice(seq_alphabet(tier)[:20])]
        code = rng.choice(XCODES)
        if rng.random() < 0.05:
            code |= ICY
        cases.append(make_x(mthd, ver, conn, expect, up, early, [(kind, flags, calls, code)]))
    return cases


def judge_x(c, out):
    x = c.meta
    specs = []
    k = 0
    first = None
    for kind, flags, calls, code in x["resp"]:
        rs = resp_state(kind)
        if rs is None:
            if out[k] != "null":
                return "constructor accepted an input it must refuse: " + out[k]
            return None
        if out[k] == "null":
            return "constructor refused a legal input (%s)" % (kind[0],)
        if out[k] != "ok":
            return "new failed: " + out[k]
        k += 1
        for call in ([("opt", flags, None)] if flags is not None else []) + list(calls):
            e = rs.step(call, out[k])
            if e and e.startswith("flags_auto"):
                first = first or "after %r: %s" % (call, e)   # keep going: the wire image is the stronger witness
            elif e:
                return "after %r: %s" % (call, e)
            k += 1
        specs.append((rs, code))
    xx = dict(x)
    xx["specs"] = specs
    e = check_exchange(xx, out[k])
    if e and first:
        return e + "  [response object: " + first + "]"
    return e or first



# ------------------------------------------------------------------ error replies generated by the daemon itself

ERR_MSGS = [b"", b"<html>bad</html>", b"x" * 300]
ERR_CODES = (400, 413, 414, 431, 501, 505, 500, 301, 200, 204, 304, 100, 101, 99, 1000, 999, ICY | 400)
ERR_HDRS = [None, (b"Location", b"/a%20b"), (b"Location", b"/" + b"y" * 200), (b"X-E", b"v  w")]


def gen_errors(tier, rng):
    """transmit_error_response_len white box: (stop_with_error, too late, shutdown) x keepalive x read_closed x version x
    request Connection tokens x method x date options x status x message x extra header x buffer situation"""
    cases = []
    wbs = [(4096, 4096), (16, 4096), (2048, 4096), (16, 16)]
    grid = itertools.product((0, 1), (0, 1), (0, 1), (-1, 0, 1), (0, 1), (1, 2, 3, 4, 100), (0, 2), (1, 2, 3, 6),
                             ((0, 0), (1, 0), (0, 1)), ERR_CODES, range(len(ERR_MSGS)), range(len(ERR_HDRS)), range(len(wbs)))
    allp = list(grid)
    if tier == "quick":
        # the three early exits only on a sub-grid, the rest sampled
        main = [g for g in allp if (g[0], g[1], g[2]) == (0, 0, 0)]
        early = [g for g in allp if (g[0], g[1], g[2]) != (0, 0, 0)]
        allp = rng.sample(main, 6000) + rng.sample(early, 300)
    else:
        main = [g for g in allp if (g[0], g[1], g[2]) == (0, 0, 0)]
        early = [g for g in allp if (g[0], g[1], g[2]) != (0, 0, 0)]
        allp = rng.sample(main, 40000) + rng.sample(early, 2000)
    for swe, late, shut, ka, rc, ver, ct, m, (sup, nodate), code, mi, hi, wi in allp:
        msg, hdr, (wb1, wb2) = ERR_MSGS[mi], ERR_HDRS[hi], wbs[wi]
        line = "terr %d %d %d %d %d %d %d %d %d %d %d %s %s %s %d %d" % (
            swe, late, shut, ka, rc, ver, ct, m, sup, nodate, code, hx(msg),
            "none" if hdr is None else hx(hdr[0]), "-" if hdr is None else hx(hdr[1]), wb1, wb2)
        cases.append(Case("terr", [line], (swe, late, shut, ka, rc, ver, ct, m, sup, nodate, code, msg, hdr, wb1, wb2)))
    return cases


def judge_terr(c, out):
    """independent statement: an error reply, if any, is a well-formed head that announces close, frames the static
    message by Content-Length and leaves the connection in MUST_CLOSE with discard_request; silence only where the
    daemon cannot reply at all"""
    swe, late, shut, ka, rc, ver, ct, m, sup, nodate, code, msg, hdr, wb1, wb2 = c.meta
    icy = bool(code & ICY)
    cc = code & ~ICY
    if out == "closed":
        cannot = (swe or late or shut or wb2 < 100 or cc < 100 or cc > 999 or cc == 101 or (cc < 200 and ver == 2)
                  or (m == 6 and cc // 100 == 2))
        return None if cannot else "error reply %d suppressed although nothing prevents it" % cc
    mm = re.match(r"^sent ka=(-?\d+) p=(\S) dr=([01]) swe=([01]) pos=(\d+) total=(\d+) hdr=(\S+)$", out)
    if not mm:
        return "unexpected output " + out[:80]
    if swe or late or shut:
        return "error reply sent although the connection is beyond replying"
    if int(mm.group(1)) != -1 or mm.group(3) != "1" or mm.group(4) != "1":
        return "after an error reply: keepalive=%s discard_request=%s stop_with_error=%s" % (mm.group(1), mm.group(3), mm.group(4))
    if int(mm.group(6)) != len(msg):
        return "response size %s for a message of %d bytes" % (mm.group(6), len(msg))
    head = m == 2
    nobody = cc < 200 or cc == 204 or cc == 304 or head
    if int(mm.group(5)) != (len(msg) if nobody else 0):
        return "rsp_write_position %s" % mm.group(5)
    buf = unhx(mm.group(7))
    try:
        r = parse_reply(buf, 0, True, {2: 10, 3: 11, 4: 12}.get(ver, 11), True)
    except Malformed as ex:
        return "error reply head malformed: %s" % ex
    if r["end"] != len(buf):
        return "bytes after the header block"
    if r["code"] != cc:
        return "status %d sent for error %d" % (r["code"], cc)
    if r["version"] != (b"ICY" if icy else b"HTTP/1.1"):
        return "version %r" % r["version"]
    if not r["close"]:
        return "error reply without 'Connection: close'"
    low = [(n.lower(), v) for n, v in r["fields"]]
    cl = [v for n, v in low if n == b"content-length"]
    te = [v for n, v in low if n == b"transfer-encoding"]
    if te:
        return "chunked error reply"
    if cc >= 200 and cc != 204:
        if cl != [str(len(msg)).encode()]:
            return "Content-Length %r for a message of %d bytes" % (cl, len(msg))
    elif cl:
        return "Content-Length in a %d reply" % cc
    want = [] if hdr is None else [(hdr[0], hdr[1].strip(b" \t"))]
    got = [(n, v) for n, v in r["fields"] if n.lower() not in MANAGED]
    if got != want:
        return "extra header %r, expected %r" % (got, want)
    dt = [v for n, v in low if n == b"date"]
    if bool(dt) != (not sup and not nodate):
        return "Date header presence %r (suppress=%d, clock failure=%d)" % (dt, sup, nodate)
    return None

# ------------------------------------------------------------------ runner / Spec

def _sig(s):
    s = re.sub(r"b'[^']*'|b\"[^\"]*\"", "S", s)
    s = re.sub(r"\d+", "N", s)
    return s[:160]


class Spec:
    props_module = "Mhd.Props.C04"
    lean_targets = ["Mhd.Props.C04", "drv_reply"]
    required_theorems = ["Mhd.C04.call_preserves_inv", "Mhd.C04.calls_preserve_inv", "Mhd.C04.reply_wellFramed",
                         "Mhd.C04.one_body_delimitation", "Mhd.C04.no_body_when_forbidden",
                         "Mhd.C04.user_headers_verbatim", "Mhd.C04.close_announced", "Mhd.C04.close_announced_iff",
                         "Mhd.C04.continue_only_when_asked", "Mhd.C04.error_reply_framed_and_closes",
                         "Mhd.C04.iovec_body_is_concatenation", "Mhd.C04.upgrade_reply_no_close"]
    trusted_base = ["Lean 4 kernel", "axioms: propext, Classical.choice, Quot.sound at most (audited per theorem)",
                    "hand-written model lean/Mhd/Model/{ReplyStr,Resp,Reply,ReplyWire}.lean tied to response.c / connection.c by this run's correspondence",
                    "the response grammar lean/Mhd/Proofs/ReplyGrammar.lean (WellFramed, parseReply) and its independent Python twin parse_reply in tools/props/C04.py",
                    "tools/props/C04.py gen_reply (flag bits, enum values, reason phrases, header names regenerated)",
                    "harness/h_reply.c, gcc, ASan/UBSan"]
    assumptions = ["no allocation failure inside the response API (C07 covers those)",
                   "response flags without MHD_RF_INSANITY_HEADER_CONTENT_LENGTH (Call.Legal: opt without the insanity bit)",
                   "Call.Legal: header / footer names given to the API contain no ':' (MHD itself rejects only TAB, SP, CR, LF and "
                   "the empty name), an application Content-Length value (possible on HEAD-only responses) is 1*DIGIT",
                   "SrcLegal: the content callback returns non-empty pieces no larger than the space offered, ends with "
                   "END_OF_STREAM and delivers exactly total_size bytes when the size is known; buffer responses have total_size bytes",
                   "the reply is sent completely (header block fits the write buffer of >= 128 bytes, no socket error): "
                   "otherwise the daemon aborts the connection, which C07 covers",
                   "a response object is not modified while it is queued; non-TLS connection; single reply per request except after 102"]

    def gen(self, ctx):
        gen_reply()

    def build(self, ctx):
        objs = vlib.cc_lib_objects("c04_objs", exclude=["connection.c"])
        self.harness = vlib.cc("h_reply", [os.path.join(vlib.VERIF, "harness/h_reply.c")], objs=objs,
                               libs=["-lgnutls", "-lpthread"])
        self.driver = vlib.driver_path("drv_reply")

    # run the cases of one batch through harness and driver; returns per-case (hout, mout)
    def run_cases(self, cases, failures, engine):
        import threading
        lines = [l for c in cases for l in c.lines]
        res = {}

        def model():
            res["m"] = vlib.run_lines(self.driver, lines, timeout=3000)
        th = threading.Thread(target=model)
        th.start()
        outs, start = [], 0
        crashes = 0
        while start < len(cases):
            sub = cases[start:]
            sl = [l for c in sub for l in c.lines]
            hout, hrc, herr = vlib.run_lines(self.harness, sl, timeout=3000,
                                             env={"ASAN_OPTIONS": "detect_leaks=1:abort_on_error=0:allocator_may_return_null=1"})
            k = 0
            done = 0
            for c in sub:
                if k + len(c.lines) <= len(hout):
                    outs.append(hout[k:k + len(c.lines)])
                    k += len(c.lines)
                    done += 1
                else:
                    break
            if hrc == 0 and done == len(sub):
                break
            if done == len(sub):
                # all lines answered but the process failed at exit (leak report etc.)
                failures.append(vlib.Failure("sanitizer", "reply: harness failed at exit (rc=%d): %s" % (hrc, _sig(herr[-300:])),
                                             herr[-2500:], sub[-1].lines, engine))
                break
            bad = sub[done]
            crash_line = len(hout) - k            # index (inside the case) of the line that was not answered
            bad_lines = bad.lines[:max(crash_line, 0) + 1]
            if bad.kind == "raw" and len(bad_lines) > 12:   # keep the object-building prefix and the crashing line
                pre = [l for l in bad_lines[:-1] if l.split()[0] in ("new", "add", "del", "foot", "opt")]
                bad_lines = pre + bad_lines[-1:]
            m = re.search(r"(ERROR: \w+Sanitizer: [\w-]+|runtime error: [^\n]{0,80}|SEGV[^\n]{0,40})", herr)
            failures.append(vlib.Failure("sanitizer", "reply: harness aborted in %s case: %s" % (bad.kind, _sig(m.group(1) if m else "rc=%d" % hrc)),
                                         herr[-2500:], bad_lines, engine))
            outs.append(None)
            start += done + 1
            crashes += 1
            if crashes > 8:
                outs += [None] * (len(cases) - len(outs))
                break
        th.join()
        mout, mrc, merr = res["m"]
        pairs, k = [], 0
        for c, ho in zip(cases, outs):
            pairs.append((c, ho, mout[k:k + len(c.lines)]))
            k += len(c.lines)
        return pairs

    def judge(self, pairs, failures, stats, engine):
        for c, ho, mo in pairs:
            stats["cases"] += 1
            if ho is None:
                continue
            e = None
            try:
                if c.kind in ("rb", "kp", "sp", "n100"):
                    e = judge_decision(c, ho[0])
                elif c.kind == "seq":
                    e = judge_seq(c, ho)
                elif c.kind == "x":
                    e = judge_x(c, ho)
                elif c.kind == "terr":
                    e = judge_terr(c, ho[0])
            except Exception as ex:   # the oracle could not follow: treat as its verdict
                e = "oracle cannot follow: %r" % (ex,)
            if e:
                failures.append(vlib.Failure("oracle", "reply/%s: %s" % (c.kind, _sig(e)), e, c.lines, engine))
                stats["oracle_rejects"] += 1
                continue
            if ho != mo:
                j = next((i for i in range(len(c.lines)) if i >= len(mo) or ho[i] != mo[i]), 0)
                kind = "model" if (j < len(mo) and mo[j] in ("crash", "fault")) else "diff"
                det = "line `%s`: code says `%s`, model says `%s`" % (c.lines[j][:200], ho[j][:600], (mo[j] if j < len(mo) else "")[:600])
                failures.append(vlib.Failure(kind, "reply/%s: model/code differ on %s" % (c.kind, c.lines[j].split()[0]), det,
                                             c.lines[:j + 1] if c.kind != "x" else c.lines, engine))
                stats["diffs"] += 1
                continue
            for o in ho:
                w = o.split(" ", 1)[0]
                stats["out_" + (w if w in ("ok", "N", "NO", "bad-op", "finished") else w.split("=")[0][:6])] = \
                    stats.get("out_" + (w if w in ("ok", "N", "NO", "bad-op", "finished") else w.split("=")[0][:6]), 0) + 1

    def explore(self, ctx, boost):
        failures = []
        stats = {"cases": 0, "oracle_rejects": 0, "diffs": 0}
        cov = {}
        # corpus first
        corpus = []
        cdir = os.path.join(vlib.VERIF, "corpus", "reply")
        if os.path.isdir(cdir):
            for f in sorted(os.listdir(cdir)):
                ls = [l for l in open(os.path.join(cdir, f)).read().splitlines() if l.strip() and not l.startswith("#")]
                corpus.append(Case("raw", ls, None))
        parts = [("corpus", corpus),
                 ("decisions", gen_decisions(ctx.tier)),
                 ("queue", gen_queue(ctx.tier, ctx.rng)),
                 ("hdr_sizes", gen_hdr_sizes(ctx.tier, ctx.rng)),
                 ("strfuncs", gen_strfuncs(ctx.tier, ctx.rng)),
                 ("error_replies", gen_errors(ctx.tier, ctx.rng)),
                 ("sequences", gen_sequences(ctx.tier, ctx.rng)),
                 ("exchanges", gen_exchanges(ctx.tier, ctx.rng) * 1)]
        if boost:
            parts.append(("exchanges_boost", gen_exchanges("thorough", ctx.rng)))
        sizes = {}
        xstats = {"framing": {}, "codes": set(), "closed": 0, "open": 0, "refused": 0}
        for name, cases in parts:
            if not cases:
                sizes[name] = 0
                continue
            B = 6000 if name in ("sequences",) else 20000
            n0 = len(failures)
            for i in range(0, len(cases), B):
                pairs = self.run_cases(cases[i:i + B], failures, "reply")
                self.judge(pairs, failures, stats, "reply")
                if name == "error_replies":
                    for c, ho, mo in pairs:
                        if ho is not None:
                            k = "sent" if ho[0].startswith("sent") else ho[0][:12]
                            xstats.setdefault("error_replies", {})
                            xstats["error_replies"][k] = xstats["error_replies"].get(k, 0) + 1
                            if k == "sent" and c.meta[12] is not None:
                                xstats["error_replies"]["sent_with_location_entry"] = xstats["error_replies"].get("sent_with_location_entry", 0) + 1
                            if k == "sent" and c.meta[13] < 100:
                                xstats["error_replies"]["sent_after_pool_reset_retry"] = xstats["error_replies"].get("sent_after_pool_reset_retry", 0) + 1
                if name.startswith("exchanges"):
                    for c, ho, mo in pairs:
                        if ho is None:
                            continue
                        m = re.match(r"^q=(\S*) wire=(\S+) closed=([01])$", ho[-1])
                        if m:
                            w = unhx(m.group(2))
                            xstats["closed" if m.group(3) == "1" else "open"] += 1
                            if "N" in m.group(1):
                                xstats["refused"] += 1
                            fr = "chunked" if b"\r\nTransfer-Encoding: chunked\r\n" in w or b"ransfer-encoding" in w.lower() and b"hunked" in w else \
                                 ("length" if b"ontent-Length: " in w else ("close" if b"Connection: close" in w else "none"))
                            xstats["framing"][fr] = xstats["framing"].get(fr, 0) + 1
                            mm = re.match(rb"^(?:HTTP/1\.1 100 Continue\r\n\r\n)?\S+ (\d{3}) ", w)
                            if mm:
                                xstats["codes"].add(int(mm.group(1)))
                # keep at most a few failures per signature, stop a part only when it is hopeless
                seen = {}
                kept = []
                for f in failures:
                    seen[f.signature] = seen.get(f.signature, 0) + 1
                    if seen[f.signature] <= 3:
                        kept.append(f)
                failures[:] = kept
                if len(seen) > 60:
                    break
            sizes[name] = len(cases)
            ctx.note("%s: %d cases, %d failures so far" % (name, len(cases), len(failures)))
        nlines = sum(sizes.values())
        dec = sizes.get("decisions", 0)
        evals = (dec - 10 - 308) * 1024 + 10 * 900 + 308 + sum(v for k, v in sizes.items() if k != "decisions")
        seqs = [c for c in dict(parts)["sequences"]]
        distinct = len({"\n".join(c.lines) for n, cs in parts for c in cs})
        alpha = seq_alphabet(ctx.tier)
        cov = {"evaluations": evals, "distinct_nontrivial": distinct,
               "rule": "distinct = different script cases (a case = one decision-grid line of 1024 flag combinations, one "
                       "response-object call sequence with its header-block probes, or one complete exchange); "
                       "evaluations counts every (input, flags, flags_auto) point of the decision grids individually",
               "exhaustive": True,
               "exhaustive_domains": {
                   "is_reply_body_needed": "10 methods x status 100..999 (complete)",
                   "keepalive_possible": "keepalive(4) x upgrade(2) x read_closed(2) x discard(2) x http_ver(7) x request Connection tokens(4) x response flags(32) x flags_auto(32) (complete)",
                   "setup_reply_properties": "the keepalive_possible domain x methods %s x size {0, n, unknown} x %d status codes covering every class of is_reply_body_needed" % (
                       "(GET, HEAD)" if ctx.tier == "quick" else "(6)", 6 if ctx.tier == "quick" else 13),
                   "need_100_continue": "http_ver(7) x remaining {0,1,5,unknown} x 11 Expect values",
                   "MHD_queue_response": "per response kind/flags: upgrade-allowed(2) x http_ver(7) x method(10) x 16 status codes incl. out-of-range and ICY; state/queued/shutdown on a sub-grid"},
               "bounded_exhaustive": {"response API call sequences": "all sequences of length <= %d over %d calls x 4 response kinds (2 kinds at length 4), each followed by build_header_response / footer probes" % (
                   4 if ctx.tier == "thorough" else 3, len(alpha)),
                   "build_header_response buffer sizes": "every buffer size 0..199 for 6 responses x 4 connection settings; footer sizes 0..39",
                   "mhd_str token helpers (remove_token, remove_tokens, has_token)": "all strings up to length %d over {a,B,comma,space,tab} x 3 tokens; all normalised values of <=3 tokens x all token arguments up to length %d" % (
                       6 if ctx.tier == "thorough" else 5, 4 if ctx.tier == "thorough" else 3)},
               "random": {"exchanges": sizes.get("exchanges", 0)},
               "case_counts": sizes,
               "exchange_distribution": {"framing": xstats["framing"], "status_codes_seen": len(xstats["codes"]),
                                         "closed": xstats["closed"], "kept_alive": xstats["open"], "queue_refused": xstats["refused"]},
               "error_reply_outcomes": xstats.get("error_replies", {}),
               "outcomes": {k: v for k, v in stats.items()},
               "samples": [dict(parts)["exchanges"][7].lines if len(dict(parts)["exchanges"]) > 7 else [],
                           seqs[len(seqs) // 2].lines if seqs else []]}
        return failures, cov


def case_from_lines(lines):
    """rebuild the judged form of a stored script (so that a replay also runs the oracle)"""
    def kind_of(w):
        if w[2] == "buf":
            return ("buf", int(w[3]))
        if w[2] == "cb":
            return ("cb", "u" if w[3] == "u" else int(w[3]), [] if w[4] == "-" else [int(x) for x in w[4].split(",")], w[5])
        if w[2] == "empty":
            return ("empty", int(w[3]))
        if w[2] == "iov":
            sp = w[3]
            if sp.startswith("N"):
                return ("iov", ("N", int(sp[1:])))
            if sp == "-":
                return ("iov", [])
            return ("iov", [e if e in ("z", "d") else (("n", int(e[1:])) if e.startswith("n") else tuple(int(x) for x in e.split(":")))
                            for e in sp.split(",")])
        if w[2] == "bufnull":
            return ("bufnull", int(w[3]))
        if w[2] == "fd":
            return ("fd", int(w[3]), int(w[4]), int(w[5]))
        if w[2] == "pipe":
            return ("pipe", int(w[3]))
        return ("upg",)

    def call_of(w):
        if w[0] == "opt":
            return ("opt", int(w[2]), None)
        return (w[0], unhx(w[2]), unhx(w[3]))
    ws = [l.split() for l in lines]
    if len(ws) == 1 and ws[0][0] in ("rb", "kp", "sp", "n100"):
        w = ws[0]
        if w[0] == "rb":
            return Case("rb", lines, int(w[1]))
        if w[0] == "kp":
            return Case("kp", lines, tuple(int(x) for x in w[1:]))
        if w[0] == "sp":
            return Case("sp", lines, tuple(int(x) for x in w[1:8]) + (w[8], int(w[9])))
        return Case("n100", lines, (int(w[1]), int(w[2]), None if w[3] == "none" else unhx(w[3])))
    if len(ws) == 1 and ws[0][0] == "terr" and len(ws[0]) == 17:
        w = ws[0]
        return Case("terr", lines, tuple(int(x) for x in w[1:12]) + (unhx(w[12]), None if w[13] == "none" else (unhx(w[13]), unhx(w[14])),
                                                                    int(w[15]), int(w[16])))
    if ws and ws[-1][0] == "x" and all(w[0] in ("new", "add", "del", "foot", "opt", "x") for w in ws) and \
            sum(1 for w in ws if w[0] == "x") == 1:
        slots = {}
        for w in ws[:-1]:
            sl = int(w[1])
            if w[0] == "new":
                slots[sl] = [kind_of(w), None, []]
            elif sl in slots:
                slots[sl][2].append(call_of(w))
        xw = ws[-1]
        specs = [(int(a), int(b)) for a, b in (p.split(":") for p in xw[7].split(","))]
        order = sorted(slots)
        if [sl for sl, _ in specs] == order:
            resp = [(slots[sl][0], None, slots[sl][2], code) for sl, code in specs]
            return Case("x", lines, {"mthd": xw[1], "ver": int(xw[2]), "conn": None if xw[3] == "none" else unhx(xw[3]),
                                     "expect": None if xw[4] == "none" else unhx(xw[4]), "up": int(xw[5]),
                                     "early": int(xw[6]), "resp": resp})
    if ws and ws[0][0] == "new" and all(w[0] in ("add", "del", "foot", "opt", "hdr", "foot?") for w in ws[1:]):
        calls = [call_of(w) for w in ws[1:] if w[0] in ("add", "del", "foot", "opt")]
        probes = [tuple(int(x) for x in w[2:12]) for w in ws[1:] if w[0] == "hdr" and w[12] == "4096"]
        n_tail = sum(1 for w in ws[1:] if w[0] in ("hdr", "foot?"))
        if len(probes) + sum(1 for w in ws if w[0] == "foot?") == n_tail and \
                all(w[0] in ("hdr", "foot?") for w in ws[1 + len(calls):]):
            return Case("seq", lines, (kind_of(ws[0]), calls, probes))
    return Case("raw", lines, None)


def replay(ctx, path):
    r = json.load(open(path))
    sp = Spec(); sp.gen(ctx); vlib.lake_build(sp.lean_targets); sp.build(ctx)
    lines = r.get("input") or []
    if not lines:
        print("this replay names a proof obligation / correspondence that no longer checks, not a script:")
        print(json.dumps(r.get("no_longer_checks"), indent=1)[:3000])
        return 1
    c = case_from_lines(lines)
    fl, st = [], {"cases": 0, "oracle_rejects": 0, "diffs": 0}
    pairs = sp.run_cases([c], fl, "reply")
    for cc, ho, mo in pairs:
        for i, l in enumerate(lines):
            h = ho[i] if ho is not None and i < len(ho) else "<no output: harness aborted>"
            m = mo[i] if i < len(mo) else "<none>"
            print("%s\n   code : %s\n   model: %s" % (l[:300], h[:1200], m[:1200]))
    sp.judge(pairs, fl, st, "reply")
    print("verdicts: sanitizer=%s oracle=%s model-vs-code=%s" % (
        "ABORT" if any(f.kind == "sanitizer" for f in fl) else "clean",
        "REJECT" if any(f.kind == "oracle" for f in fl) else ("accept" if c.kind != "raw" else "n/a (raw script)"),
        "DIFFER" if any(ho is not None and ho != mo for cc, ho, mo in pairs) else "agree"))
    for f in fl:
        print(f.kind, "|", f.signature, "|", f.detail[:800])
    return 1 if fl else 0
