"""C07 — socket and allocation failures never corrupt, duplicate or wedge.  Engine `send`.

Correspondence = fault enumeration as validation (DESIGN.md §3 C07):
for every scenario of the corpus a fault-free run counts the system calls of each kind the
server side makes and the library allocations; then the scenario is re-run once per single
fault point (k-th call of a kind x fault kind, k-th allocation returns NULL) and with random
multi-fault plans.  On every run
  * the independent oracle (this file, over the harness log only) re-states the property,
  * the Lean model driver is fed the answers the operating system really gave and must
    predict, call by call, the next system call (kind, requested length) and the write-side
    state (offsets, body position, iovec tracker) at that call, and the bytes delivered.
"""
import concurrent.futures, json, os, re, sys
import vlib, extract

ENGINE = "send"

# --------------------------------------------------------------------------- translator (A)

ERRNOS = ["EAGAIN", "EWOULDBLOCK", "EINTR", "ECONNRESET", "ECONNABORTED", "EPIPE", "EOPNOTSUPP", "ENOTCONN",
          "EINVAL", "ENOMEM", "ENOBUFS", "ENFILE", "EMFILE", "EBADF", "EIO", "ETIMEDOUT"]
ERR_CLASSES = [("isEagain", "MHD_SCKT_ERR_IS_EAGAIN_ (%s)"), ("isEintr", "MHD_SCKT_ERR_IS_EINTR_ (%s)"),
               ("isRemoteDiscnn", "MHD_SCKT_ERR_IS_REMOTE_DISCNN_ (%s)"),
               ("isEpipe", "MHD_SCKT_ERR_IS_ (%s, MHD_SCKT_EPIPE_)"),
               ("isEopnotsupp", "MHD_SCKT_ERR_IS_ (%s, MHD_SCKT_EOPNOTSUPP_)"),
               ("isEnotconn", "MHD_SCKT_ERR_IS_ (%s, MHD_SCKT_ENOTCONN_)"),
               ("isEinval", "MHD_SCKT_ERR_IS_ (%s, MHD_SCKT_EINVAL_)"),
               ("isLowRes", "MHD_SCKT_ERR_IS_LOW_RESOURCES_ (%s)"),
               ("isEbadf", "MHD_SCKT_ERR_IS_ (%s, MHD_SCKT_EBADF_)")]
MHD_ERRS = ["AGAIN", "CONNRESET", "NOTCONN", "NOMEM", "BADF", "INVAL", "OPNOTSUPP", "PIPE", "TLS"]
STATES = ["HEADERS_SENDING", "HEADERS_SENT", "NORMAL_BODY_UNREADY", "NORMAL_BODY_READY", "CHUNKED_BODY_UNREADY",
          "CHUNKED_BODY_READY", "CHUNKED_BODY_SENT", "FOOTERS_SENDING", "FULL_REPLY_SENT", "CLOSED", "START_REPLY"]


def gen_send():
    from extract import c_eval, src, prev_value, HEADER, GEN
    prel = ('#include "MHD_config.h"\n#include "internal.h"\n#include "mhd_sockets.h"\n#include "connection.h"\n'
            '#include "mhd_limits.h"\n#include "mhd_send.h"\n#include <errno.h>\n#include <unistd.h>\n#include <limits.h>\n')
    prints = [("ssizeMax", "%llu", "(unsigned long long) SSIZE_MAX"),
              ("sizeMax", "%llu", "(unsigned long long) SIZE_MAX"),
              ("sendMax", "%llu", "(unsigned long long) MHD_SCKT_SEND_MAX_SIZE_"),
              ("off64Max", "%llu", "(unsigned long long) OFF64_T_MAX"),
              ("sizeUnknown", "%llu", "(unsigned long long) MHD_SIZE_UNKNOWN"),
              ("iovMax", "%ld", "sysconf (_SC_IOV_MAX)"),
              ("haveSendmsg", "%d",
               "\n#if defined(MHD_VECT_SEND) && defined(HAVE_SENDMSG)\n1\n#else\n0\n#endif\n"),
              ("haveSendfile64", "%d",
               "\n#if defined(_MHD_HAVE_SENDFILE) && defined(HAVE_SENDFILE64) && defined(HAVE_LINUX_SENDFILE)\n1\n#else\n0\n#endif\n")]
    for e in MHD_ERRS:
        prints.append(("err" + e, "%d", "(int) MHD_ERR_%s_" % e))
    for s in STATES:
        prints.append(("st" + s, "%d", "(int) MHD_CONNECTION_" + s))
    prints.append(("termCompletedOk", "%d", "(int) MHD_REQUEST_TERMINATED_COMPLETED_OK"))
    prints.append(("termWithError", "%d", "(int) MHD_REQUEST_TERMINATED_WITH_ERROR"))
    for e in ERRNOS:
        prints.append(("no" + e, "%d", "(int) " + e))
        for cn, mac in ERR_CLASSES:
            prints.append((cn + e, "%d", "(" + mac % e + ") ? 1 : 0"))
    v = c_eval(prel, prints)
    # file-local macros / constants: syntactic route with fall-back to the committed value
    ms = src("src/microhttpd/mhd_send.c")
    cs = src("src/microhttpd/connection.c")

    def rx(text, pat, name, default):
        m = re.search(pat, text)
        if not m:
            return prev_value("Send.lean", name, default)
        return str(int(m.group(1), 0))
    chunk = rx(ms, r"#define\s+MHD_SENFILE_CHUNK_\s+\((0x[0-9a-fA-F]+|\d+)\)", "sendfileChunk", "131072")
    chunk_t = rx(ms, r"#define\s+MHD_SENFILE_CHUNK_THR_P_C_\s+\((0x[0-9a-fA-F]+|\d+)\)", "sendfileChunkThr", "2097152")
    body = cs[cs.find("try_ready_chunked_body (struct MHD_Connection"):]
    body = body[:body.find("\n}\n")]
    maxchunk = rx(body, r"max_chunk\s*=\s*(0x[0-9a-fA-F]+|\d+)\s*;", "maxChunk", "16777215")
    hdrdig = rx(body, r"char\s+chunk_hdr\[(\d+)\]", "chunkHdrDigits", "6")
    minbuf = rx(body, r"if\s*\(\s*(\d+)\s*>\s*connection->write_buffer_size\s*\)", "minChunkBuf", "128")
    pushthr = rx(ms, r"if\s*\(\s*(\d+)\s*>\s*\(header_size \+ body_size\)\)", "pushThreshold", "1400")
    L = [HEADER % "src/microhttpd/mhd_send.c, connection.c, connection.h, mhd_sockets.h, internal.h",
         "namespace Mhd.Gen.Send"]
    for k in ("ssizeMax", "sizeMax", "sendMax", "off64Max", "sizeUnknown"):
        L.append("def %s : Nat := %s" % (k, v[k]))
    L.append("def iovMax : Nat := %s" % (v["iovMax"] if int(v["iovMax"]) >= 0 else "8"))
    L.append("def haveSendmsg : Bool := %s" % ("true" if v["haveSendmsg"].strip() == "1" else "false"))
    L.append("def haveLinuxSendfile64 : Bool := %s" % ("true" if v["haveSendfile64"].strip() == "1" else "false"))
    L.append("def sendfileChunk : Nat := %s" % chunk)
    L.append("def sendfileChunkThr : Nat := %s" % chunk_t)
    L.append("def maxChunk : Nat := %s" % maxchunk)
    L.append("def chunkHdrDigits : Nat := %s" % hdrdig)
    L.append("def minChunkBuf : Nat := %s" % minbuf)
    L.append("def pushThreshold : Nat := %s" % pushthr)
    L.append("/-- MHD_ERR_*_ codes (connection.h), as returned by the senders -/")
    for e in MHD_ERRS:
        L.append("def err%s : Int := %s" % (e.capitalize(), v["err" + e]))
    L.append("/-- enum MHD_CONNECTION_STATE values of the reply-side states (the code compares them with `<`) -/")
    for s in STATES:
        L.append("def st%s : Nat := %s" % ("".join(w.capitalize() for w in s.split("_")), v["st" + s]))
    L.append("/-- enum MHD_RequestTerminationCode values the reply path reports (microhttpd.h) -/")
    for k in ("termCompletedOk", "termWithError"):
        L.append("def %s : Nat := %s" % (k, v[k]))
    m100 = re.search(r'#define\s+HTTP_100_CONTINUE\s+"((?:[^"\\]|\\.)*)"', cs)
    if not m100:
        raise RuntimeError("HTTP_100_CONTINUE not found in connection.c")
    msg = m100.group(1).encode().decode("unicode_escape").encode("latin-1")
    L.append("/-- the interim message of the CONTINUE_SENDING state (connection.c: HTTP_100_CONTINUE) -/")
    L.append("def http100Continue : List UInt8 := [%s]" % ", ".join(str(b) for b in msg))
    L.append("/-- errno values the fault plan can inject, with the classification macros of mhd_sockets.h evaluated on each -/")
    L.append("inductive Errno where")
    for e in ERRNOS:
        L.append("  | %s" % e)
    L.append("  deriving DecidableEq, Repr, Inhabited")
    L.append("def Errno.all : List Errno := [%s]" % ", ".join("." + e for e in ERRNOS))
    L.append("def Errno.value : Errno → Nat")
    for e in ERRNOS:
        L.append("  | .%s => %s" % (e, v["no" + e]))
    L.append("def Errno.name : Errno → String")
    for e in ERRNOS:
        L.append("  | .%s => \"%s\"" % (e, e))
    for cn, _ in ERR_CLASSES:
        L.append("def Errno.%s : Errno → Bool" % cn)
        for e in ERRNOS:
            L.append("  | .%s => %s" % (e, "true" if v[cn + e] == "1" else "false"))
    L.append("end Mhd.Gen.Send")
    return vlib.write_if_changed(os.path.join(GEN, "Send.lean"), "\n".join(L) + "\n")


# --------------------------------------------------------------------------- scenarios

def pat(rid, off):
    return ord('a') + (rid * 7 + off) % 26


def body_of(rid, size):
    return bytes(pat(rid, i) for i in range(size))


def hx(b):
    return b.hex() if b else "-"


DIGEST_HDR = b'Authorization: Digest username="joe", realm="r", nonce="abc", uri="/a", response="00"\r\n'


BASIC_HDR = b"Authorization: Basic am9lOnNlY3JldA==\r\n"


class Req:
    """one request of a scenario: the bytes the client sends, the upload body the handler must
    see, and the handler behaviour"""

    def __init__(self, method="GET", ver="1.1", body=b"", chunked=False, beh="f=c l=r1", extra=b"", malformed=False):
        self.method, self.ver, self.body, self.chunked, self.beh, self.malformed = method, ver, body, chunked, beh, malformed
        h = ("%s /a HTTP/%s\r\nHost: x\r\n" % (method, ver)).encode() + extra
        if chunked:
            h += b"Transfer-Encoding: chunked\r\n\r\n"
            pieces = [body[:len(body) // 2], body[len(body) // 2:]]
            enc = b"".join(b"%x\r\n%s\r\n" % (len(p), p) for p in pieces if p)
            enc += b"ZZ\r\n" if malformed else b"0\r\n\r\n"
            self.raw = h + enc
        elif body or method == "POST":
            self.raw = h + b"Content-Length: %d\r\n\r\n" % len(body) + body
        else:
            self.raw = h + b"\r\n"


class Scenario:
    def __init__(self, name, resps, reqs, mode="select", mem=0, split=None, note="", poolfail=False, readerr=False, cfgx="", interim=False):
        self.name, self.resps, self.reqs, self.mode, self.mem, self.split, self.note = name, resps, reqs, mode, mem, split, note
        self.cfgx = cfgx             # further daemon options (harness `cfg` words)
        self.interim = interim       # Expect: 100-continue with the body held back: the interim message is part of the reply stream
        if interim and split is None:
            self.split = reqs[0].raw.index(b"\r\n\r\n") + 4     # the complete header first, the body after the interim message
        self.poolfail = poolfail     # the connection's memory pool is too small on purpose: the reply is cut short
        self.readerr = readerr       # the content reader reports MHD_CONTENT_READER_END_WITH_ERROR mid-body: cut short + closed
        # … or ends a known-size body early by MHD_CONTENT_READER_END_OF_STREAM (cbeos=): same, but the library reports COMPLETED_OK
        self.readerr_code = "0" if any("cbeos=" in v for v in resps.values()) else "1"

    def script(self, faults=(), alloc_fail=None, count_allocs=False):
        L = ["case " + self.name, "cfg mode=%s spipe=1%s%s" % (self.mode, (" mem=%d" % self.mem) if self.mem else "",
                                                              (" " + self.cfgx) if self.cfgx else ""), "start"]
        for rid, spec in self.resps.items():
            L.append("resp %d %s" % (rid, spec))
        for i, rq in enumerate(self.reqs):
            L.append("beh 0 %d %s" % (i, rq.beh))
        for f in faults:
            L.append("fault 0 %s %d %s" % (f[0], f[1], f[2]))
        if alloc_fail is not None:
            L.append("alloc-fail %d" % alloc_fail)
        elif count_allocs:
            L.append("alloc-fail 0")
        L.append("arrive 0 1")
        raw = b"".join(r.raw for r in self.reqs)
        if self.split:
            L.append("send 0 " + hx(raw[:self.split]))
            L.append("settle 40")
            L.append("send 0 " + hx(raw[self.split:]))
        else:
            L.append("send 0 " + hx(raw))
        L.append("settle 200")
        if alloc_fail is not None or count_allocs:
            L.append("alloc-off")
        L.append("stop")
        return L


def corpus(tier):
    S = []
    small, big = 20, 2000
    kinds = [("static", "kind=static"), ("copy", "kind=copy"), ("iovec", "kind=iovec iovn=3"), ("fd", "kind=fd"),
             ("fdoff", "kind=fdoff"), ("pipe", "kind=pipe"), ("cbknown", "kind=cb-known cbmax=700"),
             ("cbunknown", "kind=cb-unknown cbmax=700")]
    for nm, spec in kinds:
        for sz in (small, big):
            S.append(Scenario("%s%d" % (nm, sz), {1: "%s size=%d" % (spec, sz)}, [Req()]))
    S.append(Scenario("empty", {1: "kind=empty"}, [Req()]))
    S.append(Scenario("static0", {1: "kind=static size=0"}, [Req()]))
    S.append(Scenario("head-static", {1: "kind=static size=2000"}, [Req(method="HEAD")]))
    S.append(Scenario("head-cb", {1: "kind=cb-unknown size=300"}, [Req(method="HEAD")]))
    S.append(Scenario("iovec-many", {1: "kind=iovec size=3000 iovn=40"}, [Req()]))
    S.append(Scenario("cb-notready", {1: "kind=cb-known size=900 cbmax=400 cbnr=2"}, [Req()]))
    S.append(Scenario("chunked-notready", {1: "kind=cb-unknown size=900 cbmax=400 cbnr=2"}, [Req()]))
    S.append(Scenario("http10-cb", {1: "kind=cb-unknown size=900 cbmax=400"}, [Req(ver="1.0")]))
    S.append(Scenario("chunked-static", {1: "kind=static size=600 h=%s:%s" % (b"Transfer-Encoding".hex(), b"chunked".hex())}, [Req()]))
    S.append(Scenario("footer", {1: "kind=cb-unknown size=500 cbmax=300 f=%s:%s" % (b"X-Sum".hex(), b"abc".hex())}, [Req()]))
    # content reader failing in the middle of / at the start of the body (MHD_CONTENT_READER_END_WITH_ERROR):
    # plain body with Content-Length, chunked body, close-delimited HTTP/1.0 body
    S.append(Scenario("cb-err-known", {1: "kind=cb-known size=900 cbmax=400 cberr=500"}, [Req()], readerr=True))
    S.append(Scenario("cb-err-chunked", {1: "kind=cb-unknown size=900 cbmax=400 cberr=500"}, [Req()], readerr=True))
    S.append(Scenario("cb-err-first", {1: "kind=cb-known size=300 cbmax=100 cberr=0"}, [Req()], readerr=True))
    S.append(Scenario("cb-err-http10", {1: "kind=cb-unknown size=900 cbmax=400 cberr=500"}, [Req(ver="1.0")], readerr=True))
    # premature MHD_CONTENT_READER_END_OF_STREAM on a known-size, non-chunked reply (announced size not met): cut short,
    # closed (never kept alive), completion once with COMPLETED_OK (the library's choice), a pipelined follower not served
    S.append(Scenario("cb-eos-early-known", {1: "kind=cb-known size=900 cbmax=400 cbeos=500"}, [Req()], readerr=True))
    S.append(Scenario("cb-eos-early-first", {1: "kind=cb-known size=300 cbmax=100 cbeos=0"}, [Req()], readerr=True))
    S.append(Scenario("cb-eos-early-pipelined", {1: "kind=cb-known size=600 cbmax=250 cbeos=300", 2: "kind=static size=40"},
                      [Req(beh="f=c l=r1"), Req(beh="f=c l=r2")], readerr=True,
                      note="the second (pipelined) request must never be answered on this connection"))
    S.append(Scenario("cb-eos-early-epoll", {1: "kind=cb-known size=900 cbmax=400 cbeos=500"}, [Req()], readerr=True, mode="epoll"))
    S.append(Scenario("cb-err-pipelined", {1: "kind=cb-unknown size=600 cbmax=250 cberr=300", 2: "kind=static size=40"},
                      [Req(beh="f=c l=r1"), Req(beh="f=c l=r2")], readerr=True,
                      note="the second (pipelined) request must never be answered"))
    up = bytes((i * 11 + 3) % 251 for i in range(120))
    S.append(Scenario("post-cl", {1: "kind=static size=30"}, [Req(method="POST", body=up, beh="f=c u=all l=r1")]))
    S.append(Scenario("post-cl-partial", {1: "kind=static size=30"}, [Req(method="POST", body=up, beh="f=c u=7,all l=r1")]))
    S.append(Scenario("post-cl-split", {1: "kind=static size=30"}, [Req(method="POST", body=up, beh="f=c u=all l=r1")], split=90))
    S.append(Scenario("post-chunked", {1: "kind=static size=30"}, [Req(method="POST", body=up, chunked=True, beh="f=c u=all l=r1")]))
    S.append(Scenario("post-chunked-split", {1: "kind=static size=30"}, [Req(method="POST", body=up, chunked=True, beh="f=c u=5,all l=r1")], split=100))
    # Expect: 100-continue, the body held back until the interim message has been sent (CONTINUE_SENDING is a send
    # phase of its own: accumulated offset, switch to BODY_RECEIVING when offset = length); identity and chunked
    # uploads x final reply kinds
    EXP = b"Expect: 100-continue\r\n"
    S.append(Scenario("post-100", {1: "kind=static size=30"},
                      [Req(method="POST", body=up, beh="f=c u=all l=r1", extra=EXP)], interim=True))
    S.append(Scenario("post-100-chunked-up", {1: "kind=static size=30"},
                      [Req(method="POST", body=up, chunked=True, beh="f=c u=all l=r1", extra=EXP)], interim=True))
    S.append(Scenario("post-100-cbchunked", {1: "kind=cb-unknown size=500 cbmax=300 f=%s:%s" % (b"X-Sum".hex(), b"abc".hex())},
                      [Req(method="POST", body=up, beh="f=c u=7,all l=r1", extra=EXP)], interim=True))
    S.append(Scenario("post-100-iovec", {1: "kind=iovec size=900 iovn=4"},
                      [Req(method="POST", body=up, beh="f=c u=all l=r1", extra=EXP)], interim=True))
    S.append(Scenario("post-100-fd", {1: "kind=fd size=700"},
                      [Req(method="POST", body=up, chunked=True, beh="f=c u=all l=r1", extra=EXP)], interim=True))
    S.append(Scenario("post-100-pipelined", {1: "kind=copy size=60", 2: "kind=static size=40"},
                      [Req(method="POST", body=up, beh="f=c u=all l=r1", extra=EXP), Req(beh="f=c l=r2")], interim=True,
                      mode="epoll"))
    S.append(Scenario("post-100-late", {1: "kind=static size=30"},
                      [Req(method="POST", body=up, beh="f=c u=all l=r1", extra=EXP)], split=70,
                      note="the body arrives together with the end of the header: no interim message"))
    # a header block much larger than what one send takes (repeated short counts), trailers after a chunked body
    S.append(Scenario("big-hdr", {1: "kind=static size=300 "
                                  + " ".join("h=%s:%s" % ((b"X-Pad-%d" % i).hex(), (b"v" * 900).hex()) for i in range(3))}, [Req()]))
    S.append(Scenario("big-hdr-cb", {1: "kind=cb-unknown size=700 cbmax=300 "
                                     + " ".join("h=%s:%s" % ((b"X-Pad-%d" % i).hex(), (b"w" * 700).hex()) for i in range(3))
                                     + " f=%s:%s f=%s:%s" % (b"X-T1".hex(), (b"t" * 200).hex(), b"X-T2".hex(), b"u".hex())}, [Req()]))
    S.append(Scenario("post-bad-chunk", {1: "kind=static size=30"},
                      [Req(method="POST", body=up[:6], chunked=True, malformed=True, beh="f=c u=all l=r1")]))
    S.append(Scenario("pipe-get-get", {1: "kind=static size=40", 2: "kind=cb-unknown size=300 cbmax=200"},
                      [Req(beh="f=c l=r1"), Req(beh="f=c l=r2")]))
    S.append(Scenario("pipe-post-get", {1: "kind=copy size=1500", 2: "kind=fd size=500"},
                      [Req(method="POST", body=up, beh="f=c u=all l=r1"), Req(beh="f=c l=r2")]))
    S.append(Scenario("early-reply", {1: "kind=static size=50"}, [Req(method="POST", body=up, beh="f=r1")]))
    S.append(Scenario("dauth", {1: "kind=static size=20"}, [Req(beh="f=c l=r1 da=1", extra=DIGEST_HDR)]))
    # allocation sites of the reply path that the scenarios above do not reach: the per-IP connection table
    # (MHD_ip_limit_add + tsearch node), an application-set "Connection" header (add_response_header_connection),
    # the basic-auth information API
    S.append(Scenario("perip", {1: "kind=static size=20"}, [Req()], cfgx="perip=3"))
    S.append(Scenario("conn-hdr", {1: "kind=static size=30 h=%s:%s" % (b"Connection".hex(), b"close".hex())}, [Req()]))
    S.append(Scenario("conn-hdr2", {1: "kind=cb-known size=300 cbmax=100 h=%s:%s h=%s:%s" % (b"Connection".hex(), b"foo".hex(), b"Connection".hex(), b"close".hex())}, [Req()]))
    S.append(Scenario("bauth", {1: "kind=static size=20"}, [Req(beh="f=c l=r1 ba=1", extra=BASIC_HDR)]))
    S.append(Scenario("iovec-smallpool", {1: "kind=iovec size=400 iovn=100"}, [Req()], mem=1024, poolfail=True,
                      note="the copy of the iovec (1600 bytes) does not fit the 1024-byte connection pool"))
    S.append(Scenario("chunked-smallpool", {1: "kind=cb-unknown size=300 cbmax=50"}, [Req()], mem=512))
    S.append(Scenario("epoll-static", {1: "kind=static size=2000"}, [Req()], mode="epoll"))
    S.append(Scenario("epoll-fd", {1: "kind=fd size=2000"}, [Req()], mode="epoll"))
    S.append(Scenario("epoll-chunked", {1: "kind=cb-unknown size=900 cbmax=400"}, [Req()], mode="epoll"))
    S.append(Scenario("epoll-post", {1: "kind=iovec size=300 iovn=5"}, [Req(method="POST", body=up, beh="f=c u=9,all l=r1")], mode="epoll", split=95))
    S.append(Scenario("fd-large", {1: "kind=fd size=140000"}, [Req()], note="more than one sendfile chunk"))
    # "pool nearly full + late error reply": an automatic 400 (malformed chunk size) after the application has
    # seen the request, with the connection pool so full of request headers that the first
    # build_header_response() of the error reply fails and transmit_error_response_len() takes its
    # out-of-pool-memory fall-back (notify, wipe the request, reset the pool, rebuild the header).
    # The window of paddings that reaches the fall-back is about 100 bytes wide: sweep.
    sweeps = [(1024, range(480, 921, 20))] if tier != "thorough" else \
             [(1024, range(440, 961, 5)), (512, range(60, 441, 10)), (2048, range(1400, 1961, 10))]
    for mem, pads in sweeps:
        for pad in pads:
            S.append(Scenario("late-error-m%d-p%d" % (mem, pad), {1: "kind=static size=30"},
                              [Req(method="POST", body=up[:6], chunked=True, malformed=True, beh="f=c u=all l=r1",
                                   extra=b"X-Pad: " + b"p" * pad + b"\r\n")], mem=mem,
                              note="automatic error reply while the pool is nearly full of request headers"))
    if tier == "thorough":
        S.append(Scenario("static-large", {1: "kind=static size=70000"}, [Req()]))
        S.append(Scenario("chunked-large", {1: "kind=cb-unknown size=70000"}, [Req()]))
        S.append(Scenario("pipe2000-epoll", {1: "kind=pipe size=2000"}, [Req()], mode="epoll"))
        S.append(Scenario("iovec7-epoll", {1: "kind=iovec size=5000 iovn=7"}, [Req()], mode="epoll"))
        for nm, spec in kinds:
            S.append(Scenario("%s1300" % nm, {1: "%s size=1300" % spec}, [Req()]))
            S.append(Scenario("%s-epoll" % nm, {1: "%s size=2000" % spec}, [Req()], mode="epoll"))
            S.append(Scenario("%s-head" % nm, {1: "%s size=700" % spec}, [Req(method="HEAD")]))
            S.append(Scenario("%s-http10" % nm, {1: "%s size=700" % spec}, [Req(ver="1.0")]))
        S.append(Scenario("pipe-3", {1: "kind=iovec size=900 iovn=4", 2: "kind=cb-known size=1200 cbmax=500", 3: "kind=fdoff size=800"},
                          [Req(beh="f=c l=r1"), Req(method="POST", body=up, beh="f=c u=11,all l=r2"), Req(beh="f=c l=r3")], split=60))
        S.append(Scenario("pipe-3-epoll", {1: "kind=static size=900", 2: "kind=cb-unknown size=1200 cbmax=500", 3: "kind=fd size=800"},
                          [Req(beh="f=c l=r1"), Req(method="POST", body=up, chunked=True, beh="f=c u=all l=r2"), Req(beh="f=c l=r3")], mode="epoll"))
    assert len({s.name for s in S}) == len(S), "scenario names must be unique"
    return S


# --------------------------------------------------------------------------- harness log

KIND_SEND = ("send", "sendmsg", "sendfile")
TRANSIENT = ("short", "eagain", "eintr")
HARD = ("econnreset", "epipe", "enotconn", "einval", "enomem", "ebadf")
ERRNO_NAME = {11: "EAGAIN", 4: "EINTR", 104: "ECONNRESET", 32: "EPIPE", 107: "ENOTCONN", 22: "EINVAL", 12: "ENOMEM", 9: "EBADF"}


def kvs(words):
    d = {}
    for w in words:
        if "=" in w:
            k, _, v = w.partition("=")
            d[k] = v
    return d


def is_permanent(kind, what):
    """does the code treat this errno on this call as a permanent failure?  Linux sendfile():
    everything except EAGAIN/EINTR/EBADF makes MHD fall back to the standard sender and retry
    (mhd_send.c:1269-1279), so only EBADF is permanent there."""
    w = what.split()[0]
    if kind == "sendfile":
        return w == "ebadf"
    return w in HARD


class CaseLog:
    """everything the oracle and the script translator need from the harness output of one case"""

    def __init__(self, lines):
        self.lines = lines
        self.wire = b""
        self.sys = []            # dicts
        self.handlers = []       # (r, phase, up bytes)
        self.took = {}           # r -> bytes consumed
        self.offered = None
        self.first = []          # requests presented (r)
        self.completed = {}      # r -> list of codes
        self.conn_start = self.conn_close_at = None
        self.settled = []        # (index, rounds, quiet)
        self.final_wst = None
        self.eof = self.rst = False
        self.fired = {}
        self.allocs = None
        self.unfired = []
        self.bad = []            # protocol-error / unstable / bad-op lines
        self.reader0 = []        # indices of "reader … -> 0" lines
        self.queued = []         # (r, rid, result)
        self.made = {}           # rid -> count
        self.freed = {}          # rid -> count (free-cb-total)
        self.arrive = None
        self.dauth = []
        self.stopped = False
        self.resp_hdr = []       # results of MHD_add_response_header/footer calls of the application
        self.uri_logs = 0
        self.completions = []    # (r or '?', code, line index) in log order
        self.resp_refs = []      # (rid, reference count, when) — 1 = only the application's own reference is left
        self.reader_err = []     # indices of "reader … -> err" / "-> eos-early" lines
        self.reader_eos_early = 0
        self.alloc_site = None   # (library function whose allocation failed, libc entry point)
        self.wedged = []         # spin reports of `settle`: send called round after round, no byte moved
        last_handler = None
        for i, ln in enumerate(lines):
            try:
                last_handler = self._line(i, ln, last_handler)
            except (ValueError, IndexError, KeyError, AttributeError):
                pass     # a line cut short by a dying process: the run is reported through `stopped` / stderr

    def _line(self, i, ln, last_handler):
        w = ln.split()
        if not w:
            return last_handler
        k = w[0]
        d = kvs(w[1:])
        if k == "wire" and d.get("c") == "0":
            self.wire += bytes.fromhex(w[2]) if w[2] != "-" else b""
        elif k == "sys":
            m = re.search(r"-> (E?-?\d+) inj=(\S+)", ln)
            d["ret"], d["inj"], d["idx"] = m.group(1), m.group(2), i
            self.sys.append(d)
        elif k == "handler":
            up = b"" if d.get("up", "-") == "-" else bytes.fromhex(d["up"])
            r = int(d["r"])
            self.handlers.append((r, d["phase"], up))
            if d["phase"] == "first":
                self.first.append(r)
            last_handler = (r, up)
        elif k == "took" and last_handler is not None:
            n = int(d["n"])
            self.took[last_handler[0]] = self.took.get(last_handler[0], b"") + last_handler[1][:n]
        elif k == "completed":
            r = d.get("r", "?")
            self.completed.setdefault(r, []).append((d.get("code"), i))
            self.completions.append((r, d.get("code"), i))
        elif k == "conn-start":
            self.conn_start = i
        elif k == "conn-close":
            self.conn_close_at = i
        elif k == "settled":
            self.settled.append((i, int(d["rounds"]), int(d["quiet"])))
        elif k == "wst":
            self.final_wst = d
        elif k == "eof":
            self.eof = True
        elif k == "rst":
            self.rst = True
        elif k == "fired":
            self.fired = {a: int(b) for a, b in d.items()}
        elif k == "allocs":
            self.allocs = (int(d["n"]), int(d["fired"]))
            if int(d["fired"]):
                self.alloc_site = (d.get("site", "?"), d.get("via", "?"))
        elif k == "fault-unfired":
            self.unfired.append(ln)
        elif k in ("protocol-error", "unstable", "bad-op", "fdset-failed", "start-failed"):
            self.bad.append(ln)
        elif k == "reader" and ln.endswith("-> 0"):
            self.reader0.append(i)
        elif k == "reader" and (ln.endswith("-> err") or ln.endswith("-> eos-early")):
            self.reader_err.append(i)
            if ln.endswith("-> eos-early"):
                self.reader_eos_early += 1
        elif k == "wedged":
            self.wedged.append(ln)
        elif k == "resp-ref":
            self.resp_refs.append((d["rid"], int(d["rc"]), d.get("at", "?")))
        elif k == "queued":
            self.queued.append(ln)
        elif k == "resp-made":
            self.made[d["rid"]] = self.made.get(d["rid"], 0) + 1
        elif k == "free-cb-total":
            self.freed[d["rid"]] = int(d["n"])
        elif k == "arrive":
            self.arrive = ln.split("->")[1].strip()
        elif k in ("dauth-info", "dauth-user", "bauth-info"):
            self.dauth.append(ln)
        elif k == "stopped":
            self.stopped = True
        elif k == "resp-hdr":
            self.resp_hdr.append(ln)
        elif k == "uri-log":
            self.uri_logs += 1
        return last_handler

    def closed_before_stop(self):
        last_settle = self.settled[-1][0] if self.settled else len(self.lines)
        if self.arrive == "0" or (self.conn_start is None and (self.eof or self.rst)):
            return True          # refused: the library closed the socket without ever starting the connection
        return self.conn_close_at is not None and self.conn_close_at < last_settle

    def app_diverged(self, ref):
        """an allocation failure inside the application's own response construction (header not
        added, no response object) makes the application queue a different reply"""
        return self.resp_hdr != ref.resp_hdr or [q.split("->")[1] for q in self.queued] != [q.split("->")[1] for q in ref.queued][:len(self.queued)]


# --------------------------------------------------------------------------- oracle

CONT = b"HTTP/1.1 100 Continue\r\n\r\n"


def canon_stream(b):
    """whether the interim "100 Continue" is sent depends on whether body bytes have already arrived when
    the header is complete (connection.c: need_100_continue && 0 == read_buffer_offset) — i.e. on how the
    request happens to be split into reads.  It is not part of the reply stream the property is about."""
    return b.replace(CONT, b"")


def prefix_ok(got, want):
    g, w = canon_stream(got), canon_stream(want)
    if w.startswith(g):
        return True
    n = next((i for i in range(min(len(g), len(w))) if g[i] != w[i]), min(len(g), len(w)))
    return CONT.startswith(g[n:]) and len(g[n:]) < len(CONT)       # cut inside the interim response


def oracle(sc, plan, ref, log, stderr_txt):
    """Independent statement of C07 over the harness log of one faulted run (`log`) and the
    fault-free run of the same scenario (`ref`).  Returns a list of (signature, detail)."""
    bad = []
    faults, alloc_fail = plan
    alloc_fired = log.fired.get("alloc", 0)
    perm_calls = [s_ for s_ in log.sys if s_["inj"] != "-" and is_permanent(s_["k"], s_["inj"])]
    permanent = len(perm_calls) > 0
    diverged = alloc_fired and log.app_diverged(ref)
    if not log.stopped:
        m = re.search(r"(runtime error: [^\n]*|ERROR: \w+Sanitizer: [\w-]+|Fatal error in GNU libmicrohttpd[^\n]*)", stderr_txt)
        sig = re.sub(r"0x[0-9a-f]+|\d+", "N", m.group(1))[:140] if m else "the daemon process died or hung (TIMEOUT)" if "TIMEOUT" in stderr_txt else "the daemon process died"
        bad.append((sig, "the harness did not reach the end of the case; last lines: " + " | ".join(log.lines[-3:]) + "\n" + stderr_txt[-1500:]))
        return bad
    for b in log.bad:
        bad.append((re.sub(r"\d+", "N", b.split()[0] + " reported by the harness"), b))
    # no wedge: no spin (send called round after round on a writable socket without a byte moving) …
    for wl in log.wedged:
        bad.append(("wedged: the library keeps calling send without progress (spin), the exchange never completes", wl))
    # … and the event loop went quiet by itself within the bounded number of rounds
    for (_, rounds, quiet) in log.settled:
        if quiet < 3:
            bad.append(("no quiescence: still busy after N rounds", "settle ran %d rounds" % rounds))
    # the bytes delivered to the client are a prefix of the fault-free stream (for exchanges whose interim
    # "100 Continue" is deterministic — body held back — the interim message is part of that stream)
    canon = (lambda b: b) if sc.interim else canon_stream
    if not diverged and not (ref.wire.startswith(log.wire) if sc.interim else prefix_ok(log.wire, ref.wire)):
        n = next((i for i in range(min(len(ref.wire), len(log.wire))) if ref.wire[i] != log.wire[i]), min(len(ref.wire), len(log.wire)))
        bad.append(("client stream is not a prefix of the fault-free stream",
                    "first difference at byte %d of %d (fault-free %d bytes): got …%s expected …%s"
                    % (n, len(log.wire), len(ref.wire), log.wire[max(0, n - 8):n + 8].hex(), ref.wire[max(0, n - 8):n + 8].hex())))
    # upload bytes handed to the application are a prefix of the request body
    for i, rq in enumerate(sc.reqs):
        got = log.took.get(i, b"")
        if not rq.body.startswith(got):
            bad.append(("upload bytes given to the handler are not a prefix of the request body",
                        "request %d: handler consumed %s, body is %s" % (i, got.hex(), rq.body.hex())))
    # completion exactly once for every request presented to the application
    for r in log.first:
        codes = log.completed.get(str(r), [])
        if len(codes) != 1:
            bad.append(("completion callback ran N times for a presented request",
                        "request %d: %d completion notifications (%s)" % (r, len(codes), codes)))
        elif log.conn_close_at is not None and codes[0][1] > log.conn_close_at:
            bad.append(("completion notified after the connection-closed notification", "request %d" % r))
    for r, codes in log.completed.items():
        if r != "?" and int(r) not in log.first:
            bad.append(("completion callback for a request that was never presented", "r=%s" % r))
    # requests seen by the URI log callback only (never by the handler) are completed with a NULL context
    if len(log.completed.get("?", [])) > max(0, log.uri_logs - len(log.first)):
        bad.append(("more completion notifications than requests presented (duplicate notification with a NULL context)",
                    "%d request(s) seen by the URI log callback, %d by the handler, %d completion(s) with context, %d without: %s"
                    % (log.uri_logs, len(log.first), sum(len(v) for k, v in log.completed.items() if k != "?"),
                       len(log.completed.get("?", [])), log.completed.get("?"))))
    # every response object created was released exactly once
    for rid, n in log.made.items():
        spec = sc.resps.get(int(rid), "")
        if ("kind=cb-" in spec or "kind=freecb" in spec) and log.freed.get(rid, 0) != n:
            bad.append(("free callback count differs from the number of response objects created",
                        "rid=%s created %d times, free callback ran %d times" % (rid, n, log.freed.get(rid, 0))))
    # the application keeps its own reference: once the connection is gone (and at the latest when the daemon has
    # stopped) exactly that one reference is left — the connection dropped its reference exactly once
    for rid, rc, at in log.resp_refs:
        if rc != 1 and (at == "stop" or log.conn_close_at is not None):
            bad.append(("response reference count is not N after the connection released it (released twice, or never)",
                        "rid=%s reference_count=%d at %s (1 = only the application's reference left)" % (rid, rc, at)))
    if log.arrive == "0" and not (log.eof or log.rst):
        bad.append(("refused connection: the socket was not closed by the library", ""))
    if log.arrive == "1" and log.conn_start is not None and log.conn_close_at is None:
        bad.append(("connection-closed notification missing", ""))
    if log.arrive == "1" and log.conn_start is None and not alloc_fired:
        bad.append(("accepted connection was never started", ""))
    # transient faults alone never change what is finally delivered
    if not permanent and not alloc_fired:
        if canon(log.wire) != canon(ref.wire):
            bad.append(("transient faults changed the delivered stream",
                        "delivered %d bytes, fault-free %d bytes" % (len(log.wire), len(ref.wire))))
        for i in range(len(sc.reqs)):
            if log.took.get(i, b"") != ref.took.get(i, b""):
                bad.append(("transient faults changed the upload data seen by the handler", "request %d" % i))
        if (log.eof, log.rst) != (ref.eof, ref.rst) and log.closed_before_stop() != ref.closed_before_stop():
            bad.append(("transient faults changed whether the connection is closed", ""))
        if [c for c, _ in sum(log.completed.values(), [])] != [c for c, _ in sum(ref.completed.values(), [])]:
            bad.append(("transient faults changed the completion codes", "%s vs %s" % (log.completed, ref.completed)))
    # a permanent socket failure closes the connection, nothing is sent afterwards
    if permanent:
        if not log.closed_before_stop():
            bad.append(("connection still open after a permanent socket error", ""))
        seen = False
        for s in log.sys:
            if seen and s["k"] in KIND_SEND + ("recv",):
                bad.append(("system call on the socket after a permanent error", "sys %s" % s))
                break
            if s["inj"] != "-" and is_permanent(s["k"], s["inj"]):
                seen = True
    # an allocation failure leaves the exchange intact or closes the connection
    if alloc_fired and not permanent and not diverged:
        if canon_stream(log.wire) != canon_stream(ref.wire) and not (log.closed_before_stop() or log.arrive == "0"):
            bad.append(("allocation failure: stream truncated but connection not closed", ""))
    # no connection may be left in the middle of a reply
    if log.final_wst is not None and log.final_wst.get("st") not in ("init", "req-line-receiving") and not log.closed_before_stop():
        bad.append(("connection left in the middle of an exchange (wedge)", "final state %s" % log.final_wst))
    if stderr_txt.strip():
        sig = "sanitizer or abort report"
        m = re.search(r"(runtime error: [^\n]*|ERROR: \w+Sanitizer: [\w-]+|Fatal error in GNU libmicrohttpd[^\n]*)", stderr_txt)
        if m:
            sig = re.sub(r"0x[0-9a-f]+|\d+", "N", m.group(1))[:140]
        bad.append((sig, stderr_txt[-1800:]))
    return bad


# --------------------------------------------------------------------------- model script

def parse_replies(stream, reqs, lenient=False):
    """split the fault-free client stream into replies: (header bytes, body bytes on the wire);
    `lenient`: the last reply may be cut short (scenarios whose content reader fails on purpose)"""
    out, pos, ri = [], 0, 0
    while pos < len(stream):
        e = stream.find(b"\r\n\r\n", pos)
        if e < 0:
            break
        hdr = stream[pos:e + 4]
        status = int(hdr.split(b" ")[1])
        hl = hdr.lower()
        rest_start = e + 4
        if 100 <= status < 200:
            out.append({"hdr": hdr, "wire_body": b"", "interim": True, "status": status, "req": ri})
            pos = rest_start
            continue
        method = reqs[ri].method if ri < len(reqs) else "GET"
        chunked = b"transfer-encoding: chunked" in hl
        m = re.search(rb"content-length: (\d+)", hl)
        if method == "HEAD" or status in (204, 304):
            blen = 0
        elif chunked:
            p = rest_start
            while True:
                le = stream.find(b"\r\n", p)
                if lenient and (le < 0 or p >= len(stream)):
                    p = len(stream)
                    break
                n = int(stream[p:le].split(b";")[0], 16)
                p = le + 2 + n + 2 if n else stream.find(b"\r\n\r\n", le) + 4
                if n == 0:
                    break
            blen = p - rest_start
        elif m:
            blen = int(m.group(1))
        else:
            blen = len(stream) - rest_start
        out.append({"hdr": hdr, "wire_body": stream[rest_start:rest_start + blen], "interim": False, "status": status,
                    "chunked": chunked, "has_cl": m is not None, "head": method == "HEAD" or status in (204, 304), "req": ri})
        pos = rest_start + blen
        ri += 1
    return out


def resp_spec(sc, req_index):
    rq = sc.reqs[req_index] if req_index < len(sc.reqs) else None
    if rq is None:
        return None
    m = re.search(r"[lf]=r(\d+)", " " + rq.beh.replace("f=c", ""))
    if not m:
        return None
    rid = int(m.group(1))
    d = kvs(sc.resps[rid].split())
    d["rid"] = rid
    return d


def dechunk(b):
    out, p = b"", 0
    while p < len(b):
        le = b.find(b"\r\n", p)
        n = int(b[p:le], 16)
        if n == 0:
            return out, b[p:]
        out += b[le + 2:le + 2 + n]
        p = le + 2 + n + 2
    return out, b""


def reference_content(sc, ref):
    """the fault-free stream itself must carry what the application queued: for every reply of
    the application, the (de-chunked) body is the content of the response object; HEAD has none"""
    bad = []
    if sc.poolfail:
        if not ref.closed_before_stop():
            bad.append(("pool allocation failure did not close the connection", ""))
        return bad
    try:
        reps = [r for r in parse_replies(ref.wire, sc.reqs, sc.readerr) if not r["interim"]]
    except Exception as exn:
        return [("fault-free reply stream is not well-formed HTTP", repr(exn))]
    if sc.readerr:
        # the reader fails on purpose: a cut-short first reply, nothing after it, connection closed, completion WITH_ERROR
        if not ref.closed_before_stop():
            bad.append(("content reader error did not close the connection", ""))
        if len(reps) != 1:
            bad.append(("content reader error: N replies on the wire instead of one cut-short reply", "%d" % len(reps)))
        for rep in reps[:1]:
            spec = resp_spec(sc, rep["req"])
            want = body_of(spec["rid"], int(spec.get("size", 5)))
            got = rep["wire_body"]
            if rep.get("chunked"):
                got, _ = dechunk(got)
            if not want.startswith(got) or len(got) >= len(want):
                bad.append(("content reader error: the bytes sent before the error are not a strict prefix of the content", "%d bytes" % len(got)))
        if [c for _, c, _ in ref.completions][:1] != [sc.readerr_code]:
            bad.append(("content reader error: completion code is not the expected one (WITH_ERROR; COMPLETED_OK for a premature END_OF_STREAM)",
                        "expected %s, got %s" % (sc.readerr_code, ref.completions)))
        return bad
    for rep in reps:
        spec = resp_spec(sc, rep["req"])
        rq = sc.reqs[rep["req"]] if rep["req"] < len(sc.reqs) else None
        if spec is None or rq is None or rq.malformed or rep["status"] >= 400:
            continue
        k = spec.get("kind", "copy")
        want = b"" if (k == "empty" or rep["head"]) else body_of(spec["rid"], int(spec.get("size", 5)))
        got = rep["wire_body"]
        if rep.get("chunked") and not rep["head"]:
            try:
                got, _ = dechunk(got)
            except Exception as exn:
                bad.append(("fault-free reply: chunked framing broken", repr(exn)))
                continue
        if got != want:
            bad.append(("fault-free reply does not carry the content of the response object",
                        "request %d: %d body bytes on the wire, content has %d" % (rep["req"], len(got), len(want))))
    for i, rq in enumerate(sc.reqs):
        if rq.body and not rq.malformed and "all" in rq.beh and "f=r" not in rq.beh and ref.took.get(i, b"") != rq.body:
            bad.append(("fault-free run: the handler did not receive the complete request body",
                        "request %d: %d of %d bytes" % (i, len(ref.took.get(i, b"")), len(rq.body))))
    if len(reps) < sum(1 for r in sc.reqs if not r.malformed and "f=r" not in r.beh) - 0 and not any(r.malformed for r in sc.reqs):
        bad.append(("fault-free run: fewer replies than requests", "%d replies" % len(reps)))
    return bad


def model_script(sc, ref, log):
    """driver script for one run + the harness lines it has to reproduce.
    Only replies to well-formed requests answered by the application are described."""
    replies = [r for r in parse_replies(ref.wire, sc.reqs, sc.readerr)]
    sends = [s for s in log.sys if s["k"] in KIND_SEND]
    # group the system calls by reply: a new reply starts with headers-sending at offset 0
    groups, cur, prev = [], None, None
    for s in sends:
        newr = s["st"] in ("headers-sending", "continue-sending") and s["so"] == "0" and not (
            prev is not None and prev["st"] == s["st"] and prev["so"] == "0" and prev["ret"].startswith("E"))
        if s["st"] == "continue-sending":
            newr = prev is None or prev["st"] != "continue-sending"
        if newr or cur is None:
            cur = []
            groups.append(cur)
        cur.append(s)
        prev = s
    script, expect = [], []
    gi = 0
    # the interim "100 Continue" phase: a send phase of its own (Mhd.Model.SendCont), replayed call by call
    for g in [g for g in groups if g[0]["st"] == "continue-sending"]:
        script.append("cont")
        expect.append(None)
        for s_ in g:
            if s_["ret"].startswith("E"):
                ans = ERRNO_NAME.get(int(s_["ret"][1:]), "EIO")
            else:
                ans = "full" if int(s_["ret"]) >= int(s_["req"]) else "short:%d" % int(s_["ret"])
            script.append("ccall %s" % ans)
            expect.append("sys k=%s req=%s st=%s co=%s -> %s" % (s_["k"], s_["req"], s_["st"], s_.get("co", "?"), s_["ret"]))
        # where the real connection is after the turn of the last call: the first `wst` line that follows
        after = next((kvs(l.split()[1:]).get("st") for l in log.lines[g[-1]["idx"]:] if l.startswith("wst ")), None)
        script.append("cend")
        expect.append(("cend", sum(int(s_["ret"]) for s_ in g if not s_["ret"].startswith("E")),
                       any(s_["inj"] != "-" and is_permanent(s_["k"], s_["inj"]) for s_ in g), after))
    groups = [g for g in groups if g[0]["st"] != "continue-sending"]
    replies = [r for r in replies if not r["interim"]]
    for rep in replies:
        if gi >= len(groups):
            break
        g = groups[gi]
        gi += 1
        spec = resp_spec(sc, rep["req"])
        malformed = sc.reqs[rep["req"]].malformed if rep["req"] < len(sc.reqs) else True
        if rep["status"] >= 400 or spec is None or malformed:
            kind, body, iov, cbmax, fdoff, bufsz, known = "buffer", rep["wire_body"], "-", 0, 0, 0, 1
        else:
            size = int(spec.get("size", 5))
            k = spec.get("kind", "copy")
            body = body_of(spec["rid"], size) if k != "empty" else b""
            cbmax = int(spec.get("cbmax", 0))
            iov, fdoff, bufsz, known = "-", 0, 1024, 1
            if k in ("static", "copy", "empty", "freecb"):
                kind = "buffer"
            elif k == "iovec":
                n = int(spec.get("iovn", 3))
                a = size // n
                lens = [a] * (n - 1) + [size - a * (n - 1)]
                lens = [x for x in lens if x > 0]
                kind = "iovec" if len(lens) > 1 else "buffer"
                iov = ",".join(str(x) for x in lens) if len(lens) > 1 else "-"
            elif k in ("fd", "fdoff"):
                kind, fdoff, bufsz = "file", (3 if k == "fdoff" else 0), 4096
            elif k == "pipe":
                kind, known, bufsz = "file", 0, 4096
            else:
                kind, known = "callback", (1 if k == "cb-known" else 0)
        footer = b""
        if rep.get("chunked"):
            _, footer = dechunk(rep["wire_body"])
            if not footer:
                footer = b"0\r\n\r\n"     # never sent (cut-short reply)
        wbsz = next((int(s["wbsz"]) for s in g if s["st"] in ("chunked-body-ready", "footers-sending")), int(g[0]["wbsz"]))
        # close-path inputs: was the request presented (the URI log callback makes the library treat it as known to the
        # application), will the connection be kept, is this an automatic error reply (stop_with_error)
        aware = 1 if log.uri_logs > rep["req"] else 0
        reuse = 0 if b"\r\nconnection: close\r\n" in rep["hdr"].lower() else 1
        stoperr = 1 if (rep["status"] >= 400 and (spec is None or malformed)) else 0
        script.append("reply kind=%s hdr=%s body=%s iov=%s known=%d chunked=%d sendbody=%d footer=%s bufsz=%d wbsz=%d cbmax=%d fdoff=%d sf=%s tpc=0 aware=%d reuse=%d stoperr=%d faileos=%d"
                      % (kind, hx(rep["hdr"]), hx(body), iov, known, 1 if rep.get("chunked") else 0, 0 if rep["head"] else 1,
                         hx(footer), bufsz, wbsz, cbmax, fdoff, g[0]["sf"], aware, reuse, stoperr,
                         1 if (spec is not None and "cbeos" in spec) else 0))
        expect.append(None)
        for j, s in enumerate(g):
            nxt = g[j + 1]["idx"] if j + 1 < len(g) else (groups[gi][0]["idx"] if gi < len(groups) else len(log.lines))
            notready = any(s["idx"] < z < nxt for z in log.reader0)
            rderr = any(s["idx"] < z < nxt for z in log.reader_err)
            if s["ret"].startswith("E"):
                ans = ERRNO_NAME.get(int(s["ret"][1:]), "EIO")
            else:
                ans = "full" if int(s["ret"]) >= int(s["req"]) else "short:%d" % int(s["ret"])
            script.append("call %s appI=%s" % (ans, "err" if rderr else "notready" if notready else "ready"))
            expect.append("sys k=%s req=%s st=%s so=%s ao=%s rp=%s is=%s ic=%s ie=%s sf=%s -> %s"
                          % (s["k"], s["req"], s["st"], s["so"], s["ao"], s["rp"], s["is"], s["ic"], s["ie"], s["sf"], s["ret"]))
            if rderr:
                # the content reader reported an error after this call: either in the idle part of the same turn
                # (chunked body) or in the next write turn, which then makes no system call (plain body)
                script.append("round full appW=err appI=err")
                expect.append(None)
        script.append("end")
        delivered = sum(int(s["ret"]) for s in g if not s["ret"].startswith("E"))
        compl = log.completions[rep["req"]][1] if rep["req"] < len(log.completions) else None
        expect.append(("end", delivered, any(s["inj"] != "-" and is_permanent(s["k"], s["inj"]) for s in g), compl, aware))
    return script, expect


def upload_script(sc, log):
    """driver script for the upload side of one run: the body bytes every recv() delivered and every
    upload call of the handler (identity-encoded request bodies of the first request only)"""
    rq = sc.reqs[0]
    if rq.method != "POST" or rq.chunked or not rq.body or "f=r" in rq.beh:
        return [], []
    H = rq.raw.index(b"\r\n\r\n") + 4
    rest = b"".join(r.raw for r in sc.reqs[1:])
    script = ["upload cap=1000000 body=%s rest=%s" % (hx(rq.body), hx(rest))]
    expect = [None]
    # interleave recv results and upload calls in log order
    ev, total = [], 0
    for s_ in log.sys:
        if s_["k"] == "recv" and not s_["ret"].startswith("E"):
            ev.append((s_["idx"], "recv", int(s_["ret"])))
    idx_up = [i for i, ln in enumerate(log.lines) if ln.startswith("handler ") and " r=0 " in ln and "phase=upload" in ln]
    tk = [i for i, ln in enumerate(log.lines) if ln.startswith("took ") and " r=0 " in ln]
    for i, j in zip(idx_up, tk):
        d = kvs(log.lines[i].split()[1:])
        offered = len(d["up"]) // 2
        took = int(kvs(log.lines[j].split()[1:])["n"])
        ev.append((i, "take", (offered, took)))
    ev.sort()
    for _, kind, v in ev:
        if kind == "recv":
            before, total = total, total + v
            delta = max(0, total - H) - max(0, before - H)
            if delta > 0:
                script.append("urecv data:%d" % delta)
                expect.append(None)
        else:
            script.append("utake %d" % v[1])
            expect.append(("utake", v[0], v[1]))
    script.append("uend")
    expect.append(("uend", log.took.get(0, b"")))
    return script, expect


HAB_ANS = ["full", "short:1", "short:2", "short:3", "short:4", "short:9", "eagain", "eintr", "econnreset", "epipe",
           "enotconn", "einval", "enomem", "ebadf"]


def hab_cases():
    """MHD_send_hdr_and_body_ without vector send: every combination of the abstracted inputs"""
    out = []
    for hdr in (b"H", b"HEAD"):
        for body in (b"", b"b", b"bod"):
            for nb in (0, 1):
                for a1 in HAB_ANS:
                    for a2 in HAB_ANS:
                        out.append("hab %s %s %d %s %s" % (hx(hdr), hx(body), nb, a1, a2))
    return out


def hab_oracle(line, out):
    """independent: what left through the socket is a prefix of header ++ body; a byte count returned is
    exactly the number of bytes that left; "again" means nothing left"""
    w = line.split()
    hdr = bytes.fromhex(w[1]); body = b"" if w[2] == "-" else bytes.fromhex(w[2])
    d = kvs(out.split()[1:])
    ret = int(d["ret"]); wire = b"" if d["wire"] == "-" else bytes.fromhex(d["wire"])
    if not (hdr + body).startswith(wire):
        return "bytes on the wire are not a prefix of header ++ body"
    if ret >= 0 and ret != len(wire):
        return "returned count %d but %d bytes left through the socket" % (ret, len(wire))
    if ret == -3073 and wire:
        return "'try again' returned after bytes were sent"
    if ret < 0 and ret != -3073 and wire not in (b"", hdr):
        return "hard error with a partial header on the wire"
    return None


# --------------------------------------------------------------------------- the check

FAULT_KINDS_QUICK = ["short 1", "short 37", "eagain", "eintr", "econnreset", "epipe", "einval", "ebadf"]
FAULT_KINDS_MORE = ["enotconn", "enomem", "short 1000"]


class Spec:
    props_module = "Mhd.Props.C07"
    lean_targets = ["Mhd.Props.C07", "drv_send"]
    required_theorems = ["Mhd.C07.round_inv", "Mhd.C07.delivered_prefix", "Mhd.C07.done_delivers_all",
                         "Mhd.C07.transient_never_closes", "Mhd.C07.transient_delivers_all", "Mhd.C07.transient_measure",
                         "Mhd.C07.closed_never_sends", "Mhd.C07.hard_error_closes", "Mhd.C07.sendfile_error_policy",
                         "Mhd.C07.alloc_failure_closes_or_unchanged", "Mhd.C07.alloc_failure_at_start",
                         "Mhd.C07.alloc_failure_chunk_buffer", "Mhd.C07.upload_prefix",
                         "Mhd.C07.session_prefix", "Mhd.C07.transient_fair_delivers_all", "Mhd.C07.release_exactly_once",
                         "Mhd.C07.permanent_failure_releases_once", "Mhd.C07.sendfile_hard_error_closes",
                         "Mhd.C07.upload_complete", "Mhd.C07.upload_transient_unchanged", "Mhd.C07.upload_closed_stops",
                         "Mhd.C07.upload_hard_error_closes",
                         "Mhd.C07.interim_delivered_prefix", "Mhd.C07.interim_transient_never_closes",
                         "Mhd.C07.interim_transient_delivers_all", "Mhd.C07.interim_fair_completes",
                         "Mhd.C07.interim_hard_error_closes", "Mhd.C07.exchange_delivered_prefix",
                         "Mhd.C07.exchange_fair_delivers_all", "Mhd.C07.reader_failure_closes",
                         "Mhd.C07.truncated_reply_never_kept"]
    trusted_base = ["Lean 4 kernel", "axioms: propext, Classical.choice, Quot.sound at most (audited per theorem)",
                    "hand-written model lean/Mhd/Model/Send.lean + SendConn.lean + SendCont.lean (interim 100 Continue phase), tied to mhd_send.c / connection.c by this run's "
                    "call-by-call correspondence under fault injection",
                    "tools/props/C07.py gen_send (errno classification macros, MHD_ERR codes, chunk limits regenerated)",
                    "harness/h_fault.c (libc interposition, --wrap=malloc/calloc, white-box read of MHD_Response.reference_count, "
                    "in-process symbolisation of the failing allocation site), gcc, ASan/UBSan/LSan",
                    "close-path bookkeeping record `Bk` (Mhd.Model.SendConn): tied to the code by the completion callbacks (count + "
                    "termination code per request) and the response reference counts of every run; pool destroy/reset and the clean-up "
                    "list are observed through LeakSanitizer/ASan only"]
    assumptions = ["a stream socket never reports 0 bytes taken for a non-empty request (SockRes.Legal)",
                   "content readers are deterministic in the position and hand out the bytes of the content (scripted application)",
                   "non-TLS build path (vector send); the header-then-body fall-back is modelled and proved but reachable only with TLS",
                   "fault injection of short counts / EAGAIN in epoll mode re-arms the descriptor (EPOLL_CTL_MOD) to supply the edge a real kernel would deliver",
                   "content length < 2^64-1 (MHD_SIZE_UNKNOWN is the sentinel)",
                   "fairness (transient_fair_delivers_all): after every point of the schedule there is a later round in which the socket is "
                   "writable, takes at least one byte and the content reader is ready",
                   "MHD_OPTION_NOTIFY_COMPLETED is set (Bk.notes counts calls of the callback); whether the connection is kept after the "
                   "reply (`reuse`) and whether the reply is an automatic error reply (`stopErr`) are parameters of the reply description"]

    def gen(self, ctx):
        gen_send()

    def build(self, ctx):
        self.harness = vlib.build_daemon_harness(name="h_fault", src="harness/h_fault.c",
                                                 ldextra=["-Wl,--wrap=malloc,--wrap=calloc", "-ldl"])
        self.driver = vlib.driver_path("drv_send")

    # ---- running
    def run_cases(self, scripts):
        """scripts: list of line lists (one per case) -> list of (CaseLog, stderr) ; a batch whose
        process fails is re-run case by case so that the report is attributed to one input"""
        lines = [l for s in scripts for l in s]
        out, rc, err = vlib.run_lines(self.harness, lines, timeout=300)
        logs = self.split(out, len(scripts))
        if rc == 0 and not err.strip() and logs is not None:
            return [(lg, "") for lg in logs]
        if len(scripts) == 1:
            lg = logs[0] if logs else CaseLog(out)
            return [(lg, err if err.strip() else "harness exit code %d" % rc)]
        res = []
        for s in scripts:
            res += self.run_cases([s])
        return res

    @staticmethod
    def split(out, n):
        cases, cur = [], None
        for ln in out:
            if ln.startswith("case "):
                cur = []
                cases.append(cur)
            elif cur is not None:
                cur.append(ln)
        if len(cases) != n:
            return None
        return [CaseLog(c) for c in cases]

    def run_parallel(self, scripts, batch=40):
        batches = [scripts[i:i + batch] for i in range(0, len(scripts), batch)]
        with concurrent.futures.ThreadPoolExecutor(max_workers=max(2, vlib.NCPU - 2)) as ex:
            res = list(ex.map(self.run_cases, batches))
        return [x for b in res for x in b]

    def model_check(self, items):
        """items: list of (key, script, expect).  One driver process for all."""
        lines, spans = [], []
        for key, script, expect in items:
            spans.append((key, len(lines), len(script), expect))
            lines += script
        if not lines:
            return {}
        out, rc, err = vlib.run_lines(self.driver, lines, timeout=600)
        res = {}
        for key, a, n, expect in spans:
            got = out[a:a + n]
            diffs = []
            if len(got) != n:
                diffs.append("driver produced %d lines for %d ops (rc=%d)" % (len(got), n, rc))
            for g, e in zip(got, expect):
                if e is None:
                    continue
                if isinstance(e, tuple) and e[0] == "utake":
                    d = kvs(g.split())
                    if (d.get("offered"), d.get("took")) != (str(e[1]), str(e[2])):
                        diffs.append("upload call: code offered %d / handler took %d, model: %s" % (e[1], e[2], g))
                elif isinstance(e, tuple) and e[0] == "cend":
                    d = kvs(g.split())
                    outb = b"" if d.get("out", "-") == "-" else bytes.fromhex(d["out"])
                    if len(outb) != e[1] or not CONT.startswith(outb) or "FAULT" in g:
                        diffs.append("interim message: the socket took %d bytes, model: %s" % (e[1], g[:120]))
                    if e[2] and d.get("st") != "closed":
                        diffs.append("interim phase: model not closed after a hard error: " + g[:80])
                    # the accumulated offset decides: complete message <=> the connection has left CONTINUE_SENDING
                    if e[3] is not None and d.get("st") == "body-receiving" and e[3] == "continue-sending":
                        diffs.append("interim message complete (model: body-receiving) but the connection is still in continue-sending")
                    if e[3] is not None and d.get("st") == "continue-sending" and e[3] not in ("continue-sending", "closed"):
                        diffs.append("interim message incomplete (model: continue-sending) but the connection moved on to " + e[3])
                    res.setdefault(key, {})["interim"] = res.get(key, {}).get("interim", 0) + 1
                elif isinstance(e, tuple) and e[0] == "uend":
                    d = kvs(g.split())
                    hb = b"" if d.get("handed", "-") == "-" else bytes.fromhex(d["handed"])
                    if hb != e[1]:
                        diffs.append("upload bytes handed to the application: code %s, model %s" % (e[1].hex(), hb.hex()))
                elif isinstance(e, tuple):
                    d = kvs(g.split())
                    outb = b"" if d.get("out", "-") == "-" else bytes.fromhex(d["out"])
                    if len(outb) != e[1]:
                        diffs.append("model delivered %d bytes, the socket took %d" % (len(outb), e[1]))
                    if d.get("inv") != "1" or "FAULT" in g:
                        diffs.append("model invariant/fault: " + g[:200])
                    if e[2] and d.get("st") != "closed":
                        diffs.append("model not closed after hard error: " + g[:80])
                    # close path: once the model's reply is over, its completion notifications (count and termination
                    # code) are those the application really got for this request; its reference is gone
                    if d.get("st") in ("closed", "done") and len(e) > 3:
                        want = [] if (e[3] is None or not e[4]) else [str(e[3])]
                        got = [] if d.get("notes", "-") == "-" else d["notes"].split(",")
                        if got != want:
                            diffs.append("completion notifications: code %s, model %s (state %s)" % (want, got, d.get("st")))
                        if d.get("drops") != "1" or d.get("held") != "0":
                            diffs.append("model bookkeeping after the end of the reply: " + g[g.find("notes="):][:100])
                        res.setdefault(key, {})["book"] = res.get(key, {}).get("book", 0) + 1
                    res.setdefault(key, {})["out"] = res.get(key, {}).get("out", b"") + outb
                elif g != e:
                    diffs.append("code: '%s'  model: '%s'" % (e, g))
            res.setdefault(key, {})["diffs"] = diffs
        return res

    # ---- exploration
    def explore(self, ctx, boost):
        failures, stats = [], {"runs": 0, "fault_points": 0, "alloc_points": 0, "multi": 0, "model_replies": 0,
                               "model_calls": 0, "fired": {}, "closed_runs": 0, "complete_runs": 0, "corpus": 0}
        S = corpus(ctx.tier)
        # corpus of past failures first
        cdir = os.path.join(vlib.VERIF, "corpus", ENGINE)
        plans = []
        byname = {s.name: s for s in S}
        # 1. fault-free runs: reference stream, number of calls of each kind, number of allocations
        refs = self.run_parallel([s.script(count_allocs=True) for s in S], batch=8)
        ref, broken = {}, set()
        for s, (lg, err) in zip(S, refs):
            ref[s.name] = lg
            if err or not lg.stopped or not lg.sys:
                broken.add(s.name)
            refbad = oracle(s, ((), None), lg, lg, err) + ([] if err or not lg.stopped else reference_content(s, lg))
            if refbad:
                broken.add(s.name)     # the fault-free exchange itself is wrong: report it, nothing to enumerate
            for sig, det in refbad:
                failures.append(vlib.Failure("sanitizer" if "anitizer" in sig or "runtime error" in sig or "Fatal" in sig or "process died" in sig else "oracle",
                                             "send: fault-free run: %s" % sig, "scenario %s (%s): %s" % (s.name, s.note, det),
                                             {"scenario": s.name, "faults": [], "alloc_fail": None, "script": s.script()}, ENGINE))
        if os.path.isdir(cdir):
            for f in sorted(os.listdir(cdir)):
                try:
                    j = json.load(open(os.path.join(cdir, f)))
                    if j["scenario"] in byname:
                        plans.append((byname[j["scenario"]], ([tuple(x) for x in j["faults"]], j.get("alloc_fail"))))
                        stats["corpus"] += 1
                except (OSError, ValueError, KeyError):
                    pass
        kinds = FAULT_KINDS_QUICK + (FAULT_KINDS_MORE if ctx.tier == "thorough" or boost else [])
        for s in S:
            lg = ref[s.name]
            if s.name in broken:
                continue         # the fault-free run itself fails: reported above, nothing to enumerate
            counts = {}
            for x in lg.sys:
                counts[x["k"]] = counts.get(x["k"], 0) + 1
            # every single fault point; injecting faults makes more calls, so go two beyond the fault-free count
            for k, n in sorted(counts.items()):
                lim = n + (2 if ctx.tier == "thorough" else 1)
                if ctx.tier != "thorough" and n > 12:
                    pts = list(range(1, 7)) + sorted(ctx.rng.sample(range(7, n + 1), 5))
                else:
                    pts = range(1, lim + 1)
                for i in pts:
                    for fk in kinds:
                        if k == "recv" and fk == "epipe":
                            continue
                        plans.append((s, ([(k, i, fk)], None)))
                        stats["fault_points"] += 1
            # short counts that end exactly on / next to a boundary the accounting cares about: the end of
            # the header block (header+body in one sendmsg), the end of an iovec element, the end of a chunk
            bnd = set()
            for x in lg.sys:
                if x["k"] in KIND_SEND:
                    if x["st"] == "headers-sending":
                        bnd.update((x["k"], int(x["n"]), int(x["ao"]) + d) for d in (-1, 0, 1))
                    if x["k"] == "sendmsg" and int(x["ie"]) > 0:
                        bnd.update((x["k"], int(x["n"]), int(x["ie"]) * m) for m in (1, 2))
                    if x["st"] == "chunked-body-ready":
                        bnd.update((x["k"], int(x["n"]), int(x["req"]) - d) for d in (1, 2))
            for x in lg.sys:
                if x["k"] in KIND_SEND:
                    # trailers / the zero-size last chunk: short counts inside "0\r\n", inside a trailer line, one before the end
                    if x["st"] == "footers-sending":
                        bnd.update((x["k"], int(x["n"]), v_) for v_ in (1, 2, 3, 4, int(x["req"]) // 2, int(x["req"]) - 1))
                    # header complete + body partial in the combined send; a cut in the middle of the header block
                    if x["st"] == "headers-sending" and x["so"] == "0":
                        bnd.update((x["k"], int(x["n"]), v_) for v_ in (int(x["ao"]) // 2, (int(x["ao"]) + int(x["req"])) // 2, int(x["req"]) - 1))
                    # the interim "100 Continue" message: EVERY short count
                    if x["st"] == "continue-sending" and x.get("co") == "0":
                        for n_ in range(1, int(x["req"])):
                            plans.append((s, ([(x["k"], int(x["n"]), "short %d" % n_)], None)))
                            plans.append((s, ([(x["k"], int(x["n"]), "short %d" % n_), (x["k"], int(x["n"]) + 1, "short 1")], None)))
                            stats["interim_points"] = stats.get("interim_points", 0) + 2
                        for fk in ("eagain", "eintr", "econnreset", "epipe", "enotconn", "ebadf"):
                            plans.append((s, ([(x["k"], int(x["n"]), "short 3"), (x["k"], int(x["n"]) + 1, fk)], None)))
                            stats["interim_points"] = stats.get("interim_points", 0) + 1
            # a header block that needs many sends: the same short count again and again
            if s.name.startswith("big-hdr"):
                for n_ in (1, 200, 700):
                    for k_ in sorted(kk for kk in counts if kk in KIND_SEND):
                        plans.append((s, ([(k_, i_, "short %d" % n_) for i_ in range(1, 9)], None)))
                        stats["multi"] += 1
            for (k, i, n) in sorted(bnd):
                if n >= 1 and (i <= 3 or s.name.startswith("big-hdr")):
                    plans.append((s, ([(k, i, "short %d" % n)], None)))
                    stats["fault_points"] += 1
                    # … followed by one more short count, so that the state left behind is exercised
                    plans.append((s, ([(k, i, "short %d" % n), (k, i + 1, "short 1")], None)))
                    stats["multi"] += 1
            # every single allocation failure
            na = lg.allocs[0] if lg.allocs else 0
            for i in range(1, na + 2):
                plans.append((s, ([], i)))
                stats["alloc_points"] += 1
            # random multi-fault plans
            nm = (40 if ctx.tier == "thorough" else 3) * (3 if boost else 1)
            for _ in range(nm):
                fl, used = [], set()
                for _ in range(ctx.rng.randint(2, 5)):
                    k = ctx.rng.choice(sorted(counts))
                    i = ctx.rng.randint(1, counts[k] + 3)
                    if (k, i) in used:
                        continue
                    used.add((k, i))
                    fk = ctx.rng.choice(["short %d" % ctx.rng.choice([1, 2, 5, 60, 500]), "eagain", "eintr", "eagain", "eintr"]
                                        + (["econnreset", "epipe", "enotconn"] if ctx.rng.random() < 0.3 else []))
                    if k == "recv" and fk == "epipe":
                        fk = "eintr"
                    fl.append((k, i, fk))
                af = ctx.rng.randint(1, max(1, na)) if ctx.rng.random() < 0.15 else None
                plans.append((s, (fl, af)))
                stats["multi"] += 1
        scripts = [s.script(faults=p[0], alloc_fail=p[1]) for s, p in plans]
        results = self.run_parallel(scripts)
        stats["runs"] = len(results) + len(S)
        # 2. oracle on every run, model script for every run
        items = []
        for idx, ((s, p), (lg, err)) in enumerate(zip(plans, results)):
            for a, b in lg.fired.items():
                if a != "allocs":
                    stats["fired"][a] = stats["fired"].get(a, 0) + b
            if lg.alloc_site:
                k_ = "%s (%s)" % lg.alloc_site
                stats.setdefault("alloc_sites", {})[k_] = stats.get("alloc_sites", {}).get(k_, 0) + 1
            stats["reader_errors"] = stats.get("reader_errors", 0) + len(lg.reader_err)
            stats["reader_eos_early"] = stats.get("reader_eos_early", 0) + lg.reader_eos_early
            stats["resp_ref_checks"] = stats.get("resp_ref_checks", 0) + len(lg.resp_refs)
            stats["completions_seen"] = stats.get("completions_seen", 0) + len(lg.completions)
            if lg.closed_before_stop():
                stats["closed_runs"] += 1
            if lg.wire == ref[s.name].wire:
                stats["complete_runs"] += 1
            for sig, det in oracle(s, p, ref[s.name], lg, err):
                kind = "sanitizer" if ("anitizer" in sig or "runtime error" in sig or "Fatal" in sig or "process died" in sig) else "oracle"
                failures.append(vlib.Failure(kind, "send: " + sig, "scenario %s plan %s: %s" % (s.name, p, det),
                                             {"scenario": s.name, "faults": p[0], "alloc_fail": p[1], "script": scripts[idx]}, ENGINE))
            if not err and not (lg.fired.get("alloc", 0) and lg.app_diverged(ref[s.name])):
                try:
                    sc_, ex_ = model_script(s, ref[s.name], lg)
                    su_, eu_ = upload_script(s, lg)
                    sc_, ex_ = sc_ + su_, ex_ + eu_
                    stats["upload_calls"] = stats.get("upload_calls", 0) + sum(1 for l in su_ if l.startswith("utake"))
                except Exception as exn:     # the log cannot be described to the model: report as model drift
                    failures.append(vlib.Failure("diff", "send: run cannot be translated for the model", repr(exn),
                                                 {"scenario": s.name, "faults": p[0], "alloc_fail": p[1], "script": scripts[idx]}, ENGINE))
                    continue
                items.append((idx, sc_, ex_))
        for s in S:
            if s.name in broken:
                continue
            sc_, ex_ = model_script(s, ref[s.name], ref[s.name])
            items.append(("ref:" + s.name, sc_, ex_))
        mres = self.model_check(items)
        for key, sc_, ex_ in items:
            stats["model_replies"] += sum(1 for l in sc_ if l.startswith("reply"))
            stats["model_calls"] += sum(1 for l in sc_ if l.startswith("call"))
            r = mres.get(key, {})
            stats["book_compared"] = stats.get("book_compared", 0) + r.get("book", 0)
            stats["interim_compared"] = stats.get("interim_compared", 0) + r.get("interim", 0)
            if isinstance(key, int):
                s, p = plans[key]
                lg = results[key][0]
                inp = {"scenario": s.name, "faults": p[0], "alloc_fail": p[1], "script": scripts[key], "model_script": sc_}
            else:
                s, p, lg = byname[key[4:]], ((), None), ref[key[4:]]
                inp = {"scenario": s.name, "faults": [], "alloc_fail": None, "script": s.script(), "model_script": sc_}
            diffs = list(r.get("diffs", []))
            outb = r.get("out", b"")
            # the bytes the model says were delivered are the bytes the client saw (replies described to the model only)
            if outb and not diffs and outb not in canon_stream(lg.wire):
                diffs.append("bytes delivered according to the model are not what the client received")
            if diffs:
                failures.append(vlib.Failure("diff", "send: model/code differ: " + re.sub(r"\d+", "N", diffs[0])[:120],
                                             "scenario %s plan %s: %s" % (s.name, p, " || ".join(diffs[:4])), inp, ENGINE))
        # 3. MHD_send_hdr_and_body_ without vector send (the TLS-only fall-back), entered directly:
        #    exhaustive over header/body sizes x blocking mode x the answers of the two send() calls
        hab = hab_cases()
        hout, hrc, herr = vlib.run_lines(self.harness, hab, timeout=300)
        mout, mrc, merr = vlib.run_lines(self.driver, hab, timeout=300)
        if hrc != 0 or herr.strip() or len(hout) != len(hab):
            failures.append(vlib.Failure("sanitizer", "send: hdr+body unit run failed", (herr or "rc=%d" % hrc)[-1500:],
                                         {"scenario": "hab-unit", "faults": [], "alloc_fail": None, "script": hab[:len(hout) + 1][-3:]}, ENGINE))
        else:
            for ln, ho, mo in zip(hab, hout, mout + [""] * len(hab)):
                e = hab_oracle(ln, ho)
                if e:
                    failures.append(vlib.Failure("oracle", "send: hdr+body fall-back: " + re.sub(r"\d+", "N", e), "%s -> %s" % (ln, ho),
                                                 {"scenario": "hab-unit", "faults": [], "alloc_fail": None, "script": [ln]}, ENGINE))
                elif ho != mo:
                    failures.append(vlib.Failure("diff", "send: model/code differ on hdr+body fall-back", "%s: code '%s' model '%s'" % (ln, ho, mo),
                                                 {"scenario": "hab-unit", "faults": [], "alloc_fail": None, "script": [ln]}, ENGINE))
        stats["hab"] = len(hab)
        distinct = len({json.dumps([s.name, p[0], p[1]]) for s, p in plans})
        cov = {"evaluations": stats["runs"], "distinct_nontrivial": distinct,
               "rule": "one evaluation = one scripted exchange on the real daemon with one fault plan; distinct = different "
                       "(scenario, fault plan) pairs; every run is checked by the oracle and replayed call-by-call on the Lean model",
               "scenarios": [s.name for s in S],
               "single_fault_points": stats["fault_points"], "single_alloc_points": stats["alloc_points"],
               "multi_fault_plans": stats["multi"], "interim_100_continue_fault_plans": stats.get("interim_points", 0),
               "fault_kinds": kinds, "faults_fired": stats["fired"],
               "runs_connection_closed": stats["closed_runs"], "runs_stream_complete": stats["complete_runs"],
               "model_replies_replayed": stats["model_replies"], "model_calls_compared": stats["model_calls"],
               "upload_calls_compared": stats.get("upload_calls", 0),
               "interim_phases_replayed": stats.get("interim_compared", 0),
               "close_path_replies_compared": stats.get("book_compared", 0),
               "close_path_note": "replies whose model run ended (closed / done): the model's completion notifications (count + termination "
                                  "code) equal the completion callbacks the application got for that request",
               "response_refcount_reads": stats.get("resp_ref_checks", 0),
               "completion_callbacks_seen": stats.get("completions_seen", 0),
               "content_reader_errors_fired": stats.get("reader_errors", 0),
               "content_reader_premature_eos_fired": stats.get("reader_eos_early", 0),
               "alloc_failure_sites": dict(sorted(stats.get("alloc_sites", {}).items())),
               "alloc_failure_sites_note": "library function whose k-th allocation was made to fail (symbolised in-process), with the libc entry "
                                           "point; the library calls malloc and calloc only (no realloc; one strdup in postprocessor.c, not reachable here); "
                                           "allocations of MHD_start_daemon are made before the counter is armed (covered by C09/C20 harnesses)",
               "hdr_body_fallback_cases": stats.get("hab", 0),
               "hdr_body_fallback_note": "exhaustive over 2 header sizes x 3 body sizes x blocking/non-blocking x 14 x 14 answers of the two send() calls; "
                                         "same source text of mhd_send.c compiled without vector send inside the harness",
               "corpus": stats["corpus"],
               "exhaustive": False,
               "exhaustive_note": "single-fault enumeration is complete per scenario in the thorough tier (every call index up to fault-free count + 2, "
                                  "every fault kind, every allocation index); quick tier samples call indices beyond 12",
               "samples": [scripts[0][:12] if scripts else [], (items[0][1][:6] if items else [])]}
        return failures, cov


def replay(ctx, path):
    r = json.load(open(path))
    sp = Spec(); sp.gen(ctx); vlib.lake_build(sp.lean_targets); sp.build(ctx)
    inp = r["input"]
    if inp.get("scenario") == "hab-unit":
        hout, hrc, herr = vlib.run_lines(sp.harness, inp["script"])
        mout, _, _ = vlib.run_lines(sp.driver, inp["script"])
        bad = 0
        for ln, ho, mo in zip(inp["script"], hout, mout):
            e = hab_oracle(ln, ho)
            print(ln, "| code:", ho, "| model:", mo, "| oracle:", e)
            bad += 1 if (e or ho != mo) else 0
        print(herr[-800:])
        return 1 if bad or hrc else 0
    S = {s.name: s for s in corpus("thorough")}
    s = S[inp["scenario"]]
    p = ([tuple(x) for x in inp["faults"]], inp.get("alloc_fail"))
    (ref, _), = sp.run_cases([s.script(count_allocs=True)])
    (lg, err), = sp.run_cases([s.script(faults=p[0], alloc_fail=p[1])])
    bad = oracle(s, p, ref, lg, err)
    for sig, det in bad:
        print("oracle:", sig, "|", det[:600])
    try:
        sc_, ex_ = model_script(s, ref, lg)
        m = sp.model_check([(0, sc_, ex_)])
        for d in m.get(0, {}).get("diffs", []):
            print("diff:", d)
            bad.append(("diff", d))
    except Exception as exn:
        print("model script:", repr(exn))
    print("\n".join(lg.lines[-25:]))
    return 1 if bad else 0
