"""C12 — Digest authentication succeeds iff the credentials are RFC-valid.  Engine `dauth`.

Translator (A): constants of digestauth.c / microhttpd.h / internal.h / <netinet/in.h> -> lean/Mhd/Gen/Dauth.lean.
Correspondence (B): harness/h_dauth.c (a real daemon; the access handler of a real request calls
MHD_digest_auth_check3 / _check_digest3 / the four deprecated wrappers; nonces are issued by the real
calculate_add_nonce inside a handler; virtual clock) against lean/Driver/Dauth.lean on the same scripts.
Oracle: an RFC 7616 / 2617 / 2069 reference in Python (hashlib) over the *semantic* credential the generator
rendered, with a set-based nonce registry; it knows nothing about the Lean model.
"""
import hashlib, json, multiprocessing, os, random, re
import vlib, extract

U32, U48, U64 = 1 << 32, 1 << 48, 1 << 64


# ------------------------------------------------------------------ (A) Gen

def gen_dauth():
    from extract import c_eval, src, prev_value, HEADER, GEN
    P = [("md5Size", "%d", "(int) MD5_DIGEST_SIZE"), ("shaSize", "%d", "(int) SHA256_SHA512_256_DIGEST_SIZE"),
         ("sha256Size", "%d", "(int) SHA256_DIGEST_SIZE"), ("sha512Size", "%d", "(int) SHA512_256_DIGEST_SIZE"),
         ("maxDigest", "%d", "(int) MAX_DIGEST"), ("tmp1Size", "%d", "(int) _MHD_STATIC_UNQ_BUFFER_SIZE"),
         ("maxParam", "%d", "(int) _MHD_AUTH_DIGEST_MAX_PARAM_SIZE"), ("extMinLen", "%d", "(int) MHD_DAUTH_EXT_PARAM_MIN_LEN"),
         ("tsBin", "%d", "(int) TIMESTAMP_BIN_SIZE"),
         ("baseMd5", "%d", "(int) MHD_DIGEST_BASE_ALGO_MD5"), ("baseSha256", "%d", "(int) MHD_DIGEST_BASE_ALGO_SHA256"),
         ("baseSha512", "%d", "(int) MHD_DIGEST_BASE_ALGO_SHA512_256"),
         ("algoNonSession", "%d", "(int) MHD_DIGEST_AUTH_ALGO3_NON_SESSION"), ("algoSession", "%d", "(int) MHD_DIGEST_AUTH_ALGO3_SESSION"),
         ("bindNone", "%d", "(int) MHD_DAUTH_BIND_NONCE_NONE"), ("bindRealm", "%d", "(int) MHD_DAUTH_BIND_NONCE_REALM"),
         ("bindUri", "%d", "(int) MHD_DAUTH_BIND_NONCE_URI"), ("bindUriParams", "%d", "(int) MHD_DAUTH_BIND_NONCE_URI_PARAMS"),
         ("bindClientIp", "%d", "(int) MHD_DAUTH_BIND_NONCE_CLIENT_IP"),
         ("mthdOther", "%d", "(int) MHD_HTTP_MTHD_OTHER"), ("mthdGet", "%d", "(int) MHD_HTTP_MTHD_GET"),
         ("mthdHead", "%d", "(int) MHD_HTTP_MTHD_HEAD"), ("mthdPost", "%d", "(int) MHD_HTTP_MTHD_POST"),
         ("mthdPut", "%d", "(int) MHD_HTTP_MTHD_PUT"), ("mthdDelete", "%d", "(int) MHD_HTTP_MTHD_DELETE"),
         ("mthdConnect", "%d", "(int) MHD_HTTP_MTHD_CONNECT"), ("mthdOptions", "%d", "(int) MHD_HTTP_MTHD_OPTIONS"),
         ("mthdTrace", "%d", "(int) MHD_HTTP_MTHD_TRACE"),
         ("afInet", "%d", "(int) AF_INET"), ("afInet6", "%d", "(int) AF_INET6"),
         ("familyOff", "%zu", "offsetof (struct sockaddr_storage, ss_family)"),
         ("familySize", "%zu", "sizeof (((struct sockaddr_storage *) 0)->ss_family)"),
         ("sinAddrOff", "%zu", "offsetof (struct sockaddr_in, sin_addr)"),
         ("sinAddrLen", "%zu", "sizeof (((struct sockaddr_in *) 0)->sin_addr)"),
         ("sinSize", "%zu", "sizeof (struct sockaddr_in)"),
         ("sin6AddrOff", "%zu", "offsetof (struct sockaddr_in6, sin6_addr)"),
         ("sin6AddrLen", "%zu", "sizeof (((struct sockaddr_in6 *) 0)->sin6_addr)"),
         ("sin6Size", "%zu", "sizeof (struct sockaddr_in6)"),
         ("littleEndian", "%d", "(int) (*(const unsigned char *) &(const unsigned short){1})"),
         ("algAuto", "%d", "(int) MHD_DIGEST_ALG_AUTO"), ("algMd5", "%d", "(int) MHD_DIGEST_ALG_MD5"),
         ("algSha256", "%d", "(int) MHD_DIGEST_ALG_SHA256"),
         ("malgoAnyNonSession", "%d", "(int) MHD_DIGEST_AUTH_MULT_ALGO3_ANY_NON_SESSION"),
         ("malgoMd5", "%d", "(int) MHD_DIGEST_AUTH_MULT_ALGO3_MD5"), ("malgoSha256", "%d", "(int) MHD_DIGEST_AUTH_MULT_ALGO3_SHA256"),
         ("malgoSha512", "%d", "(int) MHD_DIGEST_AUTH_MULT_ALGO3_SHA512_256"),
         ("mqopAuth", "%d", "(int) MHD_DIGEST_AUTH_MULT_QOP_AUTH"), ("mqopNone", "%d", "(int) MHD_DIGEST_AUTH_MULT_QOP_NONE"),
         ("mqopAnyNonInt", "%d", "(int) MHD_DIGEST_AUTH_MULT_QOP_ANY_NON_INT"),
         ("getArgKind", "%d", "(int) MHD_GET_ARGUMENT_KIND"),
         ("yes", "%d", "(int) MHD_YES"), ("no", "%d", "(int) MHD_NO"), ("invalidNonce", "%d", "(int) MHD_INVALID_NONCE"),
         ("m_get", "%s", "MHD_HTTP_METHOD_GET"), ("m_head", "%s", "MHD_HTTP_METHOD_HEAD"), ("m_post", "%s", "MHD_HTTP_METHOD_POST"),
         ("m_put", "%s", "MHD_HTTP_METHOD_PUT"), ("m_delete", "%s", "MHD_HTTP_METHOD_DELETE"),
         ("m_connect", "%s", "MHD_HTTP_METHOD_CONNECT"), ("m_options", "%s", "MHD_HTTP_METHOD_OPTIONS"),
         ("m_trace", "%s", "MHD_HTTP_METHOD_TRACE")]
    RES = ["OK", "ERROR", "WRONG_HEADER", "WRONG_USERNAME", "WRONG_REALM", "WRONG_URI", "WRONG_QOP", "WRONG_ALGO",
           "TOO_LARGE", "NONCE_STALE", "NONCE_OTHER_COND", "NONCE_WRONG", "RESPONSE_WRONG"]
    P += [("res_" + r, "%d", "(int) MHD_DAUTH_" + r) for r in RES]
    v = c_eval('#include "MHD_config.h"\n#include <stddef.h>\n#include "digestauth.c"\n', P,
               extra=["-ffunction-sections", "-fdata-sections", "-Wl,--gc-sections"])
    s = src("src/microhttpd/digestauth.c")
    m = re.search(r"else if \((\d+) \* (\d+) < params->nc\.value\.len\)", s)
    ncmax = str(int(m.group(1)) * int(m.group(2))) if m else prev_value("Dauth.lean", "ncMaxRaw", "32")
    # the order of the method if-chain of parse_http_std_method (first match wins; all names distinct)
    out = [HEADER % "src/microhttpd/{digestauth.c,digestauth.h,internal.h,connection.c}, src/include/microhttpd.h, <netinet/in.h>",
           "namespace Mhd.Gen.Dauth\n"]
    nat = ["md5Size", "sha256Size", "sha512Size", "maxDigest", "tmp1Size", "maxParam", "extMinLen", "tsBin",
           "baseMd5", "baseSha256", "baseSha512", "algoNonSession", "algoSession",
           "bindNone", "bindRealm", "bindUri", "bindUriParams", "bindClientIp",
           "mthdOther", "mthdGet", "mthdHead", "afInet", "afInet6", "familyOff", "familySize", "sinAddrOff", "sinAddrLen",
           "sinSize", "sin6AddrOff", "sin6AddrLen", "sin6Size", "littleEndian",
           "algAuto", "algMd5", "algSha256", "malgoAnyNonSession", "malgoMd5", "malgoSha256", "malgoSha512",
           "mqopAuth", "mqopNone", "mqopAnyNonInt", "getArgKind"]
    for n in nat:
        out.append("def %s : Nat := %s\n" % (n, v[n]))
    out.append("/-- the `4 * 8` of `4 * 8 < params->nc.value.len` -/\ndef ncMaxRaw : Nat := %s\n" % ncmax)
    out.append("def legacyYes : Int := %s\ndef legacyNo : Int := %s\ndef legacyInvalidNonce : Int := %s\n"
               % (v["yes"], v["no"], v["invalidNonce"]))
    lst = lambda b: "[" + ", ".join(str(x) for x in b) + "]"
    meth = [("get", "mthdGet"), ("head", "mthdHead"), ("post", "mthdPost"), ("put", "mthdPut"), ("delete", "mthdDelete"),
            ("connect", "mthdConnect"), ("options", "mthdOptions"), ("trace", "mthdTrace")]
    out.append("/-- `parse_http_std_method`: method token -> `enum MHD_HTTP_Method` -/\n"
               "def stdMethods : List (List UInt8 × Nat) := [%s]\n"
               % ", ".join("(%s, %s)" % (lst(v["m_" + a].encode()), v[b]) for a, b in meth))
    out.append("/-- `enum MHD_DigestAuthResult` -/\n"
               "def resultCodes : List (String × Int) := [%s]\n"
               % ", ".join('("%s", %s)' % (r, v["res_" + r]) for r in RES))
    out.append("end Mhd.Gen.Dauth\n")
    return vlib.write_if_changed(os.path.join(GEN, "Dauth.lean"), "".join(out))


# ------------------------------------------------------- independent reference

def _sha512_256(b=b""):
    try:
        return hashlib.new("sha512_256", b)
    except ValueError:
        return _PySha512_256(b)


class _PySha512_256:
    """pure-Python SHA-512/256 (FIPS 180-4), used only when hashlib lacks it"""
    K = None

    def __init__(self, b=b""):
        self.m = bytes(b)

    def update(self, b):
        self.m += bytes(b)

    @classmethod
    def _k(cls):
        if cls.K is None:
            def primes(n):
                ps, c = [], 2
                while len(ps) < n:
                    if all(c % p for p in ps):
                        ps.append(c)
                    c += 1
                return ps

            def icbrt(n):
                x = int(round(n ** (1.0 / 3)))
                while x ** 3 > n:
                    x -= 1
                while (x + 1) ** 3 <= n:
                    x += 1
                return x
            cls.K = [icbrt(p << 192) & ((1 << 64) - 1) for p in primes(80)]
        return cls.K

    def digest(self):
        M = (1 << 64) - 1
        rotr = lambda x, n: ((x >> n) | (x << (64 - n))) & M
        H = [0x22312194FC2BF72C, 0x9F555FA3C84C64C2, 0x2393B86B6F53B151, 0x963877195940EABD, 0x96283EE2A88EFFE3, 0xBE5E1E2553863992, 0x2B0199FC2C85B8AA, 0x0EB72DDC81C52CA2]
        K = self._k()
        m = self.m + b"\x80" + b"\0" * ((111 - len(self.m)) % 128) + (8 * len(self.m)).to_bytes(16, "big")
        for o in range(0, len(m), 128):
            w = [int.from_bytes(m[o + 8 * i:o + 8 * i + 8], "big") for i in range(16)]
            for t in range(16, 80):
                s0 = rotr(w[t - 15], 1) ^ rotr(w[t - 15], 8) ^ (w[t - 15] >> 7)
                s1 = rotr(w[t - 2], 19) ^ rotr(w[t - 2], 61) ^ (w[t - 2] >> 6)
                w.append((w[t - 16] + s0 + w[t - 7] + s1) & M)
            a, b, c, d, e, f, g, h = H
            for t in range(80):
                t1 = (h + (rotr(e, 14) ^ rotr(e, 18) ^ rotr(e, 41)) + ((e & f) ^ (~e & g)) + K[t] + w[t]) & M
                t2 = ((rotr(a, 28) ^ rotr(a, 34) ^ rotr(a, 39)) + ((a & b) ^ (a & c) ^ (b & c))) & M
                a, b, c, d, e, f, g, h = (t1 + t2) & M, a, b, c, (d + t1) & M, e, f, g
            H = [(x + y) & M for x, y in zip(H, [a, b, c, d, e, f, g, h])]
        return b"".join(x.to_bytes(8, "big") for x in H)[:32]

    def hexdigest(self):
        return self.digest().hex()


ALGOS = ["MD5", "SHA-256", "SHA-512-256"]
HASH = {"MD5": hashlib.md5, "SHA-256": hashlib.sha256, "SHA-512-256": _sha512_256}
DSIZE = {"MD5": 16, "SHA-256": 32, "SHA-512-256": 32}
ALGO3 = {"MD5": 65, "SHA-256": 66, "SHA-512-256": 68}
BASEBIT = {"MD5": 1, "SHA-256": 2, "SHA-512-256": 4}
BIND_REALM, BIND_URI, BIND_ARGS, BIND_IP = 1, 2, 4, 8
REUSE_MS = 30000
GUARD = U32 - 1 - 64
HEXD = b"0123456789abcdefABCDEF"
STD_METHODS = {b"GET": 1, b"HEAD": 2, b"POST": 3, b"PUT": 4, b"DELETE": 5, b"CONNECT": 6, b"OPTIONS": 7, b"TRACE": 8}


def Hb(algo, data):
    return HASH[algo](data).digest()


def Hx(algo, data):
    return HASH[algo](data).hexdigest().encode()


def hx(b):
    return b.hex() if b else "-"


def ref_pct(s, strict):
    """RFC 3986 percent-decoding.  strict: None when broken; lenient: a stray '%' stays"""
    out, i = bytearray(), 0
    while i < len(s):
        if s[i] == 0x25:
            h = s[i + 1:i + 3]
            if len(h) == 2 and h[0] in HEXD and h[1] in HEXD:
                out.append(int(h.decode(), 16)); i += 3; continue
            if strict:
                return None
        out.append(s[i]); i += 1
    return bytes(out)


def ref_unescape(s, strict):
    d = ref_pct(s, strict)
    return b"" if d is None else d


def ref_args(query, strict):
    """the key/value pairs of a query string as the library reports them: split on '&' (an empty
    last piece is no argument), then on the first '=', '+' means space, then percent-decoding"""
    if query == b"":
        return []
    pieces = query.split(b"&")
    if pieces[-1] == b"":
        pieces.pop()
    out = []
    for p in pieces:
        k, eq, v = p.partition(b"=")
        dec = lambda x: ref_unescape(x.replace(b"+", b" "), strict)
        out.append((dec(k), dec(v) if eq else None))
    return out


def ref_target(target, strict):
    path, q, query = target.partition(b"?")
    return ref_unescape(path, strict), (ref_args(query, strict) if q else [])


def norm_args(a):
    return [(k, v or b"") for k, v in a]


def fsh(data):
    """fast_simple_hash re-stated: the oracle has to know which nonces share a table slot"""
    if not data:
        return 0
    h = data[0]
    for d in data[1:]:
        h = (((h << 7) | (h >> 25)) & 0xFFFFFFFF) ^ d
    return h


def ref_ip(addr):
    if len(addr) == 16 and addr[0] == 2:
        return addr[4:8]
    if len(addr) == 28 and addr[0] == 10:
        return addr[8:24]
    return b""


def ref_response(algo, user, realm, secret, method, uri, nonce, qop_txt, nc_txt, cnonce):
    """RFC 7616 3.4.1 / RFC 2069: secret = ("pw", password) or ("dg", H(A1) bytes)"""
    ha1 = Hx(algo, user + b":" + realm + b":" + secret[1]) if secret[0] == "pw" else secret[1].hex().encode()
    ha2 = Hx(algo, method + b":" + uri)
    if qop_txt is None:
        return Hx(algo, ha1 + b":" + nonce + b":" + ha2)
    return Hx(algo, ha1 + b":" + nonce + b":" + nc_txt + b":" + cnonce + b":" + qop_txt + b":" + ha2)


def ref_ext_username(v):
    """RFC 5987 ext-value restricted to UTF-8: the decoded name or None"""
    if len(v) < 7 or v[:6].lower() != b"utf-8'":
        return None
    rest = v[6:]
    q = rest.find(b"'")
    if q < 0 or any(c in b" \t\",;" for c in rest[:q]):
        return None
    return ref_pct(rest[q + 1:], True)


class Oracle:
    """The property over what the real code answered, per daemon.

    V1 a check answers OK iff the credential is valid:  algorithm known, non-session, allowed by the
       application; qop absent or `auth`, allowed; exactly one user-name notation that denotes the expected
       user (plain: equal; userhash: case-insensitive hex of H(user:realm); extended: UTF-8''pct-encoded);
       realm equal; for qop=auth an nc of 1..16 hex digits (as sent at most 32 characters) with
       0 < value <= max_nc and a non-empty cnonce; the nonce was issued by this daemon, is the one registered
       last in its table slot, is not older than the timeout, its count is new, below the guard and at most 64
       behind the highest used one; the uri denotes the request's path and arguments (after decoding, position
       by position); the response is the RFC value (hex, either case); with a binding option the nonce was
       issued under the same realm / path+method class / arguments / client IP.
    V2 a count is consumed exactly when everything up to and including the nonce-table test held.
    V3 a labelled single-field mutation of a valid credential is answered with (one of) the labelled class(es).
    V4 the deprecated functions answer YES for OK, INVALID_NONCE for the three nonce classes, NO otherwise.
    V5 issued nonces have the documented format and embed the clock value; registration follows the table policy
       (empty slot / used nonce / unused nonce older than 30 s gives way)."""

    def __init__(self, cfg):
        self.cfg = cfg
        self.now = 0
        self.addr = b""
        self.slots = {}

    def idx(self, nonce):
        return fsh(nonce) % self.cfg["nnc"] if self.cfg["nnc"] else None

    def on_issue(self, out, algo, realm, req):
        w = out.split()
        if len(w) != 2 or w[0] not in ("added", "refused"):
            return "issue answered " + out
        nonce = bytes.fromhex(w[1])
        ds = DSIZE[algo]
        if len(nonce) != 2 * ds + 12 or any(c not in b"0123456789abcdef" for c in nonce) \
                or int(nonce[-12:], 16) != self.now % U48:
            return "issued nonce does not have the documented format / embedded time"
        if not self.cfg["nnc"]:
            return None if w[0] == "refused" else "registered without a table"
        i = self.idx(nonce)
        cur = self.slots.get(i)
        if cur is None:
            exp = "added"
        elif cur["nonce"][:len(nonce)] == nonce:
            exp = "refused"
        elif cur["used"]:
            exp = "added"
        elif ((self.now - cur["ts"]) % U64) % U48 > REUSE_MS:
            exp = "added"
        else:
            exp = "refused"
        if w[0] == "added":
            self.slots[i] = {"nonce": nonce, "ts": self.now, "used": set(), "algo": algo, "realm": realm,
                             "ip": ref_ip(self.addr), "addr": self.addr, "req": req}
        if w[0] != exp:
            return "nonce registration: expected %s, code says %s" % (exp, w[0])
        return None

    def valid(self, sem, rawlen, req, call):
        """(valid, consumed-count or None, reason) for a semantic credential `sem` (dict name -> bytes)"""
        cfg = self.cfg
        g = lambda k: sem.get(k)
        # algorithm
        a = g(b"algorithm")
        algo = "MD5" if a is None else {x.lower(): x for x in ALGOS}.get(a.decode("latin1").lower())
        if algo is None or not (call["malgo3"] & BASEBIT[algo]) or not (call["malgo3"] & 64):
            return False, None, "algorithm"
        ds = DSIZE[algo]
        # qop
        q = g(b"qop")
        if q is None:
            qop = None
            if not (call["mqop"] & 1):
                return False, None, "qop"
        elif q.lower() == b"auth":
            qop = q
            if not (call["mqop"] & 2):
                return False, None, "qop"
        else:
            return False, None, "qop"
        # user name
        uh = (g(b"userhash") or b"").lower() == b"true"
        un, ue = g(b"username"), g(b"username*")
        if (un is None) == (ue is None):
            return False, None, "username-presence"
        if uh:
            if un is None or un.lower() != Hx(algo, call["user"] + b":" + call["realm"]):
                return False, None, "userhash"
        elif un is not None:
            if un != call["user"]:
                return False, None, "username"
        else:
            if ref_ext_username(ue) != call["user"] or ue is None:
                return False, None, "username*"
        for k in (b"realm", b"uri", b"nonce", b"response"):
            if g(k) is None:
                return False, None, "missing " + k.decode()
        if (rawlen.get(b"realm", 0) > 65535 and (call["secret"][0] == "pw" or uh)) or rawlen.get(b"uri", 0) > 65535 \
                or (qop is not None and rawlen.get(b"cnonce", 0) > 65535) or (ue is not None and rawlen.get(b"username*", 0) > 65535 + 6):
            return False, None, "size limit"
        if g(b"realm") != call["realm"]:
            return False, None, "realm"
        # nc / cnonce
        if qop is not None:
            nc, cn = g(b"nc"), g(b"cnonce")
            if nc is None or not nc or rawlen.get(b"nc", len(nc)) > 32 or any(c not in HEXD for c in nc) \
                    or int(nc, 16) >= U64 or not cn:
                return False, None, "nc/cnonce"
            c = int(nc, 16)
            if c == 0:
                return False, None, "nc zero"
            mx = call["max_nc"] or cfg["def_max_nc"]
            if c > mx:
                return False, None, "nc above max"
        else:
            nc, cn, c = None, None, 1
        if g(b"uri") == b"":
            return False, None, "uri empty"
        # presence / size of the response is looked at before the nonce (a count is not consumed for such a credential)
        if g(b"response") == b"" or rawlen.get(b"response", len(g(b"response"))) > 4 * ds:
            return False, None, "response"
        # nonce: issued, registered last in its slot, fresh, count new
        n = g(b"nonce")
        if len(n) != 2 * ds + 12 or any(ch not in HEXD for ch in n[-12:]):
            return False, None, "nonce format"
        ts = int(n[-12:], 16)
        tmo = call["timeout"] or cfg["def_timeout"]
        if ((self.now - ts) % U64) % U48 > (tmo * 1000) % U32:
            return False, None, "nonce expired"
        cur = self.slots.get(self.idx(n)) if cfg["nnc"] else None
        if cur is None or cur["nonce"] != n:
            return False, None, "nonce not registered"
        hi = max(cur["used"]) if cur["used"] else 0
        if c >= GUARD or c in cur["used"] or c + 64 < hi:
            return False, None, "count used / behind window"
        # from here on the count is consumed (V2)
        if rawlen.get(b"uri", 0) == 65535:
            return False, c, "size limit"                  # the copy needs one byte more than the limit allows
        upath, qm, uquery = g(b"uri").partition(b"?")
        if ref_unescape(upath, cfg["strict"]) != req["url"] or \
                norm_args(ref_args(uquery, cfg["strict"]) if qm else []) != norm_args(req["args"]):
            return False, c, "uri"
        r = g(b"response")
        exp = ref_response(algo, call["user"], call["realm"], call["secret"], req["method"], g(b"uri"), n,
                           qop, nc, cn)
        if len(r) not in (2 * ds, 2 * ds - 1) or any(ch not in HEXD for ch in r) or int(r, 16) != int(exp, 16):
            return False, c, "response"
        b = cfg["bind"]
        if b:
            was = cur["req"]
            if (b & BIND_REALM and cur["realm"] != call["realm"]) or (b & BIND_IP and cur["ip"] != ref_ip(self.addr)) \
                    or (b & BIND_URI and (was["url"] != req["url"] or mclass(was["method"]) != mclass(req["method"]))) \
                    or (b & BIND_ARGS and [(k, v or b"") for k, v in was["args"]] != [(k, v or b"") for k, v in req["args"]]):
                return False, c, "binding"
        return True, c, "valid"

    def consume(self, sem, c):
        n = sem.get(b"nonce")
        cur = self.slots.get(self.idx(n)) if self.cfg["nnc"] else None
        if cur is not None and cur["nonce"] == n:
            cur["used"].add(c)


def mclass(m):
    return b"GET" if m == b"HEAD" else m


STACK_BUF = 128


def heap_needs(sem, rawlen):
    """V6 (allocation failure).  The check unquotes into a 128-byte stack buffer and asks malloc for anything larger:
    every value sent with quoted pairs needs its length as sent, the uri always needs its length as sent plus one,
    the user name in extended notation needs its length as sent minus 6.  Returns (needs before the nonce-table
    test, needs after it): names of the parameters of this header whose request exceeds the stack buffer.
    With malloc failing, a credential that is valid and has such a need must be answered ERROR (deprecated
    functions: NO), never OK; a need before the table test leaves the count unconsumed; without any need the answer
    must be what it is when malloc works."""
    esc = rawlen.get("esc", set())
    qop = sem.get(b"qop") is not None
    uh = (sem.get(b"userhash") or b"").lower() == b"true"
    big = lambda k: k in esc and rawlen.get(k, 0) > STACK_BUF
    pre, post = [], []
    if sem.get(b"username") is None and sem.get(b"username*") is not None and not uh and rawlen.get(b"username*", 0) - 6 > STACK_BUF:
        pre.append("username*")
    if qop and big(b"nc"):
        pre.append("nc")
    if big(b"nonce"):
        pre.append("nonce")
    if rawlen.get(b"uri", 0) + 1 > STACK_BUF:
        post.append("uri")
    if big(b"response"):
        post.append("response")
    if qop:
        post += [k.decode() for k in (b"cnonce", b"qop") if big(k)]
    return pre, post


NONCE_CLASSES = ("NONCE_STALE", "NONCE_WRONG", "NONCE_OTHER_COND")


# ------------------------------------------------------------- generators

TEXT = b"abcXYZ019 _-.@/:=,;\"\\\t!#'%+\xc3\xa4\x80\xff"
SAFE = b"abcdefghijklmnopqrstuvwxyzABCDEFGHIJKLMNOPQRSTUVWXYZ0123456789-._~"
TCHAR = b"!#$%&'*+-.^_`|~0123456789abcdefghijklmnopqrstuvwxyzABCDEFGHIJKLMNOPQRSTUVWXYZ"
METHODS = [b"GET", b"GET", b"GET", b"POST", b"HEAD", b"PUT", b"DELETE", b"OPTIONS", b"PATCH", b"M-SEARCH"]


def rnd_bytes(rng, alpha, lo, hi):
    return bytes(rng.choice(alpha) for _ in range(rng.randint(lo, hi)))


def enc_component(rng, comp, must, plus=False, extra=0.15):
    """percent-encode a decoded component: bytes in `must`, controls, space, non-ASCII always (space may be
    '+' inside a query), any other byte with probability `extra`"""
    out = bytearray()
    for c in comp:
        if plus and c == 0x20 and rng.random() < 0.6:
            out += b"+"
        elif c in must or c <= 0x20 or c >= 0x7f or c == 0x25 or (plus and c == 0x2b) or rng.random() < extra:
            out += (b"%%%02X" if rng.random() < 0.7 else b"%%%02x") % c
        else:
            out.append(c)
    return bytes(out)


def rnd_components(rng):
    segs = [rnd_bytes(rng, b"abcxyz019-._~ +&=%\xc3\xa4:@!", 0, 6) for _ in range(rng.choice([0, 1, 1, 2, 3]))]
    path = b"/" + b"/".join(segs)
    args = []
    if rng.random() < 0.65:
        for _ in range(rng.choice([1, 1, 2, 3, 5])):
            k = rnd_bytes(rng, b"abk019_-. +&=%\xc3\xa4", 0 if rng.random() < 0.07 else 1, 5)
            r = rng.random()
            v = None if r < 0.25 else b"" if r < 0.35 else rnd_bytes(rng, b"vwx019 +&=%/?\xc3\xa4\xff", 1, 7)
            args.append((k, v))
    return path, args


def spell_target(rng, path, args, extra=0.15):
    """one spelling of (path, args); '?' alone and empty pieces appear as a client may write them"""
    t = b"/" + enc_component(rng, path[1:], b"?#", extra=extra)
    if args or rng.random() < 0.05:
        pieces = []
        for k, v in args:
            p = enc_component(rng, k, b"&=#", plus=True, extra=extra)
            if v is not None:
                p += b"=" + enc_component(rng, v, b"&#", plus=True, extra=extra)
            pieces.append(p)
        t += b"?" + b"&".join(pieces)
        if args and args[-1][0] != b"" and rng.random() < 0.08:
            t += b"&"                                   # an empty last piece is no argument
    return t


def quote_value(rng, v, extra):
    out = bytearray(b'"')
    for c in v:
        if c in (0x22, 0x5c) or rng.random() < extra:
            out.append(0x5c)
        out.append(c)
    out.append(0x22)
    return bytes(out)


def quote_forced(v, mode):
    """quoted-string with a quoted pair at the first byte ("esc1") or at every byte ("escall")"""
    out = bytearray(b'"')
    for i, c in enumerate(v):
        if mode == "escall" or i == 0 or c in (0x22, 0x5c):
            out.append(0x5c)
        out.append(c)
    out.append(0x22)
    return bytes(out)


def rnd_ws(rng, p):
    return rnd_bytes(rng, b" \t ", 1, 2) if rng.random() < p else b""


def rnd_case(rng, name):
    r = rng.random()
    if r < 0.6:
        return name
    if r < 0.75:
        return name.upper()
    return bytes((c - 32 if (97 <= c <= 122 and rng.random() < 0.5) else c) for c in name)


TOKEN_PREF = {b"algorithm": 0.8, b"qop": 0.7, b"nc": 0.8, b"userhash": 0.8, b"username*": 0.95}


def render(rng, sem, style=None, force=None):
    """one rendering of the semantic parameters (RFC 7235 #auth-param): order, letter case of names,
    optional white space, token or quoted-string, arbitrary quoted-pairs, extension parameters and empty
    list elements.  Returns (header value, {name: length of the value as sent without the DQUOTEs}); the
    dict also has the entry "esc": the set of names whose value as sent contains a quoted pair.
    `force` = {name: "esc1" (quoted, exactly the first byte escaped) | "escall" (quoted, every byte escaped)}."""
    force = force or {}
    style = style or rng.choice(["canon", "canon", "wild", "wild", "esc"])
    names = list(sem.keys())
    if style != "canon":
        rng.shuffle(names)
        for _ in range(rng.choice([0, 0, 1])):
            names.insert(rng.randint(0, len(names)), None)
    out = bytearray(rng.choice([b"Digest", b"Digest", b"digest", b"DIGEST", b"dIgEsT"]) if style != "canon" else b"Digest")
    out += b" " if style == "canon" or rng.random() < 0.8 else rng.choice([b"\t", b"  ", b" \t"])
    rawlen = {}
    first = True
    wsp = 0.0 if style == "canon" else 0.25
    for nm in names:
        if not first:
            out += b"," + (b" " if style == "canon" else rnd_ws(rng, 0.6))
            if style != "canon" and rng.random() < 0.05:
                out += b"," + rnd_ws(rng, 0.3)
        first = False
        if nm is None:
            en = rng.choice([b"x-ext", b"stale", b"domain", b"nonce2", b"user"])
            ev = rnd_bytes(rng, TEXT, 0, 6)
            out += en + b"=" + quote_value(rng, ev, 0.1)
            continue
        v = sem[nm]
        tokenable = len(v) > 0 and all(c in TCHAR for c in v)
        if style == "canon":
            as_token = nm in TOKEN_PREF and tokenable
        else:
            as_token = tokenable and rng.random() < TOKEN_PREF.get(nm, 0.15)
        if force.get(nm) in ("esc1", "escall") and len(v) > 0:
            as_token = False
            body = quote_forced(v, force[nm])
            rl = len(body) - 2
        elif as_token:
            body, rl = v, len(v)
        else:
            ex = 0.0 if style != "esc" else rng.choice([0.1, 0.5, 1.0])
            if nm == b"username*":
                ex = 0.0                                # ext-value is a token in RFC 7616; quoted without pairs is tolerated
            body = quote_value(rng, v, ex)
            rl = len(body) - 2
        rawlen[nm] = rl
        if not as_token and b"\\" in body:
            rawlen.setdefault("esc", set()).add(nm)
        out += (nm if style == "canon" else rnd_case(rng, nm)) + rnd_ws(rng, wsp) + b"=" + rnd_ws(rng, wsp) + body + rnd_ws(rng, wsp)
    return bytes(out).rstrip(b" \t"), rawlen


def rnd_addr(rng):
    r = rng.random()
    if r < 0.2:
        return b""
    if r < 0.75:
        return bytes([2, 0]) + rng.randint(1024, 65535).to_bytes(2, "big") + bytes([rng.choice([10, 127, 192]), 0, 0, rng.randint(1, 3)]) + bytes(8)
    return bytes([10, 0]) + rng.randint(1024, 65535).to_bytes(2, "big") + bytes(4) + bytes(15) + bytes([rng.randint(1, 3)]) + bytes(4)


def other_ip(addr, rng):
    if len(addr) == 16:
        return addr[:7] + bytes([addr[7] ^ 0x10]) + addr[8:]
    if len(addr) == 28:
        return addr[:23] + bytes([addr[23] ^ 0x10]) + addr[24:]
    return bytes([2, 0, 0x10, 0x00, 10, 9, 9, 9]) + bytes(8)


def other_port(addr):
    return addr[:2] + bytes([addr[2] ^ 1]) + addr[3:] if addr else addr


def flip_hex(rng, s, lo=0, hi=None):
    hi = len(s) if hi is None else hi
    i = rng.randrange(lo, hi)
    c = s[i:i + 1]
    n = b"0123456789abcdef"
    d = bytes([rng.choice([x for x in n if bytes([x]) != c.lower()])])
    return s[:i] + d + s[i + 1:]


class Session:
    """plans one daemon life: the script lines and, per line, what the oracle needs"""

    def __init__(self, rng, thorough=False):
        self.rng = rng
        self.lines, self.meta = [], []
        self.thorough = thorough

    def emit(self, line, **meta):
        self.lines.append(line)
        self.meta.append(meta)

    def req_line(self, method, target, header, action):
        return "req %s %s %s %s" % (method.decode(), hx(target), hx(header) if header is not None else "-", action)

    def plan_prefix(self):
        rng = self.rng
        strict = rng.random() < 0.8
        bind = rng.choice([0, 0, 0, 1, 2, 6, 8, 9, 3, 15, 4, 10])
        cfg = {"bind": bind | (2 if bind & 4 else 0), "nnc": rng.choice([1, 2, 3, 8, 8, 50]), "rnd": rnd_bytes(rng, TEXT, 0, 12),
               "def_timeout": rng.choice([90, 90, 5, 300]), "def_max_nc": rng.choice([1000, 1000, 20, 4000000000]),
               "strict": strict}
        self.cfg = cfg
        self.emit("daemon %d %d %s %d %d %d" % (bind, cfg["nnc"], hx(cfg["rnd"]), cfg["def_timeout"], cfg["def_max_nc"],
                                               1 if strict else 0), kind="daemon", cfg=cfg)
        now = rng.choice([5000, 1000, 123456789, U48 - 2000, U48 + 7, U64 - 40000, 3 * U48 - 100, rng.randrange(U48)])
        self.emit("clock %d" % now, kind="clock", now=now)
        addr = rnd_addr(rng)
        self.emit("conn " + hx(addr), kind="conn", addr=addr)
        # the protected resource and the account
        path, args = rnd_components(rng)
        long_path = rng.random() < 0.12
        if long_path:                                    # the uri copy then needs more than the 128-byte stack buffer
            path = path.rstrip(b"/") + b"/" + rnd_bytes(rng, SAFE, 110, 300)
        method = rng.choice(METHODS)
        target = spell_target(rng, path, args)
        user = rnd_bytes(rng, TEXT, 0 if rng.random() < 0.05 else 1, 10)
        realm = rnd_bytes(rng, TEXT, 0 if rng.random() < 0.05 else 1, 12)
        pw = rnd_bytes(rng, TEXT, 0, 10)
        algo = rng.choice(ALGOS)
        # issue a nonce inside a request for that resource (HEAD/GET are one class for the nonce)
        imethod = b"GET" if method == b"HEAD" and rng.random() < 0.7 else method
        req0 = self.reqinfo(imethod, target, strict)
        self.emit(self.req_line(imethod, target, None, "issue %d %s" % (ALGOS.index(algo), hx(realm))),
                  kind="issue", algo=algo, realm=realm, req=req0)
        self.st = {"cfg": cfg, "now": now, "addr": addr, "path": path, "args": args, "method": method, "target": target,
                   "user": user, "realm": realm, "pw": pw, "algo": algo, "nonce": None, "nc": 0, "strict": strict,
                   "long_path": long_path}
        return self

    def plan_rest(self, nonce):
        """second phase: `nonce` is what the real calculate_add_nonce made for the issue request (the scripts do not
        depend on how the daemon derives its nonces)"""
        rng = self.rng
        st = self.st
        st["nonce"] = nonce
        st["t0"] = st["now"]
        algo = st["algo"]
        qop = rng.random() < 0.8
        st["qop"] = qop
        st["notation"] = rng.choice(["plain", "plain", "userhash", "ext"])
        n_valid = 0
        do_alloc = rng.random() < (0.8 if st["long_path"] else 0.3)
        if do_alloc and not qop:
            n_valid += self.alloc_phase(st)               # RFC 2069: while the one-time nonce is still unused
        # 1. the credential in several renderings / API functions
        for api in self.api_plan(rng, algo, qop):
            self.check(st, api=api)
            n_valid += 1
            if not qop:
                break                                     # RFC 2069: the nonce is one-time
        if do_alloc and qop:
            self.alloc_phase(st)
        # 2. single-field mutations, each on a fresh count
        muts = list(MUTATIONS)
        rng.shuffle(muts)
        for mname in muts[:(12 if self.thorough else 8)]:
            if not qop and n_valid and mname not in PRE_TABLE_MUTS:
                continue                                  # the one-time nonce is spent
            self.check(st, mutation=mname)
        # 3. count window / replay / clock
        if qop:
            if rng.random() < 0.5:
                modes = [rng.choice(["far", "jump64"])] + rng.sample(["edge64", "edge65", "edge63", "replay", "back"], 3)
            else:
                modes = [rng.choice(["replay", "skip", "back", "jump64", "far", "upper", "short", "long"])
                         for _ in range(rng.choice([1, 2, 3]))]
            for md in modes:
                self.check(st, nc_mode=md)
            # the lifetime the application asks for through each entry point (different from the daemon default):
            # the clock crosses (or just does not cross) the requested lifetime but not the default one, and counts
            # above the lifetime's numeric value are presented
            L = rng.choice([2, 5, 30, 2, 5, 7])
            age = L * 1000 + rng.choice([-1000, -1, 0, 1, 1, 500, 1000])
            st["now"] = (st["t0"] + age) % U64
            self.emit("clock %d" % st["now"], kind="clock", now=st["now"])
            apis = self.all_apis(algo, qop)
            rng.shuffle(apis)
            for api in apis[:rng.choice([3, 4, 6])]:
                self.check(st, api=api, timeout=L, nc_mode=rng.choice([None, "skip31", "skip31"]))
            for api in apis[-2:]:
                self.check(st, api=api, timeout=L + rng.choice([1, 2, 40]), nc_mode="skip31")
            step = rng.choice([1, 4999, 5001, 89999, 90001, 299999, 300001, 1000000, U48 // 2, U48 - 1])
            st["now"] = (st["now"] + step) % U64
            self.emit("clock %d" % st["now"], kind="clock", now=st["now"])
            self.check(st)
            self.check(st, timeout=rng.choice([1, 5, 90, 300, 4294967, 4294968]))
        self.emit("state", kind="state")
        return self

    def alloc_phase(self, st):
        """V6: credentials with a parameter that does not fit the 128-byte stack buffer (and controls that do fit),
        presented while every malloc of the check fails (`failmalloc 1`) and while malloc works.  Returns the number
        of checks that may have consumed the count."""
        rng = self.rng
        algo, qop = st["algo"], st["qop"]
        kinds = ["none", "ext", "ext", "nonce"]
        if qop:
            kinds += ["cnonce", "cnonce", "cnonce", "cnonce128"]
        if st["long_path"]:
            kinds += ["uri", "uri"]
        n = 0
        for kd in (rng.sample(kinds, rng.choice([2, 3])) if qop else [rng.choice(kinds)]):
            api = rng.choice(self.all_apis(algo, qop))
            for f in (rng.choice([(1,), (1,), (0, 1), (1, 0)]) if qop else (1,)):
                self.emit("failmalloc %d" % f, kind="failmalloc", on=bool(f))
                self.check(st, api=api, alloc=kd, mutation="response-flip" if qop and rng.random() < 0.12 else None)
                n += 1
            self.emit("failmalloc 0", kind="failmalloc", on=False)
        return n

    def reqinfo(self, method, target, strict):
        url, args = ref_target(target, strict)
        return {"method": method, "target": target, "url": url, "args": args}

    def all_apis(self, algo, qop):
        apis = ["check3", "digest3"]
        if qop:
            apis.append("check2")
            if algo == "MD5":
                apis += ["check", "cdigest"]
            if algo in ("MD5", "SHA-256"):
                apis.append("cdigest2")
        return apis

    def api_plan(self, rng, algo, qop):
        apis = ["check3", "digest3", "check3"]
        if qop:
            apis.append("check2")
            if algo == "MD5":
                apis += ["check", "cdigest"]
            if algo in ("MD5", "SHA-256"):
                apis.append("cdigest2")
        rng.shuffle(apis)
        return apis[:rng.choice([2, 3, 4])]

    def next_nc(self, st, mode):
        rng = self.rng
        hi = st["nc"]
        if mode == "replay" and hi:
            return hi, "%08x" % hi
        if mode == "skip":
            c = hi + rng.choice([2, 5, 30])
        elif mode == "skip31":
            c = hi + 31
        elif mode == "jump64":
            c = hi + rng.choice([63, 64, 65])
        elif mode == "far":
            c = hi + rng.choice([200, 1000, 70000])
        elif mode == "back" and hi > 3:
            c = rng.randint(max(1, hi - 70), hi - 1)
        elif mode in ("edge63", "edge64", "edge65") and hi > 66:
            c = hi - int(mode[4:])
        else:
            c = hi + 1
        txt = "%08x" % c
        if mode == "upper":
            txt = ("%08x" % c).upper()
        elif mode == "short":
            txt = "%x" % c
        elif mode == "long":
            txt = "%016x" % c
        return c, txt

    def check(self, st, api="check3", mutation=None, nc_mode=None, timeout=None, alloc=None):
        rng = self.rng
        cfg = st["cfg"]
        algo, qop = st["algo"], st["qop"]
        # the request (a spelling of the same resource) and the credential's uri (another spelling)
        method = st["method"]
        target = spell_target(rng, st["path"], st["args"]) if rng.random() < 0.5 else st["target"]
        uri = target if rng.random() < 0.7 else spell_target(rng, st["path"], st["args"], extra=0.4)
        c, nctxt = self.next_nc(st, nc_mode) if qop else (1, None)
        nctxt = nctxt.encode() if nctxt is not None else None
        cnonce = rnd_bytes(rng, TEXT, 1, 10) if qop else None
        force = {}
        if alloc in ("cnonce", "cnonce128") and qop:      # sent quoted with one quoted pair: length as sent = len + 1
            cnonce = rnd_bytes(rng, SAFE, 1, 1) + rnd_bytes(rng, SAFE + b" ,;=", *((126, 126) if alloc == "cnonce128" else
                                                                                   rng.choice([(127, 127), (128, 128), (150, 400), (129, 140)])))
            force[b"cnonce"] = "esc1"
        elif alloc == "nonce":                            # every byte escaped: 88 bytes as sent for MD5, 152 for the SHA-2 sizes
            force[b"nonce"] = "escall"
        user, realm, pw = st["user"], st["realm"], st["pw"]
        sem = {}
        notation = "ext" if alloc == "ext" else st["notation"]
        if notation == "plain":
            sem[b"username"] = user
        elif notation == "userhash":
            h = Hx(algo, user + b":" + realm)
            sem[b"username"] = h if rng.random() < 0.7 else h.upper()
            sem[b"userhash"] = rng.choice([b"true", b"TRUE", b"True"])
        else:
            lang = rng.choice([b"", b"en", b"de-CH"]) if alloc != "ext" else b"x-" + rnd_bytes(rng, SAFE, *rng.choice([(90, 125), (126, 300)]))
            sem[b"username*"] = rng.choice([b"UTF-8", b"utf-8", b"Utf-8"]) + b"'" + lang + b"'" \
                + enc_component(rng, user, b"'\"\\,;*", extra=0.2)
        sem[b"realm"] = realm
        sem[b"nonce"] = st["nonce"]
        sem[b"uri"] = uri
        if not (algo == "MD5" and rng.random() < 0.3):
            sem[b"algorithm"] = rnd_case(rng, algo.encode()) if rng.random() < 0.4 else algo.encode()
        qtxt = None
        if qop:
            qtxt = rng.choice([b"auth", b"auth", b"AUTH", b"Auth"])
            sem[b"qop"] = qtxt
            sem[b"nc"] = nctxt
            sem[b"cnonce"] = cnonce
        if rng.random() < 0.4:
            sem[b"opaque"] = rnd_bytes(rng, TEXT, 0, 8)
        if notation != "userhash" and rng.random() < 0.15:
            sem[b"userhash"] = rng.choice([b"false", b"FALSE", b"yes"])
        resp = ref_response(algo, user, realm, ("pw", pw), method, uri, st["nonce"], qtxt, nctxt, cnonce)
        r = rng.random()
        sem[b"response"] = resp if r < 0.8 else resp.upper() if r < 0.9 else (resp[1:] if resp[:1] == b"0" else resp)
        # the application's side
        call = {"realm": realm, "user": user, "secret": ("pw", pw), "timeout": timeout if timeout is not None else rng.choice([0, 0, 2, 30, 300, 1000]),
                "max_nc": rng.choice([0, 0, 0, 100000, U32 - 1, 3000]), "mqop": rng.choice([3, 3, 2 if qop else 1, 7]),
                "malgo3": rng.choice([127, 127, ALGO3[algo], ALGO3[algo] | 64 | rng.choice([1, 2, 4])])}
        expect = None
        req_method, req_target, conn_addr = method, target, None
        if mutation is not None:
            m = MUTATIONS[mutation](self, st, sem, call, {"method": method, "target": target, "uri": uri, "qtxt": qtxt,
                                                          "nctxt": nctxt, "cnonce": cnonce, "resp": resp})
            if m is None:
                mutation = None
            else:
                expect = m.get("expect")
                if m.get("sub"):
                    mutation = mutation.rstrip("2") + "/" + m["sub"]
                req_method = m.get("method", method)
                req_target = m.get("target", target)
                conn_addr = m.get("conn")
                if rng.random() < 0.25:
                    apis = self.api_plan(rng, algo, qop)
                    api = apis[0]
        if conn_addr is not None:
            self.emit("conn " + hx(conn_addr), kind="conn", addr=conn_addr)
            st["addr"] = conn_addr
        header, rawlen = render(rng, sem, force=force)
        if rng.random() < 0.03 and mutation is None and alloc is None:
            header = None                                # no Authorization header at all
        act, callo = self.action(api, call, algo)
        self.emit(self.req_line(req_method, req_target, header, act), kind="check", sem=sem if header is not None else None,
                  rawlen=rawlen, call=callo, req=self.reqinfo(req_method, req_target, st["strict"]), expect=expect,
                  mutation=mutation, api=api, nc=c, alloc=alloc, algo=algo)
        if qop and nc_mode not in ("replay", "back", "edge63", "edge64", "edge65"):
            st["nc"] = max(st["nc"], c) if c < GUARD else st["nc"]

    def action(self, api, call, algo):
        """the action words and the call as the oracle must see it (the deprecated functions fix some arguments)"""
        c = dict(call)
        u, r = hx(call["user"]), hx(call["realm"])
        pw = call["secret"][1]
        dg = Hb(algo, call["user"] + b":" + call["realm"] + b":" + pw)
        if api == "check3":
            return "check3 %s %s %s %d %d %d %d" % (r, u, hx(pw), c["timeout"], c["max_nc"], c["mqop"], c["malgo3"]), c
        if api == "digest3":
            c["malgo3"] = ALGO3[algo]
            c["secret"] = ("dg", dg)
            return "digest3 %s %s %s %d %d %d %d" % (r, u, hx(dg), c["timeout"], c["max_nc"], c["mqop"], c["malgo3"]), c
        c["max_nc"], c["mqop"], c["legacy"] = 0, 2, True
        if api == "check":
            c["malgo3"] = 65
            return "check %s %s %s %d" % (r, u, hx(pw), c["timeout"]), c
        if api == "check2":
            al = self.rng.choice([0, {"MD5": 1, "SHA-256": 2}.get(algo, 0)])
            c["malgo3"] = {0: 127, 1: 65, 2: 66}[al]
            return "check2 %s %s %s %d %d" % (r, u, hx(pw), c["timeout"], al), c
        if api == "cdigest":
            c["malgo3"] = 65
            c["secret"] = ("dg", dg)
            return "cdigest %s %s %s %d" % (r, u, hx(dg), c["timeout"]), c
        al = {"MD5": 1, "SHA-256": 2}[algo]
        c["malgo3"] = {1: 65, 2: 66}[al]
        c["secret"] = ("dg", dg)
        return "cdigest2 %s %s %s %d %d" % (r, u, hx(dg), c["timeout"], al), c


# single-field mutations of a valid credential.  Each edits (sem, call) in place and returns
# {"expect": set of acceptable classes or None, optional "method"/"target"/"conn" of the request} or None (n/a)

def _reresp(st, sem, x, method=None, pw=None, realm=None, user=None):
    """recompute the response for the (edited) parameters, as an honest client would"""
    return ref_response(st["algo"], user if user is not None else st["user"], realm if realm is not None else st["realm"],
                        ("pw", pw if pw is not None else st["pw"]), method or x["method"], sem[b"uri"], sem[b"nonce"],
                        sem.get(b"qop"), sem.get(b"nc"), sem.get(b"cnonce"))


def m_response_flip(s, st, sem, call, x):
    sem[b"response"] = flip_hex(s.rng, x["resp"])
    return {"expect": {"RESPONSE_WRONG"}}


def m_response_len(s, st, sem, call, x):
    ds = DSIZE[st["algo"]]
    k = s.rng.choice(["trunc", "long1", "long2", "4ds", "over", "empty", "nonhex"])
    r = x["resp"]
    sem[b"response"] = {"trunc": r[:-2], "long1": r + b"0", "long2": b"00" + r, "4ds": (r * 2)[:4 * ds], "over": r * 3,
                        "empty": b"", "nonhex": r[:-1] + b"g"}[k]
    return {"expect": {"RESPONSE_WRONG"}}


def m_nonce_flip(s, st, sem, call, x):
    n = sem[b"nonce"]
    k = s.rng.choice(["hash", "ts", "upper", "trunc", "extend", "nonhex-ts", "empty"])
    if k == "hash":
        n2 = flip_hex(s.rng, n, 0, len(n) - 12)
    elif k == "ts":
        n2 = flip_hex(s.rng, n, len(n) - 12, len(n))
    elif k == "upper":
        n2 = n.upper() if n.upper() != n else flip_hex(s.rng, n, 0, len(n) - 12)
    elif k == "trunc":
        n2 = n[:-s.rng.choice([1, 12, 32])]
    elif k == "extend":
        n2 = n + b"0" * s.rng.choice([1, 32, 33, 80, 200])
    elif k == "nonhex-ts":
        n2 = n[:-3] + b"g" + n[-2:]
    else:
        n2 = b""
    sem[b"nonce"] = n2
    sem[b"response"] = _reresp(st, sem, x)
    return {"expect": {"NONCE_WRONG", "NONCE_STALE"}}


def m_nc_bad(s, st, sem, call, x):
    if not st["qop"]:
        return None
    k = s.rng.choice(["zero", "nonhex", "missing", "empty", "toolong", "overflow", "0x"])
    if k == "missing":
        del sem[b"nc"]
    else:
        sem[b"nc"] = {"zero": b"00000000", "nonhex": b"0000000g", "empty": b"", "toolong": b"0" * 32 + b"1",
                      "overflow": b"1" + b"0" * 16, "0x": b"0x000001"}[k]
    return {"expect": {"WRONG_HEADER"}}


def m_nc_other(s, st, sem, call, x):
    if not st["qop"]:
        return None
    sem[b"nc"] = b"%08x" % (int(x["nctxt"], 16) + 1)           # keeps the old response
    return {"expect": {"RESPONSE_WRONG"}}


def m_nc_above_max(s, st, sem, call, x):
    if not st["qop"]:
        return None
    call["max_nc"] = max(1, int(x["nctxt"], 16) - 1)
    if call["max_nc"] >= int(x["nctxt"], 16):
        return None
    return {"expect": {"NONCE_STALE"}}


def m_cnonce(s, st, sem, call, x):
    if not st["qop"]:
        return None
    k = s.rng.choice(["change", "missing", "empty"])
    if k == "change":
        sem[b"cnonce"] = x["cnonce"] + b"x"
        return {"expect": {"RESPONSE_WRONG"}}
    if k == "missing":
        del sem[b"cnonce"]
    else:
        sem[b"cnonce"] = b""
    return {"expect": {"WRONG_HEADER"}}


def m_uri(s, st, sem, call, x):
    rng = s.rng
    path, args = st["path"], list(st["args"])
    k = rng.choice(["path", "path", "prefix", "prefix", "arg-value", "arg-drop", "arg-add", "arg-swap", "missing", "empty", "case"])
    if k == "missing":
        del sem[b"uri"]
        return {"expect": {"WRONG_URI"}}
    if k == "empty":
        sem[b"uri"] = b""
        return {"expect": {"WRONG_URI"}}
    if k == "prefix":
        if len(path) < 2:
            return None
        path = path[:rng.randint(1, len(path) - 1)]
    elif k == "path":
        path = path + rng.choice([b"x", b"/", b"z"])
    elif k == "case":
        p2 = path.swapcase()
        if p2 == path:
            path = path + b"Q"
        else:
            path = p2
    elif k == "arg-value":
        if not args:
            args = [(b"q", b"1")]
        else:
            i = rng.randrange(len(args))
            kk, vv = args[i]
            r_ = rng.random()
            if r_ < 0.4 and vv:
                args[i] = (kk, vv[:-1] + bytes([vv[-1] ^ 1]))     # same length, other value
            elif r_ < 0.6 and kk:
                args[i] = (kk[:-1] + bytes([kk[-1] ^ 1]), vv)     # same length, other key
            else:
                args[i] = (kk, (vv or b"") + b"x")
    elif k == "arg-drop":
        if not args:
            return None
        args.pop(rng.randrange(len(args)))
    elif k == "arg-add":
        args.insert(rng.randint(0, len(args)), (b"extra", rng.choice([None, b"", b"1"])))
    else:
        if len(args) < 2 or norm_args([args[0]]) == norm_args([args[1]]):
            return None
        args[0], args[1] = args[1], args[0]
    sem[b"uri"] = spell_target(rng, path, args)
    sem[b"response"] = _reresp(st, sem, x)                    # an honest response for the other resource
    return {"expect": {"WRONG_URI"}}


def m_realm(s, st, sem, call, x):
    k = s.rng.choice(["change", "case", "missing", "app"])
    if k == "missing":
        del sem[b"realm"]
    elif k == "app":
        call["realm"] = st["realm"] + b"2"                    # the application protects another realm
    elif k == "case" and st["realm"].swapcase() != st["realm"]:
        sem[b"realm"] = st["realm"].swapcase()
        sem[b"response"] = _reresp(st, sem, x, realm=sem[b"realm"])
    else:
        sem[b"realm"] = st["realm"] + b"x"
        sem[b"response"] = _reresp(st, sem, x, realm=sem[b"realm"])
    if k == "app" and st["notation"] == "userhash":
        return {"expect": {"WRONG_REALM"}}
    return {"expect": {"WRONG_REALM"}}


def m_username(s, st, sem, call, x):
    rng = s.rng
    nt = st["notation"]
    k = rng.choice(["change", "both", "none", "app", "form"])
    if k == "both":
        sem[b"username"] = sem.get(b"username", st["user"])
        sem[b"username*"] = sem.get(b"username*", b"UTF-8''" + enc_component(rng, st["user"], b"'\"\\,;*"))
        return {"expect": {"WRONG_USERNAME"}}
    if k == "none":
        sem.pop(b"username", None); sem.pop(b"username*", None)
        return {"expect": {"WRONG_USERNAME"}}
    if k == "app":
        call["user"] = st["user"] + b"2"
        return {"expect": {"WRONG_USERNAME"}}
    if k == "form":
        if nt == "userhash":
            f = rng.choice(["short", "long", "nonhex", "flag-off"])
            h = sem[b"username"]
            if f == "flag-off":
                sem[b"userhash"] = b"false"
            else:
                sem[b"username"] = {"short": h[:-2], "long": h + b"00", "nonhex": h[:-1] + b"g"}[f]
            return {"expect": {"WRONG_USERNAME"}}
        if nt == "ext":
            f = rng.choice(["pct", "charset", "nolang", "short", "hashflag", "langchar"])
            e = sem[b"username*"]
            if f == "hashflag":
                sem[b"userhash"] = b"true"
                return {"expect": {"WRONG_USERNAME"}}
            if f == "short":
                sem[b"username*"] = e[:rng.randint(0, 6)]
                return {"expect": {"WRONG_USERNAME"}}
            sem[b"username*"] = {"pct": e + rng.choice([b"%", b"%4", b"%zz"]), "charset": b"ISO-8859-1" + e[5:],
                                 "nolang": e.replace(b"'", b"", 1) if e.count(b"'") == 2 else b"UTF-8'en",
                                 "langchar": e[:6] + b"e n" + e[6:]}[f]
            if f == "nolang" and ref_ext_username(sem[b"username*"]) is not None:
                return {"expect": None}
            return {"expect": {"WRONG_HEADER"}}
        return None
    if nt == "plain":
        sem[b"username"] = st["user"] + b"x"
    elif nt == "userhash":
        sem[b"username"] = flip_hex(rng, sem[b"username"].lower())
    else:
        sem[b"username*"] = sem[b"username*"] + b"x"
    return {"expect": {"WRONG_USERNAME"}}


def _to_ext(rng, sem, name):
    """send `name` (any bytes, NUL included: it travels as %00) in RFC 5987 extended notation, whatever the notation was"""
    sem.pop(b"username", None)
    sem.pop(b"userhash", None)
    sem[b"username*"] = rng.choice([b"UTF-8", b"utf-8"]) + b"'" + rng.choice([b"", b"en"]) + b"'" \
        + enc_component(rng, name, b"'\"\\,;*", extra=0.1)


def m_cmplen_user(s, st, sem, call, x):
    """mutation class "C-string vs length-delimited comparison", the parameters looked at before the nonce table:
    the value the client sends is the configured one *extended* behind an embedded NUL, *truncated* at a NUL, a NUL
    alone, or a proper prefix / extension without NUL.  A NUL can travel only percent-encoded, i.e. in `username*`
    (every notation is switched to it) — a quoted-pair `\\` NUL cannot occur in a field value.  An implementation that
    compares with strcmp / strncmp (name, decoded, strlen (name)) instead of (length, bytes) accepts these."""
    rng = s.rng
    user, realm = st["user"], st["realm"]
    junk = rng.choice([b"root", b"x", b"\0", b"\0admin", rnd_bytes(rng, SAFE, 1, 6)])
    k = rng.choice(["ext-nul-junk", "ext-nul-junk", "ext-nul-junk", "ext-nul-end", "ext-last-nul", "ext-nul-alone", "ext-nul-first",
                    "ext-prefix", "ext-longer", "plain-prefix", "realm-prefix"])
    if k == "plain-prefix":
        if st["notation"] != "plain" or len(user) < 2:
            k = "ext-nul-junk"
        else:
            sem[b"username"] = user[:-1]
            return {"expect": {"WRONG_USERNAME"}, "sub": k}
    if k == "realm-prefix":
        if len(realm) < 2:
            k = "ext-nul-end"
        else:
            sem[b"realm"] = realm[:-1]
            sem[b"response"] = _reresp(st, sem, x, realm=sem[b"realm"])
            return {"expect": {"WRONG_REALM"}, "sub": k}
    name = {"ext-nul-junk": user + b"\0" + junk, "ext-nul-end": user + b"\0", "ext-last-nul": user[:-1] + b"\0",
            "ext-nul-alone": b"\0", "ext-nul-first": b"\0" + user, "ext-prefix": user[:-1], "ext-longer": user + junk}[k]
    if name == user:
        name = user + b"\0"
    _to_ext(rng, sem, name)
    return {"expect": {"WRONG_USERNAME"}, "sub": k}


def m_cmplen_uri(s, st, sem, call, x):
    """the same class for what is compared after the nonce table: the `uri` parameter (percent-decoded, then compared
    with the request's path and arguments) extended behind / truncated at a %00 — in the credential or in the request
    target — with an honest response for the uri as sent; the cnonce (hashed with its length) truncated"""
    rng = s.rng
    path, args = st["path"], list(st["args"])
    junk = rng.choice([b"root", b"x", b"/..", rnd_bytes(rng, SAFE, 1, 6)])
    k = rng.choice(["uri-nul-path", "uri-nul-path", "uri-nul-end", "uri-nul-arg", "uri-nul-key", "target-nul-path", "target-nul-arg",
                    "cnonce-prefix"])
    if k == "cnonce-prefix":
        if not st["qop"] or len(x["cnonce"]) < 2:
            k = "uri-nul-path"
        else:
            sem[b"cnonce"] = x["cnonce"][:-1]
            return {"expect": {"RESPONSE_WRONG"}, "sub": k}
    if k in ("uri-nul-arg", "uri-nul-key", "target-nul-arg") and not args:
        k = "uri-nul-path" if k.startswith("uri") else "target-nul-path"
    p2, a2 = path, args
    if k.endswith("nul-path"):
        p2 = path + b"\0" + junk
    elif k == "uri-nul-end":
        p2 = path + b"\0"
    else:
        i = rng.randrange(len(args))
        kk, vv = args[i]
        a2 = list(args)
        a2[i] = (kk + b"\0" + junk, vv) if k == "uri-nul-key" else (kk, (vv or b"") + b"\0" + junk)
    other = spell_target(rng, p2, a2)
    if k.startswith("target"):
        # the request is for the longer resource, the credential was made for the shorter one
        return {"expect": {"WRONG_URI"}, "target": other, "sub": k}
    sem[b"uri"] = other
    sem[b"response"] = _reresp(st, sem, x)
    return {"expect": {"WRONG_URI"}, "sub": k}


def m_algorithm(s, st, sem, call, x):
    k = s.rng.choice(["sess", "unknown", "not-allowed", "other", "empty"])
    a = st["algo"]
    if k == "sess":
        sem[b"algorithm"] = a.encode() + b"-sess"
        call["malgo3"] = s.rng.choice([127, 255, 191])
        return {"expect": {"WRONG_ALGO"}}
    if k == "unknown":
        sem[b"algorithm"] = s.rng.choice([b"foo", b"MD6", b"SHA-512", b"SHA-256-ses", b"MD5-sesss", a.encode() + b"x"])
        return {"expect": {"WRONG_ALGO"}}
    if k == "empty":
        sem[b"algorithm"] = b""
        return {"expect": {"WRONG_ALGO"}}
    if k == "not-allowed":
        o = s.rng.choice([y for y in ALGOS if y != a])
        call["malgo3"] = ALGO3[o] if s.rng.random() < 0.5 else BASEBIT[a] | 128   # other base, or session-only
        sem[b"algorithm"] = a.encode()
        return {"expect": {"WRONG_ALGO"}}
    o = s.rng.choice([y for y in ALGOS if y != a])
    sem[b"algorithm"] = o.encode()
    call["malgo3"] = 127
    return {"expect": None}                                   # some error (user hash / nonce length / response)


def m_qop(s, st, sem, call, x):
    k = s.rng.choice(["auth-int", "unknown", "not-allowed", "drop", "empty"])
    if k == "auth-int":
        sem[b"qop"] = b"auth-int"
        call["mqop"] = s.rng.choice([3, 7, 4, 6])
        if not st["qop"]:
            sem[b"nc"], sem[b"cnonce"] = b"00000001", b"c"
        return {"expect": {"WRONG_QOP"}}
    if k in ("unknown", "empty"):
        sem[b"qop"] = b"" if k == "empty" else s.rng.choice([b"foo", b"aut", b"auth-in", b"authx", b"auth,auth-int"])
        if not st["qop"]:
            sem[b"nc"], sem[b"cnonce"] = b"00000001", b"c"
        sem[b"response"] = _reresp(st, sem, x)
        return {"expect": {"WRONG_QOP"}}
    if k == "not-allowed":
        call["mqop"] = 1 if st["qop"] else s.rng.choice([2, 6])
        return {"expect": {"WRONG_QOP"}}
    if not st["qop"]:
        return None
    del sem[b"qop"]
    call["mqop"] = 3
    return {"expect": None}


def m_password(s, st, sem, call, x):
    call["secret"] = ("pw", st["pw"] + b"x")
    return {"expect": {"RESPONSE_WRONG"}}


def m_method(s, st, sem, call, x):
    o = s.rng.choice([m for m in METHODS if m != x["method"]])
    b = st["cfg"]["bind"]
    if (b == 0 or b & BIND_URI) and mclass(o) != mclass(x["method"]) and False:
        pass
    return {"expect": {"RESPONSE_WRONG", "NONCE_OTHER_COND"}, "method": o}     # the request uses another method than the client hashed


def m_other_client(s, st, sem, call, x):
    """the same credential arrives from another address"""
    b = st["cfg"]["bind"]
    a2 = other_ip(st["addr"], s.rng) if s.rng.random() < 0.7 else other_port(st["addr"])
    if a2 == st["addr"]:
        return None
    exp = None
    if b & BIND_IP and ref_ip(a2) != ref_ip(st["addr"]):
        exp = {"NONCE_OTHER_COND"}
    return {"expect": exp, "conn": a2}


def m_other_resource(s, st, sem, call, x):
    """an honest credential for another resource with a nonce issued for this one"""
    rng = s.rng
    path, args = st["path"], list(st["args"])
    if rng.random() < 0.5:
        path = path + b"y"
    else:
        args.append((b"n", b"2"))
    t2 = spell_target(rng, path, args)
    sem[b"uri"] = t2
    sem[b"response"] = _reresp(st, sem, x)
    b = st["cfg"]["bind"]
    differs_url = path != st["path"]
    exp = None
    if (b & BIND_URI and differs_url) or (b & BIND_ARGS and not differs_url):
        exp = {"NONCE_OTHER_COND"}
    return {"expect": exp, "target": t2}


def m_other_realm(s, st, sem, call, x):
    """an honest credential for another realm of the same server with a nonce issued for this realm"""
    r2 = st["realm"] + b"-2"
    sem[b"realm"] = r2
    call["realm"] = r2
    if st["notation"] == "userhash":
        sem[b"username"] = Hx(st["algo"], st["user"] + b":" + r2)
    sem[b"response"] = _reresp(st, sem, x, realm=r2)
    return {"expect": {"NONCE_OTHER_COND"} if st["cfg"]["bind"] & BIND_REALM else None}


def m_size(s, st, sem, call, x):
    """the documented size limit of 65535 bytes per parameter (rare: the lines are long)"""
    if s.rng.random() < 0.93:
        return None
    k = s.rng.choice(["realm", "cnonce", "uri", "uri-edge", "ext"])
    if k == "realm":
        sem[b"realm"] = st["realm"] + b"r" * s.rng.choice([65535, 65536, 70000])
        return {"expect": {"TOO_LARGE", "WRONG_REALM"}}
    if k == "cnonce":
        if not st["qop"]:
            return None
        sem[b"cnonce"] = b"c" * s.rng.choice([65536, 70000])
        return {"expect": {"TOO_LARGE"}}
    if k == "uri":
        sem[b"uri"] = x["uri"] + b"u" * 65536
        return {"expect": {"TOO_LARGE"}}
    if k == "uri-edge":
        if not st["qop"]:
            return None
        sem[b"uri"] = (x["uri"] + b"u" * 65535)[:65535]
        return {"expect": {"ERROR", "TOO_LARGE", "WRONG_URI"}}
    if st["notation"] != "ext":
        return None
    sem[b"username*"] = sem[b"username*"] + b"e" * 65600
    return {"expect": {"TOO_LARGE"}}


MUTATIONS = {"response-flip": m_response_flip, "response-len": m_response_len, "nonce": m_nonce_flip, "nc-bad": m_nc_bad,
             "nc-other": m_nc_other, "nc-above-max": m_nc_above_max, "cnonce": m_cnonce, "uri": m_uri, "uri2": m_uri,
             "realm": m_realm, "username": m_username, "username2": m_username, "algorithm": m_algorithm, "qop": m_qop,
             "password": m_password, "method": m_method, "other-client": m_other_client, "other-resource": m_other_resource, "size": m_size, "size2": m_size, "other-realm": m_other_realm,
             "cmplen-user": m_cmplen_user, "cmplen-user2": m_cmplen_user, "cmplen-uri": m_cmplen_uri, "cmplen-uri2": m_cmplen_uri}
PRE_TABLE_MUTS = {"nonce", "nc-bad", "nc-above-max", "realm", "username", "username2", "algorithm", "qop", "size", "size2",
                  "cmplen-user", "cmplen-user2"}


REASON_CLASSES = {"size limit2": set(), "algorithm": {"WRONG_ALGO"}, "qop": {"WRONG_QOP"}, "username-presence": {"WRONG_USERNAME"},
                  "userhash": {"WRONG_USERNAME"}, "username": {"WRONG_USERNAME"}, "username*": {"WRONG_USERNAME", "WRONG_HEADER"},
                  "realm": {"WRONG_REALM"}, "missing realm": {"WRONG_REALM"}, "missing uri": {"WRONG_URI"}, "uri empty": {"WRONG_URI"},
                  "uri": {"WRONG_URI"}, "missing nonce": {"NONCE_WRONG"}, "nonce format": {"NONCE_WRONG"},
                  "nonce not registered": {"NONCE_WRONG", "NONCE_STALE"}, "nonce expired": {"NONCE_STALE"},
                  "missing response": {"RESPONSE_WRONG"}, "response": {"RESPONSE_WRONG"}, "nc/cnonce": {"WRONG_HEADER", "TOO_LARGE"},
                  "nc zero": {"WRONG_HEADER"}, "nc above max": {"NONCE_STALE"}, "count used / behind window": {"NONCE_STALE"},
                  "binding": {"NONCE_OTHER_COND"}, "size limit": {"TOO_LARGE", "ERROR"}}
LEGACY_OF = {"OK": "YES", "NONCE_STALE": "INVALID_NONCE", "NONCE_WRONG": "INVALID_NONCE", "NONCE_OTHER_COND": "INVALID_NONCE"}


def judge_session(sess, hout):
    """oracle verdict for one session: (error text, index of the line) or None; also branch statistics"""
    stats = {}
    orc = None
    failing = False
    for j, (meta, h) in enumerate(zip(sess.meta, hout)):
        k = meta["kind"]
        if k == "failmalloc":
            failing = meta["on"]
            if h != "ok":
                return ("failmalloc: " + h, j), stats
        elif k == "daemon":
            orc = Oracle(meta["cfg"])
            if h != "ok":
                return ("daemon: " + h, j), stats
        elif k == "clock":
            orc.now = meta["now"]
        elif k == "conn":
            orc.addr = meta["addr"]
            if h != "ok":
                return ("conn: " + h, j), stats
        elif k in ("issue", "check"):
            m = re.match(r"m=(\d+) url=(\S+) args=(\S+) (.*)$", h)
            if not m:
                return ("request not handled: " + h[:80], j), stats
            req = meta["req"]
            exp_args = "none" if not req["args"] else ",".join(hx(a) + ("=" + hx(b) if b is not None else "") for a, b in req["args"])
            if int(m.group(1)) != STD_METHODS.get(req["method"], 1000) or m.group(2) != hx(req["url"]) or m.group(3) != exp_args:
                return ("request as seen by the handler differs from the reference decoding: %s (expected url=%s args=%s)"
                        % (h[:120], hx(req["url"]), exp_args), j), stats
            out = m.group(4)
            if k == "issue":
                e = orc.on_issue(out, meta["algo"], meta["realm"], req)
                stats["issue:" + out.split()[0]] = stats.get("issue:" + out.split()[0], 0) + 1
                if e:
                    return (e, j), stats
                continue
            call = meta["call"]
            legacy = call.get("legacy")
            if not re.match(r"l=\w+$" if legacy else r"r=\w+$", out):
                return ("check answered " + out, j), stats
            cls = out[2:]
            if meta["sem"] is None:
                ok, cons, why = False, None, "no header"
            else:
                ok, cons, why = orc.valid(meta["sem"], meta["rawlen"], req, call)
            pre, post = heap_needs(meta["sem"], meta["rawlen"]) if meta["sem"] is not None else ([], [])
            heap = failing and bool(pre or post)
            key = "%s%s:%s:%s%s:%s" % ("failmalloc/" if failing else "", meta["api"], meta["mutation"] or "-", why,
                                       "+heap" if heap else "", cls)
            stats[key] = stats.get(key, 0) + 1
            if heap and pre:
                cons = None                               # stopped before the nonce-table test
            if cons is not None:
                orc.consume(meta["sem"], cons)
            good = "YES" if legacy else "OK"
            err = "NO" if legacy else "ERROR"
            if failing or meta.get("alloc"):
                outcome = ("error" if cls == err else "other:" + cls) if (heap and ok) else \
                          ("error-instead" if cls == err and not legacy else "stopped-earlier-or-no") if heap else \
                          ("unchanged-accepted" if ok else "unchanged-refused") if failing else \
                          ("accepted" if cls == good else "refused")
                ak = "alloc|%s|%s|%s|%s|%s" % ("fail" if failing else "ctl", "+".join(pre + post) or "none", meta["api"], meta.get("algo"), outcome)
                stats[ak] = stats.get(ak, 0) + 1
            if ok and heap:
                if cls != err:
                    return ("malloc fails, the credential needs the heap for %s: answered %s, not %s [%s]"
                            % ("+".join(pre + post), cls, err, meta["api"]), j), stats
                continue
            if ok and cls != good:
                return ("REFUSED (%s) a valid credential [%s]" % (cls, meta["api"]), j), stats
            if not ok and cls == good:
                return ("ACCEPTED a credential that is not valid: %s [%s, mutation %s]" % (why, meta["api"], meta["mutation"]), j), stats
            if not ok and meta["expect"] and why != "no header":
                allowed = set(meta["expect"]) | REASON_CLASSES.get(why, set()) | ({"ERROR"} if heap else set())
                if legacy:
                    allowed = {LEGACY_OF.get(c, "NO") for c in allowed}
                if cls not in allowed:
                    return ("mutation %s (%s) answered %s, expected %s" % (meta["mutation"], why, cls, sorted(allowed)), j), stats
            if not ok and why == "no header" and cls != ("NO" if legacy else "WRONG_HEADER"):
                return ("no Authorization header answered " + cls, j), stats
        elif k == "state":
            if not h.startswith("n="):
                return ("state: " + h, j), stats
    return None, stats


def run_batch(harness, driver, sessions, engine="dauth"):
    failures, stats = [], {}
    lines = [l for s in sessions for l in s.lines]
    hout, hrc, herr = vlib.run_lines(harness, lines)
    mout, mrc, merr = vlib.run_lines(driver, lines)
    if hrc != 0:
        pos, k = len(hout), 0
        for s in sessions:
            if k + len(s.lines) > pos:
                o2, rc2, e2 = vlib.run_lines(harness, s.lines)
                failures.append(vlib.Failure("sanitizer", "dauth: harness aborted (sanitizer / crash / MHD_PANIC)",
                                             (e2 if rc2 != 0 else herr)[-2500:], s.lines[:max(1, len(o2) + 1)] if rc2 != 0 else s.lines, engine))
                break
            k += len(s.lines)
        return failures, stats
    if mrc != 0 or len(mout) != len(lines):
        failures.append(vlib.Failure("model", "dauth: model driver failed", (merr or "")[-500:], lines[:60], engine))
        return failures, stats
    k = 0
    for s in sessions:
        n = len(s.lines)
        ho, mo = hout[k:k + n], mout[k:k + n]
        k += n
        bad, st = judge_session(s, ho)
        merge_stats(stats, st)
        if bad:
            sig = "dauth: " + re.sub(r"\(.*?\)|\[.*?\]", "", re.sub(r"[0-9a-f]{8,}", "H", bad[0]))[:110].strip()
            failures.append(vlib.Failure("oracle", sig, bad[0] + " | code: " + ho[bad[1]][:300], s.lines[:bad[1] + 1], engine))
            continue
        for j, (h, m) in enumerate(zip(ho, mo)):
            if h != m:
                w = s.lines[j].split()
                failures.append(vlib.Failure("diff", "dauth: model/code differ on " + " ".join(w[:1] + w[4:5]),
                                             "line `%s`: code says '%s', model says '%s'" % (s.lines[j][:300], h[:300], m[:300]),
                                             s.lines[:j + 1], engine))
                break
    return failures, stats


def merge_stats(a, b):
    for k, v in b.items():
        a[k] = a.get(k, 0) + v


def pure_lines(rng, count):
    """MHD_digest_auth_calc_userhash(_hex) / _calc_userdigest against hashlib"""
    lines, exp = [], []
    for _ in range(count):
        algo = rng.choice(ALGOS)
        a3 = ALGO3[algo] if rng.random() < 0.7 else (ALGO3[algo] & 7) | 128
        u, r, p = rnd_bytes(rng, TEXT, 0, 70), rnd_bytes(rng, TEXT, 0, 70), rnd_bytes(rng, TEXT, 0, 70)
        if rng.random() < 0.5:
            lines.append("calc userhash %d %s %s" % (a3, hx(u), hx(r)))
            exp.append(Hb(algo, u + b":" + r).hex())
        else:
            lines.append("calc userdigest %d %s %s %s" % (a3, hx(u), hx(r), hx(p)))
            exp.append(Hb(algo, u + b":" + r + b":" + p).hex())
    return lines, exp


def _worker(job):
    kind, harness, driver, seed, count, thorough = job
    rng = random.Random(seed)
    fl, st = [], {}
    nreq = 0
    sample = []
    if kind == "pure":
        lines, exp = pure_lines(rng, count)
        ho, hrc, herr = vlib.run_lines(harness, lines)
        mo, mrc, merr = vlib.run_lines(driver, lines)
        if hrc != 0:
            fl.append(vlib.Failure("sanitizer", "dauth: harness aborted in calc", herr[-1500:], lines[:len(ho) + 1], "dauth"))
        else:
            for l, h, m, e in zip(lines, ho, mo, exp):
                if h != e:
                    fl.append(vlib.Failure("oracle", "dauth: calc_" + l.split()[1] + " differs from hashlib", "%s -> %s, expected %s" % (l, h, e), [l], "dauth")); break
                if h != m:
                    fl.append(vlib.Failure("diff", "dauth: model/code differ on calc", "%s: code %s model %s" % (l, h, m), [l], "dauth")); break
        st["calc"] = len(lines)
        nseq, nreq = len(lines), len(lines)
        sample = lines[:2]
    else:
        sessions = [Session(random.Random(rng.getrandbits(48)), thorough).plan_prefix() for _ in range(count)]
        pre = [l for s_ in sessions for l in s_.lines]
        po, prc, perr = vlib.run_lines(harness, pre)
        if prc != 0 or len(po) != len(pre):
            return ([("sanitizer", "dauth: harness aborted while issuing nonces", perr[-2000:], pre[:len(po) + 1][-8:], "dauth")],
                    st, 0, 0, [])
        k = 0
        for s_ in sessions:
            o = po[k + len(s_.lines) - 1].split()
            k += len(s_.lines)
            nonce = bytes.fromhex(o[-1]) if len(o) >= 2 and o[-2] in ("added", "refused") and re.match(r"^([0-9a-f]{2})+$", o[-1]) else b"0" * 44
            s_.plan_rest(nonce)
        B = 150
        for i in range(0, len(sessions), B):
            f, s = run_batch(harness, driver, sessions[i:i + B])
            fl += f
            merge_stats(st, s)
            if len(fl) > 8:
                break
        nseq = len(sessions)
        nreq = sum(1 for s in sessions for m in s.meta if m["kind"] in ("check", "issue"))
        sample = sessions[0].lines[:8] if sessions else []
    return ([(f.kind, f.signature, f.detail, f.input, f.engine) for f in fl[:8]], st, nseq, nreq, sample)


class Spec:
    props_module = "Mhd.Props.C12"
    lean_targets = ["Mhd.Props.C12", "drv_dauth"]
    required_theorems = ["Mhd.C12.class_is_expected", "Mhd.C12.no_header", "Mhd.C12.ok_iff_rfc_valid",
                         "Mhd.C12.expected_ok_iff_valid", "Mhd.C12.parsed_header", "Mhd.C12.digest_check_class",
                         "Mhd.C12.digest_check_ok_iff", "Mhd.C12.rendering_independent", "Mhd.C12.parser_guarantees",
                         "Mhd.C12.digest_check_ok_iff_any_request", "Mhd.C12.no_client_panic", "Mhd.C12.accepted_is_valid",
                         "Mhd.C12.reject_realm", "Mhd.C12.reject_username", "Mhd.C12.reject_uri",
                         "Mhd.C12.reject_algorithm", "Mhd.C12.reject_qop", "Mhd.C12.response_is_rfc_value",
                         "Mhd.C12.reject_expired", "Mhd.C12.reject_unregistered", "Mhd.C12.reject_other_conditions",
                         "Mhd.C12.replay_rejected", "Mhd.C12.no_buffer_overflow", "Mhd.C12.legacy_yes_iff",
                         "Mhd.C12.legacy_invalid_nonce_iff", "Mhd.C12.hash_is_implementation_md5",
                         "Mhd.C12.hash_is_implementation_sha256", "Mhd.C12.hash_is_implementation_sha512_256",
                         "Mhd.C12.hex_roundtrip", "Mhd.C12.alloc_success_is_model", "Mhd.C12.alloc_failure_cases",
                         "Mhd.C12.alloc_failure_class", "Mhd.C12.alloc_failure_never_ok_unless", "Mhd.C12.alloc_failure_table",
                         "Mhd.C12.alloc_failure_ok_iff", "Mhd.C12.alloc_failure_needs_heap_error",
                         "Mhd.C12.alloc_irrelevant_when_small", "Mhd.C12.no_buffer_overflow_alloc", "Mhd.C12.extended_username_exact_stage",
                         "Mhd.C12.extended_username_exact", "Mhd.C12.extended_username_compared_with_length",
                         "Mhd.C12.extended_username_with_nul_rejected"]
    trusted_base = ["Lean 4 kernel", "axioms: propext, Classical.choice, Quot.sound at most (audited per theorem)",
                    "hand-written model lean/Mhd/Model/Dauth.lean, DauthAlloc.lean, DauthArgs.lean (+ C13 Nonce, C14 Auth*, C16 hash specs) tied to "
                    "digestauth.c by this run's correspondence",
                    "tools/props/C12.py gen_dauth (sizes, limits, flag bits, method table, sockaddr geometry regenerated)",
                    "harness/h_dauth.c (real daemon, virtual clock, -Wl,--wrap=malloc failing only inside the six check functions), gcc, ASan/UBSan",
                    "the RFC reference (hashlib) and set-based nonce registry in tools/props/C12.py"]
    assumptions = ["hash functions are used through their specifications (C16 links them to md5.c/sha256.c/sha512_256.c)",
                   "realm, username, password are C strings (no NUL); userdigest has the size of the selected algorithm (else MHD_PANIC, modelled)",
                   "pool exhaustion in MHD_get_rq_dauth_params_ is not modelled",
                   "allocation failure is modelled as: every malloc of one check fails, or none (Mhd.Model.DauthAlloc); a malloc that "
                   "succeeds once and fails later within the same check is not modelled",
                   "the request's GET arguments (headers_received) are an input of the model (their parsing is C02's subject); "
                   "the driver and the oracle recompute them from the request target and the harness prints what the handler saw",
                   "presentations are serialised by nnc_lock (C13/C18)"]

    def gen(self, ctx):
        gen_dauth()

    def build(self, ctx):
        self.harness = vlib.build_daemon_harness(name="h_dauth", src="harness/h_dauth.c",
                                                 exclude=("mhd_mono_clock.c", "digestauth.c"), ldextra=["-Wl,--wrap=malloc"])
        self.driver = vlib.driver_path("drv_dauth")

    def explore(self, ctx, boost):
        thorough = ctx.tier == "thorough"
        failures, stats = [], {}
        evals = reqs = 0
        samples = []
        cdir = os.path.join(vlib.VERIF, "corpus", "dauth")
        ncorpus = 0
        if os.path.isdir(cdir):
            for f in sorted(os.listdir(cdir)):
                lines = [l for l in open(os.path.join(cdir, f)).read().splitlines() if l.strip() and not l.startswith("#")]
                fl = replay_lines(self.harness, self.driver, lines)
                failures += fl
                ncorpus += 1
        nsess = (100000 if thorough else 10000) * (2 if boost else 1)
        per = max(40, nsess // (3 * vlib.NCPU))
        jobs = [("sess", self.harness, self.driver, ctx.rng.getrandbits(48), per, thorough) for _ in range((nsess + per - 1) // per)]
        jobs.append(("pure", self.harness, self.driver, ctx.rng.getrandbits(48), 6000 if thorough else 1000, thorough))
        with multiprocessing.get_context("fork").Pool(vlib.NCPU) as pool:
            for (fl, st, nseq, nreq, sample) in pool.imap(_worker, jobs, chunksize=1):
                failures += [vlib.Failure(*f) for f in fl]
                merge_stats(stats, st)
                evals += nseq
                reqs += nreq
                if sample and len(samples) < 2:
                    samples.append([l[:200] for l in sample])
        astats = {k: v for k, v in stats.items() if k.startswith("alloc|")}
        stats = {k: v for k, v in stats.items() if not k.startswith("alloc|")}
        okc = sum(v for k, v in stats.items() if k.endswith(":OK") or k.endswith(":YES"))
        classes = {}
        for k, v in stats.items():
            c = k.rsplit(":", 1)[-1]
            classes[c] = classes.get(c, 0) + v
        alloc = {"cases": 0, "needing_heap": 0, "error_results": 0, "error_instead_of_other_refusal": 0,
                 "stopped_earlier_or_legacy_no": 0, "unchanged_results": 0, "unchanged_accepted": 0, "violations_seen": 0,
                 "by_param": {}, "by_entry_point": {}, "by_algorithm": {},
                 "same_credentials_with_malloc_working": {"cases": 0, "accepted": 0, "by_param": {}}}
        for k, v in astats.items():
            _, mode, params, api, algo, outcome = k.split("|", 5)
            if mode == "ctl":
                c = alloc["same_credentials_with_malloc_working"]
                c["cases"] += v
                c["accepted"] += v if outcome == "accepted" else 0
                c["by_param"][params] = c["by_param"].get(params, 0) + v
                continue
            alloc["cases"] += v
            alloc["by_entry_point"][api] = alloc["by_entry_point"].get(api, 0) + v
            alloc["by_algorithm"][algo] = alloc["by_algorithm"].get(algo, 0) + v
            bp = alloc["by_param"].setdefault(params, {})
            bp[outcome] = bp.get(outcome, 0) + v
            if params != "none":
                alloc["needing_heap"] += v
            if outcome == "error":
                alloc["error_results"] += v
            elif outcome == "error-instead":
                alloc["error_instead_of_other_refusal"] += v
            elif outcome == "stopped-earlier-or-no":
                alloc["stopped_earlier_or_legacy_no"] += v
            elif outcome.startswith("unchanged"):
                alloc["unchanged_results"] += v
                alloc["unchanged_accepted"] += v if outcome == "unchanged-accepted" else 0
            else:
                alloc["violations_seen"] += v
        alloc["reachable"] = ("cnonce (quoted pairs, up to 65535 bytes), uri (always copied, length + 1), username* (length - 6), "
                              "nonce with quoted pairs for the 32-byte digests (152 bytes as sent); nc (at most 32 bytes as sent), "
                              "response (at most 4 * digest size = 128), qop (at most 8 bytes as sent for `auth`) cannot exceed the "
                              "stack buffer on a path that reaches their unquoting")
        cov = {"evaluations": evals + ncorpus, "requests": reqs, "accepted": okc, "result_classes": dict(sorted(classes.items())),
               "distinct_nontrivial": len(stats),
               "rule": "one evaluation = one daemon life (a nonce issued by the real calculate_add_nonce inside a request, the valid "
                       "credential through 2-4 API functions in independent renderings, 8-12 labelled single-field mutations, count "
                       "window / replay probes, a lifetime phase in which every applicable entry point (check3, check_digest3, check, check2, "
                       "check_digest, check_digest2) is called with a nonce_timeout of 2..30 s, different from the daemon default, while "
                       "the clock stands at that lifetime -1000..+1000 ms and counts above the lifetime's numeric value are presented, "
                       "then clock steps across the default timeout), run on the real daemon and on the Lean model, "
                       "compared line by line (result class, request as seen by the handler, final nonce table) and judged by the "
                       "RFC reference oracle; in about a third of the lives (and most of those whose path exceeds 110 bytes) an "
                       "allocation phase presents credentials whose cnonce / uri / username* / nonce does not fit the 128-byte stack "
                       "buffer (and controls of exactly 128 bytes) while every malloc inside the check fails (`failmalloc 1`, "
                       "-Wl,--wrap=malloc) and while it works; distinct_nontrivial = number of distinct (API function, mutation, oracle reason, "
                       "answer of the code) tuples that occurred (listed in `branches`)",
               "samples": samples, "branches": dict(sorted(stats.items())), "corpus": ncorpus,
               "alloc_failure": alloc,
               "correspondence": {"MHD_digest_auth_check3/_check_digest3/_check/_check2/_check_digest/_check_digest2": "random, %d requests" % reqs,
                                  "calculate_nonce + binding options": "random (every issue compared with model and reference)",
                                  "check_uri_match / MHD_parse_arguments_": "random targets with pct-encoding, '+', key-only and empty pieces",
                                  "MHD_digest_auth_calc_userhash(_hex)/_calc_userdigest": "random %d" % (6000 if thorough else 1000)},
               "exhaustive": False}
        return failures, cov


def replay_lines(harness, driver, lines):
    """corpus / replay: model-vs-code comparison and the sanitizer (no semantic information in a stored script)"""
    ho, hrc, herr = vlib.run_lines(harness, lines)
    mo, mrc, merr = vlib.run_lines(driver, lines)
    if hrc != 0:
        return [vlib.Failure("sanitizer", "dauth: harness aborted (sanitizer / crash / MHD_PANIC)", herr[-2500:], lines[:len(ho) + 1], "dauth")]
    for j, (h, m) in enumerate(zip(ho, mo)):
        if h != m:
            return [vlib.Failure("diff", "dauth: model/code differ on corpus " + lines[j].split()[0],
                                 "line `%s`: code '%s' model '%s'" % (lines[j][:200], h[:200], m[:200]), lines[:j + 1], "dauth")]
    return []


def replay(ctx, path):
    r = json.load(open(path))
    sp = Spec(); sp.gen(ctx); vlib.lake_build(sp.lean_targets); sp.build(ctx)
    if "input" not in r:
        print("replay file names a proof / correspondence problem:", r.get("no_longer_checks"))
        return 1
    ho, hrc, herr = vlib.run_lines(sp.harness, r["input"])
    mo, _, _ = vlib.run_lines(sp.driver, r["input"])
    for i, l in enumerate(r["input"]):
        print("%-70s\n    code =%s\n    model=%s" % (l[:160], ho[i][:200] if i < len(ho) else "<aborted>", mo[i][:200] if i < len(mo) else "?"))
    if hrc != 0:
        print(herr[-3000:])
    print("recorded verdict:", r.get("kind"), r.get("detail"))
    still = False
    if r.get("kind") == "oracle" and " | code: " in (r.get("detail") or "") and ho:
        # the stored script carries no semantic credential; the oracle's objection stands as long as the
        # code still gives the answer it objected to
        still = ho[len(r["input"]) - 1][:300] == r["detail"].split(" | code: ", 1)[1] if len(ho) >= len(r["input"]) else True
        print("code still gives the answer the oracle rejected:", still)
    bad = hrc != 0 or ho != mo[:len(ho)] or still
    print("verdict:", "FAIL" if bad else "pass")
    return 1 if bad else 0
