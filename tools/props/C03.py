"""C03 — request framing is unambiguous; no desynchronisation.  Engine `frame`.

(A) gen_framing(): strictness thresholds / status codes / header names from /repo.
(B) correspondence: the real daemon (harness/h_conn03.c, socketpair, scripted segmentation)
    vs the Lean model driver (lean/Driver/Frame.lean) on pipelined streams of generated
    requests; white-box chunk decoder (harness/h_chunk.c) vs `chunkAct` on all short lines.
(iii) oracle: an independent strict reference framer (RefFramer below) + the property
    restated over what the real daemon did.  Knows nothing about the Lean model.
"""
import json, os, re, itertools
import vlib, extract

ENGINE = "frame"
LEVELS = [-3, -2, -1, 0, 1, 2, 3]
U64MAX = (1 << 64) - 1
# RFC 9112 6.1: an HTTP/1.0 request with Transfer-Encoding has faulty framing; the connection must be closed after it
HTTP10_TE_MUST_CLOSE = True


# ------------------------------------------------------------------ (A) translator

def _fn_body(text, name):
    m = re.search(r"^%s \(struct MHD_Connection \*\w+\)\n\{" % re.escape(name), text, re.M)
    if not m:
        return None
    i = m.end()
    depth = 1
    while i < len(text) and depth:
        depth += {"{": 1, "}": -1}.get(text[i], 0)
        i += 1
    return text[m.end():i]


def gen_framing():
    from extract import c_eval, src, prev_value, HEADER, GEN
    conn = src("src/microhttpd/connection.c")
    notes = []

    def thr(name, pattern, text, default):
        m = re.search(pattern, text) if text else None
        if m:
            return m.group(1)
        notes.append(name)
        return prev_value("Framing.lean", name, default)

    prb = _fn_body(conn, "process_request_body")
    pch = _fn_body(conn, "parse_connection_headers")
    bare = thr("bareLfMaxLvl", r"#define\s+MHD_ALLOW_BARE_LF_AS_CRLF_\(discp_lvl\)\s*\(\s*(-?\d+)\s*>=\s*discp_lvl\s*\)", conn, "0")
    bws = thr("bwsAboveLvl", r"const bool allow_bws\s*=\s*\(\s*(-?\d+)\s*<\s*discp_lvl\s*\)", prb, "2")
    host = thr("hostAboveLvl", r"\(\s*(-?\d+)\s*<\s*connection->daemon->client_discipline\s*\)", pch, "-3")
    tecl = thr("teClRejectFromLvl", r"\(\s*(-?\d+)\s*<=\s*connection->daemon->client_discipline\s*\)", pch, "1")
    m = re.search(r'MHD_str_equal_caseless_ \(enc,\s*"(\w+)"\)', pch or "")
    chunked = m.group(1) if m else "chunked"
    v = c_eval('#include "MHD_config.h"\n#include <stdint.h>\n#include <microhttpd.h>\n',
               [("bad", "%d", "MHD_HTTP_BAD_REQUEST"), ("large", "%d", "MHD_HTTP_CONTENT_TOO_LARGE"),
                ("unk", "%llu", "(unsigned long long) MHD_SIZE_UNKNOWN"), ("u64", "%llu", "(unsigned long long) UINT64_MAX"),
                ("host", "%s", "MHD_HTTP_HEADER_HOST"), ("te", "%s", "MHD_HTTP_HEADER_TRANSFER_ENCODING"),
                ("cl", "%s", "MHD_HTTP_HEADER_CONTENT_LENGTH"), ("conn", "%s", "MHD_HTTP_HEADER_CONNECTION"),
                ("expect", "%s", "MHD_HTTP_HEADER_EXPECT")])
    n1c = _fn_body(conn, "need_100_continue")
    m = re.search(r'MHD_str_equal_caseless_ \(expect,\s*"([\w-]+)"\)', n1c or "")
    tok100 = m.group(1) if m else "100-continue"

    def lst(s):
        return "[" + ", ".join(str(b) for b in s.encode()) + "]"

    out = HEADER % "src/microhttpd/connection.c, src/include/microhttpd.h" + "namespace Mhd.Gen.Framing\n" \
        + "/-- `#define MHD_ALLOW_BARE_LF_AS_CRLF_(discp_lvl) (K >= discp_lvl)` -/\n" \
        + "def bareLfMaxLvl : Int := %s\n" % bare \
        + "/-- process_request_body: `const bool allow_bws = (K < discp_lvl)` -/\n" \
        + "def bwsAboveLvl : Int := %s\n" % bws \
        + "/-- parse_connection_headers: Host required when `(K < client_discipline)` -/\n" \
        + "def hostAboveLvl : Int := %s\n" % host \
        + "/-- parse_connection_headers: TE+CL rejected when `(K <= client_discipline)` -/\n" \
        + "def teClRejectFromLvl : Int := %s\n" % tecl \
        + "def httpBadRequest : Nat := %s\n" % v["bad"] \
        + "def httpContentTooLarge : Nat := %s\n" % v["large"] \
        + "def sizeUnknown : Nat := %s\n" % v["unk"] \
        + "def uint64Max : Nat := %s\n" % v["u64"] \
        + "def hdrHost : List UInt8 := %s\n" % lst(v["host"]) \
        + "def hdrTransferEncoding : List UInt8 := %s\n" % lst(v["te"]) \
        + "def hdrContentLength : List UInt8 := %s\n" % lst(v["cl"]) \
        + "def hdrConnection : List UInt8 := %s\n" % lst(v["conn"]) \
        + "def hdrExpect : List UInt8 := %s\n" % lst(v["expect"]) \
        + "def tok100Continue : List UInt8 := %s\n" % lst(tok100) \
        + "def tokChunked : List UInt8 := %s\n" % lst(chunked) \
        + "def tokClose : List UInt8 := %s\n" % lst("close") \
        + "def tokKeepAlive : List UInt8 := %s\n" % lst("Keep-Alive") \
        + "end Mhd.Gen.Framing\n"
    vlib.write_if_changed(os.path.join(GEN, "Framing.lean"), out.replace("-3\n", "-3\n"))
    return notes


# ------------------------------------------------------------------ request generator

def hx(b):
    return b.hex() if b else "-"


METHODS = [b"GET", b"POST", b"PUT", b"DELETE", b"OPTIONS", b"FOO"]
NAMES = [b"X-A", b"Accept", b"User-Agent", b"X-Long-Header-Name", b"x-lower"]
VALUES = [b"1", b"text/plain", b"a b\tc", b"", b"v=1;q=2", b"close-not", b"chunked-not"]
EXTS = [b"", b"", b";x", b";x=1", b";a=b;c=\"d e\"", b";", b";=", b";name=val\tx"]
TRAILERS = [[], [], [(b"X-T", b"1")], [(b"X-T", b"1"), (b"Y", b"zz")]]


class Req:
    """one generated request: rendered bytes + what was intended"""
    def __init__(self):
        self.method = b"GET"; self.target = b"/"; self.version = b"HTTP/1.1"
        self.fields = []          # (name, value) in order
        self.body_bytes = b""     # bytes after the head as rendered
        self.defect = None        # None or a defect tag
        self.kind = "none"        # none | cl | chunked

    def head(self):
        out = self.method + b" " + self.target + b" " + self.version + b"\r\n"
        ows = getattr(self, "ows", None)
        for i, (n, v) in enumerate(self.fields):
            if ows:
                out += n + b":" + ows[i][0] + v + ows[i][1] + b"\r\n"
            else:
                out += n + b":" + (b" " if v != b"" else b"") + v + b"\r\n"
        return out + b"\r\n"

    def render(self):
        return self.head() + self.body_bytes


def rand_body(rng, maxlen=40):
    n = rng.choice([1, 2, 3, 5, 8, 16, rng.randint(1, maxlen)])
    # bodies deliberately look like HTTP so that a desynchronised parser finds "requests"
    pool = [b"GET /smuggled HTTP/1.1\r\nHost: h\r\n\r\n", b"0\r\n\r\n", b"\r\n", b"hello world", bytes(range(256)),
            b" " * 64, b"\t \t " * 16]    # (whitespace left behind in the read buffer must never influence later parsing)
    src = rng.choice(pool)
    if len(src) < n:
        src = src * (n // len(src) + 1)
    o = rng.randint(0, len(src) - n)
    return src[o:o + n]


def hexdigits(rng, n):
    s = b"%x" % n
    r = rng.random()
    if r < 0.2:
        s = s.upper()
    elif r < 0.3:
        s = b"0" * rng.randint(1, 3) + s
    return s


def chunk_encode(rng, body, lvl, bare_ok, bws_ok):
    """valid chunked encoding of body for this level; returns bytes"""
    out = b""
    i = 0
    while i < len(body):
        n = rng.choice([1, 2, 3, 7, len(body) - i, rng.randint(1, len(body) - i)])
        n = max(1, min(n, len(body) - i))
        ext = rng.choice(EXTS)
        bws = b""
        if bws_ok and ext and rng.random() < 0.3:
            bws = rng.choice([b" ", b"\t", b" \t "])
        eol = b"\n" if (bare_ok and rng.random() < 0.25) else b"\r\n"
        deol = b"\n" if (bare_ok and rng.random() < 0.25) else b"\r\n"
        out += hexdigits(rng, n) + bws + ext + eol + body[i:i + n] + deol
        i += n
    ext = rng.choice(EXTS)
    eol = b"\n" if (bare_ok and rng.random() < 0.2) else b"\r\n"
    out += rng.choice([b"0", b"0", b"00", b"000"]) + ext + eol
    return out


def trailer_bytes(tr):
    return b"".join(n + b": " + v + b"\r\n" for n, v in tr) + b"\r\n"


DEFECTS_HEAD = ["cl-two-differ", "cl-two-same", "cl-malformed", "cl-overflow", "te-not-chunked", "te-two",
                "te-cl", "no-host"]
DEFECTS_BODY = ["chunk-nonhex", "chunk-overflow", "chunk-no-crlf-after-data", "chunk-bare-lf", "chunk-bws",
                "chunk-space-no-ext", "chunk-junk-after-size", "chunk-lf-in-ext", "chunk-cr-in-ext", "chunk-empty-line"]
ALL_DEFECTS = DEFECTS_HEAD + DEFECTS_BODY


def gen_request(rng, lvl, defect=None, http10=False):
    r = Req()
    r.method = rng.choice(METHODS)
    r.target = b"/" + rng.choice([b"", b"a", b"p/q", b"index.html", b"r%d" % rng.randint(0, 99)])
    r.version = b"HTTP/1.0" if http10 else b"HTTP/1.1"
    r.defect = defect
    fields = []
    if not (defect == "no-host") and not (http10 and rng.random() < 0.5):
        fields.append((b"Host", rng.choice([b"h", b"example.org", b"h:8080"])))
    for _ in range(rng.choice([0, 0, 1, 2])):
        fields.append((rng.choice(NAMES), rng.choice(VALUES)))
    if http10 and rng.random() < 0.6:
        fields.append((b"Connection", rng.choice([b"Keep-Alive", b"keep-alive", b"foo, Keep-Alive"])))
    elif rng.random() < 0.08:
        fields.append((b"Connection", rng.choice([b"close", b"Close", b"foo,close", b"keep-alive", b"foo"])))
    expect = (not http10) and rng.random() < 0.15
    kind = rng.choice(["none", "cl", "chunked", "chunked"])
    if defect in DEFECTS_BODY or defect in ("te-cl", "te-two", "te-not-chunked"):
        kind = "chunked"
    if defect in ("cl-two-differ", "cl-two-same", "cl-malformed", "cl-overflow"):
        kind = "cl"
    if r.method == b"GET" and defect is None and rng.random() < 0.7:
        kind = "none"
    r.kind = kind
    body = rand_body(rng) if kind != "none" else b""
    bare_ok = lvl <= 0
    bws_ok = lvl > 2
    te_name = rng.choice([b"Transfer-Encoding", b"transfer-encoding", b"TRANSFER-ENCODING"])
    cl_name = rng.choice([b"Content-Length", b"content-length", b"CONTENT-LENGTH"])
    te_val = rng.choice([b"chunked", b"Chunked", b"CHUNKED"])
    if kind == "cl":
        if defect == "cl-two-differ":
            other = rng.choice([0, 1, len(body) + 7, max(0, len(body) - 1)])
            if other == len(body):
                other += 1
            vals = [b"%d" % len(body), b"%d" % other]
            if rng.random() < 0.5:
                vals.reverse()
            fields += [(cl_name, vals[0]), (rng.choice([b"Content-Length", b"content-length"]), vals[1])]
        elif defect == "cl-two-same":
            fields += [(cl_name, b"%d" % len(body)), (b"Content-Length", b"%d" % len(body))]
        elif defect == "cl-malformed":
            n = len(body)
            fields.append((cl_name, rng.choice([b"+%d" % n, b"%dx" % n, b"0x%x" % n, b"%d %d" % (n, n), b"%d,%d" % (n, n),
                                                 b"-%d" % n, b"%d.0" % n, b"abc", b"%d;" % n,
                                                 b"", b"", b" ", b"\t "])))       # empty / whitespace-only value
        elif defect == "cl-overflow":
            fields.append((cl_name, rng.choice([b"18446744073709551615", b"18446744073709551616", b"99999999999999999999999",
                                                 b"184467440737095516150"])))
        else:
            if rng.random() < 0.1:
                body = b""
            fields.append((cl_name, (b"0" * rng.choice([0, 0, 0, 2])) + b"%d" % len(body)))
        r.body_bytes = body
    elif kind == "chunked":
        enc = chunk_encode(rng, body, lvl, bare_ok and defect is None and rng.random() < 0.3,
                           bws_ok and defect is None)
        tr = rng.choice(TRAILERS)
        if defect == "te-not-chunked":
            fields.append((te_name, rng.choice([b"gzip", b"gzip, chunked", b"chunked, gzip", b"chunked,chunked", b"identity",
                                                b"xchunked", b"chunke", b"chunked;q=1", b"\"chunked\""])))
        elif defect == "te-two":
            a, b = rng.choice([(b"chunked", b"chunked"), (b"gzip", b"chunked"), (b"chunked", b"gzip"), (b"chunked", b"identity")])
            fields += [(te_name, a), (rng.choice([b"Transfer-Encoding", b"transfer-encoding"]), b)]
        elif defect == "te-cl":
            pair = [(te_name, te_val), (cl_name, b"%d" % rng.choice([len(body), 0, len(enc), 5]))]
            if rng.random() < 0.5:
                pair.reverse()
            fields += pair
        else:
            fields.append((te_name, te_val))
        if defect in DEFECTS_BODY:
            enc = defective_chunks(rng, body, defect)
        r.body_bytes = enc + trailer_bytes(tr)
    if expect:
        # RFC 9110 10.1.1: the client may send the body without waiting for "100 Continue"
        fields.insert(rng.randint(0, len(fields)), (rng.choice([b"Expect", b"expect"]),
                                                     rng.choice([b"100-continue", b"100-Continue", b"100-continue", b"something-else"])))
    rng.shuffle(fields) if rng.random() < 0.3 and defect not in ("cl-two-differ", "te-two", "te-cl") else None
    feats = set()
    if rng.random() < 0.5:
        # the non-canonical field-list family: names in random letter case, optional whitespace of any shape around
        # the values, the same (non-framing) name several times, list-valued fields
        def flip(n):
            return bytes((c ^ 0x20) if (65 <= c <= 90 or 97 <= c <= 122) and rng.random() < 0.5 else c for c in n)
        fields = [(flip(n), v) for n, v in fields]
        feats.add("mixed-case-names")
        if rng.random() < 0.5 and fields:
            n0, _ = rng.choice(fields)
            if n0.lower() not in (b"content-length", b"transfer-encoding", b"host", b"expect"):
                fields.insert(rng.randint(0, len(fields)), (flip(n0), rng.choice([b"dup", b"a, b", b"", b"close-not"])))
                feats.add("duplicate-field")
        r.ows = [(rng.choice([b"", b" ", b" ", b"  ", b"\t", b" \t "]), rng.choice([b"", b"", b" ", b"\t", b" \t  "])) for _ in fields]
        if any(a not in (b"", b" ") or b for a, b in r.ows):
            feats.add("ows")
    low = [(n.lower(), v) for n, v in fields]
    if sum(1 for n, _ in low if n == b"transfer-encoding") > 1:
        feats.add("several-te")
    if sum(1 for n, _ in low if n == b"content-length") > 1:
        feats.add("several-cl")
    if any(n == b"transfer-encoding" and (b"," in v or b" " in v) for n, v in low):
        feats.add("list-valued-te")
    if any(n == b"content-length" and (b"," in v or b" " in v) for n, v in low):
        feats.add("list-valued-cl")
    if any(n == b"connection" and b"," in v for n, v in low):
        feats.add("list-valued-connection")
    if len({n for n, _ in low}) < len(low):
        feats.add("repeated-name")
    r.features = feats
    r.fields = fields
    return r


def defective_chunks(rng, body, defect):
    """a chunked body whose first or second chunk carries the defect; the rest is well-formed"""
    pre = b""
    if len(body) > 2 and rng.random() < 0.5:
        k = rng.randint(1, len(body) - 1)
        pre = b"%x\r\n" % k + body[:k] + b"\r\n"
        body = body[k:]
    n = len(body)
    good_tail = b"0\r\n"
    if defect == "chunk-nonhex":
        bad = rng.choice([b"x%x" % n, b" %x" % n, b"-%x" % n, b"g", b"+%x" % n, b"\t%x" % n]) + b"\r\n" + body + b"\r\n"
    elif defect == "chunk-empty-line":
        bad = b"\r\n" + b"%x\r\n" % n + body + b"\r\n"
    elif defect == "chunk-overflow":
        bad = rng.choice([b"10000000000000000", b"FFFFFFFFFFFFFFFFF", b"1" + b"0" * 20]) + b"\r\n" + body + b"\r\n"
    elif defect == "chunk-no-crlf-after-data":
        bad = b"%x\r\n" % n + body + rng.choice([b"X\r\n", b"XY", b"\rX", b"0\r\n"])
    elif defect == "chunk-bare-lf":
        w = rng.choice(["line", "data", "last", "ext"])
        if w == "line":
            bad = b"%x\n" % n + body + b"\r\n"
        elif w == "ext":
            bad = b"%x;e=1\n" % n + body + b"\r\n"
        elif w == "data":
            bad = b"%x\r\n" % n + body + b"\n"
        else:
            bad = b"%x\r\n" % n + body + b"\r\n"
            good_tail = b"0\n"
    elif defect == "chunk-bws":
        bad = b"%x" % n + rng.choice([b" ", b"\t", b"  "]) + b";x=1\r\n" + body + b"\r\n"
    elif defect == "chunk-space-no-ext":
        bad = b"%x" % n + rng.choice([b" ", b"\t"]) + b"\r\n" + body + b"\r\n"
    elif defect == "chunk-junk-after-size":
        bad = b"%x" % n + rng.choice([b"x", b"h", b"=", b":", b"\r"]) + b"\r\n" + body + b"\r\n"
    elif defect == "chunk-lf-in-ext":
        bad = b"%x;a\nb\r\n" % n + body + b"\r\n"
    elif defect == "chunk-cr-in-ext":
        bad = b"%x;a\rb\r\n" % n + body + b"\r\n"
    else:
        raise ValueError(defect)
    return pre + bad + good_tail


# ------------------------------------------------------------------ independent reference framer (oracle side)

TOKEN = rb"[!#$%&'*+.^_`|~0-9A-Za-z-]+"


class RefMsg:
    def __init__(self):
        self.cls = "valid"      # valid | lenient | invalid-head | invalid-body | garbage | incomplete
        self.method = self.target = None
        self.body = b""         # body (or the part of it that is well-formed so far)
        self.end = None
        self.persistent = False
        self.must_close = False
        self.why = ""
        self.head_ok = False


def conn_tokens(fields):
    toks = []
    for n, v in fields:
        if n.lower() == b"connection":
            toks += [t.strip(b" \t").lower() for t in v.split(b",")]
    return toks


def ref_chunked(stream, pos, lvl):
    """strict chunked-body parse with the per-level MAY-options recorded.
    returns (status, body, endpos, lenient_features, why); status in ok/invalid/incomplete"""
    body = b""
    feats = set()
    n = len(stream)
    while True:
        lf = stream.find(b"\n", pos)
        if lf < 0:
            # a definitely broken start can already be judged
            line = stream[pos:]
            if line and not re.match(rb"[0-9A-Fa-f]", line[:1]):
                return "invalid", body, pos, feats, "chunk-size line does not start with a hex digit"
            pm = re.fullmatch(rb"([0-9A-Fa-f]*)(\r|[ \t]*(;[^\n]*)?)", line, re.S)
            if not pm or (pm.group(1) and int(pm.group(1), 16) > U64MAX):
                # cannot be completed to a valid line any more: waiting for the LF or refusing right away are both fine
                return "incomplete-or-invalid", body, pos, feats, "chunk-size line cannot become valid"
            if pm.group(2)[:1] in (b" ", b"\t"):
                feats.add("bws")
            return "incomplete", body, pos, feats, ""
        line = stream[pos:lf]
        if line.endswith(b"\r"):
            line = line[:-1]
        else:
            if lvl > 0:
                if lf == n - 1:
                    # the forbidden bare LF is the last byte received: the decoder looks at two bytes, it may still wait
                    return "incomplete-or-invalid", body, pos, feats, "bare LF ends a chunk-size line"
                return "invalid", body, pos, feats, "bare LF ends a chunk-size line"
            feats.add("bare-lf")
        m = re.fullmatch(rb"([0-9A-Fa-f]+)([ \t]*)(;[^\n]*)?", line, re.S)
        if not m:
            return "invalid", body, pos, feats, "malformed chunk-size line %r" % line[:20]
        if m.group(2):
            if not m.group(3):
                return "invalid", body, pos, feats, "whitespace after chunk size without extension"
            feats.add("bws")
        if m.group(3) and b"\r" in m.group(3):
            feats.add("cr-in-ext")
        size = int(m.group(1), 16)
        if size > U64MAX:
            return "invalid", body, pos, feats, "chunk size does not fit 64 bits"
        pos = lf + 1
        if size == 0:
            return "ok", body, pos, feats, ""
        if n - pos < size:
            return "incomplete", body + stream[pos:], pos, feats, ""
        body += stream[pos:pos + size]
        pos += size
        if stream[pos:pos + 2] == b"\r\n":
            pos += 2
        elif stream[pos:pos + 1] == b"\n":
            if lvl > 0:
                if n - pos < 2:
                    return "incomplete-or-invalid", body, pos, feats, "bare LF after chunk data"
                return "invalid", body, pos, feats, "bare LF after chunk data"
            feats.add("bare-lf")
            pos += 1
        elif n - pos < 2 and stream[pos:pos + 1] in (b"", b"\r"):
            return "incomplete", body, pos, feats, ""
        elif n - pos < 2:
            # one byte that is neither CR nor LF: already wrong, but an implementation may wait for the second byte
            return "incomplete-or-invalid", body, pos, feats, "chunk data not followed by CRLF"
        else:
            return "invalid", body, pos, feats, "chunk data not followed by CRLF"


def ref_next(stream, pos, lvl):
    m = RefMsg()
    he = stream.find(b"\r\n\r\n", pos)
    if he < 0:
        m.cls = "incomplete"
        return m
    lines = stream[pos:he].split(b"\r\n")
    rl = re.fullmatch(rb"([A-Z]+) (/[A-Za-z0-9/._-]*) HTTP/1\.([01])", lines[0])
    fields = []
    ok = rl is not None
    for l in lines[1:]:
        fm = re.fullmatch(rb"(" + TOKEN + rb"):[ \t]*([\x20-\x7e\t]*?)[ \t]*", l)
        if not fm:
            ok = False
            break
        fields.append((fm.group(1), fm.group(2)))
    if not ok:
        m.cls = "garbage"
        m.why = "not a canonical request head"
        return m
    m.head_ok = True
    m.method, m.target = rl.group(1), rl.group(2)
    v11 = rl.group(3) == b"1"
    toks = conn_tokens(fields)
    m.persistent = (b"close" not in toks) and (v11 or b"keep-alive" in toks)
    te = [v for n, v in fields if n.lower() == b"transfer-encoding"]
    cl = [v for n, v in fields if n.lower() == b"content-length"]
    host = [v for n, v in fields if n.lower() == b"host"]
    bpos = he + 4
    lenient = []
    m.lenient = lenient          # (shared list: later appends are visible whichever way we return)
    if v11 and not host:
        if lvl > -3:
            m.cls, m.why = "invalid-head", "HTTP/1.1 request without Host"
            return m
        lenient.append("no-host")
    if len(te) >= 2:
        m.cls, m.why = "invalid-head", "several Transfer-Encoding fields"
        return m
    if len(te) == 1:
        if te[0].lower() != b"chunked":
            m.cls, m.why = "invalid-head", "Transfer-Encoding is not exactly chunked"
            return m
        if cl:
            if lvl >= 1:
                m.cls, m.why = "invalid-head", "Content-Length together with Transfer-Encoding (strict mode)"
                return m
            lenient.append("te-cl")
            m.must_close = True
        if not v11:
            # RFC 9112 6.1: HTTP/1.0 + Transfer-Encoding = faulty framing, close after processing
            lenient.append("http10-te")
        st, body, end, feats, why = ref_chunked(stream, bpos, lvl)
        m.body = body
        lenient += sorted(feats)
        if st == "ok":
            # trailer section
            if stream[end:end + 2] == b"\r\n":
                m.end = end + 2
            else:
                te2 = stream.find(b"\r\n\r\n", end)
                if te2 < 0:
                    m.cls = "incomplete"
                    return m
                for l in stream[end:te2].split(b"\r\n"):
                    if not re.fullmatch(rb"(" + TOKEN + rb"):[ \t]*([\x20-\x7e\t]*?)[ \t]*", l):
                        lenient.append("odd-trailer")     # outside the canonical domain: accept or refuse, both fine
                m.end = te2 + 4
            m.cls = "lenient" if lenient else "valid"
        elif st == "incomplete":
            m.cls = "incomplete"
        elif st == "incomplete-or-invalid":
            m.cls = "incomplete-or-invalid"
            m.why = why
        else:
            m.cls, m.why = "invalid-body", why
        m.lenient = lenient
        return m
    if len(cl) >= 2:
        if len(set(cl)) == 1 and re.fullmatch(rb"[0-9]+", cl[0]) and int(cl[0]) < U64MAX:
            lenient.append("cl-dup-same")      # RFC 9110 8.6: may be accepted with that value or rejected
            cl = cl[:1]
        else:
            m.cls, m.why = "invalid-head", "several differing Content-Length fields"
            return m
    if len(cl) == 1:
        if not re.fullmatch(rb"[0-9]+", cl[0]) or int(cl[0]) >= U64MAX:
            m.cls, m.why = "invalid-head", "malformed or unrepresentable Content-Length"
            return m
        n = int(cl[0])
        if len(stream) - bpos < n:
            m.cls = "incomplete"
            m.body = stream[bpos:]
        else:
            m.body = stream[bpos:bpos + n]
            m.end = bpos + n
            m.cls = "lenient" if lenient else "valid"
    else:
        m.end = bpos
        m.cls = "lenient" if lenient else "valid"
    m.lenient = lenient
    return m


def parse_wire(data):
    """strict reply parser: list of (status, has_connection_close) and leftover flag"""
    out = []
    pos = 0
    while pos < len(data):
        he = data.find(b"\r\n\r\n", pos)
        if he < 0:
            return out, "truncated reply head"
        lines = data[pos:he].split(b"\r\n")
        sl = re.fullmatch(rb"HTTP/1\.[01] ([0-9]{3}) [^\r\n]*", lines[0])
        if not sl:
            return out, "bad status line %r" % lines[0][:40]
        if 100 <= int(sl.group(1)) <= 199:
            # interim reply (100 Continue): no body, not a reply to count
            pos = he + 4
            continue
        cl = None
        close = False
        for l in lines[1:]:
            n, _, v = l.partition(b":")
            v = v.strip()
            if n.lower() == b"content-length":
                cl = int(v)
            if n.lower() == b"connection" and b"close" in [t.strip().lower() for t in v.split(b",")]:
                close = True
            if n.lower() == b"transfer-encoding":
                return out, "unexpected chunked reply"
        if cl is None:
            return out, "reply without Content-Length"
        if len(data) - (he + 4) < cl:
            return out, "truncated reply body"
        out.append((int(sl.group(1)), close))
        pos = he + 4 + cl
    return out, None


class Obs:
    """what the real daemon did on one connection"""
    def __init__(self):
        self.reqs = []          # dicts: method, url, up (coalesced bytes taken), final(bool), completed(code|None)
        self.wire = b""
        self.server_closed = False      # eof / rst before the client closed
        self.never_completed = []
        self.problems = []              # protocol-error / unstable / settle failures
        self.conn_closed_event = False


def parse_log(lines):
    o = Obs()
    client_closed = False
    pending_up = None
    for l in lines:
        w = l.split()
        if not w:
            continue
        k = w[0]
        if k == "handler":
            d = dict(x.split("=", 1) for x in w[1:] if "=" in x)
            r = int(d["r"])
            if d["phase"] == "first":
                o.reqs.append({"method": bytes.fromhex(d["method"]), "url": bytes.fromhex(d["url"]), "up": b"",
                               "final": False, "completed": None, "after_client_close": client_closed})
            elif r < len(o.reqs):
                if d["phase"] == "upload":
                    pending_up = (r, bytes.fromhex(d["up"]))
                else:
                    o.reqs[r]["final"] = True
        elif k == "took" and pending_up is not None:
            d = dict(x.split("=", 1) for x in w[1:])
            r, data = pending_up
            o.reqs[r]["up"] += data[:int(d["n"])]
            pending_up = None
        elif k == "completed":
            d = dict(x.split("=", 1) for x in w[1:])
            if d.get("r", "?") != "?" and int(d["r"]) < len(o.reqs):
                o.reqs[int(d["r"])]["completed"] = int(d["code"])
        elif k == "wire":
            o.wire += bytes.fromhex(w[2])
        elif k in ("eof", "rst"):
            if not client_closed:
                o.server_closed = True
        elif k == "conn-close":
            o.conn_closed_event = True
        elif k == "client-closed":
            client_closed = True
        elif k == "never-completed":
            o.never_completed.append(l)
        elif k in ("settle-not-quiet", "bad-op", "start-failed", "fdset-failed"):
            # ("unstable" = C02/C05 string stability, "protocol-error" = C05, "short-send" = peer already closed: not C03's business)
            o.problems.append(l)
    return o


def oracle(case, o):
    """Independent statement of C03 over the observation.  Returns list of (signature, detail).

    Walks the reference framing of the stream and requires, request by request:
    valid -> presented to the handler with exactly the reference body, application's status;
    invalid framing -> never a 2xx, error reply, connection closed, nothing presented afterwards;
    MAY-accept renderings (lenient) -> either of the two, consistently;
    after an early reply / abort / reply announcing close / non-persistent request -> closed, nothing presented afterwards;
    every request the handler saw is reported completed."""
    stream, lvl, behs = case["stream"], case["lvl"], case["behs"]
    errs = []
    replies, werr = parse_wire(o.wire)
    if werr:
        errs.append(("frame: unparsable reply on the wire", werr))
    for p in o.problems:
        errs.append(("frame: harness problem " + p.split()[0], p))
    for nc in o.never_completed:
        errs.append(("frame: request seen by the handler was never reported completed", nc))
    pos = 0
    ri = 0            # next handler-visible request in the observation
    pi = 0            # next reply on the wire
    idx = 0           # request index (behaviour index)
    expect = "open"   # open | closed | unknown (stop judging the tail)

    def error_reply(m, what, must):
        """consume one reply that has to be an error; returns True when present"""
        nonlocal pi
        if pi < len(replies):
            st = replies[pi][0]
            pi += 1
            if not (400 <= st <= 599):
                errs.append(("frame: request with invalid framing (%s) answered %dxx" % (what, st // 100),
                             "request #%d at offset %d: %s; status %d" % (idx, pos, what, st)))
            return True
        if must:
            errs.append(("frame: request with invalid framing (%s) got no reply" % what, "request #%d at offset %d" % (idx, pos)))
        return False

    while pos < len(stream):
        m = ref_next(stream, pos, lvl)
        beh = behs[idx] if idx < len(behs) else "c200"
        seen = o.reqs[ri] if ri < len(o.reqs) else None
        if m.method is None and m.cls == "incomplete":
            break                                   # incomplete head: nothing may happen
        if m.cls in ("garbage", "invalid-head"):
            if seen is not None:
                errs.append(("frame: request with invalid framing (%s) was presented to the handler" % m.why,
                             "request #%d at offset %d: handler saw %r %r" % (idx, pos, seen["method"], seen["url"])))
                expect = "unknown"
                break
            error_reply(m, m.why, must=m.head_ok)
            expect = "closed"
            break
        lenient = getattr(m, "lenient", [])
        if seen is None:
            # head acceptable but not presented: only a clean refusal of a MAY-accept head is tolerable
            if lenient and pi < len(replies) and 400 <= replies[pi][0] <= 599:
                pi += 1
                expect = "closed"
                break
            errs.append(("frame: acceptable request was not presented to the handler",
                         "request #%d at offset %d (%r %r) class %s" % (idx, pos, m.method, m.target, m.cls)))
            expect = "unknown"
            break
        if seen["method"] != m.method or seen["url"] != m.target:
            errs.append(("frame: handler saw a request the reference framer does not see at this position",
                         "offset %d: handler %r %r, reference %r %r" % (pos, seen["method"], seen["url"], m.method, m.target)))
            expect = "unknown"
            break
        ri += 1
        if beh == "a":
            expect = "closed"
            break
        if beh[0] in "ef":
            want = int(beh[1:])
            if pi >= len(replies):
                errs.append(("frame: early reply missing on the wire", "request #%d" % idx))
            else:
                if replies[pi][0] != want:
                    errs.append(("frame: reply status differs from the application's", "request #%d: %d vs %d" % (idx, replies[pi][0], want)))
                pi += 1
            if seen["final"] or seen["up"]:
                errs.append(("frame: handler called again after an early reply", "request #%d" % idx))
            expect = "closed"
            break
        # the application reads the body and replies at the final call
        if not m.body.startswith(seen["up"]):
            errs.append(("frame: upload data differs from the reference body",
                         "request #%d (%s): got %r, reference %r" % (idx, m.cls, seen["up"][:60], m.body[:60])))
        if m.cls == "incomplete":
            if lenient and not seen["final"] and pi < len(replies) and 400 <= replies[pi][0] <= 599:
                pi += 1                             # MAY-accept rendering refused cleanly before the end arrived
                expect = "closed"
                break
            if seen["final"]:
                errs.append(("frame: final handler call for an incomplete request", "request #%d" % idx))
            break
        if m.cls in ("invalid-body", "incomplete-or-invalid"):
            if seen["final"]:
                errs.append(("frame: request with malformed chunked body (%s) reached the final handler call" % m.why, "request #%d" % idx))
            if m.cls == "incomplete-or-invalid" and pi >= len(replies):
                break                               # still waiting for the second byte: fine
            error_reply(m, m.why, must=True)
            expect = "closed"
            break
        # valid or lenient, complete
        if lenient and not seen["final"] and pi < len(replies) and 400 <= replies[pi][0] <= 599:
            pi += 1                                 # MAY-accept rendering refused cleanly
            expect = "closed"
            break
        if seen["up"] != m.body:
            errs.append(("frame: upload data differs from the reference body",
                         "request #%d: got %r, reference %r" % (idx, seen["up"][:60], m.body[:60])))
        if not seen["final"]:
            errs.append(("frame: valid request did not reach the final handler call", "request #%d (%s)" % (idx, m.cls)))
            expect = "unknown"
            break
        want = int(beh[1:])
        if pi >= len(replies):
            errs.append(("frame: reply missing on the wire", "request #%d" % idx))
            expect = "unknown"
            break
        st, cl = replies[pi]
        pi += 1
        if st != want:
            errs.append(("frame: reply status differs from the application's", "request #%d: %d vs %d" % (idx, st, want)))
        must_close = m.must_close or beh[0] == "k" or not m.persistent or cl
        if case.get("http10_te_must_close", HTTP10_TE_MUST_CLOSE) and "http10-te" in lenient:
            must_close = True
        pos = m.end
        idx += 1
        if must_close:
            expect = "closed"
            break
    if expect != "unknown":
        if ri < len(o.reqs):
            extra = o.reqs[ri]
            errs.append(("frame: handler saw a request the reference framer does not see at this position",
                         "after %d legitimate request(s): %r %r" % (ri, extra["method"], extra["url"])))
        if pi < len(replies):
            errs.append(("frame: more replies on the wire than requests in the reference framing",
                         "%d extra, first status %d" % (len(replies) - pi, replies[pi][0])))
        if expect == "closed" and not o.server_closed:
            errs.append(("frame: connection left open after a request that requires closing", "reference: close after request #%d" % idx))
        if expect == "open" and o.server_closed:
            errs.append(("frame: server closed a connection that was in order", "stream consumed, %d request(s)" % idx))
    for i, r in enumerate(o.reqs):
        if r["completed"] is None and not any(("r=%d" % i) in nc for nc in o.never_completed):
            errs.append(("frame: request seen by the handler was never reported completed", "request #%d" % i))
    return errs


# ------------------------------------------------------------------ scripts, model, comparison

RESP = {"c": 0, "k": 1, "e": 0, "f": 1}


def script_for(case, cid):
    L = ["case %s" % cid, "cfg mode=select mem=%d lvl=%d" % (case["mem"], case["lvl"])]
    codes = sorted({int(b[1:]) for b in case["behs"] if b != "a"} | {200})
    rid = {}
    n = 0
    for code in codes:
        rid[("plain", code)] = n
        L.append("resp %d code=%d" % (n, code)); n += 1
        rid[("close", code)] = n
        L.append("resp %d code=%d h=%s:%s" % (n, code, b"Connection".hex(), b"close".hex())); n += 1
    take = case.get("take")
    seqs = case.get("resp_seq") or {}
    seq_rid = {}
    for i in sorted(seqs):
        b = case["behs"][i]
        calls = " ".join("%s=%s:%s" % (op, nm.hex(), vl.hex() if vl else "") for op, nm, vl in seqs[i])
        L.append("resp %d code=%d %s" % (n, int(b[1:]), calls))
        seq_rid[i] = n
        n += 1
    for i, b in enumerate(case["behs"]):
        u = (" u=" + take) if take else ""
        if i in seq_rid:
            L.append("beh 0 %d %s=r%d%s" % (i, "f" if b[0] in "ef" else "l", seq_rid[i], u if b[0] not in "ef" else ""))
        elif b == "a":
            L.append("beh 0 %d f=no" % i)
        elif b[0] in "ef":
            L.append("beh 0 %d f=r%d" % (i, rid[("close" if b[0] == "f" else "plain", int(b[1:]))]))
        else:
            L.append("beh 0 %d l=r%d%s" % (i, rid[("close" if b[0] == "k" else "plain", int(b[1:]))], u))
    if take:
        # default behaviour for requests beyond the list
        pass
    L += ["start", "arrive 0 1"]
    for s in case["segs"]:
        L.append("feed 0 " + hx(s))
    L += ["settle", "cclose 0", "settle", "stop"]
    return L


def summary_from_obs(o):
    replies, werr = parse_wire(o.wire)
    return {"reqs": [(r["method"].hex(), r["url"].hex(), r["up"].hex(), r["final"]) for r in o.reqs],
            "replies": [(st, 1 if cl else 0) for st, cl in replies], "closed": o.server_closed, "wire_err": werr}


def summary_from_model(line):
    """parse the driver's `run` output"""
    if "|" not in line:
        return None
    evs, tail = line.rsplit("|", 1)
    reqs, replies, closed = [], [], False
    for e in evs.split():
        p = e.split(":")
        if p[0] == "first":
            reqs.append([("" if p[1] == "-" else p[1]), ("" if p[2] == "-" else p[2]), "", False])
        elif p[0] == "up" and reqs:
            reqs[-1][2] += ("" if p[1] == "-" else p[1])
        elif p[0] == "final" and reqs:
            reqs[-1][3] = True
        elif p[0] == "reply":
            replies.append((int(p[1]), int(p[2])))
        elif p[0] == "close":
            closed = True
    st = dict(x.split("=") for x in tail.split())
    return {"reqs": [tuple(r) for r in reqs], "replies": replies, "closed": closed, "state": st.get("state")}


def run_driver(driver_cmd, lines, timeout=900):
    import subprocess
    data = "\n".join(lines) + "\n"
    r = subprocess.run(driver_cmd, input=data, stdout=subprocess.PIPE, stderr=subprocess.PIPE, text=True,
                       cwd=vlib.LEAN, timeout=timeout)
    return r.stdout.splitlines(), r.returncode, r.stderr


def split_cases(hout):
    cases, cur, cid = {}, None, None
    for l in hout:
        if l.startswith("case "):
            cid = l.split()[1]
            cur = cases.setdefault(cid, [])
        elif cur is not None:
            cur.append(l)
    return cases


def segmentations(rng, stream, tier, short):
    segs = [[stream]]
    n = len(stream)
    if n > 1:
        if short:
            segs += [[stream[:i], stream[i:]] for i in range(1, n)]
        else:
            for _ in range(4):
                i = rng.randint(1, n - 1)
                segs.append([stream[:i], stream[i:]])
        for _ in range(2):
            k = rng.randint(2, min(8, n))
            cuts = sorted(rng.sample(range(1, n), k - 1))
            segs.append([stream[a:b] for a, b in zip([0] + cuts, cuts + [n])])
    return segs


def line_segments(stream):
    """one segment per line (cut after every LF): every line end coincides with a read boundary"""
    out, start = [], 0
    for i, ch in enumerate(stream):
        if ch == 10:
            out.append(stream[start:i + 1])
            start = i + 1
    if start < len(stream):
        out.append(stream[start:])
    return out


def gen_stream(rng, lvl, want_defect):
    """1..4 requests; at most the last one carries a defect"""
    k = rng.choice([1, 1, 2, 2, 3, 4])
    reqs = []
    for i in range(k):
        last = i == k - 1
        d = want_defect if (last and want_defect) else None
        http10 = rng.random() < 0.12
        reqs.append(gen_request(rng, lvl, d, http10))
    behs = []
    for i in range(k):
        r = rng.random()
        code = rng.choice([200, 200, 200, 201, 404])
        behs.append(("c%d" if r < 0.7 else "k%d" if r < 0.8 else "e%d" if r < 0.92 else "f%d" if r < 0.97 else "a") % code
                    if r < 0.97 else "a")
    stream = b"".join(r.render() for r in reqs)
    # sometimes truncate (incomplete last request) or append a further plain request after a defect
    r = rng.random()
    if r < 0.08 and len(stream) > 3:
        stream = stream[:rng.randint(1, len(stream) - 1)]
    elif want_defect and r < 0.5:
        stream += b"GET /after HTTP/1.1\r\nHost: h\r\n\r\n"
        behs.append("c200")
    feats = set()
    for q in reqs:
        feats |= q.features
    return stream, behs, sorted(feats)


# ------------------------------------------------------------------ white-box chunk decoder (bounded-exhaustive)

CHUNK_ALPHA = [b"0", b"1", b"a", b"F", b";", b"=", b" ", b"\t", b"\r", b"\n", b"x"]


def chunk_lines(maxlen):
    for n in range(0, maxlen + 1):
        for t in itertools.product(CHUNK_ALPHA, repeat=n):
            yield b"".join(t)


def ref_chunk_line(buf, lvl):
    """oracle for one chunk-size line at the start of `buf` (independent restatement):
    returns 'need' | ('line', len, size) | ('err',) | None when the strict grammar leaves it open"""
    lf = buf.find(b"\n")
    if lf < 0:
        return None
    line = buf[:lf]
    bare = not line.endswith(b"\r")
    if not bare:
        line = line[:-1]
    m = re.fullmatch(rb"([0-9A-Fa-f]+)(;[^\n]*)?", line, re.S)
    if m and not bare:
        return ("line", lf + 1, int(m.group(1), 16))
    if bare and lvl > 0:
        return ("err",)
    if not re.match(rb"[0-9A-Fa-f]", buf[:1]):
        return ("err",)
    return None


class Spec:
    props_module = "Mhd.Props.C03"
    required_theorems = ["Mhd.C03.decideBody_valid", "Mhd.C03.decideBody_rejects_defects", "Mhd.C03.decideBody_te_cl_tolerated",
                         "Mhd.C03.chunked_decode_encode", "Mhd.C03.chunked_upload_is_body", "Mhd.C03.steps_idle",
                         "Mhd.C03.split_independence", "Mhd.C03.feed_feed", "Mhd.C03.malformed_chunk_rejected",
                         "Mhd.C03.chunk_error_no_resync", "Mhd.C03.pipeline_no_desync", "Mhd.C03.frames_agree_reference", "Mhd.C03.no_reparse",
                         "Mhd.C03.no_further_request", "Mhd.C03.flagsWF_reachable", "Mhd.C03.error_reply_taints",
                         "Mhd.C03.no_reparse_run", "Mhd.C03.decideBody_agrees_reference", "Mhd.C03.host_rule_refuses",
                         "Mhd.C03.framing_defect_no_resync", "Mhd.C03.strict_parser_lawful", "Mhd.C03.take_absorbed",
                         "Mhd.C03.partial_takes_no_desync", "Mhd.C03.pipeline_no_desync_takes",
                         "Mhd.C03.head_refusal_no_resync", "Mhd.C03.real_parser_lawful",
                         "Mhd.C03.pipeline_no_desync_real_parser_partial", "Mhd.C03.frames_agree_reference_real_parser_partial",
                         "Mhd.C03.split_independence_real_parser_partial", "Mhd.C03.announced_close_no_further_request"]
    trusted_base = ["Lean 4 kernel", "axioms: propext, Classical.choice, Quot.sound at most (audited per theorem)",
                    "hand-written model lean/Mhd/Model/Framing*.lean, Chunked.lean tied to connection.c by this run's correspondence",
                    "reference framer / chunk grammar in lean/Mhd/Model/FramingRef.lean (specification, read it) and its independent Python twin in tools/props/C03.py",
                    "tools/props/C03.py gen_framing (thresholds, status codes, header names regenerated)",
                    "harness/h_conn03.c (copy of the shared daemon harness + settle/feed, recv progress shim), harness/h_chunk.c, gcc, ASan/UBSan"]
    assumptions = ["the request-head parser is a parameter of the theorems (any incremental scanner delivering any method/target/field list; `LawfulHeadParser`); that the real get_request_line/get_req_headers is one is C02's subject (split independence). The executable model runs the strict splitter (CRLF, single SP, token names in any case, OWS around values, duplicates and list values allowed, no Cookie, method not HEAD/CONNECT, unreserved target); other heads: oracle + the composition with C02's scanners (`reqParser`, driver op runreal)",
                   "the interim '100 Continue' reply is not an event of the model (the Expect path need_100_continue / CONTINUE_SENDING is modelled as a state); interim replies are skipped when replies are compared",
                   "partial upload takes: proved equivalent to the take-all automaton for every schedule of arrivals/iterations/takes (partial_takes_no_desync); the application always replies at the first or at the final call",
                   "socket always writable; one connection; external select mode",
                   "the reply's 'carries close' flag: tied to the bytes on the wire by announced_close_no_further_request (via C04 close_announced_iff) for response objects without upgrade / HTTP-1.0 flags and with known size; in the correspondence the flag given to the model is read off the wire reply",
                   "responses have a known size (no close-delimited replies)"]

    @property
    def lean_targets(self):
        t = ["Mhd.Props.C03"]
        try:
            if re.search(r'name\s*=\s*"drv_frame"', open(os.path.join(vlib.LEAN, "lakefile.toml")).read()):
                t.append("drv_frame")
        except OSError:
            pass
        return t

    def gen(self, ctx):
        notes = gen_framing()
        if notes:
            ctx.note("gen: source pattern not found for %s (kept previous value)" % ", ".join(notes))

    def driver_cmd(self):
        exe = vlib.driver_path("drv_frame")
        if os.path.exists(exe) and "drv_frame" in self.lean_targets:
            return [exe]
        return ["lake", "env", "lean", "--run", "Driver/Frame.lean"]

    def build(self, ctx):
        self.harness = vlib.build_daemon_harness(name="h_conn03", src="harness/h_conn03.c", ldextra=["-ldl"])
        self.chunk_harness = None
        src = os.path.join(vlib.VERIF, "harness/h_chunk.c")
        if os.path.exists(src):
            keys = vlib.repo_sources() + [src, os.path.join(vlib.VERIF, "harness/common/lp.h")]

            def b():
                objs = vlib.cc_lib_objects("lib_san_h_chunk", exclude=("connection.c", "mhd_mono_clock.c"))
                vlib.cc("h_chunk", [src], libs=["-lgnutls", "-lpthread"], objs=objs)
            self.chunk_harness = vlib.build_cached("h_chunk", keys, b)
        self.driver = self.driver_cmd()

    # -------------------------------------------------------------- one batch of daemon cases
    def run_cases(self, cases, failures, stats):
        script, ids = [], []
        for i, c in enumerate(cases):
            cid = "k%d" % i
            ids.append(cid)
            script += script_for(c, cid)
        hout, hrc, herr = vlib.run_lines(self.harness, script, timeout=1200)
        by = split_cases(hout)
        def model_behs(i, c):
            """behaviour list for the model; where the response object was built by API calls, its "carries close" flag is
            what the wire shows for that reply (C04 close_announced_iff: wire announces close <=> response object does)"""
            if not c.get("resp_seq"):
                return c["behs"]
            lines = by.get(ids[i])
            if lines is None:
                return c["behs"]
            replies, _ = parse_wire(parse_log(lines).wire)
            out, ri = list(c["behs"]), 0
            for j, b in enumerate(out):
                if b == "a" or ri >= len(replies):
                    break
                if j in c["resp_seq"]:
                    closeflag = replies[ri][1]
                    out[j] = ("f" if b[0] in "ef" else "k") + b[1:] if closeflag else ("e" if b[0] in "ef" else "c") + b[1:]
                ri += 1
            return out
        mlines = ["run %d %s %s" % (c["lvl"], ",".join(model_behs(i, c)) if c["behs"] else "-", " ".join(hx(s) for s in c["segs"]))
                  for i, c in enumerate(cases)]
        mout, mrc, merr = run_driver(self.driver, mlines)
        if mrc != 0 or len(mout) != len(cases):
            failures.append(vlib.Failure("model", "frame: model driver failed", (merr or "")[-800:] + " lines=%d/%d" % (len(mout), len(cases)),
                                         mlines[:3], ENGINE))
            mout = mout + [""] * (len(cases) - len(mout))
        # where the strict head splitter gives no prediction, the composition "C02 scanners + C03 automaton" does
        ood = [i for i, l in enumerate(mout) if "state=out-of-domain" in l or cases[i].get("force_real")]
        if ood:
            rl = ["runreal %d %s %s" % (cases[i]["lvl"], ",".join(cases[i]["behs"]) if cases[i]["behs"] else "-",
                                        " ".join(hx(x) for x in cases[i]["segs"])) for i in ood]
            rout, rrc, rerr = run_driver(self.driver, rl)
            if rrc == 0 and len(rout) == len(ood):
                for i, l in zip(ood, rout):
                    mout[i] = l
                    cases[i]["real_parser"] = True
            else:
                failures.append(vlib.Failure("model", "frame: model driver failed (runreal)", (rerr or "")[-500:], rl[:2], ENGINE))
        for i, c in enumerate(cases):
            lines = by.get(ids[i])
            if lines is None or "stopped" not in lines:
                if hrc != 0:
                    failures.append(vlib.Failure("sanitizer", "frame: harness aborted (rc=%d)" % hrc, herr[-1500:],
                                                 self.case_input(c), ENGINE))
                    return
                continue
            o = parse_log(lines)
            errs = oracle(c, o) if not c.get("no_oracle") else []
            hs = summary_from_obs(o)
            ms = summary_from_model(mout[i])
            stats["cases"] += 1
            stats["reqs_seen"] += len(o.reqs)
            for st, _ in hs["replies"]:
                stats["status"][str(st)] = stats["status"].get(str(st), 0) + 1
            stats["closed" if o.server_closed else "open"] += 1
            stats["defect"][str(c.get("defect"))] = stats["defect"].get(str(c.get("defect")), 0) + 1
            stats["lvl"][str(c["lvl"])] = stats["lvl"].get(str(c["lvl"]), 0) + 1
            for ft in c.get("features", ()):
                stats["head_features"][ft] = stats["head_features"].get(ft, 0) + 1
            if c.get("features"):
                stats["noncanonical_field_list_cases"] += 1
            if c.get("take"):
                stats["take_cases"] += 1
            if errs:
                sig, det = errs[0]
                sig = re.sub(r"\d+", "N", sig)
                failures.append(vlib.Failure("oracle", sig, "; ".join("%s: %s" % e for e in errs[:4]), self.case_input(c), ENGINE))
                continue
            if ms is None:
                failures.append(vlib.Failure("model", "frame: model driver gave no prediction", mout[i][:200], self.case_input(c), ENGINE))
                continue
            if ms["state"] == "out-of-domain":
                stats["model_out_of_domain"] += 1
                continue
            if c.get("features"):
                stats["noncanonical_compared_with_model"] += 1
            if c.get("real_parser"):
                stats["compared_with_real_parser_composition"] += 1
            if c.get("resp_seq"):
                stats["reply_connection_calls"]["compared"] += 1
                if any(cl for _, cl in hs["replies"]):
                    stats["reply_connection_calls"]["wire_announced_close"] += 1
                else:
                    stats["reply_connection_calls"]["no_close_on_wire"] += 1
            diff = None
            if ms["reqs"] != hs["reqs"]:
                diff = "handler calls differ: code %s model %s" % (hs["reqs"], ms["reqs"])
            elif ms["replies"] != hs["replies"]:
                diff = "replies differ: code %s model %s" % (hs["replies"], ms["replies"])
            elif ms["closed"] != hs["closed"]:
                diff = "close differs: code %s model %s" % (hs["closed"], ms["closed"])
            if diff:
                failures.append(vlib.Failure("diff", "frame: model/code differ (%s)" % diff.split(":")[0], diff[:1500], self.case_input(c), ENGINE))

    @staticmethod
    def case_input(c):
        return {"lvl": c["lvl"], "mem": c["mem"], "behs": c["behs"], "segs": [hx(s) for s in c["segs"]],
                "stream_text": c["stream"].decode("latin-1"), "defect": c.get("defect"), "take": c.get("take"),
                "resp_seq": {str(i): [[op, nm.hex(), vl.hex()] for op, nm, vl in v] for i, v in (c.get("resp_seq") or {}).items()}}

    def gen_cases(self, ctx, n_streams):
        rng = ctx.rng
        cases = []
        for i in range(n_streams):
            lvl = rng.choice(LEVELS)
            defect = rng.choice(ALL_DEFECTS) if rng.random() < 0.55 else None
            stream, behs, feats = gen_stream(rng, lvl, defect)
            mem = rng.choice([2048, 4096, 4096, 32768])
            short = len(stream) <= (120 if ctx.tier == "quick" else 260) and rng.random() < (0.25 if ctx.tier == "quick" else 0.5)
            base = len(cases)
            for segs in segmentations(rng, stream, ctx.tier, short):
                cases.append({"lvl": lvl, "mem": mem, "behs": behs, "segs": segs, "stream": stream, "defect": defect})
            # byte-by-byte
            if len(stream) <= 400:
                cases.append({"lvl": lvl, "mem": mem, "behs": behs, "segs": [stream[j:j + 1] for j in range(len(stream))],
                              "stream": stream, "defect": defect})
            # one read per line
            if len(stream) <= 600:
                cases.append({"lvl": lvl, "mem": mem, "behs": behs, "segs": line_segments(stream), "stream": stream, "defect": defect})
            # all levels on the whole stream, partial takes
            for l2 in LEVELS:
                if l2 != lvl:
                    cases.append({"lvl": l2, "mem": mem, "behs": behs, "segs": [stream], "stream": stream, "defect": defect})
            cases.append({"lvl": lvl, "mem": mem, "behs": behs, "segs": [stream], "stream": stream, "defect": defect,
                          "take": rng.choice(["1", "2,all", "1,3", "all,1"])})
            # the same stream with a partial-take pattern and a segmentation at once
            if len(stream) > 4:
                cuts = sorted(rng.sample(range(1, len(stream)), min(3, len(stream) - 1)))
                cases.append({"lvl": lvl, "mem": mem, "behs": behs, "segs": [stream[a:b] for a, b in zip([0] + cuts, cuts + [len(stream)])],
                              "stream": stream, "defect": defect, "take": rng.choice(["1", "2,all", "1,3", "all,1", "3", "1,1,all"])})
            for c in cases[base:]:
                c["features"] = feats
        return cases

    def expect_cases(self, ctx, n):
        """`Expect: 100-continue` requests with a body that looks like a request, Content-Length and chunked,
        reply at the first / final call, body sent with the head or in a later segment, then a further request"""
        rng = ctx.rng
        cases = []
        smug = b"GET /smuggled HTTP/1.1\r\nHost: h\r\n\r\n"
        for i in range(n):
            lvl = rng.choice(LEVELS)
            body = smug if rng.random() < 0.7 else rand_body(rng)
            exp = rng.choice([b"100-continue", b"100-Continue"])
            m = rng.choice([b"POST", b"PUT"])
            if rng.random() < 0.5:
                head = m + b" /deny HTTP/1.1\r\nHost: h\r\nExpect: " + exp + b"\r\nContent-Length: %d\r\n\r\n" % len(body)
                enc = body
            else:
                head = m + b" /deny HTTP/1.1\r\nHost: h\r\nTransfer-Encoding: chunked\r\nExpect: " + exp + b"\r\n\r\n"
                enc = chunk_encode(rng, body, lvl, False, False) + b"\r\n"
            tail = rng.choice([b"", b"GET /after HTTP/1.1\r\nHost: h\r\n\r\n"])
            stream = head + enc + tail
            beh = rng.choice(["e403", "e200", "f200", "c200", "k200", "c404"])
            behs = [beh, "c200", "c200"]
            for segs in ([stream], [head, enc + tail], [head, enc, tail] if tail else [head, enc],
                         [head[:-1], head[-1:] + enc + tail]):
                cases.append({"lvl": lvl, "mem": 4096, "behs": behs, "segs": [x for x in segs if x], "stream": stream,
                              "defect": "expect-100"})
        return cases

    CONN_CALLS = [("h", b"close"), ("h", b"Close"), ("h", b"close, Foo"), ("h", b"Foo, close"), ("h", b"Foo"), ("h", b"Foo, Bar"),
                  ("h", b"Keep-Alive"), ("h", b"keep-alive, Foo"), ("h", b"cLOSE,Bar"),
                  ("d", b"Foo"), ("d", b"close"), ("d", b"CLOSE"), ("d", b"Bar"), ("d", b"Foo, Bar"), ("d", b"Keep-Alive"),
                  ("d", b"Foo,close"), ("d", b"close, Foo")]

    def conn_header_cases(self, ctx, n):
        """the reply's Connection header is built by a short sequence of MHD_add_response_header / MHD_del_response_header
        calls (close, Keep-Alive and other tokens, mixed case, lists) on keep-alive HTTP/1.1 and HTTP/1.0 connections with
        pipelined requests behind.  Oracle: whatever the calls were, a reply whose head carries a Connection field with a
        `close` token must be the last thing on the connection — closed, no further request presented.  Model: the reply's
        close flag is read off the wire (C04 `close_announced_iff` ties it to the response object)."""
        rng = ctx.rng
        cases = []
        for i in range(n):
            lvl = rng.choice(LEVELS)
            http10 = rng.random() < 0.3
            k = rng.choice([2, 2, 3])
            reqs = []
            for j in range(k):
                if http10:
                    reqs.append(b"GET /r%d HTTP/1.0\r\nHost: h\r\nConnection: %s\r\n\r\n" % (j, rng.choice([b"Keep-Alive", b"keep-alive"])))
                elif rng.random() < 0.3:
                    body = rand_body(rng, 12)
                    reqs.append(b"POST /r%d HTTP/1.1\r\nHost: h\r\nContent-Length: %d\r\n\r\n" % (j, len(body)) + body)
                else:
                    reqs.append(b"GET /r%d HTTP/1.1\r\nHost: h\r\n\r\n" % j)
            stream = b"".join(reqs)
            behs = []
            seqs = {}
            for j in range(k):
                code = rng.choice([200, 200, 201, 404])
                early = rng.random() < 0.1
                behs.append(("e%d" if early else "c%d") % code)
                if j == 0 or rng.random() < 0.5:
                    calls = []
                    for _ in range(rng.choice([1, 2, 2, 3, 3, 4, 5])):
                        op, val = rng.choice(self.CONN_CALLS)
                        nm = rng.choice([b"Connection", b"Connection", b"connection", b"CONNECTION"])
                        calls.append((op, nm, val))
                    if rng.random() < 0.3:
                        calls.insert(rng.randint(0, len(calls)), ("h", b"X-A", b"1"))
                    seqs[j] = calls
            segl = [[stream], [bytes([c]) for c in stream] if len(stream) <= 300 else [stream]]
            cut = rng.randint(1, len(stream) - 1)
            segl.append([stream[:cut], stream[cut:]])
            segl.append(reqs)                       # one request per read: the next one arrives after the reply
            for segs in segl:
                cases.append({"lvl": lvl, "mem": 4096, "behs": behs, "segs": segs, "stream": stream, "defect": "reply-connection-calls",
                              "resp_seq": seqs})
        return cases

    def lenient_head_cases(self, ctx, n):
        """heads outside the strict splitter's domain — bare LF line ends, folded field lines, whitespace before the colon,
        a leading empty line, NUL / bare CR inside a value — at every level (accepted or refused depending on the level).
        Compared with the composition "C02 scanners + C03 automaton" (driver op runreal); the strict reference framer
        of the oracle does not judge such heads, so these cases are model/code comparisons only."""
        rng = ctx.rng
        cases = []
        for i in range(n):
            lvl = rng.choice(LEVELS)
            r = gen_request(rng, lvl, None, rng.random() < 0.1)
            r.ows = None
            head = r.head()
            lines = head[:-2].split(b"\r\n")[:-1]           # request line + field lines
            rl, fl = lines[0], lines[1:]
            kind = rng.choice(["bare-lf", "bare-lf-all", "fold", "wsp-before-colon", "leading-empty-line", "nul", "bare-cr"])
            eols = [b"\r\n"] * (len(fl) + 2)
            if kind == "bare-lf":
                eols[rng.randrange(len(eols))] = b"\n"
            elif kind == "bare-lf-all":
                eols = [b"\n"] * len(eols)
            elif kind == "fold":
                fl.insert(rng.randint(0, len(fl)), b"X-Fold: a")
                fl.insert(fl.index(b"X-Fold: a") + 1, rng.choice([b" b", b"\tb c", b"  "]))
                eols = [b"\r\n"] * (len(fl) + 2)
            elif kind == "wsp-before-colon":
                fl.insert(rng.randint(0, len(fl)), rng.choice([b"X-W : v", b"X-W\t: v", b"X W: v"]))
                eols = [b"\r\n"] * (len(fl) + 2)
            elif kind == "nul":
                fl.insert(rng.randint(0, len(fl)), b"X-N: a\x00b")
                eols = [b"\r\n"] * (len(fl) + 2)
            elif kind == "bare-cr":
                fl.insert(rng.randint(0, len(fl)), b"X-C: a\rb")
                eols = [b"\r\n"] * (len(fl) + 2)
            pre = b"\r\n" if kind == "leading-empty-line" else b""
            out = pre + rl + eols[0]
            for j, l in enumerate(fl):
                out += l + eols[1 + j]
            out += eols[-1] if kind != "bare-lf" or rng.random() < 0.5 else b"\r\n"
            stream = out + r.body_bytes + rng.choice([b"", b"GET /after HTTP/1.1\r\nHost: h\r\n\r\n"])
            behs = ["c200", "c200"]
            segl = [[stream]]
            if len(stream) > 2:
                k = rng.randint(1, len(stream) - 1)
                segl.append([stream[:k], stream[k:]])
            if len(stream) <= 300:
                segl.append([stream[j:j + 1] for j in range(len(stream))])
            for segs in segl:
                cases.append({"lvl": lvl, "mem": 4096, "behs": behs, "segs": segs, "stream": stream, "defect": "lenient-" + kind,
                              "no_oracle": True, "force_real": True})
        return cases

    def stale_buffer_cases(self, ctx, n):
        """chunked requests whose chunk data is whitespace (it stays behind in the read buffer), with trailers and a
        pipelined follow-up, delivered one line per read and cut after every line end: a parser that looks one byte
        past the received data (fold look-ahead) then sees a stale SP/HT"""
        rng = ctx.rng
        cases = []
        for i in range(n):
            lvl = rng.choice(LEVELS)
            ws = rng.choice([b" ", b"\t", b" \t"]) * rng.choice([8, 16, 32])
            ws = ws[:rng.choice([16, 32, len(ws)])]
            tr = rng.choice([[(b"X-T", b"v")], [(b"X-T", b"v"), (b"Y", b"zz")], [(b"Trailer-One", b"1")]])
            head = b"POST /p HTTP/1.1\r\nHost: h\r\nTransfer-Encoding: chunked\r\n\r\n"
            body = b"%x\r\n" % len(ws) + ws + b"\r\n0\r\n" + trailer_bytes(tr)
            nxt = rng.choice([b"GET /next HTTP/1.1\r\nHost: h\r\n\r\n", b"GET /next HTTP/1.1\r\nHost: h\r\nX-A: 1\r\n\r\n",
                              b"junk\r\nGET /next HTTP/1.1\r\nHost: h\r\n\r\n", b""])
            stream = head + body + nxt
            behs = ["c200", "c200"]
            segl = [line_segments(stream), [head + body[:body.index(b"0\r\n")]] + line_segments(body[body.index(b"0\r\n"):] + nxt)]
            cuts = [j + 1 for j, ch in enumerate(stream) if ch == 10]
            for c in cuts:
                if 0 < c < len(stream):
                    segl.append([stream[:c], stream[c:]])
            for segs in segl:
                cases.append({"lvl": lvl, "mem": rng.choice([2048, 4096]), "behs": behs, "segs": segs, "stream": stream,
                              "defect": "stale-ws"})
        return cases

    def small_arena_cases(self, ctx, n):
        """oracle-only family: arenas too small for the request (no-space paths, F9)"""
        rng = ctx.rng
        cases = []
        for i in range(n):
            lvl = rng.choice(LEVELS)
            mem = rng.choice([256, 384, 512, 768, 1024])
            kind = rng.choice(["ext", "ext", "size", "trailer", "head"])
            head = b"POST /p HTTP/1.1\r\nHost: h\r\nTransfer-Encoding: chunked\r\n\r\n"
            if kind == "ext":
                stream = head + b"5;" + b"x" * rng.choice([600, 1500, 3000])
                if rng.random() < 0.5:
                    stream += b"\r\nhello\r\n0\r\n\r\n"
            elif kind == "size":
                stream = head + b"0" * rng.choice([600, 3000]) + b"5\r\nhello\r\n0\r\n\r\n"
            elif kind == "trailer":
                stream = head + b"5\r\nhello\r\n0\r\nX-T: " + b"y" * rng.choice([600, 3000]) + b"\r\n\r\n"
            else:
                stream = b"POST /p HTTP/1.1\r\nHost: h\r\nX-Big: " + b"z" * rng.choice([600, 3000]) + b"\r\nContent-Length: 5\r\n\r\nhello"
            segs = [stream] if rng.random() < 0.5 else [stream[:70], stream[70:]]
            cases.append({"lvl": lvl, "mem": mem, "behs": ["c200"], "segs": segs, "stream": stream, "defect": "no-space-" + kind,
                          "small": True})
        return cases

    def run_small(self, cases, failures, stats):
        script, ids = [], []
        for i, c in enumerate(cases):
            ids.append("s%d" % i)
            script += script_for(c, ids[-1])
        hout, hrc, herr = vlib.run_lines(self.harness, script, timeout=1200)
        by = split_cases(hout)
        for i, c in enumerate(cases):
            lines = by.get(ids[i])
            if lines is None or "stopped" not in lines:
                if hrc != 0:
                    failures.append(vlib.Failure("sanitizer", "frame: harness aborted (rc=%d)" % hrc, herr[-1500:], self.case_input(c), ENGINE))
                    return
                continue
            o = parse_log(lines)
            stats["small_cases"] += 1
            replies, werr = parse_wire(o.wire)
            errs = []
            for nc in o.never_completed:
                errs.append(("frame: request seen by the handler was never reported completed", nc))
            for p in o.problems:
                errs.append(("frame: harness problem " + p.split()[0], p))
            if werr:
                errs.append(("frame: unparsable reply on the wire", werr))
            ok2xx = [st for st, _ in replies if st < 400]
            full = ref_next(c["stream"], 0, c["lvl"])
            if o.server_closed and not replies:
                errs.append(("frame: connection closed without any reply although the request line was intelligible",
                             "arena %d, %d bytes sent" % (c["mem"], len(c["stream"]))))
            if replies and replies[-1][0] >= 400 and not o.server_closed:
                errs.append(("frame: connection left open after an error reply", "status %d" % replies[-1][0]))
            if len(o.reqs) > 1:
                errs.append(("frame: handler saw a request the reference framer does not see at this position", "%d requests" % len(o.reqs)))
            if ok2xx and (full.cls not in ("valid", "lenient") or (o.reqs and o.reqs[0]["up"] != full.body)):
                errs.append(("frame: upload data differs from the reference body", "small arena"))
            for st, _ in replies:
                stats["status"][str(st)] = stats["status"].get(str(st), 0) + 1
            if errs:
                sig = re.sub(r"\d+", "N", errs[0][0])
                failures.append(vlib.Failure("oracle", sig, "; ".join("%s: %s" % e for e in errs[:4]), self.case_input(c), ENGINE))

    # -------------------------------------------------------------- white-box decoder
    def run_chunk(self, ctx, failures, stats, maxlen):
        """white-box decoder: all short buffers (bounded-exhaustive) + random chunked bodies, vs model and oracle"""
        if not self.chunk_harness:
            return 0
        lines_in = []
        meta = []
        for lvl in LEVELS:
            for ln in chunk_lines(maxlen):
                if not ln:
                    continue
                # state: at a chunk boundary (0/0), in front of a chunk terminator (3/3), inside a chunk (3/1)
                for cur, off in ((0, 0), (3, 3), (3, 1)):
                    if (cur, off) != (0, 0) and len(ln) > 3:
                        continue
                    lines_in.append("chunkrun %d %d %d %s" % (lvl, cur, off, hx(ln)))
                    meta.append((lvl, cur, off, ln, None))
        self.n_chunk_exh = len(lines_in)
        rng = ctx.rng
        for _ in range(3000 if ctx.tier == "quick" else 30000):
            lvl = rng.choice(LEVELS)
            body = rand_body(rng, 60)
            if rng.random() < 0.5:
                enc = chunk_encode(rng, body, lvl, lvl <= 0 and rng.random() < 0.5, lvl > 2) + b"\r\n"
            else:
                enc = defective_chunks(rng, body, rng.choice(DEFECTS_BODY)) + b"\r\n"
            if rng.random() < 0.3:
                enc = enc[:rng.randint(1, len(enc))]
            lines_in.append("chunkrun %d 0 0 %s" % (lvl, hx(enc)))
            meta.append((lvl, 0, 0, enc, "body"))
        n = 0
        B = 200000
        for i in range(0, len(lines_in), B):
            part = lines_in[i:i + B]
            hout, hrc, herr = vlib.run_lines(self.chunk_harness, part, timeout=1200)
            mout, mrc, merr = run_driver(self.driver, part)
            if hrc != 0:
                failures.append(vlib.Failure("sanitizer", "chunk: harness aborted (rc=%d)" % hrc, herr[-1500:],
                                             part[len(hout)] if len(hout) < len(part) else part[-1], "chunk"))
                return n
            if mrc != 0 or len(mout) != len(part):
                failures.append(vlib.Failure("model", "chunk: model driver failed", (merr or "")[-500:], part[0], "chunk"))
                return n
            for j, (h, m) in enumerate(zip(hout, mout)):
                lvl, cur, off, ln, kind = meta[i + j]
                n += 1
                d = dict(x.split("=", 1) for x in h.split())
                oc = d.get("out", "?").split(":")[0]
                stats["chunk_outcomes"][oc] = stats["chunk_outcomes"].get(oc, 0) + 1
                bad = None
                if kind is None and (cur, off) == (0, 0) and ln.endswith(b"\n") and ln.count(b"\n") == 1:
                    ref = ref_chunk_line(ln, lvl)
                    if ref is not None and ref[0] == "line":
                        want = "up=- cur=%d off=0 left=0 out=%s" % (ref[2], "need" if ref[2] else "last")
                        if h != want:
                            bad = "valid chunk-size line %r: code says '%s', reference '%s'" % (ln, h, want)
                    elif ref is not None and ref[0] == "err" and (oc == "last" or (oc == "need" and d["cur"] != "0")):
                        # (still waiting with nothing accepted is tolerable: the decoder looks at two bytes)
                        bad = "malformed chunk-size line %r accepted: '%s'" % (ln, h)
                elif kind == "body":
                    st, body, end, feats, why = ref_chunked(ln, 0, lvl)
                    up = b"" if d["up"] == "-" else bytes.fromhex(d["up"])
                    if not body.startswith(up):
                        bad = "decoded bytes %r are not a prefix of the reference body %r" % (up[:40], body[:40])
                    elif st == "ok" and not feats and not (oc == "last" and up == body and int(d["left"]) == len(ln) - end):
                        bad = "valid chunked body: code says '%s', reference: %d body bytes, %d left" % (h[:120], len(body), len(ln) - end)
                    elif st == "invalid" and oc in ("last",):
                        bad = "malformed chunked body (%s) decoded to the end: '%s'" % (why, h[:120])
                    elif st == "invalid" and oc == "need" and int(d["left"]) >= 2 and "bare LF" not in why:
                        bad = "malformed chunked body (%s) not refused: '%s'" % (why, h[:120])
                if bad:
                    failures.append(vlib.Failure("oracle", "chunk: " + re.sub(r"\d+", "N", re.sub(r"b'.*?'|b\".*?\"", "B", bad.split(":")[0]))[:80],
                                                 bad, part[j], "chunk"))
                    continue
                if h != m:
                    failures.append(vlib.Failure("diff", "chunk: model/code differ on a chunked body fragment", "%s: code '%s' model '%s'" % (part[j], h, m),
                                                 part[j], "chunk"))
                if len(failures) > 40:
                    return n
        return n

    def run_bodytake(self, ctx, failures, stats, n):
        """white-box `process_request_body` with a handler that takes only part of what it is offered (take pattern =
        list of per-call limits), chunked and identity bodies, vs `procBody` of the model and vs an independent oracle:
        bytes taken + bytes left = bytes given (nothing lost, duplicated or reordered), the counters advance by exactly the
        number of bytes taken, the bytes taken are a prefix of what the same buffer yields when everything is taken"""
        if not self.chunk_harness:
            return 0
        rng = ctx.rng
        lines_in, meta = [], []
        for _ in range(n):
            lvl = rng.choice(LEVELS)
            body = rand_body(rng, 60)
            takes = [rng.choice([0, 1, 1, 2, 3, 5, 8, 100]) for _ in range(rng.choice([1, 1, 2, 3, 6]))]
            if rng.random() < 0.7:
                if rng.random() < 0.7:
                    enc = chunk_encode(rng, body, lvl, lvl <= 0 and rng.random() < 0.5, lvl > 2) + b"\r\n"
                else:
                    enc = defective_chunks(rng, body, rng.choice(DEFECTS_BODY)) + b"\r\n"
                cur = off = 0
                if rng.random() < 0.3:
                    # start inside a chunk
                    cur = rng.randint(1, len(body))
                    off = rng.randint(0, cur - 1)
                    enc = body[off:cur] + b"\r\n" + enc
                if rng.random() < 0.3:
                    enc = enc[:rng.randint(1, len(enc))]
                args = (lvl, 1, cur, off, enc)
            else:
                rem = rng.choice([len(body), len(body) + rng.randint(1, 9), max(1, len(body) - rng.randint(0, 5)), 1])
                buf = body + rng.choice([b"", b"", b"GET /next HTTP/1.1\r\nHost: h\r\n\r\n"])
                args = (lvl, 0, rem, 0, buf)
            for tk in (takes, []):
                lines_in.append("bodytake %d %d %d %d %s %s" % (args[0], args[1], args[2], args[3],
                                                                ",".join(map(str, tk)) if tk else "-", hx(args[4])))
                meta.append((args, tk))
        hout, hrc, herr = vlib.run_lines(self.chunk_harness, lines_in, timeout=1200)
        mout, mrc, merr = run_driver(self.driver, lines_in)
        if hrc != 0:
            failures.append(vlib.Failure("sanitizer", "chunk: harness aborted (rc=%d)" % hrc, herr[-1500:],
                                         lines_in[len(hout)] if len(hout) < len(lines_in) else lines_in[-1], "chunk"))
            return 0
        if mrc != 0 or len(mout) != len(lines_in):
            failures.append(vlib.Failure("model", "chunk: model driver failed (bodytake)", (merr or "")[-500:], lines_in[0], "chunk"))
            return 0
        bt = stats["bodytake"]
        prev_up = None
        for j, (h, m) in enumerate(zip(hout, mout)):
            (lvl, ch, cur, off, buf0), tk = meta[j]
            d = dict(x.split("=", 1) for x in h.split() if "=" in x)
            bad = None
            if "out" not in d:
                bad = "harness refused the line: %s" % h
            else:
                bt["cases"] += 1
                bt["chunked" if ch else "identity"] += 1
                oc = d["out"].split(":")[0]
                bt["outcomes"][oc] = bt["outcomes"].get(oc, 0) + 1
                up = b"" if d["up"] == "-" else bytes.fromhex(d["up"])
                if oc in ("need", "last"):
                    left = b"" if d["buf"] == "-" else bytes.fromhex(d["buf"])
                    if int(d["left"]) != len(left) or not buf0.endswith(left):
                        bad = "bytes left in the read buffer are not the tail of the bytes given"
                    elif not ch:
                        if up + left != buf0:
                            bad = "identity body: bytes taken + bytes left differ from the bytes given"
                        elif int(d["rem"]) != cur - len(up):
                            bad = "identity body: remaining size did not advance by the number of bytes taken"
                    else:
                        consumed = buf0[:len(buf0) - len(left)]
                        # the bytes taken appear, in order, in the consumed part (chunk data is never rewritten)
                        it = 0
                        for byte in up:
                            it = consumed.find(bytes([byte]), it) + 1
                            if it == 0:
                                bad = "chunked body: bytes taken are not a subsequence of the bytes consumed"
                                break
                        if tk and int(d["used"]) >= 1 and left and oc == "need" and d["off"] != "0":
                            pass
                if tk:
                    prev_up = up
                    if oc == "need" and int(d.get("used", 0)) >= 1 and d.get("left", "0") != "0":
                        bt["partial_take_happened"] += 1
                elif prev_up is not None and bad is None:
                    # second line of the pair: the handler took everything
                    if not up.startswith(prev_up):
                        bad = "bytes taken under a take pattern are not a prefix of the bytes taken by a take-all handler"
                    if ch and cur == 0:
                        st, body, end, feats, why = ref_chunked(buf0, 0, lvl)
                        if not body.startswith(up):
                            bad = "decoded bytes are not a prefix of the reference body"
                    prev_up = None
            if bad:
                failures.append(vlib.Failure("oracle", "chunk: partial take: " + bad.split(":")[0][:70], "%s -> %s" % (lines_in[j], h),
                                             lines_in[j], "chunk"))
                continue
            if h != m:
                failures.append(vlib.Failure("diff", "chunk: model/code differ on a partial upload take", "%s: code '%s' model '%s'" % (lines_in[j], h, m),
                                             lines_in[j], "chunk"))
            if len(failures) > 40:
                break
        return bt["cases"]

    def run_refcheck(self, cases, failures, stats):
        """the Lean reference framer (`Framer.frames`, used in the theorems' spec side) against the
        independent Python reference framer, on the strictly valid prefix of every distinct stream"""
        seen = {}
        for c in cases:
            if c.get("no_oracle"):
                continue            # heads outside the strict grammar: neither strict reference judges them
            seen.setdefault((c["lvl"], c["stream"]), c)
        keys = list(seen)
        mout, mrc, merr = run_driver(self.driver, ["ref %d %s" % (lvl, hx(st)) for lvl, st in keys])
        if mrc != 0 or len(mout) != len(keys):
            failures.append(vlib.Failure("model", "frame: model driver failed (ref)", (merr or "")[-500:], "ref", ENGINE))
            return
        for (lvl, stream), line in zip(keys, mout):
            stats["ref_checked"] += 1
            frames, _, end = line.rpartition("|")
            lean = []
            for f in frames.split():
                p = f.split(":")
                lean.append((bytes.fromhex(p[1]) if p[1] != "-" else b"", bytes.fromhex(p[2]) if p[2] != "-" else b"",
                             bytes.fromhex(p[3]) if p[3] != "-" else b"", p[4] == "1"))
            pos, py, pend = 0, [], None
            while pos < len(stream):
                m = ref_next(stream, pos, lvl)
                if m.cls != "valid":
                    pend = "lenient" if (getattr(m, "lenient", []) or "without Host" in m.why) else m.cls
                    break
                py.append((m.method, m.target, m.body, m.persistent))
                pos = m.end
                if not m.persistent:
                    pend = "closed"
                    break
            e = end.strip()
            if pend in ("lenient", "garbage", "incomplete-or-invalid"):
                ok = lean[:len(py)] == py           # the strict Lean reference may stop or go on here: compare the prefix only
            elif pend in ("invalid-body", "incomplete"):
                # on a truncated / malformed body the two references may word the end differently
                ok = lean == py and (e == "invalid" or e.startswith("incomplete"))
            else:
                want_end = {None: "incomplete 0", "closed": "closed", "invalid-head": "invalid"}[pend]
                ok = lean == py and e == want_end
            if not ok:
                failures.append(vlib.Failure("model", "frame: Lean reference framer and Python reference framer differ",
                                             "lean: %s | python: %s end=%s" % (line[:300], [(a, b, c[:20], d) for a, b, c, d in py], pend),
                                             {"lvl": lvl, "stream_text": stream.decode("latin-1")}, ENGINE))

    def explore(self, ctx, boost):
        failures = []
        stats = {"cases": 0, "reqs_seen": 0, "status": {}, "closed": 0, "open": 0, "defect": {}, "lvl": {},
                 "model_out_of_domain": 0, "small_cases": 0, "chunk_outcomes": {}, "ref_checked": 0, "head_features": {},
                 "noncanonical_field_list_cases": 0, "noncanonical_compared_with_model": 0, "take_cases": 0,
                 "compared_with_real_parser_composition": 0,
                 "reply_connection_calls": {"compared": 0, "wire_announced_close": 0, "no_close_on_wire": 0},
                 "bodytake": {"cases": 0, "partial_take_happened": 0, "chunked": 0, "identity": 0, "outcomes": {}}}
        # corpus first
        cdir = os.path.join(vlib.VERIF, "corpus", ENGINE)
        corpus = []
        if os.path.isdir(cdir):
            for f in sorted(os.listdir(cdir)):
                try:
                    j = json.load(open(os.path.join(cdir, f)))
                except (OSError, ValueError):
                    continue
                for lvl in j.get("levels", LEVELS):
                    stream = j["stream"].encode("latin-1")
                    segl = [[stream]] + ([[stream[k:k + 1] for k in range(len(stream))]] if len(stream) < 300 else [])
                    for segs in segl:
                        c = {"lvl": lvl, "mem": j.get("mem", 4096), "behs": j.get("behs", []), "segs": segs,
                             "stream": stream, "defect": j.get("defect"), "small": j.get("small", False)}
                        corpus.append(c)
        small = [c for c in corpus if c.get("small")]
        normal = [c for c in corpus if not c.get("small")]
        self.run_cases(normal, failures, stats) if normal else None
        self.run_small(small, failures, stats) if small else None
        n_streams = (2500 if ctx.tier == "quick" else 15000) * (2 if boost else 1)
        cases = self.expect_cases(ctx, 150 if ctx.tier == "quick" else 1500) \
            + self.stale_buffer_cases(ctx, 120 if ctx.tier == "quick" else 1200) \
            + self.lenient_head_cases(ctx, 600 if ctx.tier == "quick" else 6000) \
            + self.conn_header_cases(ctx, 1000 if ctx.tier == "quick" else 10000) + self.gen_cases(ctx, n_streams)
        B = 1500
        for i in range(0, len(cases), B):
            self.run_cases(cases[i:i + B], failures, stats)
            if len([f for f in failures if f.concrete()]) > 25:
                break
        ctx.note("daemon cases done: %d" % stats["cases"])
        self.run_refcheck(corpus + cases, failures, stats)
        ctx.note("reference framers cross-checked on %d streams" % stats["ref_checked"])
        sm = self.small_arena_cases(ctx, 400 if ctx.tier == "quick" else 3000)
        self.run_small(sm, failures, stats)
        nchunk = self.run_chunk(ctx, failures, stats, 4 if ctx.tier == "quick" else 5)
        ctx.note("white-box decoder cases done: %d" % nchunk)
        nbt = self.run_bodytake(ctx, failures, stats, 4000 if ctx.tier == "quick" else 40000)
        ctx.note("white-box partial-take cases done: %d" % nbt)
        distinct = len({(c["lvl"], c["stream"], tuple(c["behs"]), tuple(c["segs"])) for c in cases})
        samples = [self.case_input(c) for c in (cases[:1] + cases[len(cases) // 2:len(cases) // 2 + 1])]
        for s in samples:
            s["segs"] = s["segs"][:4]
        cov = {"evaluations": stats["cases"] + stats["small_cases"] + nchunk + nbt,
               "distinct_nontrivial": distinct,
               "rule": "daemon cases = (level, stream, handler script, segmentation) run on the real daemon and on the Lean model; "
                       "distinct = different such tuples; every case also judged by the independent reference framer; "
                       "chunk = every byte string of length <= %d over the alphabet '0 1 a F ; = SP HT CR LF x' x 7 levels "
                       "against the white-box decoder (exhaustive for that bound)" % (4 if ctx.tier == "quick" else 5),
               "samples": samples, "corpus_cases": len(corpus), "streams": n_streams,
               "daemon_cases": stats["cases"], "small_arena_cases_oracle_only": stats["small_cases"],
               "chunk_cases": nchunk, "chunk_buffers_exhaustive": getattr(self, "n_chunk_exh", 0),
               "reference_framer_streams_cross_checked": stats["ref_checked"], "model_out_of_domain_skipped": stats["model_out_of_domain"],
               "strict_splitter_out_of_domain_compared_with_real_parser_composition": stats["compared_with_real_parser_composition"],
               "outcomes": {"status": stats["status"], "server_closed": stats["closed"], "left_open": stats["open"],
                            "requests_seen_by_handler": stats["reqs_seen"], "chunk": stats["chunk_outcomes"]},
               "defect_classes": stats["defect"], "levels": stats["lvl"],
               "noncanonical_field_lists": {"daemon_cases": stats["noncanonical_field_list_cases"],
                                            "of_which_compared_with_model": stats["noncanonical_compared_with_model"],
                                            "features": stats["head_features"]},
               "reply_connection_header_built_by_api_calls": stats["reply_connection_calls"],
               "partial_takes": {"daemon_cases_with_take_pattern": stats["take_cases"], "white_box": stats["bodytake"]},
               "exhaustive": False}
        return failures, cov


def replay(ctx, path):
    r = json.load(open(path))
    sp = Spec(); sp.gen(ctx); vlib.lake_build(sp.lean_targets); sp.build(ctx)
    inp = r["input"]
    fl = []
    stats = {"cases": 0, "reqs_seen": 0, "status": {}, "closed": 0, "open": 0, "defect": {}, "lvl": {},
             "model_out_of_domain": 0, "small_cases": 0, "chunk_outcomes": {}, "ref_checked": 0, "head_features": {},
                 "noncanonical_field_list_cases": 0, "noncanonical_compared_with_model": 0, "take_cases": 0,
                 "bodytake": {"cases": 0, "partial_take_happened": 0, "chunked": 0, "identity": 0, "outcomes": {}}}
    if isinstance(inp, str):
        hout, _, _ = vlib.run_lines(sp.chunk_harness, [inp])
        mout, _, _ = run_driver(sp.driver, [inp])
        print("code :", hout); print("model:", mout)
        return 0 if hout == mout else 1
    segs = [bytes.fromhex(s) if s != "-" else b"" for s in inp["segs"]]
    c = {"lvl": inp["lvl"], "mem": inp["mem"], "behs": inp["behs"], "segs": segs, "stream": b"".join(segs),
         "defect": inp.get("defect"), "take": inp.get("take"),
         "resp_seq": {int(i): [(op, bytes.fromhex(nm), bytes.fromhex(vl)) for op, nm, vl in v]
                      for i, v in (inp.get("resp_seq") or {}).items()}}
    if inp.get("defect", "") and str(inp.get("defect")).startswith("no-space"):
        sp.run_small([c], fl, stats)
    else:
        sp.run_cases([c], fl, stats)
    script = script_for(c, "replay")
    hout, _, _ = vlib.run_lines(sp.harness, script)
    print("\n".join(l[:200] for l in hout))
    print("model:", run_driver(sp.driver, ["run %d %s %s" % (c["lvl"], ",".join(c["behs"]) or "-", " ".join(hx(s) for s in segs))])[0])
    for f in fl:
        print(f.kind, "|", f.signature, "|", f.detail[:600])
    print("verdicts: oracle=%s diff=%s" % (any(f.kind == "oracle" for f in fl), any(f.kind == "diff" for f in fl)))
    return 1 if fl else 0
