"""C16 — hash functions equal the standards for every message and update pattern.
Engine `hash`: md5.c sha1.c sha256.c sha512_256.c (+ microhttpd_ws/sha1.c).
Translators: gen_hash (step tables by instrumented execution), gen_hash_casts (integer widths: clang AST).
Harnesses: h_hash.c (16 misaligned replicas, ASan/UBSan), h_hash_huge.c (one update call of >= 2^31 bytes),
a cut-out of the SHA-512/256 counter statements.  VERIF_C16_HUGE=0 skips the huge calls (debugging only)."""
import hashlib, json, os, re, subprocess, tempfile, time
import vlib, extract

ALGS = ["md5", "sha1", "sha256", "sha512_256", "wssha1"]
HL = {"md5": "md5", "sha1": "sha1", "sha256": "sha256", "sha512_256": "sha512_256", "wssha1": "sha1"}

# --------------------------------------------------------------------------
# (A) translator: step tables, round constants, IVs, sizes  ->  Mhd/Gen/Hash.lean
#
# The round constants are not nameable from C (they are literal arguments of
# macro-unrolled steps), and which of the unrolled blocks is compiled depends on
# MHD_FAVOR_SMALL_CODE / byte order.  Semantic route: the step macro of each
# transform is re-defined (textually, in a scratch copy of the source) to
# *record* its stringified register arguments and the compiler-evaluated
# constant; the instrumented transform is then run once on an aligned and once
# on a misaligned block.  What is recorded is the sequence of steps the
# configured build really executes, in execution order.

_REC = {
    "SHA2STEP32": ('#define SHA2STEP32(vA,vB,vC,vD,vE,vF,vG,vH,kt,wt) '
                   'printf("S %s %s %s %s %s %s %s %s k=%llu w=|%s|\\n",#vA,#vB,#vC,#vD,#vE,#vF,#vG,#vH,'
                   '(unsigned long long)(kt),#wt)'),
    "SHA2STEP64": ('#define SHA2STEP64(vA,vB,vC,vD,vE,vF,vG,vH,kt,wt) '
                   'printf("S %s %s %s %s %s %s %s %s k=%llu w=|%s|\\n",#vA,#vB,#vC,#vD,#vE,#vF,#vG,#vH,'
                   '(unsigned long long)(kt),#wt)'),
    "SHA1STEP32": ('#define SHA1STEP32(vA,vB,vC,vD,vE,ft,kt,wt) '
                   'printf("S %s %s %s %s %s f=%s k=%llu w=|%s|\\n",#vA,#vB,#vC,#vD,#vE,#ft,'
                   '(unsigned long long)(kt),#wt)'),
}
for _r in "1234":
    _REC["MD5STEP_R" + _r] = ('#define MD5STEP_R' + _r + '(va,vb,vc,vd,vX,vs,vT) '
                              'printf("S %s %s %s %s r=' + _r + ' s=%llu k=%llu w=|%s|\\n",#va,#vb,#vc,#vd,'
                              '(unsigned long long)(vs),(unsigned long long)(vT),#vX)')


def _instrument(text, macros):
    """replace the (multi-line) definition of each step macro by a recorder"""
    for m in macros:
        pat = re.compile(r"^[ \t]*#[ \t]*define[ \t]+%s\((?:[^\n]*\\\n)*[^\n]*\n" % re.escape(m), re.M)
        text, n = pat.subn(lambda _m, _r=_REC[m]: _r + "\n", text)
        if n == 0:
            raise RuntimeError("step macro %s not found" % m)
    return text


def _record(relpath, macros, init, update, ctxtype, block, hwords, hfmt, incdirs=()):
    """-> (IV list, steps with aligned input, steps with misaligned input)"""
    text = _instrument(extract.src(relpath), macros)
    os.makedirs(vlib.BUILD, exist_ok=True)
    d = tempfile.mkdtemp(prefix="vh", dir=vlib.BUILD)
    try:
        srcdir = os.path.dirname(os.path.join(vlib.REPO, relpath))
        open(os.path.join(d, "inst.c"), "w").write(text)
        main = ('#include <stdio.h>\n#include "MHD_config.h"\n#include "inst.c"\n'
                'int main(void){ %s c; static unsigned char raw[%d + 16] __attribute__((aligned(16)));\n'
                '  %s(&c); for (int i = 0; i < %d; i++) printf("IV %%llu\\n", (unsigned long long) c.H[i]);\n'
                '  puts("ALIGNED"); %s(&c, raw, %d); puts("MISALIGNED"); %s(&c, raw + 1, %d); return 0; }\n'
                % (ctxtype, block, init, hwords, update, block, update, block))
        open(os.path.join(d, "m.c"), "w").write(main)
        cmd = ["gcc", "-O0", "-w"] + ["-I" + i for i in incdirs] + ["-I" + srcdir] + vlib.CFLAGS_COMMON + \
              [os.path.join(d, "m.c"), "-o", os.path.join(d, "m")]
        r = vlib.sh(cmd)
        if r.returncode != 0:
            raise RuntimeError("instrumented %s does not compile:\n%s" % (relpath, r.stderr[-2000:]))
        r = vlib.sh([os.path.join(d, "m")])
        if r.returncode != 0:
            raise RuntimeError("instrumented %s failed" % relpath)
        iv, al, mis, cur = [], [], [], None
        for line in r.stdout.splitlines():
            if line.startswith("IV "):
                iv.append(int(line[3:]))
            elif line == "ALIGNED":
                cur = al
            elif line == "MISALIGNED":
                cur = mis
            elif line.startswith("S "):
                cur.append(line)
        return iv, al, mis
    finally:
        subprocess.run(["rm", "-rf", d])


def _cint(expr):
    """evaluate a small C integer expression such as `16 & 0xf`"""
    e = expr.strip().replace("U", "").replace("u", "")
    if not re.fullmatch(r"[0-9a-fA-Fx&+\-*() ]+", e):
        raise RuntimeError("unexpected index expression: %r" % expr)
    return int(eval(e, {"__builtins__": {}}))


def _wsrc(w, arr, getter):
    """parse the W/X argument of a step: returns (dst index, kind, arg)
       kind 0: `A[i] = GETTER (buf, t)`  (load from data)   arg = t
       kind 1: `A[i] = Wgen (A, t)`      (schedule)         arg = t
       kind 2: `A[i]`                    (plain read)       arg = i"""
    w = w.strip()
    m = re.fullmatch(r"%s\[([^\]]+)\]\s*=\s*%s\s*\(\s*\w+\s*,\s*([^)]+)\)" % (arr, getter), w)
    if m:
        return _cint(m.group(1)), 0, _cint(m.group(2))
    m = re.fullmatch(r"%s\[([^\]]+)\]\s*=\s*Wgen\s*\(\s*%s\s*,\s*([^)]+)\)" % (arr, arr), w)
    if m:
        return _cint(m.group(1)), 1, _cint(m.group(2))
    m = re.fullmatch(r"%s\[([^\]]+)\]" % arr, w)
    if m:
        return _cint(m.group(1)), 2, _cint(m.group(1))
    raise RuntimeError("unexpected step operand: %r" % w)


def _rows(lines, names, arr, getter, extra=()):
    out = []
    for l in lines:
        m = re.match(r"S ((?:\w+ )+)(.*?)k=(\d+) w=\|(.*)\|$", l)
        regs = [names.index(x) for x in m.group(1).split()]
        kv = dict(x.split("=") for x in m.group(2).split())
        dst, kind, arg = _wsrc(m.group(4), arr, getter)
        out.append((regs, [kv[e] for e in extra], int(m.group(3)), dst, kind, arg))
    return out


def _lean_list(xs):
    return "[" + ", ".join(str(x) for x in xs) + "]"


def _extract_all():
    from extract import c_eval
    g = {}
    # ---- SHA-256
    iv, al, mis = _record("src/microhttpd/sha256.c", ["SHA2STEP32"], "MHD_SHA256_init", "MHD_SHA256_update",
                          "struct Sha256Ctx", 64, 8, "u")
    g["sha256"] = (iv, _rows(al, "abcdefgh", "W", "GET_W_FROM_DATA"), _rows(mis, "abcdefgh", "W", "GET_W_FROM_DATA"))
    iv, al, mis = _record("src/microhttpd/sha512_256.c", ["SHA2STEP64"], "MHD_SHA512_256_init",
                          "MHD_SHA512_256_update", "struct Sha512_256Ctx", 128, 8, "u")
    g["sha512"] = (iv, _rows(al, "abcdefgh", "W", "GET_W_FROM_DATA"), _rows(mis, "abcdefgh", "W", "GET_W_FROM_DATA"))
    iv, al, mis = _record("src/microhttpd/sha1.c", ["SHA1STEP32"], "MHD_SHA1_init", "MHD_SHA1_update",
                          "struct sha1_ctx", 64, 5, "u")
    g["sha1"] = (iv, _rows(al, "abcde", "W", "GET_W_FROM_DATA", ["f"]), _rows(mis, "abcde", "W", "GET_W_FROM_DATA", ["f"]))
    iv, al, mis = _record("src/microhttpd_ws/sha1.c", ["SHA1STEP32"], "MHD_SHA1_init", "MHD_SHA1_update",
                          "struct sha1_ctx", 64, 5, "u", incdirs=[os.path.join(vlib.REPO, "src/microhttpd_ws")])
    g["wssha1"] = (iv, _rows(al, "abcde", "W", "GET_W_FROM_DATA", ["f"]), _rows(mis, "abcde", "W", "GET_W_FROM_DATA", ["f"]))
    iv, al, mis = _record("src/microhttpd/md5.c", ["MD5STEP_R1", "MD5STEP_R2", "MD5STEP_R3", "MD5STEP_R4"],
                          "MHD_MD5_init", "MHD_MD5_update", "struct Md5Ctx", 64, 4, "u")
    g["md5"] = (iv, _rows(al, "ABCD", "X", "GET_X_FROM_DATA", ["r", "s"]), _rows(mis, "ABCD", "X", "GET_X_FROM_DATA", ["r", "s"]))
    # ---- sizes (semantic: through the real headers)
    sz = c_eval('#include "MHD_config.h"\n#include "md5.c"\n#include "sha256.c"\n#include "sha512_256.c"\n',
                [("md5Block", "%d", "(int) MD5_BLOCK_SIZE"), ("md5LenAdd", "%d", "(int) MD5_SIZE_OF_LEN_ADD"),
                 ("md5Digest", "%d", "(int) MD5_DIGEST_SIZE"),
                 ("sha256Block", "%d", "(int) SHA256_BLOCK_SIZE"), ("sha256LenAdd", "%d", "(int) SHA256_SIZE_OF_LEN_ADD"),
                 ("sha256Digest", "%d", "(int) SHA256_DIGEST_SIZE"),
                 ("sha512Block", "%d", "(int) SHA512_256_BLOCK_SIZE"),
                 ("sha512LenAdd", "%d", "(int) SHA512_256_SIZE_OF_LEN_ADD"),
                 ("sha512Digest", "%d", "(int) SHA512_256_DIGEST_SIZE")])
    s1 = c_eval('#include "MHD_config.h"\n#include "sha1.c"\n',
                [("sha1Block", "%d", "(int) SHA1_BLOCK_SIZE"), ("sha1LenAdd", "%d", "(int) SHA1_SIZE_OF_LEN_ADD"),
                 ("sha1Digest", "%d", "(int) SHA1_DIGEST_SIZE")])
    s2 = c_eval('#include "MHD_config.h"\n#include "%s"\n' % os.path.join(vlib.REPO, "src/microhttpd_ws/sha1.c"),
                [("wsSha1Block", "%d", "(int) SHA1_BLOCK_SIZE"), ("wsSha1LenAdd", "%d", "(int) SHA1_SIZE_OF_LEN_ADD"),
                 ("wsSha1Digest", "%d", "(int) SHA1_DIGEST_SIZE")],
                extra=["-I" + os.path.join(vlib.REPO, "src/microhttpd_ws")])
    sz.update(s1); sz.update(s2)
    return g, sz


def _fmt_sha2(rows):
    return "[\n" + ",\n".join("  (%s, %d, %d, %d, %d)" % (_lean_list(r[0]), r[2], r[3], r[4], r[5]) for r in rows) + "]"


def _fmt_sha1(rows):
    fk = {"Ch": 0, "Par": 1, "Maj": 2}
    return "[\n" + ",\n".join("  (%s, %d, %d, %d, %d, %d)" % (_lean_list(r[0]), fk[r[1][0]], r[2], r[3], r[4], r[5])
                               for r in rows) + "]"


def _fmt_md5(rows):
    return "[\n" + ",\n".join("  (%s, %s, %s, %d, %d, %d, %d)" % (_lean_list(r[0]), r[1][0], r[1][1], r[2], r[3], r[4], r[5])
                               for r in rows) + "]"


def gen_hash():
    g, sz = _extract_all()
    o = [extract.HEADER % "src/microhttpd/{md5,sha1,sha256,sha512_256}.c, src/microhttpd_ws/sha1.c (tools/props/C16.py)"]
    o.append("namespace Mhd.Gen.Hash\n")
    o.append("/-! Step tables: the sequence of step-macro invocations the configured build executes for one\n"
             "block, recorded by running the instrumented transform (registers as indices a=0,b=1,…;\n"
             "K = the compiler-evaluated constant; dst = index written in the cyclic W/X buffer;\n"
             "kind 0 = operand is loaded from the data block (word `arg`), 1 = operand is `Wgen(W,arg)`,\n"
             "2 = operand is a plain read of W/X[arg]).  `…Mis` = the same with a misaligned input pointer. -/\n")
    for k in sorted(sz):
        o.append("def %s : Nat := %s" % (k, sz[k]))
    o.append("")
    for name, key, fmt, ty in [("sha256", "sha256", _fmt_sha2, "List (List Nat × Nat × Nat × Nat × Nat)"),
                               ("sha512", "sha512", _fmt_sha2, "List (List Nat × Nat × Nat × Nat × Nat)"),
                               ("sha1", "sha1", _fmt_sha1, "List (List Nat × Nat × Nat × Nat × Nat × Nat)"),
                               ("wsSha1", "wssha1", _fmt_sha1, "List (List Nat × Nat × Nat × Nat × Nat × Nat)"),
                               ("md5", "md5", _fmt_md5, "List (List Nat × Nat × Nat × Nat × Nat × Nat × Nat)")]:
        iv, al, mis = g[key]
        o.append("def %sIV : List Nat := %s" % (name, _lean_list(iv)))
        if key in ("sha256", "sha512"):
            o.append("/-- (regs vA..vH, K, dst, kind, arg) -/")
        elif key == "md5":
            o.append("/-- (regs va..vd, round, shift, T, dst, kind, arg) -/")
        else:
            o.append("/-- (regs vA..vE, f (0=Ch 1=Par 2=Maj), K, dst, kind, arg) -/")
        o.append("def %sSteps : %s := %s" % (name, ty, fmt(al)))
        o.append("def %sStepsMis : %s := %s" % (name, ty, fmt(mis)))
        o.append("")
    o.append("end Mhd.Gen.Hash\n")
    return vlib.write_if_changed(os.path.join(extract.GEN, "Hash.lean"), "\n".join(o))


# --------------------------------------------------------------------------
# (A2) translator: integer widths in the control flow of update/finish  ->  Mhd/Gen/HashCasts.lean
#
# The model's `length`, `count`, `bytes_have` are natural numbers.  That is a sound abstraction of the C
# `size_t` / `uint64_t` / `unsigned int` only if no conversion on their way loses bits.  clang's AST names
# every conversion (written casts and the ones the compiler inserts: assignments, initialisers, arguments,
# compound assignments): all conversions from a 64-bit to a narrower integer type inside the ten
# update/finish functions are emitted, each with its operand as a `Mhd.Hash.CExpr` (`x & c`, `x % c`,
# `x >> c`, constants; anything else is `other`).  `Mhd.C16.no_narrowing_in_control_flow` proves that each
# of them receives values that fit (so the conversion is the identity) — a cast such as
# `(unsigned int) length` has no such bound and breaks the theorem.

CAST_FUNCS = [("md5", "src/microhttpd/md5.c", "MHD_MD5_update", "MHD_MD5_finish"),
              ("sha1", "src/microhttpd/sha1.c", "MHD_SHA1_update", "MHD_SHA1_finish"),
              ("sha256", "src/microhttpd/sha256.c", "MHD_SHA256_update", "MHD_SHA256_finish"),
              ("sha512_256", "src/microhttpd/sha512_256.c", "MHD_SHA512_256_update", "MHD_SHA512_256_finish"),
              ("wssha1", "src/microhttpd_ws/sha1.c", "MHD_SHA1_update", "MHD_SHA1_finish")]

_INTW = {"unsigned long": 64, "long": 64, "unsigned long long": 64, "long long": 64, "unsigned int": 32, "int": 32,
         "unsigned short": 16, "short": 16, "unsigned char": 8, "signed char": 8, "char": 8, "_Bool": 1,
         "unsigned __int128": 128, "__int128": 128}


def _ast_docs(relpath, fn):
    """clang-14 JSON AST of the declarations named `fn` in the file (one JSON document each)"""
    path = os.path.join(vlib.REPO, relpath)
    cmd = ["clang-14", "-fsyntax-only", "-w"] + vlib.CFLAGS_COMMON + ["-I" + os.path.dirname(path),
           "-Xclang", "-ast-dump=json", "-Xclang", "-ast-dump-filter=" + fn, path]
    r = vlib.sh(cmd, timeout=300)
    if r.returncode != 0:
        raise RuntimeError("clang-14 AST dump of %s failed: %s" % (relpath, r.stderr[-800:]))
    dec, i, out, s = json.JSONDecoder(), 0, [], r.stdout
    while True:
        while i < len(s) and s[i].isspace():
            i += 1
        if i >= len(s):
            break
        o, i = dec.raw_decode(s, i)
        out.append(o)
    return out


def _ty(n):
    t = n.get("type") or {}
    return t.get("desugaredQualType") or t.get("qualType") or ""


def _bits(t):
    return _INTW.get(re.sub(r"\b(const|volatile)\b", "", t or "").strip())


def _loc(l):
    return l.get("expansionLoc", l)


_FN_RANGE = [0, 0]     # offsets of the function definition being walked (main file)


def _text(src, rng):
    b, e = rng["begin"], rng["end"]
    sb, se = b.get("spellingLoc"), e.get("spellingLoc")
    if sb and se and "offset" in sb and "offset" in se and _FN_RANGE[0] <= sb["offset"] <= se["offset"] <= _FN_RANGE[1]:
        b, e = sb, se       # macro argument: the text as written at the call site
    else:
        b, e = _loc(b), _loc(e)
    if "offset" not in b or "offset" not in e:
        return "?"
    return re.sub(r"\s+", " ", src[b["offset"]:e["offset"] + e.get("tokLen", 1)]).strip()


def _cexpr(n, src):
    """operand -> nested tuple ('lit', v) | ('band'|'mod'|'shr', a, b) | ('other', text, bits)"""
    k = n.get("kind")
    inner = [c for c in n.get("inner", []) if isinstance(c, dict) and c]
    if k in ("ParenExpr", "ConstantExpr") and inner:
        return _cexpr(inner[0], src)
    if k in ("ImplicitCastExpr", "CStyleCastExpr") and inner:
        ck = n.get("castKind")
        if ck in ("LValueToRValue", "NoOp"):
            return _cexpr(inner[0], src)
        if ck == "IntegralCast":
            ws, wt = _bits(_ty(inner[0])), _bits(_ty(n))
            sub = _cexpr(inner[0], src)
            if sub[0] == "lit" and wt and (not _signed(_ty(n)) or sub[1] < (1 << (wt - 1))):
                return ("lit", sub[1] % (1 << wt))  # conversion of a (non-negative) constant
            if ws and wt and wt >= ws and not _signed(_ty(inner[0])):
                return sub                          # widening of an unsigned value keeps it
    if k == "IntegerLiteral":
        return ("lit", int(n["value"]))
    if k == "BinaryOperator" and len(inner) == 2:
        a, b = _cexpr(inner[0], src), _cexpr(inner[1], src)
        op = n.get("opcode")
        w = _bits(_ty(n))
        if a[0] == "lit" and b[0] == "lit" and w and op in ("+", "-", "*", "/", "&", "|", "<<", ">>", "%"):
            try:
                v = {"+": a[1] + b[1], "-": a[1] - b[1], "*": a[1] * b[1], "&": a[1] & b[1], "|": a[1] | b[1],
                     "<<": a[1] << b[1] if b[1] < w else None, ">>": a[1] >> b[1] if b[1] < w else None,
                     "/": a[1] // b[1] if b[1] else None, "%": a[1] % b[1] if b[1] else None}[op]
            except (ValueError, OverflowError):
                v = None
            if v is not None and not _signed(_ty(n)):
                return ("lit", v % (1 << w))
            if v is not None and 0 <= v < (1 << (w - 1)):      # signed: only results that cannot have overflowed
                return ("lit", v)
        if op in ("&", "%", ">>") and not _signed(_ty(n)):
            return ({"&": "band", "%": "mod", ">>": "shr"}[op], a, b)
    return ("other", _text(src, n["range"]), _bits(_ty(n)) or 64)


def _signed(t):
    t = re.sub(r"\b(const|volatile)\b", "", t or "").strip()
    return t in ("long", "long long", "int", "short", "signed char", "char", "__int128")


_COND_CHILD = {"IfStmt": (0,), "WhileStmt": (0,), "DoStmt": (1,), "ConditionalOperator": (0,)}


def _find_casts(n, src, fn_off, in_cond, role, out):
    """role: 'arg' / 'store' while walking down the cast/paren chain directly under a call argument or under the
    right-hand side of an assignment to memory (not to a plain variable); None elsewhere"""
    k = n.get("kind")
    inner = [c for c in n.get("inner", []) if isinstance(c, dict)]
    hit = None
    if k in ("ImplicitCastExpr", "CStyleCastExpr") and n.get("castKind") == "IntegralCast" and inner:
        ws, wt = _bits(_ty(inner[0])), _bits(_ty(n))
        if ws and wt and ws >= 64 and wt < ws:
            hit = (k == "CStyleCastExpr", ws, wt, _cexpr(inner[0], src), _text(src, inner[0]["range"]))
    if k == "CompoundAssignOperator":
        ws, wt = _bits((n.get("computeResultType") or {}).get("desugaredQualType")
                       or (n.get("computeResultType") or {}).get("qualType")), _bits(_ty(n))
        if ws and wt and ws >= 64 and wt < ws:
            t = _text(src, n["range"])
            hit = (False, ws, wt, ("other", t, ws), t)
    if hit:
        b = _loc(n["range"]["begin"])
        line = src.count("\n", fn_off, b["offset"]) + 1 if "offset" in b else 0
        out.append({"explicit": hit[0], "src": hit[1], "dst": hit[2], "operand": hit[3], "text": hit[4],
                    "line": line, "cond": in_cond, "role": role})
    conds = _COND_CHILD.get(k, (2,) if k == "ForStmt" else ())
    for i, c in enumerate(inner):
        if not c:
            continue
        if k in ("ParenExpr", "ImplicitCastExpr", "CStyleCastExpr"):
            r = role
        elif k == "CallExpr" and i >= 1:
            r = "arg"
        elif k == "BinaryOperator" and n.get("opcode") == "=" and i == 1 and inner[0].get("kind") != "DeclRefExpr":
            r = "store"
        else:
            r = None
        _find_casts(c, src, fn_off, in_cond or i in conds, r, out)


def _py_ub(e):
    """the bound of Mhd.Hash.CExpr.ub, for the coverage summary only (the theorem is what counts)"""
    if e[0] == "lit":
        return e[1] + 1
    if e[0] == "other":
        return 1 << e[2]
    a, b = _py_ub(e[1]), _py_ub(e[2])
    if e[0] == "band":
        return min(a, b)
    if e[0] == "mod":
        return e[2][1] if e[2][0] == "lit" and e[2][1] else a
    return ((a - 1) >> e[2][1]) + 1 if e[2][0] == "lit" else a


def _py_harmless(c):
    return _py_ub(c["operand"]) <= (1 << c["dst"])


def _lean_cexpr(e):
    if e[0] == "lit":
        return ".lit %d" % e[1]
    if e[0] == "other":
        return ".other %s %d" % (json.dumps(e[1], ensure_ascii=True), e[2])
    return ".%s (%s) (%s)" % (e[0], _lean_cexpr(e[1]), _lean_cexpr(e[2]))


def extract_casts():
    """-> (list of cast records with 'fn', list of (fn, bits of update's length parameter))"""
    casts, lens = [], []
    for alg, rel, upd, fin in CAST_FUNCS:
        src = extract.src(rel)
        for fn in (upd, fin):
            defs = [d for d in _ast_docs(rel, fn) if d.get("kind") == "FunctionDecl" and d.get("name") == fn
                    and any(c.get("kind") == "CompoundStmt" for c in d.get("inner", []))]
            if len(defs) != 1:
                raise RuntimeError("definition of %s not found in %s" % (fn, rel))
            d = defs[0]
            off = _loc(d["range"]["begin"]).get("offset", 0)
            _FN_RANGE[:] = [off, _loc(d["range"]["end"]).get("offset", len(src))]
            name = ("ws:" if alg == "wssha1" else "") + fn
            found = []
            _find_casts(d, src, off, False, None, found)
            for c in found:
                c["fn"] = name
                # the length field / digest bytes written by finish are data, not control flow: a conversion
                # there (e.g. storing the bit count as two 32-bit words) is what the byte-counter cases of the
                # correspondence run look at, not the width theorem
                c["data"] = (fn == fin and c["role"] is not None and not c["cond"])
            casts += found
            if fn == upd:
                ps = [c for c in d.get("inner", []) if c.get("kind") == "ParmVarDecl"]
                if len(ps) != 3:
                    raise RuntimeError("%s: expected (ctx, data, length)" % fn)
                lens.append((name, ps[2].get("name", "?"), _bits(_ty(ps[2])) or 0))
    return casts, lens


# --------------------------------------------------------------------------
# (A3) translator: objects with static storage duration that can be written, in the five hash translation units.
# The model's transform is a pure function of (H, block): that abstracts the C function correctly only if the C
# function keeps no state outside its arguments (a `static uint64_t W[16]` scratch buffer is shared by all threads).
# Semantic route: each file is compiled with the configured flags and the symbol table of the object is read —
# every defined object symbol in a writable section (.data/.bss/common/TLS) is such an object, whatever macro or
# name produced it; const tables live in .rodata and are counted separately.

def _scan_object(path, extra=()):
    """-> (writable objects [(name, file, line)], read-only objects, number of function symbols)"""
    d = tempfile.mkdtemp(prefix="vs", dir=vlib.BUILD if os.path.isdir(vlib.BUILD) else None)
    try:
        o = os.path.join(d, "x.o")
        r = vlib.sh(["gcc", "-c", "-g", "-O0", "-w", "-fno-pic", "-fno-pie", "-fno-common"] + vlib.CFLAGS_COMMON +
                    ["-I" + os.path.dirname(path)] + list(extra) + [path, "-o", o])
        if r.returncode != 0:
            raise RuntimeError("cannot compile %s for the static-object scan: %s" % (path, r.stderr[-600:]))
        r = vlib.sh(["nm", "-l", o])
        if r.returncode != 0:
            raise RuntimeError("nm failed on the object of %s" % path)
        rw, ro, nfun = [], [], 0
        for line in r.stdout.splitlines():
            m = re.match(r"^([0-9a-fA-F]*)\s+(\S)\s+(\S+)(?:\s+(\S+):(\d+))?\s*$", line)
            if not m:
                continue
            typ, name = m.group(2), re.sub(r"\.\d+$", "", m.group(3))
            where = (m.group(4) or path, int(m.group(5) or 0))
            if typ in "tT":
                nfun += 1
            elif typ in "rRnN":
                ro.append((name,) + where)
            elif typ not in "UwWvVaA?-":     # b B d D C s S g G u i ... : anything else that is defined is treated as writable
                rw.append((name,) + where)
        return rw, ro, nfun
    finally:
        subprocess.run(["rm", "-rf", d])


def _statics_selftest():
    """the scanner must see a writable static local, a writable file-scope object and tell them from const tables"""
    d = tempfile.mkdtemp(prefix="vt", dir=vlib.BUILD if os.path.isdir(vlib.BUILD) else None)
    try:
        c = os.path.join(d, "probe.c")
        open(c, "w").write("static const unsigned K[4] = {1, 2, 3, 4};\nstatic const char *const nm[] = {\"a\"};\n"
                           "unsigned g;\nunsigned f (unsigned i) { static unsigned W[16]; W[i & 15] += K[i & 3] + g; "
                           "return W[0] + (unsigned) nm[0][0]; }\n")
        rw, ro, nfun = _scan_object(c)
        if sorted(x[0] for x in rw) != ["W", "g"] or sorted(x[0] for x in ro) != ["K", "nm"] or nfun != 1:
            raise RuntimeError("static-object scanner self-test failed: writable %r read-only %r" % (rw, ro))
    finally:
        subprocess.run(["rm", "-rf", d])


def extract_statics():
    """-> (mutable [(file, name, line)], const [(file, name, line)], [(file, function symbols)])"""
    _statics_selftest()
    mut, con, scanned = [], [], []
    for alg, rel, upd, fin in CAST_FUNCS:
        rw, ro, nfun = _scan_object(os.path.join(vlib.REPO, rel))
        rp = os.path.realpath(vlib.REPO) + os.sep
        fix = lambda f: os.path.realpath(f)[len(rp):] if os.path.realpath(f).startswith(rp) else f
        mut += [(fix(f), n, l) for n, f, l in rw]
        con += [(fix(f), n, l) for n, f, l in ro]
        scanned.append((rel, nfun))
    return mut, con, scanned


def gen_hash_casts():
    casts, lens = extract_casts()
    o = [extract.HEADER % "src/microhttpd/{md5,sha1,sha256,sha512_256}.c, src/microhttpd_ws/sha1.c "
                          "(tools/props/C16.py: clang-14 JSON AST)"]
    o.append("import Mhd.Model.Hash.CExpr\n")
    o.append("namespace Mhd.Gen.Hash\nopen Mhd.Hash\n")
    o.append("/-! Every conversion from a 64-bit integer to a narrower integer type (written casts and the implicit\n"
             "conversions of assignments, initialisers, arguments, compound assignments) in the update and finish\n"
             "functions of the five hash files, with the converted expression in a form that lets its value be\n"
             "bounded.  `line` counts from the first line of the function definition.  `dataPath`: the converted value is\n"
             "(only) an argument of a call or stored to memory inside a finish function (length field, digest bytes). -/\n")
    o.append("def narrowingCasts : List NarrowCast := [")
    o.append(",\n".join("  { fn := %s, text := %s, line := %d, explicit := %s, inCondition := %s, dataPath := %s,\n"
                        "    srcBits := %d, dstBits := %d, operand := %s }"
                        % (json.dumps(c["fn"]), json.dumps(c["text"], ensure_ascii=True), c["line"],
                           "true" if c["explicit"] else "false", "true" if c["cond"] else "false",
                           "true" if c["data"] else "false",
                           c["src"], c["dst"], _lean_cexpr(c["operand"])) for c in casts) + "]\n")
    o.append("/-- the same list for the reader: (function, converted expression, line in the function) -/")
    o.append("def narrowingCastsInUpdate : List (String × String × Nat) :=\n  narrowingCasts.map fun c => (c.fn, c.text, c.line)\n")
    o.append("/-- (update function, name of its length parameter, width of that parameter's type in bits) -/")
    o.append("def updateLengthBits : List (String × String × Nat) := [" +
             ", ".join("(%s, %s, %d)" % (json.dumps(f), json.dumps(p), b) for f, p, b in lens) + "]\n")
    mut, con, scanned = extract_statics()
    trip = lambda xs: "[" + ", ".join("(%s, %s, %d)" % (json.dumps(f), json.dumps(n), l) for f, n, l in xs) + "]"
    o.append("/-! Objects with static storage duration in the five translation units, from the symbol tables of the objects\n"
             "compiled with the configured flags (file, name, line): `mutableStatics` live in a writable section (static\n"
             "locals, file-scope objects, thread-local ones), `constStatics` in a read-only one. -/\n")
    o.append("def mutableStatics : List (String × String × Nat) := " + trip(mut))
    o.append("def constStatics : List (String × String × Nat) := " + trip(con))
    o.append("/-- (translation unit, number of function symbols the scan saw in its object) -/")
    o.append("def staticsScanned : List (String × Nat) := [" +
             ", ".join("(%s, %d)" % (json.dumps(f), n) for f, n in scanned) + "]\n")
    o.append("end Mhd.Gen.Hash\n")
    return vlib.write_if_changed(os.path.join(extract.GEN, "HashCasts.lean"), "\n".join(o))


# --------------------------------------------------------------------------
# independent oracle: hashlib (with a pure-Python SHA-512/256 should hashlib lack it)

def _py_sha512_256(msg):
    """FIPS 180-4 SHA-512/256, straightforward reference (used only when hashlib has no sha512_256)"""
    M = (1 << 64) - 1

    def primes(n):
        ps, c = [], 2
        while len(ps) < n:
            if all(c % p for p in ps):
                ps.append(c)
            c += 1
        return ps

    def icbrt_frac(p):  # first 64 bits of the fractional part of the cube root
        n = p << 192
        lo, hi = 0, 1 << 80
        while lo < hi:
            mid = (lo + hi + 1) // 2
            if mid ** 3 <= n:
                lo = mid
            else:
                hi = mid - 1
        return lo & M

    K = [icbrt_frac(p) for p in primes(80)]
    H = [0x22312194FC2BF72C, 0x9F555FA3C84C64C2, 0x2393B86B6F53B151, 0x963877195940EABD,
         0x96283EE2A88EFFE3, 0xBE5E1E2553863992, 0x2B0199FC2C85B8AA, 0x0EB72DDC81C52CA2]
    rotr = lambda x, n: ((x >> n) | (x << (64 - n))) & M
    m = bytearray(msg) + b"\x80"
    m += b"\0" * ((112 - len(m)) % 128) + (8 * len(msg)).to_bytes(16, "big")
    for i in range(0, len(m), 128):
        W = [int.from_bytes(m[i + 8 * j:i + 8 * j + 8], "big") for j in range(16)]
        for t in range(16, 80):
            s0 = rotr(W[t - 15], 1) ^ rotr(W[t - 15], 8) ^ (W[t - 15] >> 7)
            s1 = rotr(W[t - 2], 19) ^ rotr(W[t - 2], 61) ^ (W[t - 2] >> 6)
            W.append((s1 + W[t - 7] + s0 + W[t - 16]) & M)
        a, b, c, d, e, f, g, h = H
        for t in range(80):
            T1 = (h + (rotr(e, 14) ^ rotr(e, 18) ^ rotr(e, 41)) + ((e & f) ^ (~e & g)) + K[t] + W[t]) & M
            T2 = ((rotr(a, 28) ^ rotr(a, 34) ^ rotr(a, 39)) + ((a & b) ^ (a & c) ^ (b & c))) & M
            a, b, c, d, e, f, g, h = (T1 + T2) & M, a, b, c, (d + T1) & M, e, f, g
        H = [(x + y) & M for x, y in zip(H, [a, b, c, d, e, f, g, h])]
    return b"".join(x.to_bytes(8, "big") for x in H[:4]).hex()


def _rotl32(x, n):
    return ((x << n) | (x >> (32 - n))) & 0xffffffff


def _md5_compress(H, blk):
    import math
    T = [int(abs(math.sin(i + 1)) * (1 << 32)) & 0xffffffff for i in range(64)]
    S = [7, 12, 17, 22] * 4 + [5, 9, 14, 20] * 4 + [4, 11, 16, 23] * 4 + [6, 10, 15, 21] * 4
    X = [int.from_bytes(blk[4 * j:4 * j + 4], "little") for j in range(16)]
    a, b, c, d = H
    for i in range(64):
        if i < 16:
            f, k = (b & c) | (~b & d), i
        elif i < 32:
            f, k = (b & d) | (c & ~d), (1 + 5 * i) % 16
        elif i < 48:
            f, k = b ^ c ^ d, (5 + 3 * i) % 16
        else:
            f, k = c ^ (b | ~d), (7 * i) % 16
        a, b, c, d = d, (b + _rotl32((a + f + X[k] + T[i]) & 0xffffffff, S[i])) & 0xffffffff, b, c
    return [(x + y) & 0xffffffff for x, y in zip(H, [a, b, c, d])]


def _sha1_compress(H, blk):
    W = [int.from_bytes(blk[4 * j:4 * j + 4], "big") for j in range(16)]
    for t in range(16, 80):
        W.append(_rotl32(W[t - 3] ^ W[t - 8] ^ W[t - 14] ^ W[t - 16], 1))
    a, b, c, d, e = H
    for t in range(80):
        if t < 20:
            f, k = (b & c) ^ (~b & d), 0x5a827999
        elif t < 40:
            f, k = b ^ c ^ d, 0x6ed9eba1
        elif t < 60:
            f, k = (b & c) ^ (b & d) ^ (c & d), 0x8f1bbcdc
        else:
            f, k = b ^ c ^ d, 0xca62c1d6
        a, b, c, d, e = (_rotl32(a, 5) + f + e + k + W[t]) & 0xffffffff, a, _rotl32(b, 30), c, d
    return [(x + y) & 0xffffffff for x, y in zip(H, [a, b, c, d, e])]


def _iroot_frac(p, k, bits):
    n, lo, hi = p << (k * bits), 0, 1 << (bits + 8)
    while lo < hi:
        mid = (lo + hi + 1) // 2
        if mid ** k <= n:
            lo = mid
        else:
            hi = mid - 1
    return lo & ((1 << bits) - 1)


def _primes(n):
    ps, c = [], 2
    while len(ps) < n:
        if all(c % p for p in ps):
            ps.append(c)
        c += 1
    return ps


_K = {}


def _sha2_compress(H, blk, w):
    """w = 32 (SHA-256) or 64 (SHA-512): FIPS 180-4 6.2.2 / 6.4.2, constants from their defining formula"""
    M = (1 << w) - 1
    nr = 64 if w == 32 else 80
    if w not in _K:
        _K[w] = [_iroot_frac(p, 3, w) for p in _primes(nr)]
    K = _K[w]
    r = (lambda x, n: ((x >> n) | (x << (w - n))) & M)
    if w == 32:
        S0, S1 = (2, 13, 22), (6, 11, 25)
        s0 = lambda x: r(x, 7) ^ r(x, 18) ^ (x >> 3)
        s1 = lambda x: r(x, 17) ^ r(x, 19) ^ (x >> 10)
    else:
        S0, S1 = (28, 34, 39), (14, 18, 41)
        s0 = lambda x: r(x, 1) ^ r(x, 8) ^ (x >> 7)
        s1 = lambda x: r(x, 19) ^ r(x, 61) ^ (x >> 6)
    wb = w // 8
    W = [int.from_bytes(blk[wb * j:wb * j + wb], "big") for j in range(16)]
    for t in range(16, nr):
        W.append((s1(W[t - 2]) + W[t - 7] + s0(W[t - 15]) + W[t - 16]) & M)
    a, b, c, d, e, f, g, h = H
    for t in range(nr):
        T1 = (h + (r(e, S1[0]) ^ r(e, S1[1]) ^ r(e, S1[2])) + ((e & f) ^ (~e & g)) + K[t] + W[t]) & M
        T2 = ((r(a, S0[0]) ^ r(a, S0[1]) ^ r(a, S0[2])) + ((a & b) ^ (a & c) ^ (b & c))) & M
        a, b, c, d, e, f, g, h = (T1 + T2) & M, a, b, c, (d + T1) & M, e, f, g
    return [(x + y) & M for x, y in zip(H, [a, b, c, d, e, f, g, h])]


_PY = {  # alg: (block, length-field bytes, IV, compress, length byte order, word bytes, word order, digest words)
    "md5": (64, 8, [0x67452301, 0xefcdab89, 0x98badcfe, 0x10325476], _md5_compress, "little", 4, "little", 4),
    "sha1": (64, 8, [0x67452301, 0xefcdab89, 0x98badcfe, 0x10325476, 0xc3d2e1f0], _sha1_compress, "big", 4, "big", 5),
    "sha256": (64, 8, [_iroot_frac(p, 2, 32) for p in _primes(8)], lambda H, b: _sha2_compress(H, b, 32), "big", 4, "big", 8),
    "sha512_256": (128, 16, [0x22312194FC2BF72C, 0x9F555FA3C84C64C2, 0x2393B86B6F53B151, 0x963877195940EABD,
                             0x96283EE2A88EFFE3, 0xBE5E1E2553863992, 0x2B0199FC2C85B8AA, 0x0EB72DDC81C52CA2],
                   lambda H, b: _sha2_compress(H, b, 64), "big", 8, "big", 4),
}
_PY["wssha1"] = _PY["sha1"]


def reference_long(alg, prefix, msg):
    """the standard digest of (P || msg) where P is a virtual prefix of `prefix` bytes (a multiple of the
    block size) whose blocks are taken to leave the chaining value at the IV: i.e. the standard's
    computation on `msg` from the IV with the length field of a (prefix+|msg|)-byte message.
    Pure Python, written from the standards; used where hashlib cannot go (byte counts near 2^61, 2^64)."""
    B, L, IV, comp, lorder, wb, worder, dw = _PY[alg]
    total = prefix + len(msg)
    m = bytearray(msg) + b"\x80"
    m += b"\0" * ((B - L - len(m)) % B) + ((8 * total) % (1 << (8 * L))).to_bytes(L, lorder)
    H = list(IV)
    for i in range(0, len(m), B):
        H = comp(H, bytes(m[i:i + B]))
    return b"".join(x.to_bytes(wb, worder) for x in H[:dw]).hex()


def _have(name):
    try:
        hashlib.new(name, b"")
        return True
    except (ValueError, TypeError):
        return False


_HAVE_512_256 = _have("sha512_256")


def reference(alg, msg):
    """the standard digest (hex) by an implementation that shares nothing with MHD or the model"""
    if alg == "sha512_256" and not _HAVE_512_256:
        return _py_sha512_256(msg)
    return hashlib.new(HL[alg], msg).hexdigest()


# --------------------------------------------------------------------------
# generators: a case = (alg, [chunks], [offsets], tag); scripts are built per harness

def hx(b):
    return b.hex() if b else "-"


def case_lines(alg, chunks, offs, pre=None, prefix=0):
    ls = []
    if pre is not None:      # an abandoned message before this one (context re-use without finish)
        ls += ["init " + alg, "update %s %d %s" % (alg, pre[0], hx(pre[1]))]
    ls.append("init " + alg)
    if prefix:               # white box: a virtual prefix of `prefix` bytes (see harness `setcount`)
        if alg == "sha512_256":
            ls.append("setcount %s %d %d" % (alg, prefix % (1 << 61), (prefix >> 61) % (1 << 64)))
        else:
            ls.append("setcount %s %d 0" % (alg, prefix % (1 << 64)))
    for c, o in zip(chunks, offs):
        ls.append("update %s %d %s" % (alg, o, hx(c)))
    ls.append("finish " + alg)
    return ls


def split_random(rng, msg):
    """random multi-way split, with empty chunks now and then"""
    out, i = [], 0
    while i < len(msg):
        r = rng.random()
        if r < 0.15:
            out.append(b"")
            continue
        n = rng.choice([1, 2, 3, 7, 8, 55, 56, 63, 64, 65, 111, 112, 127, 128, 129]) if r < 0.6 else rng.randint(1, 200)
        out.append(msg[i:i + n])
        i += n
    if rng.random() < 0.3:
        out.append(b"")
    return out


def gen_cases(rng, alg, tier, boost):
    maxlen = 300
    two_way = 140 if tier == "quick" else 300
    cases = []
    for n in range(maxlen + 1):
        msg = bytes(rng.getrandbits(8) for _ in range(n))
        cases.append((alg, [msg], [rng.randrange(16)], "oneshot", None))
        cases.append((alg, [msg[i:i + 1] for i in range(n)], [rng.randrange(16) for _ in range(n)], "bytewise", None))
        for _ in range(3 if boost else 1):
            ch = split_random(rng, msg)
            pre = (rng.randrange(16), bytes(rng.getrandbits(8) for _ in range(rng.randrange(0, 200)))) \
                if rng.random() < 0.25 else None
            cases.append((alg, ch, [rng.randrange(16) for _ in ch], "multi", pre))
        if n <= two_way:
            for k in range(n + 1):
                cases.append((alg, [msg[:k], msg[k:]], [(k + n) % 16, (3 * k + 1) % 16], "split2", None))
    # byte counters near their wrap-arounds (white box `setcount`; reference: pure-Python standard)
    B = 128 if alg == "sha512_256" else 64
    L = 16 if alg == "sha512_256" else 8
    if alg == "sha512_256":
        prefixes = [(1 << 61) - B, (1 << 61), (1 << 62) - B, (1 << 64) - B, (1 << 64), (1 << 64) + B, (3 << 61) - B,
                    (1 << 125) - B, (1 << 125) - 2 * B, (1 << 124), (1 << 100) - B, (1 << 32) - B]
        prefixes += [rng.randrange(1 << 118) * B for _ in range(8)]
    else:
        prefixes = [(1 << 61) - B, (1 << 61), (1 << 61) + B, (1 << 63), (1 << 64) - B, (1 << 64) - 2 * B,
                    (1 << 32) - B, (1 << 32), (1 << 29) - B, (1 << 29)]
        prefixes += [rng.randrange(1 << 58) * B for _ in range(8)]
    for P in prefixes:
        for n in [0, 1, B - L - 1, B - L, B - 1, B, B + 1, 2 * B - L, 300]:
            msg = bytes(rng.getrandbits(8) for _ in range(n))
            ch = split_random(rng, msg) if rng.random() < 0.7 else [msg]
            cases.append((alg, ch, [rng.randrange(16) for _ in ch], "long-count", None, P))
    nbig = (4 if tier == "thorough" else 2) * (2 if boost else 1)
    for i in range(nbig):
        n = (1 << 20) + rng.choice([0, 1, 55, 56, 63, 64, 111, 112, 127])
        msg = rng.randbytes(n)
        if i % 2 == 0:
            cases.append((alg, [msg], [rng.randrange(16)], "big-oneshot", None))
        else:
            cuts = sorted(rng.randrange(n) for _ in range(6))
            ch = [msg[a:b] for a, b in zip([0] + cuts, cuts + [n])]
            cases.append((alg, ch, [rng.randrange(16) for _ in ch], "big-multi", None))
    if tier == "thorough":
        for n in range(maxlen + 1, 1101):
            msg = rng.randbytes(n)
            cases.append((alg, [msg], [rng.randrange(16)], "oneshot", None))
            if n <= 600:
                cases.append((alg, [msg[i:i + 1] for i in range(n)], [rng.randrange(16) for _ in range(n)], "bytewise", None))
        for n in range(0, 41):          # every 3-way split of the short messages
            msg = rng.randbytes(n)
            for i in range(n + 1):
                for j in range(i, n + 1):
                    cases.append((alg, [msg[:i], msg[i:j], msg[j:]], [i % 16, (j + 5) % 16, (i + j) % 16], "split3", None))
        for _ in range(3000):
            n = rng.choice([rng.randint(301, 5000), rng.randint(0, 300)])
            msg = rng.randbytes(n)
            ch = split_random(rng, msg)
            cases.append((alg, ch, [rng.randrange(16) for _ in ch], "multi-long", None))
    return cases


# --------------------------------------------------------------------------
# the byte/bit counter of MHD_SHA512_256_update: its "value wrap" branch needs one update call of
# >= 2^64 - 2^61 bytes, so it is cut out of the source text and probed on its own

_CNT_MAIN = r"""
#include "MHD_config.h"
#include <stdint.h>
#include <stddef.h>
#include <stdio.h>
#include <inttypes.h>
struct cnt_ctx { uint64_t count; uint64_t count_bits_hi; };
static void probe (struct cnt_ctx *ctx, size_t length)
{
  uint64_t count_hi;
  (void) count_hi;
%s
}
int main (void)
{
  uint64_t c, h, l;
  while (3 == scanf ("%%" SCNu64 " %%" SCNu64 " %%" SCNu64, &c, &h, &l))
  {
    struct cnt_ctx x = { c, h };
    probe (&x, (size_t) l);
    printf ("cnt %%" PRIu64 " %%" PRIu64 "\n", x.count, x.count_bits_hi);
  }
  return 0;
}
"""


def counter_fragment():
    """the statements of MHD_SHA512_256_update between `ctx->count += length;` and the buffer handling"""
    src = extract.src("src/microhttpd/sha512_256.c")
    m = re.search(r"MHD_SHA512_256_update\s*\(.*?\n(\s*ctx->count \+= length;.*?)\n\s*if \(0 != bytes_have\)", src, re.S)
    return m.group(1) if m else None


def counter_probes(rng):
    W, T61 = 1 << 64, 1 << 61
    ps = []
    for c in [0, 1, 127, 128, T61 - 128, T61 - 1, T61 // 2] + [rng.randrange(T61) for _ in range(20)]:
        for h in [0, 1, 7, 8, W - 9, W - 8, W - 1, rng.randrange(W)]:
            for l in [1, 127, 128, T61 - 1, T61, T61 + 1, W - T61 - 1, W - T61, W - T61 + 1, W - c - 1 if c else W - 1,
                      (W - c) % W or 1, W - 1, rng.randrange(1, W), rng.randrange(W - T61, W)]:
                ps.append((c, h, l))
    return ps


def counter_oracle(c, h, l):
    """128-bit bit counter: (hi * 2^64 + count * 8 + length * 8) mod 2^128, re-split at 2^61 bytes"""
    bits = (h * (1 << 64) + 8 * c + 8 * l) % (1 << 128)
    return (bits // 8) % (1 << 61), bits >> 64


# --------------------------------------------------------------------------
# ONE update call of >= 2^31 / 2^32 bytes (harness/h_hash_huge.c: zero pages of a read-only anonymous mapping).
# The model's `length` is a natural number; C compares a size_t with `unsigned int` locals.  A narrowing on the
# way (`(unsigned int) length >= bytes_left`) is invisible below 4 GiB.  Compared: the real code with one huge
# call / the same real code with the same bytes in 1 MiB calls / hashlib fed 1 MiB at a time.  (The Lean model
# cannot be *run* on 4 GiB lists; it is tied to these lengths by `no_narrowing_in_control_flow` instead.)

T31, T32 = 1 << 31, 1 << 32
_ZMB = bytes(1 << 20)
HUGE_PIECE = 1 << 20


def huge_prefix(k):
    """k non-zero bytes (a stale buffer that is not flushed must change the digest)"""
    return bytes((37 * i + 11) % 251 + 1 for i in range(k))


def huge_plan(rng, alg, tier, boost):
    """-> list of (k, off, n): update (k prefix bytes); update (zeros + off, n)"""
    B = 128 if alg == "sha512_256" else 64
    if tier != "thorough":
        # low 32 bits of the length (0) are below the free space of the buffer (B - k), and are 0: what a
        # truncated `length >= bytes_left`, a truncated `0 == length` and a truncated byte counter all get wrong
        k = rng.choice([1, 7, B - 1])
        plan = [(k, 0, T32)]
        if boost:    # some proof obligation is broken: look a little harder for a concrete input
            plan += [(7, 1, T32 + 5), (7, 0, T31 + B - 7)]
        return plan
    plan = []
    for k, ds in ((7, {0, 5, B - 7 - 1, B - 7, B}), (1, {0, B - 2, B - 1}), (B - 1, {0, 1, B})):
        for d in sorted(ds):   # d = B-k-1 / B-k: the low 32 bits just miss / just fill the free space of the buffer
            plan.append((k, {(7, 5): 1, (1, 0): 3}.get((k, d), 0), T32 + d))
    for d in (-1, 0, B - 7 - 1, B - 7):
        plan.append((7, 0, T31 + d))
    seen, out = set(), []
    for c in plan:
        if (c[0], c[2]) not in seen:
            seen.add((c[0], c[2]))
            out.append(c)
    return out


def _ref_cache_path():
    return os.path.join(vlib.BUILD_ROOT, "hash_huge_ref.json")


def huge_reference(alg, k, lens, counters=None):
    """hashlib digest of huge_prefix(k) || 0^n for every n in lens: one incremental pass, 1 MiB per update call.
    The values are constants of the standards; they are remembered in build/hash_huge_ref.json (key = algorithm,
    prefix, length) so that later runs need not push the same 4 GiB through hashlib again."""
    pre = huge_prefix(k)
    try:
        cache = json.load(open(_ref_cache_path()))
    except (OSError, ValueError):
        cache = {}
    key = lambda n: "%s:%s:%d" % (HL[alg], pre.hex(), n)
    out = {n: cache[key(n)] for n in lens if key(n) in cache}
    todo = sorted(set(n for n in lens if n not in out))
    if counters is not None:
        counters["cached"] += len(out)
        counters["computed"] += len(todo)
    if todo:
        h, fed = hashlib.new(HL[alg], pre), 0
        for n in todo:
            rest = n - fed
            while rest >= len(_ZMB):
                h.update(_ZMB)
                rest -= len(_ZMB)
            if rest:
                h.update(_ZMB[:rest])
            fed = n
            out[n] = h.copy().hexdigest()
        try:
            with vlib.flock("hashref"):
                try:
                    cache = json.load(open(_ref_cache_path()))
                except (OSError, ValueError):
                    cache = {}
                cache.update({key(n): out[n] for n in todo})
                vlib.write_if_changed(_ref_cache_path(), json.dumps(cache, indent=0, sort_keys=True))
        except OSError:
            pass
    return out


class Spec:
    props_module = "Mhd.Props.C16"
    lean_targets = ["Mhd.Props.C16", "drv_hash"]
    required_theorems = ["Mhd.C16." + n for n in (
        "sha256_chunks", "sha256_reuse", "sha256_table_is_standard",
        "md5_chunks", "md5_reuse", "md5_table_is_standard",
        "sha512_256_chunks", "sha512_256_reuse", "sha512_256_counter", "sha512_256_table_is_standard",
        "sha1_chunks", "sha1_reuse", "ws_sha1_chunks", "ws_sha1_reuse", "sha1_table_is_standard",
        "no_narrowing_in_control_flow", "finish_length_encoding_sha256", "finish_length_encoding_sha1",
        "finish_length_encoding_ws_sha1", "finish_length_encoding_md5", "finish_length_encoding_sha512_256",
        "hash_functions_have_no_mutable_static_state")]
    trusted_base = ["Lean 4 kernel", "axioms: propext, Classical.choice, Quot.sound at most (audited per theorem)",
                    "hand-written specifications lean/Mhd/Model/Hash/Spec{Md5,Sha1,Sha256,Sha512}.lean + the padding frame "
                    "Spec.Hash in Model/Hash/MD.lean (RFC 1321 / FIPS 180-4 transcriptions; validated on the published "
                    "vectors and against hashlib on every explored message <= 300 bytes)",
                    "hand-written model lean/Mhd/Model/Hash/{MD,Md5,Sha1,Sha256,Sha512}.lean: update/finish shape, step macros, "
                    "sigma/Ch/Maj/rotate functions, SHA-512/256 counter; tied to the C files by the regenerated step tables, "
                    "IVs and sizes (tools/props/C16.py: step macros re-defined as recorders, the transform executed) and by "
                    "this run's correspondence",
                    "harness/h_hash.c, gcc, ASan/UBSan (alignment); harness/h_hash_huge.c (no sanitizer, -O2) for single update "
                    "calls of 2^31..2^32+128 bytes",
                    "clang-14 JSON AST + its translation to Mhd.Hash.CExpr in tools/props/C16.py (extract_casts): which conversions "
                    "to a narrower integer type exist in the update/finish functions and what their operands are; the bound "
                    "analysis itself (Mhd.Hash.CExpr.ub) is proved sound in Lean",
                    "Python hashlib, and a pure-Python transcription of the standards for the byte-counter cases, as independent references"]
    assumptions = ["configured build: little-endian, !MHD_FAVOR_SMALL_CODE, 64-bit size_t",
                   "which unrolled block runs for misaligned input is modelled (MD5 reads X[] after a memcpy); that a "
                   "misaligned pointer is never dereferenced as a word is established by the run (all 16 misalignments of "
                   "data and digest under UBSan -fsanitize=alignment), not by the theorems",
                   "SHA-512/256: each single update call is shorter than 2^64 bytes (size_t)",
                   "the model's natural-number `length` stands for the C size_t: justified by no_narrowing_in_control_flow "
                   "(regenerated list of narrowing conversions, all value-preserving) and by running single calls of >= 2^32 "
                   "bytes on the real code against hashlib; the Lean model itself is not executed on 4 GiB inputs",
                   "messages of 2^61 bytes and more are outside the standards (SHA-1, SHA-256); the specifications use the "
                   "low 64 bits of the bit length there, and so does the code"]
    algs = [a for a in ALGS if a in os.environ.get("VERIF_C16_ALGS", ",".join(ALGS)).split(",")]

    def gen(self, ctx):
        try:
            gen_hash_casts()     # a failure here propagates: the width facts are then not regenerated
        finally:
            self.gen_steps(ctx)

    def gen_steps(self, ctx):
        try:
            gen_hash()
        except RuntimeError as ex:
            # the step macros were renamed / reshaped: keep the committed tables (the proofs then speak about
            # the last extracted code) and let the correspondence + hashlib decide whether behaviour changed
            if not os.path.exists(os.path.join(extract.GEN, "Hash.lean")):
                raise
            ctx.note("extractor could not follow the source (%s); keeping committed Gen/Hash.lean" % str(ex)[:200])
            self.gen_note = str(ex)[:300]

    def build(self, ctx):
        R = os.path.join(vlib.REPO, "src/microhttpd")
        W = os.path.join(vlib.REPO, "src/microhttpd_ws")
        h = os.path.join(vlib.VERIF, "harness/h_hash.c")
        self.h_main = vlib.cc("h_hash", [h] + [os.path.join(R, f) for f in ("md5.c", "sha1.c", "sha256.c", "sha512_256.c")])
        self.h_ws = vlib.cc("h_hash_ws", [h, os.path.join(W, "sha1.c")],
                            extra=['-DHASH_WS_H="%s"' % os.path.join(W, "sha1.h")])
        self.driver = vlib.driver_path("drv_hash")
        hh = os.path.join(vlib.VERIF, "harness/h_hash_huge.c")   # no sanitizers, -O2: 4 GiB per call
        self.h_huge = vlib.cc("h_hash_huge", [hh] + [os.path.join(R, f) for f in ("md5.c", "sha1.c", "sha256.c", "sha512_256.c")],
                              extra=["-O2"], san=False)
        self.h_huge_ws = vlib.cc("h_hash_huge_ws", [hh, os.path.join(W, "sha1.c")],
                                 extra=["-O2", '-DHASH_WS_H="%s"' % os.path.join(W, "sha1.h")], san=False)
        # threads: no sanitizer, and -O0 on purpose — an optimising compiler forwards the values it has just stored to a
        # (static) scratch array from registers and never reads the shared memory back, which hides the interference
        hm = os.path.join(vlib.VERIF, "harness/h_hash_mt.c")
        self.h_mt = vlib.cc("h_hash_mt", [hm] + [os.path.join(R, f) for f in ("md5.c", "sha1.c", "sha256.c", "sha512_256.c")],
                            extra=["-O0", "-pthread"], san=False)
        self.h_mt_ws = vlib.cc("h_hash_mt_ws", [hm, os.path.join(W, "sha1.c")],
                               extra=["-O0", "-pthread", '-DHASH_WS_H="%s"' % os.path.join(W, "sha1.h")], san=False)
        self.h_cnt = None
        frag = counter_fragment()
        if frag is not None:
            src = os.path.join(vlib.BUILD, "h_hash_cnt.c")
            open(src, "w").write(_CNT_MAIN % frag)
            try:
                self.h_cnt = vlib.cc("h_hash_cnt", [src])
            except vlib.BuildError as ex:
                ctx.note("sha512_256 counter fragment does not compile on its own (skipped): %s" % str(ex)[-300:])

    def run_counter(self, ctx, failures, stats):
        """sha512_256 byte/bit counter: real statements vs model vs 128-bit arithmetic"""
        if self.h_cnt is None or "sha512_256" not in self.algs:
            stats["counter_probes"] = "fragment not found in the source: wrap branch not exercised"
            return
        ps = counter_probes(ctx.rng)
        hout, hrc, herr = vlib.run_lines(self.h_cnt, ["%d %d %d" % p for p in ps])
        mout, mrc, merr = vlib.run_lines(self.driver, ["bump sha512_256 %d %d %d" % p for p in ps])
        nwrap = 0
        for i, (c, h, l) in enumerate(ps):
            want = "cnt %d %d" % counter_oracle(c, h, l)
            nwrap += 1 if c + l >= (1 << 64) else 0
            got = hout[i] if i < len(hout) else "<none>"
            inp = ["bump sha512_256 %d %d %d" % (c, h, l)]
            if hrc != 0 and i >= len(hout):
                failures.append(vlib.Failure("sanitizer", "hash sha512_256 counter: fragment aborted (%s)" % _san_kind(herr),
                                             herr[-800:], inp, "hash"))
                break
            if got != want:
                failures.append(vlib.Failure("oracle", "hash sha512_256 counter: bit count differs from 128-bit arithmetic",
                                             "count=%d hi=%d length=%d: code '%s', arithmetic '%s'" % (c, h, l, got, want),
                                             inp, "hash"))
            elif i >= len(mout) or mout[i] != got:
                failures.append(vlib.Failure("diff", "hash sha512_256 counter: model and code differ",
                                             "count=%d hi=%d length=%d: code '%s', model '%s'"
                                             % (c, h, l, got, mout[i] if i < len(mout) else "<none>"), inp, "hash"))
            if len(failures) > 30:
                break
        stats["counter_probes"] = {"probes": len(ps), "with_64bit_wrap": nwrap}

    def mt_script(self, rng, alg, threads, millis):
        """messages (lengths across the block boundaries, a few longer ones), hashlib digests, split positions"""
        B = 128 if alg == "sha512_256" else 64
        lens = [0, 1, B - 9, B - 8, B - 1, B, B + 1, 2 * B - 17, 2 * B - 16, 2 * B, 3 * B + 5, 1000, 4096 + 13]
        lens += [rng.randrange(0, 4 * B) for _ in range(11)]
        lines = []
        for n in lens:
            m = rng.randbytes(n)
            cuts = sorted(rng.randrange(0, n + 1) for _ in range(rng.randrange(1, 5))) if n else [0]
            lines.append("msg %s %s %s %s" % (alg, hx(m), reference(alg, m), ",".join(str(c) for c in cuts)))
        lines.append("run %s 1 %d" % (alg, max(50, millis // 8)))       # baseline: one thread
        lines.append("run %s %d %d" % (alg, threads, millis))
        return lines

    def run_threads(self, ctx, failures, stats, boost):
        """several calculations at the same time in different threads, each with its own context and data"""
        from concurrent.futures import ThreadPoolExecutor
        thorough = ctx.tier == "thorough"
        threads, millis = (8, 2500) if thorough else (4, 1500 if boost else 900)
        scripts = {a: self.mt_script(ctx.rng, a, threads, millis) for a in self.algs}
        main = [l for a in self.algs if a != "wssha1" for l in scripts[a]]
        jobs = {}
        with ThreadPoolExecutor(max_workers=2) as ex:     # the two binaries side by side; the algorithms of one in turn
            if main:
                jobs["main"] = ex.submit(vlib.run_lines, self.h_mt, main, 600)
            if "wssha1" in scripts:
                jobs["ws"] = ex.submit(vlib.run_lines, self.h_mt_ws, scripts["wssha1"], 600)
        outs = {k: f.result() for k, f in jobs.items()}
        cov = {"threads": threads, "millis_per_algorithm": millis, "messages_per_algorithm": 24, "per_algorithm": {}}
        pos = 0
        for a in self.algs:
            out, rc, err = outs["ws" if a == "wssha1" else "main"]
            base = 0 if a == "wssha1" else pos
            n = len(scripts[a])
            mine = out[base:base + n]
            if a != "wssha1":
                pos += n
            res = [l.split() for l in mine[-2:]] if len(mine) == n else []
            if rc != 0 or len(res) != 2 or any(len(w) < 8 or w[0] != "mt" for w in res):
                failures.append(vlib.Failure("sanitizer", "hash %s threads: harness died (rc N)" % a,
                                             "rc=%d output %r stderr %s" % (rc, mine[-2:], (err or "")[-300:]), scripts[a], "hash"))
                continue
            single, multi = res
            cov["per_algorithm"][a] = {"rounds_1_thread": int(single[5]), "mismatches_1_thread": int(single[7]),
                                       "rounds": int(multi[5]), "mismatches": int(multi[7])}
            if int(single[7]):
                failures.append(vlib.Failure("oracle", "hash %s threads: digest differs from the standard already with one thread" % a,
                                             "%s" % " ".join(single), scripts[a], "hash"))
            elif int(multi[7]):
                i = int(multi[9])
                failures.append(vlib.Failure(
                    "oracle", "hash %s threads: digests differ from the standard only when several threads hash at the same time "
                    "(state shared between calculations)" % a,
                    "%d threads, each with its own context and copy of the data: %s of %s digests wrong (one thread alone: 0 of %s); "
                    "first: message %d (%d bytes, %s) gave %s, standard %s"
                    % (threads, multi[7], multi[5], single[5], i, len(scripts[a][i].split()[2]) // 2 if scripts[a][i].split()[2] != "-" else 0,
                       multi[10], multi[11], scripts[a][i].split()[3]), scripts[a], "hash"))
        stats["threads"] = cov
        ctx.note("threads: %s" % ", ".join("%s %d rounds/%d bad" % (a, v["rounds"], v["mismatches"]) for a, v in cov["per_algorithm"].items()))

    def statics_summary(self):
        try:
            mut, con, scanned = extract_statics()
        except Exception as ex:
            return "scan failed: %s" % str(ex)[:200]
        return {"mutable": ["%s:%d %s" % (f, l, n) for f, n, l in mut], "const": len(con), "objects_scanned": dict(scanned)}

    def cast_summary(self):
        try:
            casts, lens = extract_casts()
        except Exception as ex:
            return "extraction failed: %s" % str(ex)[:200]
        return {"found_in_update_finish": len(casts), "on_finish_data_path": sum(1 for c in casts if c["data"]),
                "in_conditions": sum(1 for c in casts if c["cond"]),
                "unbounded_operand": ["%s: %s" % (c["fn"], c["text"]) for c in casts if not c["data"] and not _py_harmless(c)],
                "length_parameter_bits": {f: b for f, _, b in lens}}

    def huge_for(self, alg):
        return self.h_huge_ws if alg == "wssha1" else self.h_huge

    def huge_start(self, ctx, boost):
        """start the huge-update cases in the background (one process per algorithm + one hashlib thread)"""
        from concurrent.futures import ThreadPoolExecutor
        self.huge = None
        if os.environ.get("VERIF_C16_HUGE", "1") == "0":
            return
        algs = [a for a in self.algs if a != "sha512_256" or _HAVE_512_256]
        plans = {a: huge_plan(ctx.rng, a, ctx.tier, boost) for a in algs}
        ex = ThreadPoolExecutor(max_workers=len(algs) + 1)
        env = {"LP_WATCHDOG": "1500"}

        def run_c(alg):
            lines = ["one %s %d %s %d" % (alg, off, huge_prefix(k).hex(), n) for k, off, n in plans[alg]]
            if ctx.tier == "thorough":   # (i) the same bytes in 1 MiB calls: one pass per (prefix, base), ends by copies
                for k in sorted(set(c[0] for c in plans[alg])):
                    for base, lo in ((T31 - 1, T31 - 1), (T32, T32)):
                        ds = sorted(set(n - base for kk, _, n in plans[alg] if kk == k and lo <= n < lo + 4096))
                        if ds:
                            lines.append("multi %s 0 %s %d %d %s" % (alg, huge_prefix(k).hex(), base, HUGE_PIECE,
                                                                     " ".join(str(d) for d in ds)))
            t = time.time()
            out, rc, err = vlib.run_lines(self.huge_for(alg), lines, timeout=7000, env=env)
            return lines, out, rc, err, time.time() - t

        def run_ref():
            cnt = {"cached": 0, "computed": 0}
            t = time.time()
            refs = {}
            for alg in algs:
                for k in sorted(set(c[0] for c in plans[alg])):
                    r = huge_reference(alg, k, [n for kk, _, n in plans[alg] if kk == k], cnt)
                    refs.update({(alg, k, n): v for n, v in r.items()})
            cnt["seconds"] = round(time.time() - t, 1)
            return refs, cnt
        self.huge = {"plans": plans, "ex": ex, "c": {a: ex.submit(run_c, a) for a in algs}, "ref": ex.submit(run_ref)}

    def huge_collect(self, ctx, failures, stats):
        if not self.huge:
            stats["huge"] = "not run"
            return
        refs, cnt = self.huge["ref"].result()
        cov = {"cases": 0, "agree": 0, "per_algorithm": {}, "lengths": {}, "pieces_compared": 0,
               "reference_digests": cnt, "seconds_per_algorithm": {}}
        for alg, fut in self.huge["c"].items():
            lines, out, rc, err, secs = fut.result()
            plan = self.huge["plans"][alg]
            cov["seconds_per_algorithm"][alg] = round(secs, 1)
            cov["per_algorithm"][alg] = ["k=%d off=%d len=2^%d%+d" % (k, off, 31 if n < T32 - 4096 else 32,
                                                                      n - (T31 if n < T32 - 4096 else T32)) for k, off, n in plan]
            pieces = {}
            for l, o in zip(lines[len(plan):], out[len(plan):]):   # `multi` lines (thorough)
                w = l.split()
                for d, dg in zip(w[6:], o.split()[1:]):
                    pieces[(len(w[3]) // 2, int(w[4]) + int(d))] = dg
            for i, (k, off, n) in enumerate(plan):
                cov["cases"] += 1
                cls = "2^31%+d" % (n - T31) if n < T32 - 4096 else "2^32%+d" % (n - T32)
                cov["lengths"][cls] = cov["lengths"].get(cls, 0) + 1
                want = "digest " + refs[(alg, k, n)]
                inp = [lines[i]]
                if i >= len(out):
                    if i == len(out):
                        failures.append(vlib.Failure(
                            "sanitizer", "hash %s huge-update: harness died in one update call of >= 2^31 bytes (%s)"
                            % (alg, "watchdog" if rc == 124 else "timeout" if rc == -999 else "signal/exit N"),
                            "rc=%d after %d of %d cases; stderr: %s" % (rc, len(out), len(plan), (err or "")[-300:]),
                            inp, "hash"))
                    continue
                if out[i] == want:
                    pc = pieces.get((k, n))
                    if pc is not None:
                        cov["pieces_compared"] += 1
                        if "digest " + pc != want:
                            failures.append(vlib.Failure(
                                "oracle", "hash %s huge-update: digest of the bytes fed in 1 MiB calls differs from the standard" % alg,
                                "prefix %d bytes then %d zero bytes in calls of %d: code '%s', standard '%s'"
                                % (k, n, HUGE_PIECE, pc, want), ["pieces %s 0 %s %d %d" % (alg, huge_prefix(k).hex(), n, HUGE_PIECE)],
                                "hash"))
                            continue
                    cov["agree"] += 1
                    continue
                # diagnose: the same bytes through the same code in small calls
                pl = "pieces %s %d %s %d %d" % (alg, off, huge_prefix(k).hex(), n, HUGE_PIECE)
                po, prc, perr = vlib.run_lines(self.huge_for(alg), [pl], timeout=3000, env={"LP_WATCHDOG": "1500"})
                same = bool(po) and po[0] == want
                failures.append(vlib.Failure(
                    "oracle", "hash %s huge-update: digest of ONE update call of >= 2^31 bytes differs from the standard (%s)"
                    % (alg, "the same bytes in 1 MiB calls give the standard's digest" if same else "so do 1 MiB calls"),
                    "update (%d bytes); update (zeros%+d, %d = 2^%d%+d): code '%s', standard (hashlib, incremental) '%s', "
                    "same code fed in 1 MiB calls '%s'" % (k, off, n, 31 if n < T32 - 4096 else 32,
                                                            n - (T31 if n < T32 - 4096 else T32), out[i], want, po[0] if po else "<none>"),
                    inp, "hash"))
        self.huge["ex"].shutdown()
        stats["huge"] = cov
        ctx.note("huge single updates: %d cases, %d agree with hashlib (%s)" % (cov["cases"], cov["agree"],
                 ", ".join("%s %.0fs" % kv for kv in cov["seconds_per_algorithm"].items())))

    def harness_for(self, alg):
        return self.h_ws if alg == "wssha1" else self.h_main

    def run_batch(self, alg, cases, failures, stats):
        """cases of one algorithm -> harness, driver, oracle"""
        lines, spans = [], []
        cases = [c if len(c) > 5 else c + (0,) for c in cases]
        for (a, chunks, offs, tag, pre, prefix) in cases:
            ls = case_lines(a, chunks, offs, pre, prefix)
            msg = b"".join(chunks)
            if len(msg) <= 300 and tag in ("oneshot", "multi"):
                ls.append("spec %s %s" % (a, hx(msg)))
            spans.append((len(lines), len(ls)))
            lines += ls
        hout, hrc, herr = vlib.run_lines(self.harness_for(alg), lines, timeout=1200)
        mout, mrc, merr = vlib.run_lines(self.driver, lines, timeout=1200)
        if hrc != 0:
            pos = len(hout)
            for (a, chunks, offs, tag, pre, prefix), (st, ln) in zip(cases, spans):
                if st + ln > pos:
                    failures.append(vlib.Failure("sanitizer", "hash %s: harness aborted (%s)" % (alg, _san_kind(herr)),
                                                 herr[-1500:], lines[st:st + ln], "hash"))
                    break
            else:
                failures.append(vlib.Failure("sanitizer", "hash %s: harness aborted at exit (%s)" % (alg, _san_kind(herr)),
                                             herr[-1500:], lines[-5:], "hash"))
            return
        for (a, chunks, offs, tag, pre, prefix), (st, ln) in zip(cases, spans):
            msg = b"".join(chunks)
            want = "digest " + (reference_long(a, prefix, msg) if prefix else reference(a, msg))
            h = hout[st:st + ln]
            m = mout[st:st + ln]
            nspec = 1 if lines[st + ln - 1].startswith("spec ") else 0
            fin = ln - 1 - nspec
            stats["cases"] += 1
            stats["by_tag"][tag] = stats["by_tag"].get(tag, 0) + 1
            stats["chunks"] += len(chunks)
            stats["empty_chunks"] += sum(1 for c in chunks if not c)
            L = len(msg)
            stats["len_class"][_len_class(a, L)] = stats["len_class"].get(_len_class(a, L), 0) + 1
            inp = lines[st:st + ln]
            shape = "%s %s" % (a, tag)
            if len(h) < ln or h[fin] != want:
                got = h[fin] if len(h) > fin else "<no output>"
                kind = "mismatch between alignments" if got.startswith("mismatch") else "digest differs from the standard"
                failures.append(vlib.Failure("oracle", "hash %s: %s" % (shape, kind),
                                             "len=%d chunks=%s%s: code says '%s', standard says '%s'"
                                             % (L, [len(c) for c in chunks][:12],
                                                " after a virtual prefix of %d bytes" % prefix if prefix else "",
                                                got, want), inp, "hash"))
                continue
            if nspec and h[ln - 1] != want:
                failures.append(vlib.Failure("oracle", "hash %s: one-shot digest differs from the standard" % a,
                                             "len=%d code '%s' standard '%s'" % (L, h[ln - 1], want), inp, "hash"))
                continue
            if m != h:
                j = next((i for i in range(ln) if i >= len(m) or m[i] != h[i]), 0)
                what = "specification" if (nspec and j == ln - 1) else "model"
                if any(x.startswith("fault") for x in m):
                    failures.append(vlib.Failure("model", "hash %s: model faults" % shape,
                                                 "line '%s': model '%s'" % (inp[j], m[j] if j < len(m) else ""), inp, "hash"))
                else:
                    failures.append(vlib.Failure("diff", "hash %s: %s and code differ" % (shape, what),
                                                 "line '%s': code '%s', %s '%s'" % (inp[j], h[j], what, m[j] if j < len(m) else "<none>"),
                                                 inp, "hash"))
                continue
            stats["agree"] += 1

    def explore(self, ctx, boost):
        failures = []
        stats = {"cases": 0, "agree": 0, "chunks": 0, "empty_chunks": 0, "by_tag": {}, "len_class": {}, "per_alg": {}}
        corpus = []
        cdir = os.path.join(vlib.VERIF, "corpus", "hash")
        if os.path.isdir(cdir):
            for f in sorted(os.listdir(cdir)):
                corpus.append(json.load(open(os.path.join(cdir, f))))
        samples, distinct = [], set()
        self.run_threads(ctx, failures, stats, boost)   # before the background load starts: the threads should really run in parallel
        self.huge_start(ctx, boost)   # runs in the background while the small cases go through
        for alg in self.algs:   # the pure-Python reference used for the long-count cases must agree with hashlib
            for n in (0, 1, 55, 56, 64, 111, 112, 128, 129, 300):
                m = ctx.rng.randbytes(n)
                if reference_long(alg, 0, m) != reference(alg, m):
                    raise RuntimeError("oracle self-test failed: pure-Python %s != hashlib" % alg)
        for alg in self.algs:
            cases = [tuple([c["alg"], [bytes.fromhex(x) for x in c["chunks"]], c["offs"], "corpus", None])
                     for c in corpus if c["alg"] == alg]
            cases += gen_cases(ctx.rng, alg, ctx.tier, boost)
            before = stats["cases"]
            small = [c for c in cases if not c[3].startswith("big")]
            big = [c for c in cases if c[3].startswith("big")]
            B = 4000
            for i in range(0, len(small), B):
                self.run_batch(alg, small[i:i + B], failures, stats)
                if len(failures) > 30:
                    break
            for c in big:
                self.run_batch(alg, [c], failures, stats)
            stats["per_alg"][alg] = stats["cases"] - before
            for c in cases:
                distinct.add((alg, tuple(len(x) for x in c[1])))
            samples.append("%s len=%d chunks=%s offs=%s" % (alg, sum(len(x) for x in cases[5][1]),
                                                             [len(x) for x in cases[5][1]][:8], cases[5][2][:8]))
            ctx.note("%s: %d cases, %d failures so far" % (alg, stats["per_alg"][alg], len(failures)))
        self.run_counter(ctx, failures, stats)
        self.huge_collect(ctx, failures, stats)
        cov = {"evaluations": stats["cases"], "distinct_nontrivial": len(distinct),
               "rule": "one evaluation = one message through init/update*/finish on the real code (16 replicas: every data "
                       "and digest misalignment 0..15, contexts re-used across messages), the Lean model, and hashlib; "
                       "distinct = different (algorithm, chunk-length sequence); exhaustive sub-domains: every length 0..300 "
                       "one-shot and byte-by-byte, every 2-way split of every length <= %d; random: multi-way splits with "
                       "empty chunks, abandoned messages before init, 1 MiB messages; white-box byte counters near 2^29, 2^32, 2^61, 2^64 "
                       "(and 2^125 for SHA-512/256) against a pure-Python transcription of the standards" % (140 if ctx.tier == "quick" else 300),
               "samples": samples, "algorithms": self.algs, "outcomes": {"agree_all_three": stats["agree"]},
               "by_mode": stats["by_tag"], "length_classes": stats["len_class"], "chunks_fed": stats["chunks"],
               "empty_chunks_fed": stats["empty_chunks"], "per_algorithm": stats["per_alg"],
               "sha512_256_counter_fragment": stats.get("counter_probes"),
               "huge_single_update": stats.get("huge"),
               "huge_single_update_rule": "update (k bytes); update (zeros, 2^32+d or 2^31+d) in ONE call on the real code "
                                          "(-O2, no sanitizer, zero pages of a read-only mapping) vs hashlib fed 1 MiB at a time"
                                          + (" vs the same code fed 1 MiB at a time" if ctx.tier == "thorough" else
                                             " (the same code fed 1 MiB at a time is run when they differ)"),
               "narrowing_casts": self.cast_summary(),
               "concurrent_threads": stats.get("threads"),
               "static_objects": self.statics_summary(),
               "misalignments": "0..15 for every update and every digest (harness replicas), under -fsanitize=alignment",
               "hashlib_has_sha512_256": _HAVE_512_256, "exhaustive": False,
               "extractor_note": getattr(self, "gen_note", None)}
        return failures, cov


def _san_kind(err):
    m = re.search(r"(AddressSanitizer: [\w-]+|runtime error: [^\n]{0,80})", err or "")
    return re.sub(r"0x[0-9a-f]+|\d+", "N", m.group(1)) if m else "no sanitizer message"


def _len_class(alg, n):
    B = 128 if alg == "sha512_256" else 64
    L = 16 if alg == "sha512_256" else 8
    r = n % B
    if n == 0:
        return "empty"
    if r == 0:
        return "block-multiple"
    if r == B - L - 1:
        return "pad-exactly-fits"
    if r == B - L:
        return "pad-spills-by-one"
    if r > B - L:
        return "two-block-padding"
    return "one-block-padding"


def replay(ctx, path):
    r = json.load(open(path))
    sp = Spec(); sp.gen(ctx); vlib.lake_build(sp.lean_targets); sp.build(ctx)
    inp = r.get("input") or (r.get("disagreements") or [{}])[0].get("input")
    if not inp:
        print("replay file carries no input (proof obligation only):", r.get("no_longer_checks"))
        return 1
    alg = inp[0].split()[1]
    if inp[0].split()[0] in ("msg", "run"):
        out, rc, err = vlib.run_lines(sp.h_mt_ws if alg == "wssha1" else sp.h_mt, inp, timeout=600)
        res = [l for l in out if l.startswith("mt ")]
        for l in res:
            print(l)
        print("(a race: the number of wrong digests varies from run to run; 0 mismatches in every `mt` line = no violation seen)")
        return 1 if (rc or not res or any(l.split()[7] != "0" for l in res)) else 0
    if inp[0].split()[0] in ("one", "pieces", "multi"):
        bad = 0
        for l in inp:
            w = l.split()
            out, rc, err = vlib.run_lines(sp.huge_for(alg), [l], timeout=3000, env={"LP_WATCHDOG": "1500"})
            k, n = len(w[3]) // 2, int(w[4])
            want = "digest " + huge_reference(alg, k, [n])[n] if w[0] != "multi" else None
            print("%s\n   code: %s\n   standard (hashlib): %s" % (l, out[0] if out else "<died rc=%d %s>" % (rc, err[-200:]), want))
            bad |= (not out) or (want is not None and out[0] != want)
        return 1 if bad else 0
    if inp[0].startswith("bump "):
        if sp.h_cnt is None:
            print("counter fragment not found in the source")
            return 1
        hout, hrc, herr = vlib.run_lines(sp.h_cnt, [" ".join(l.split()[2:]) for l in inp])
        mout, mrc, merr = vlib.run_lines(sp.driver, inp)
        bad = 0
        for l, h, m in zip(inp, hout, mout):
            w = l.split()
            want = "cnt %d %d" % counter_oracle(int(w[2]), int(w[3]), int(w[4]))
            print("%s   code: %s   model: %s   128-bit arithmetic: %s" % (l, h, m, want))
            bad |= (h != want or m != h)
        return 1 if bad else 0
    hout, hrc, herr = vlib.run_lines(sp.harness_for(alg), inp)
    mout, mrc, merr = vlib.run_lines(sp.driver, inp)
    for i, l in enumerate(inp):
        print("%-60s code: %-40s model: %s" % (l[:60], hout[i] if i < len(hout) else "<none>", mout[i] if i < len(mout) else "<none>"))
    if hrc:
        print(herr[-2000:])
    msgs, cur = [], None
    for l in inp:
        w = l.split()
        if w[0] == "init":
            cur = b""
        elif w[0] == "update":
            cur += b"" if w[3] == "-" else bytes.fromhex(w[3])
        elif w[0] == "finish":
            print("standard:", reference(alg, cur))
    return 1 if (hrc or hout != mout) else 0
