"""C16 — hash functions equal the standards for every message and update pattern.
Engine `hash`: md5.c sha1.c sha256.c sha512_256.c (+ microhttpd_ws/sha1.c)."""
import hashlib, json, os, re, subprocess, tempfile
import vlib, extract

ALGS = ["md5", "sha1", "sha256", "sha512_256", "wssha1"]
HL = {"md5": "md5", "sha1": "sha1", "sha256": "sha256", "sha512_256": "sha512_256", "wssha1": "sha1"}

# --------------------------------------------------------------------------
# (A) translator: step tables, round constants, IVs, sizes  ->  Mhd/Gen/Hash.lean
#
# The round constants are not nameable from C (they are literal arguments of
# macro-unrolled steps), and which of the unrolled blocks is compiled depends on
# MHD_FAVOR_SMALL_CODE / byte order.  Semantic route: the step macro of each
# transform is re-defined (textually, in a scratch copy of the source) to
# *record* its stringified register arguments and the compiler-evaluated
# constant; the instrumented transform is then run once on an aligned and once
# on a misaligned block.  What is recorded is the sequence of steps the
# configured build really executes, in execution order.

_REC = {
    "SHA2STEP32": ('#define SHA2STEP32(vA,vB,vC,vD,vE,vF,vG,vH,kt,wt) '
                   'printf("S %s %s %s %s %s %s %s %s k=%llu w=|%s|\\n",#vA,#vB,#vC,#vD,#vE,#vF,#vG,#vH,'
                   '(unsigned long long)(kt),#wt)'),
    "SHA2STEP64": ('#define SHA2STEP64(vA,vB,vC,vD,vE,vF,vG,vH,kt,wt) '
                   'printf("S %s %s %s %s %s %s %s %s k=%llu w=|%s|\\n",#vA,#vB,#vC,#vD,#vE,#vF,#vG,#vH,'
                   '(unsigned long long)(kt),#wt)'),
    "SHA1STEP32": ('#define SHA1STEP32(vA,vB,vC,vD,vE,ft,kt,wt) '
                   'printf("S %s %s %s %s %s f=%s k=%llu w=|%s|\\n",#vA,#vB,#vC,#vD,#vE,#ft,'
                   '(unsigned long long)(kt),#wt)'),
}
for _r in "1234":
    _REC["MD5STEP_R" + _r] = ('#define MD5STEP_R' + _r + '(va,vb,vc,vd,vX,vs,vT) '
                              'printf("S %s %s %s %s r=' + _r + ' s=%llu k=%llu w=|%s|\\n",#va,#vb,#vc,#vd,'
                              '(unsigned long long)(vs),(unsigned long long)(vT),#vX)')


def _instrument(text, macros):
    """replace the (multi-line) definition of each step macro by a recorder"""
    for m in macros:
        pat = re.compile(r"^[ \t]*#[ \t]*define[ \t]+%s\((?:[^\n]*\\\n)*[^\n]*\n" % re.escape(m), re.M)
        text, n = pat.subn(lambda _m, _r=_REC[m]: _r + "\n", text)
        if n == 0:
            raise RuntimeError("step macro %s not found" % m)
    return text


def _record(relpath, macros, init, update, ctxtype, block, hwords, hfmt, incdirs=()):
    """-> (IV list, steps with aligned input, steps with misaligned input)"""
    text = _instrument(extract.src(relpath), macros)
    d = tempfile.mkdtemp(prefix="vh", dir=vlib.BUILD)
    try:
        srcdir = os.path.dirname(os.path.join(vlib.REPO, relpath))
        open(os.path.join(d, "inst.c"), "w").write(text)
        main = ('#include <stdio.h>\n#include "MHD_config.h"\n#include "inst.c"\n'
                'int main(void){ %s c; static unsigned char raw[%d + 16] __attribute__((aligned(16)));\n'
                '  %s(&c); for (int i = 0; i < %d; i++) printf("IV %%llu\\n", (unsigned long long) c.H[i]);\n'
                '  puts("ALIGNED"); %s(&c, raw, %d); puts("MISALIGNED"); %s(&c, raw + 1, %d); return 0; }\n'
                % (ctxtype, block, init, hwords, update, block, update, block))
        open(os.path.join(d, "m.c"), "w").write(main)
        cmd = ["gcc", "-O0", "-w"] + ["-I" + i for i in incdirs] + ["-I" + srcdir] + vlib.CFLAGS_COMMON + \
              [os.path.join(d, "m.c"), "-o", os.path.join(d, "m")]
        r = vlib.sh(cmd)
        if r.returncode != 0:
            raise RuntimeError("instrumented %s does not compile:\n%s" % (relpath, r.stderr[-2000:]))
        r = vlib.sh([os.path.join(d, "m")])
        if r.returncode != 0:
            raise RuntimeError("instrumented %s failed" % relpath)
        iv, al, mis, cur = [], [], [], None
        for line in r.stdout.splitlines():
            if line.startswith("IV "):
                iv.append(int(line[3:]))
            elif line == "ALIGNED":
                cur = al
            elif line == "MISALIGNED":
                cur = mis
            elif line.startswith("S "):
                cur.append(line)
        return iv, al, mis
    finally:
        subprocess.run(["rm", "-rf", d])


def _cint(expr):
    """evaluate a small C integer expression such as `16 & 0xf`"""
    e = expr.strip().replace("U", "").replace("u", "")
    if not re.fullmatch(r"[0-9a-fA-Fx&+\-*() ]+", e):
        raise RuntimeError("unexpected index expression: %r" % expr)
    return int(eval(e, {"__builtins__": {}}))


def _wsrc(w, arr, getter):
    """parse the W/X argument of a step: returns (dst index, kind, arg)
       kind 0: `A[i] = GETTER (buf, t)`  (load from data)   arg = t
       kind 1: `A[i] = Wgen (A, t)`      (schedule)         arg = t
       kind 2: `A[i]`                    (plain read)       arg = i"""
    w = w.strip()
    m = re.fullmatch(r"%s\[([^\]]+)\]\s*=\s*%s\s*\(\s*\w+\s*,\s*([^)]+)\)" % (arr, getter), w)
    if m:
        return _cint(m.group(1)), 0, _cint(m.group(2))
    m = re.fullmatch(r"%s\[([^\]]+)\]\s*=\s*Wgen\s*\(\s*%s\s*,\s*([^)]+)\)" % (arr, arr), w)
    if m:
        return _cint(m.group(1)), 1, _cint(m.group(2))
    m = re.fullmatch(r"%s\[([^\]]+)\]" % arr, w)
    if m:
        return _cint(m.group(1)), 2, _cint(m.group(1))
    raise RuntimeError("unexpected step operand: %r" % w)


def _rows(lines, names, arr, getter, extra=()):
    out = []
    for l in lines:
        m = re.match(r"S ((?:\w+ )+)(.*?)k=(\d+) w=\|(.*)\|$", l)
        regs = [names.index(x) for x in m.group(1).split()]
        kv = dict(x.split("=") for x in m.group(2).split())
        dst, kind, arg = _wsrc(m.group(4), arr, getter)
        out.append((regs, [kv[e] for e in extra], int(m.group(3)), dst, kind, arg))
    return out


def _lean_list(xs):
    return "[" + ", ".join(str(x) for x in xs) + "]"


def _extract_all():
    from extract import c_eval
    g = {}
    # ---- SHA-256
    iv, al, mis = _record("src/microhttpd/sha256.c", ["SHA2STEP32"], "MHD_SHA256_init", "MHD_SHA256_update",
                          "struct Sha256Ctx", 64, 8, "u")
    g["sha256"] = (iv, _rows(al, "abcdefgh", "W", "GET_W_FROM_DATA"), _rows(mis, "abcdefgh", "W", "GET_W_FROM_DATA"))
    iv, al, mis = _record("src/microhttpd/sha512_256.c", ["SHA2STEP64"], "MHD_SHA512_256_init",
                          "MHD_SHA512_256_update", "struct Sha512_256Ctx", 128, 8, "u")
    g["sha512"] = (iv, _rows(al, "abcdefgh", "W", "GET_W_FROM_DATA"), _rows(mis, "abcdefgh", "W", "GET_W_FROM_DATA"))
    iv, al, mis = _record("src/microhttpd/sha1.c", ["SHA1STEP32"], "MHD_SHA1_init", "MHD_SHA1_update",
                          "struct sha1_ctx", 64, 5, "u")
    g["sha1"] = (iv, _rows(al, "abcde", "W", "GET_W_FROM_DATA", ["f"]), _rows(mis, "abcde", "W", "GET_W_FROM_DATA", ["f"]))
    iv, al, mis = _record("src/microhttpd_ws/sha1.c", ["SHA1STEP32"], "MHD_SHA1_init", "MHD_SHA1_update",
                          "struct sha1_ctx", 64, 5, "u", incdirs=[os.path.join(vlib.REPO, "src/microhttpd_ws")])
    g["wssha1"] = (iv, _rows(al, "abcde", "W", "GET_W_FROM_DATA", ["f"]), _rows(mis, "abcde", "W", "GET_W_FROM_DATA", ["f"]))
    iv, al, mis = _record("src/microhttpd/md5.c", ["MD5STEP_R1", "MD5STEP_R2", "MD5STEP_R3", "MD5STEP_R4"],
                          "MHD_MD5_init", "MHD_MD5_update", "struct Md5Ctx", 64, 4, "u")
    g["md5"] = (iv, _rows(al, "ABCD", "X", "GET_X_FROM_DATA", ["r", "s"]), _rows(mis, "ABCD", "X", "GET_X_FROM_DATA", ["r", "s"]))
    # ---- sizes (semantic: through the real headers)
    sz = c_eval('#include "MHD_config.h"\n#include "md5.c"\n#include "sha256.c"\n#include "sha512_256.c"\n',
                [("md5Block", "%d", "(int) MD5_BLOCK_SIZE"), ("md5LenAdd", "%d", "(int) MD5_SIZE_OF_LEN_ADD"),
                 ("md5Digest", "%d", "(int) MD5_DIGEST_SIZE"),
                 ("sha256Block", "%d", "(int) SHA256_BLOCK_SIZE"), ("sha256LenAdd", "%d", "(int) SHA256_SIZE_OF_LEN_ADD"),
                 ("sha256Digest", "%d", "(int) SHA256_DIGEST_SIZE"),
                 ("sha512Block", "%d", "(int) SHA512_256_BLOCK_SIZE"),
                 ("sha512LenAdd", "%d", "(int) SHA512_256_SIZE_OF_LEN_ADD"),
                 ("sha512Digest", "%d", "(int) SHA512_256_DIGEST_SIZE")])
    s1 = c_eval('#include "MHD_config.h"\n#include "sha1.c"\n',
                [("sha1Block", "%d", "(int) SHA1_BLOCK_SIZE"), ("sha1LenAdd", "%d", "(int) SHA1_SIZE_OF_LEN_ADD"),
                 ("sha1Digest", "%d", "(int) SHA1_DIGEST_SIZE")])
    s2 = c_eval('#include "MHD_config.h"\n#include "%s"\n' % os.path.join(vlib.REPO, "src/microhttpd_ws/sha1.c"),
                [("wsSha1Block", "%d", "(int) SHA1_BLOCK_SIZE"), ("wsSha1LenAdd", "%d", "(int) SHA1_SIZE_OF_LEN_ADD"),
                 ("wsSha1Digest", "%d", "(int) SHA1_DIGEST_SIZE")],
                extra=["-I" + os.path.join(vlib.REPO, "src/microhttpd_ws")])
    sz.update(s1); sz.update(s2)
    return g, sz


def _fmt_sha2(rows):
    return "[\n" + ",\n".join("  (%s, %d, %d, %d, %d)" % (_lean_list(r[0]), r[2], r[3], r[4], r[5]) for r in rows) + "]"


def _fmt_sha1(rows):
    fk = {"Ch": 0, "Par": 1, "Maj": 2}
    return "[\n" + ",\n".join("  (%s, %d, %d, %d, %d, %d)" % (_lean_list(r[0]), fk[r[1][0]], r[2], r[3], r[4], r[5])
                               for r in rows) + "]"


def _fmt_md5(rows):
    return "[\n" + ",\n".join("  (%s, %s, %s, %d, %d, %d, %d)" % (_lean_list(r[0]), r[1][0], r[1][1], r[2], r[3], r[4], r[5])
                               for r in rows) + "]"


def gen_hash():
    g, sz = _extract_all()
    o = [extract.HEADER % "src/microhttpd/{md5,sha1,sha256,sha512_256}.c, src/microhttpd_ws/sha1.c (tools/props/C16.py)"]
    o.append("namespace Mhd.Gen.Hash\n")
    o.append("/-! Step tables: the sequence of step-macro invocations the configured build executes for one\n"
             "block, recorded by running the instrumented transform (registers as indices a=0,b=1,…;\n"
             "K = the compiler-evaluated constant; dst = index written in the cyclic W/X buffer;\n"
             "kind 0 = operand is loaded from the data block (word `arg`), 1 = operand is `Wgen(W,arg)`,\n"
             "2 = operand is a plain read of W/X[arg]).  `…Mis` = the same with a misaligned input pointer. -/\n")
    for k in sorted(sz):
        o.append("def %s : Nat := %s" % (k, sz[k]))
    o.append("")
    for name, key, fmt, ty in [("sha256", "sha256", _fmt_sha2, "List (List Nat × Nat × Nat × Nat × Nat)"),
                               ("sha512", "sha512", _fmt_sha2, "List (List Nat × Nat × Nat × Nat × Nat)"),
                               ("sha1", "sha1", _fmt_sha1, "List (List Nat × Nat × Nat × Nat × Nat × Nat)"),
                               ("wsSha1", "wssha1", _fmt_sha1, "List (List Nat × Nat × Nat × Nat × Nat × Nat)"),
                               ("md5", "md5", _fmt_md5, "List (List Nat × Nat × Nat × Nat × Nat × Nat × Nat)")]:
        iv, al, mis = g[key]
        o.append("def %sIV : List Nat := %s" % (name, _lean_list(iv)))
        if key in ("sha256", "sha512"):
            o.append("/-- (regs vA..vH, K, dst, kind, arg) -/")
        elif key == "md5":
            o.append("/-- (regs va..vd, round, shift, T, dst, kind, arg) -/")
        else:
            o.append("/-- (regs vA..vE, f (0=Ch 1=Par 2=Maj), K, dst, kind, arg) -/")
        o.append("def %sSteps : %s := %s" % (name, ty, fmt(al)))
        o.append("def %sStepsMis : %s := %s" % (name, ty, fmt(mis)))
        o.append("")
    o.append("end Mhd.Gen.Hash\n")
    return vlib.write_if_changed(os.path.join(extract.GEN, "Hash.lean"), "\n".join(o))
