#!/usr/bin/env python3
"""lake build under the shared lock:  python3 tools/lk.py <targets…>"""
import os, sys
sys.path.insert(0, os.path.dirname(os.path.abspath(__file__)))
import vlib
ok, out = vlib.lake_build(sys.argv[1:])
print(out)
sys.exit(0 if ok else 1)
