#!/usr/bin/env python3
"""Prints the markdown table of seeded changes and which checks catch them (from seeded/*/meta.json + results.json)."""
import json, os, glob
V = os.path.dirname(os.path.dirname(os.path.abspath(__file__)))
res = json.load(open(os.path.join(V, "seeded", "results.json")))
print("| seed | property | change (needs …) | caught by (quick tier) | missed by |")
print("|---|---|---|---|---|")
for d in sorted(glob.glob(os.path.join(V, "seeded", "*", "meta.json"))):
    sid = os.path.basename(os.path.dirname(d))
    m = json.load(open(d))
    r = res.get(sid, {}).get("checks", {})
    caught = [p + ("" if x.get("concrete") else " (no-failing-input)") for p, x in r.items() if x.get("violations")]
    missed = [p for p, x in r.items() if not x.get("violations")]
    what = (m.get("what") or "").replace("|", "/").replace("\n", " ")[:170]
    needs = (m.get("needs") or "").replace("|", "/").replace("\n", " ")[:150]
    print("| %s | %s | %s — *needs:* %s | %s | %s |" % (sid, m["property"], what, needs, ", ".join(caught) or "—", ", ".join(missed) or "—"))
