"""Helpers over the event log of harness/h_daemon.c (and copies of it):
splitting a run into cases, per-connection wire reassembly, a strict HTTP/1.x
response parser used as an implementation-side oracle."""
import re


def hx(b):
    if isinstance(b, str):
        b = b.encode("latin-1")
    return b.hex() if b else "-"


def unhx(s):
    return b"" if s in ("-", "~") else bytes.fromhex(s)


def split_cases(lines):
    cases, cur = [], None
    for l in lines:
        if l.startswith("case "):
            cur = {"name": l[5:].strip(), "lines": []}
            cases.append(cur)
        elif cur is not None:
            cur["lines"].append(l)
    return cases


def kvs(line):
    d = {}
    for w in line.split()[1:]:
        if "=" in w:
            k, _, v = w.partition("=")
            d[k] = v
    return d


class ConnView:
    def __init__(self):
        self.wire = b""
        self.eof = False
        self.rst = False
        self.started = False
        self.closed = False
        self.handler = []     # list of dict
        self.completed = []   # list of (r, code)
        self.unstable = []
        self.protoerr = []


def view(case_lines):
    conns = {}

    def C(i):
        return conns.setdefault(i, ConnView())
    other = []
    for l in case_lines:
        w = l.split()
        if not w:
            continue
        d = kvs(l)
        c = int(d["c"]) if "c" in d and re.fullmatch(r"-?\d+", d["c"]) else None
        if w[0] == "wire" and c is not None:
            C(c).wire += unhx(w[2])
        elif w[0] == "eof" and c is not None:
            C(c).eof = True
        elif w[0] == "rst" and c is not None:
            C(c).rst = True
        elif w[0] == "conn-start" and c is not None:
            C(c).started = True
        elif w[0] == "conn-close" and c is not None:
            C(c).closed = True
        elif w[0] == "handler" and c is not None:
            C(c).handler.append(d)
        elif w[0] == "completed" and c is not None:
            C(c).completed.append((d.get("r"), d.get("code")))
        elif w[0] == "unstable" and c is not None:
            C(c).unstable.append(l)
        elif w[0] == "protocol-error":
            C(c if c is not None else -1).protoerr.append(l)
        else:
            other.append(l)
    return conns, other


class RespError(Exception):
    pass


TOKEN = re.compile(rb"^[!#$%&'*+\-.^_`|~0-9A-Za-z]+$")


def parse_responses(data, head_only_flags=None, at_eof=True):
    """Strictly parse a byte stream of HTTP/1.x responses.
    head_only_flags: list of bools (per response: was the request a HEAD?) or None.
    Returns list of dicts {version,status,headers,body,framing,complete}.
    Raises RespError on malformed syntax.  A trailing incomplete response is
    returned with complete=False (caller decides whether that is acceptable)."""
    out, pos, idx = [], 0, 0
    while pos < len(data):
        end = data.find(b"\r\n\r\n", pos)
        if end < 0:
            out.append({"complete": False, "partial_head": data[pos:]})
            return out
        head = data[pos:end].split(b"\r\n")
        m = re.fullmatch(rb"HTTP/1\.([01]) ([1-9][0-9][0-9]) ([\t -~\x80-\xff]*)", head[0])
        if not m:
            raise RespError("bad status line %r" % head[0][:60])
        status = int(m.group(2))
        hdrs = []
        for h in head[1:]:
            name, sep, val = h.partition(b":")
            if not sep or not TOKEN.match(name):
                raise RespError("bad header line %r" % h[:60])
            if b"\r" in val or b"\n" in val or b"\0" in val:
                raise RespError("bad header value %r" % h[:60])
            hdrs.append((name, val.strip(b" \t")))
        pos = end + 4
        low = [(n.lower(), v) for n, v in hdrs]
        cl = [v for n, v in low if n == b"content-length"]
        te = [v for n, v in low if n == b"transfer-encoding"]
        is_head = bool(head_only_flags[idx]) if head_only_flags and idx < len(head_only_flags) else False
        r = {"version": b"1." + m.group(1), "status": status, "headers": hdrs, "complete": True, "body": b""}
        if len(cl) > 1:
            raise RespError("several Content-Length fields")
        if cl and not re.fullmatch(rb"[0-9]+", cl[0]):
            raise RespError("malformed Content-Length %r" % cl[0])
        if te and cl:
            raise RespError("both Transfer-Encoding and Content-Length")
        if len(te) > 1 or (te and te[0].lower() != b"chunked"):
            raise RespError("unsupported Transfer-Encoding %r" % te)
        nobody = is_head or status < 200 or status in (204, 304)
        if nobody:
            r["framing"] = "none"
        elif te:
            r["framing"] = "chunked"
            body = b""
            while True:
                e = data.find(b"\r\n", pos)
                if e < 0:
                    r["complete"] = False; out.append(r); return out
                mm = re.fullmatch(rb"([0-9A-Fa-f]+)(;[^\r\n]*)?", data[pos:e])
                if not mm:
                    raise RespError("bad chunk-size line %r" % data[pos:e][:40])
                n = int(mm.group(1), 16)
                pos = e + 2
                if n == 0:
                    # trailers
                    while True:
                        e = data.find(b"\r\n", pos)
                        if e < 0:
                            r["complete"] = False; out.append(r); return out
                        line = data[pos:e]
                        pos = e + 2
                        if not line:
                            break
                        nm, sep, _ = line.partition(b":")
                        if not sep or not TOKEN.match(nm):
                            raise RespError("bad trailer line %r" % line[:40])
                        r.setdefault("trailers", []).append(line)
                    break
                if pos + n + 2 > len(data):
                    r["complete"] = False; r["body"] = body + data[pos:pos + n]; out.append(r); return out
                body += data[pos:pos + n]
                if data[pos + n:pos + n + 2] != b"\r\n":
                    raise RespError("chunk data not followed by CRLF")
                pos += n + 2
            r["body"] = body
        elif cl:
            n = int(cl[0])
            r["framing"] = "length"
            r["body"] = data[pos:pos + n]
            if pos + n > len(data):
                r["complete"] = False; out.append(r); return out
            pos += n
        else:
            r["framing"] = "close"
            r["body"] = data[pos:]
            r["complete"] = at_eof
            pos = len(data)
        out.append(r)
        idx += 1
    return out
