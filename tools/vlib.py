"""Common machinery for all property checks (see DESIGN.md sections 0, 1, 7).

Every check = regenerate Gen/*.lean from /repo -> lake build (proof obligations)
-> axiom / sorry audit -> build C harness from /repo's working tree (ASan+UBSan)
-> correspondence (model driver vs real code) + implementation-side oracle
-> verdict, evidence, replay files.
"""
import fcntl, hashlib, json, os, random, re, shutil, subprocess, sys, time

VERIF = os.path.dirname(os.path.dirname(os.path.abspath(__file__)))
REPO = os.environ.get("VERIF_REPO", "/repo")
LEAN_SRC = os.path.join(VERIF, "lean")
BUILD_ROOT = os.path.join(VERIF, "build")
# artefacts built from a scratch worktree (VERIF_REPO=…) live in their own directory so that concurrent
# runs against different trees do not overwrite each other's harness binaries
BUILD = BUILD_ROOT if REPO == "/repo" else os.path.join(BUILD_ROOT, "alt_" + hashlib.sha1(REPO.encode()).hexdigest()[:8])
# a run against a scratch worktree (seeded change, candidate fix) never touches the Lean project, the Gen files or the
# evidence of the real tree: it works on a private copy of the Lean project (with its compiled files) under build/alt_*/
LEAN = LEAN_SRC if REPO == "/repo" else os.path.join(BUILD, "lean")
EVID = os.path.join(VERIF, "evidence") if REPO == "/repo" else os.path.join(BUILD, "evidence")
REPLAY = os.path.join(BUILD, "replay")
NCPU = os.cpu_count() or 4

CFLAGS_COMMON = ["-DHAVE_CONFIG_H", "-D_GNU_SOURCE", "-D_XOPEN_SOURCE=700", "-DNDEBUG=1",
                 "-I" + REPO, "-I" + REPO + "/src/include", "-I" + REPO + "/src/microhttpd",
                 "-I/usr/include/p11-kit-1", "-I" + os.path.join(VERIF, "harness"),
                 "-idirafter", "/repo"]  # MHD_config.h (configure output, untracked) when VERIF_REPO is a scratch worktree
SAN = ["-O1", "-g", "-fsanitize=address,undefined", "-fno-sanitize-recover=all", "-fno-omit-frame-pointer"]

ALLOWED_AXIOMS = {"propext", "Classical.choice", "Quot.sound"}
FORBIDDEN = [r"\bsorry\b", r"\badmit\b", r"^\s*axiom\s", r"\bnative_decide\b", r"\bbv_decide\b",
             r"\bimplemented_by\b", r"\bunsafe\s", r"maxHeartbeats\s+0\b", r"\bextern\b"]

LIB_SRCS = ["basicauth.c", "connection.c", "daemon.c", "digestauth.c", "gen_auth.c", "internal.c",
            "md5.c", "memorypool.c", "mhd_compat.c", "mhd_itc.c", "mhd_mono_clock.c", "mhd_panic.c",
            "mhd_send.c", "mhd_sockets.c", "mhd_str.c", "mhd_threads.c", "postprocessor.c",
            "reason_phrase.c", "response.c", "sha256.c", "sha512_256.c", "connection_https.c"]


class Ctx:
    def __init__(self, pid, tier, seed):
        self.pid, self.tier, self.seed = pid, tier, seed
        self.rng = random.Random(seed)
        self.t0 = time.time()
        self.notes = []

    def elapsed(self):
        return time.time() - self.t0

    def note(self, s):
        self.notes.append(s)
        print("[%s %6.1fs] %s" % (self.pid, self.elapsed(), s), flush=True)


def sh(cmd, cwd=None, timeout=None, input=None, env=None):
    return subprocess.run(cmd, cwd=cwd, timeout=timeout, input=input, env=env,
                          stdout=subprocess.PIPE, stderr=subprocess.PIPE, text=True, errors="replace")


class flock:
    def __init__(self, name):
        os.makedirs(BUILD_ROOT, exist_ok=True)
        os.makedirs(BUILD, exist_ok=True)
        self.path = os.path.join(BUILD_ROOT if name in ("lake", "lakesrc") and (LEAN == LEAN_SRC or name == "lakesrc") else BUILD,
                                 "." + ("lake" if name == "lakesrc" else name) + ".lock")

    def __enter__(self):
        self.f = open(self.path, "w")
        fcntl.flock(self.f, fcntl.LOCK_EX)

    def __exit__(self, *a):
        fcntl.flock(self.f, fcntl.LOCK_UN)
        self.f.close()


def write_if_changed(path, content):
    try:
        if open(path).read() == content:
            return False
    except OSError:
        pass
    os.makedirs(os.path.dirname(path), exist_ok=True)
    tmp = path + ".tmp%d" % os.getpid()
    open(tmp, "w").write(content)
    os.replace(tmp, path)
    return True


# ----------------------------------------------------------------- Lean side

_alt_synced = False


def sync_alt_lean():
    """scratch-worktree runs: refresh the private copy of the Lean project from /verif/lean (sources and compiled
    files; taken under the main project's build lock so that no half-written .olean is copied)"""
    global _alt_synced
    if LEAN == LEAN_SRC or _alt_synced:
        return
    os.makedirs(LEAN, exist_ok=True)
    with flock("lakesrc"):
        sh(["rsync", "-a", "--delete", LEAN_SRC + "/", LEAN + "/"])
    _alt_synced = True


def lake_build(targets, timeout=3000):
    """Build lake targets under a global lock (checks may run in parallel)."""
    sync_alt_lean()
    with flock("lake"):
        r = sh(["lake", "build"] + list(targets), cwd=LEAN, timeout=timeout)
    out = r.stdout + r.stderr
    return r.returncode == 0, out


def lean_imports(modname, seen=None):
    """transitive closure of project-local imports of a module -> file paths"""
    seen = seen if seen is not None else {}
    path = os.path.join(LEAN, modname.replace(".", "/") + ".lean")
    if modname in seen or not os.path.exists(path):
        return seen
    seen[modname] = path
    for line in open(path):
        m = re.match(r"\s*(?:public\s+)?import\s+([\w.]+)", line)
        if m and (m.group(1).startswith("Mhd.") or m.group(1).startswith("Driver.")):
            lean_imports(m.group(1), seen)
    return seen


def strip_lean_comments(src):
    # nested block comments
    out, depth, i = [], 0, 0
    while i < len(src):
        if src.startswith("/-", i):
            depth += 1; i += 2; continue
        if src.startswith("-/", i) and depth > 0:
            depth -= 1; i += 2; continue
        if depth == 0:
            out.append(src[i])
        elif src[i] == "\n":
            out.append("\n")
        i += 1
    s = "".join(out)
    return re.sub(r"--.*", "", s)


def theorem_names(props_module):
    """fully qualified names of all `theorem`s declared in a Props file"""
    path = os.path.join(LEAN, props_module.replace(".", "/") + ".lean")
    src = strip_lean_comments(open(path).read())
    ns, names = [], []
    for line in src.splitlines():
        m = re.match(r"\s*namespace\s+([\w.]+)", line)
        if m:
            ns.append(m.group(1)); continue
        m = re.match(r"\s*end\s+([\w.]+)\s*$", line)
        if m and ns and ns[-1] == m.group(1):
            ns.pop(); continue
        m = re.match(r"\s*(?:@\[[^\]]*\]\s*)?(?:private\s+|protected\s+)?theorem\s+([\w.'!?]+)", line)
        if m:
            names.append(".".join(ns + [m.group(1)]))
    return names


def audit(ctx, props_module, required):
    """Forbidden-token grep over the import closure + `#print axioms` on every
    theorem of the Props file.  Returns dict with obligations list."""
    files = lean_imports(props_module)
    hits = []
    for mod, path in files.items():
        src = strip_lean_comments(open(path).read())
        for ln, line in enumerate(src.splitlines(), 1):
            for pat in FORBIDDEN:
                if re.search(pat, line):
                    hits.append("%s:%d: %s" % (os.path.relpath(path, VERIF), ln, line.strip()[:120]))
    names = theorem_names(props_module)
    missing = [r for r in required if r not in names]
    os.makedirs(os.path.join(BUILD, "audit"), exist_ok=True)
    f = os.path.join(BUILD, "audit", "%s_axioms_%d.lean" % (ctx.pid, os.getpid()))  # per process: parallel runs of one property
    open(f, "w").write("import %s\n" % props_module + "".join("#print axioms %s\n" % n for n in names))
    r = sh(["lake", "env", "lean", f], cwd=LEAN, timeout=900)
    try:
        os.remove(f)
    except OSError:
        pass
    text = r.stdout + r.stderr
    obligations = []
    flat = re.sub(r"\s+", " ", text)
    for n in names:
        ax, ok = None, False
        m = re.search(r"'%s' depends on axioms: \[([^\]]*)\]" % re.escape(n), flat)
        if m:
            ax = [a.strip() for a in m.group(1).split(",") if a.strip()]
            ok = all(a in ALLOWED_AXIOMS for a in ax)
        elif re.search(r"'%s' does not depend on any axioms" % re.escape(n), flat):
            ax, ok = [], True
        obligations.append({"theorem": n, "axioms": ax, "ok": ok})
    return {"files": sorted(os.path.relpath(p, VERIF) for p in files.values()),
            "forbidden_hits": hits, "missing_theorems": missing, "obligations": obligations,
            "raw_tail": text[-1500:] if r.returncode != 0 else ""}


def driver_path(name):
    return os.path.join(LEAN, ".lake", "build", "bin", name)


# -------------------------------------------------------------------- C side

class BuildError(Exception):
    pass


def cc(out_name, srcs, extra=(), libs=(), san=True, compiler="gcc", objs=()):
    """compile a harness executable from sources (rebuilt on every run: /repo may have changed)"""
    os.makedirs(BUILD, exist_ok=True)
    out = os.path.join(BUILD, out_name)
    cmd = [compiler] + (SAN if san else ["-O1", "-g"]) + CFLAGS_COMMON + list(extra) + list(srcs) + list(objs) \
        + ["-o", out + ".tmp%d" % os.getpid()] + list(libs)
    r = sh(cmd, timeout=900)
    if r.returncode != 0:
        raise BuildError("compile failed: %s\n%s" % (" ".join(cmd), (r.stdout + r.stderr)[-4000:]))
    os.replace(out + ".tmp%d" % os.getpid(), out)
    return out


def cc_lib_objects(tag, extra=(), san=True, exclude=(), compiler="gcc"):
    """compile all library objects of /repo/src/microhttpd in parallel into build/<tag>/"""
    d = os.path.join(BUILD, tag)
    os.makedirs(d, exist_ok=True)
    procs, objs = [], []
    for s in LIB_SRCS:
        if s in exclude:
            continue
        o = os.path.join(d, s[:-2] + ".o")
        objs.append(o)
        cmd = [compiler] + (SAN if san else ["-O1", "-g"]) + CFLAGS_COMMON + list(extra) + \
              ["-c", os.path.join(REPO, "src/microhttpd", s), "-o", o]
        procs.append((s, subprocess.Popen(cmd, stdout=subprocess.PIPE, stderr=subprocess.STDOUT, text=True)))
    for s, p in procs:
        out, _ = p.communicate()
        if p.returncode != 0:
            raise BuildError("compile of %s failed:\n%s" % (s, out[-4000:]))
    return objs


HANG_BUDGET = 3
_hangs = {}


def run_lines(binary, lines, timeout=600, env=None):
    """feed script lines to a line-protocol binary; returns (out_lines, rc, stderr).
    A harness that makes no progress on one script line for 120 s is ended by its own watchdog (harness/common/lp.h,
    exit code 124).  A hang is a violation in itself; after HANG_BUDGET hangs of one binary in this run the remaining
    scripts for it are not executed any more (they are answered with the same exit code at once), so that a change that
    makes the daemon deadlock is reported within minutes instead of after cases x watchdog seconds."""
    if _hangs.get(binary, 0) >= HANG_BUDGET:
        return [], 124, "lp-watchdog: HANG (not run: this harness already hung %d times in this run)" % _hangs[binary]
    data = "\n".join(lines) + "\n"
    e = dict(os.environ)
    e.setdefault("ASAN_OPTIONS", "detect_leaks=1:abort_on_error=0:allocator_may_return_null=1")
    e.setdefault("UBSAN_OPTIONS", "print_stacktrace=1")
    e.setdefault("LP_WATCHDOG", "120")
    if env:
        e.update(env)
    try:
        r = subprocess.run([binary], input=data, stdout=subprocess.PIPE, stderr=subprocess.PIPE,
                           text=True, errors="replace", timeout=timeout, env=e)
        if r.returncode == 124 and "lp-watchdog" in r.stderr:
            _hangs[binary] = _hangs.get(binary, 0) + 1
        return r.stdout.splitlines(), r.returncode, r.stderr
    except subprocess.TimeoutExpired as ex:
        _hangs[binary] = _hangs.get(binary, 0) + 1
        so = ex.stdout.decode(errors="replace") if isinstance(ex.stdout, bytes) else (ex.stdout or "")
        return so.splitlines(), -999, "TIMEOUT"


# ------------------------------------------------------------ verdict plumbing

def load_known():
    p = os.path.join(VERIF, "known_findings.json")
    try:
        return json.load(open(p)).get("findings", [])
    except OSError:
        return []


def known_match(pid, signature):
    """signature: short string describing the failing input shape; a finding
    matches if it is status=known for this property and its regex matches"""
    for f in load_known():
        if f.get("status") == "known" and pid in f.get("properties", [f.get("property")]) \
                and re.search(f["signature"], signature):
            return f
    return None


def write_replay(ctx, payload):
    os.makedirs(REPLAY, exist_ok=True)
    blob = json.dumps(payload, indent=1, sort_keys=True)
    h = hashlib.sha1(blob.encode()).hexdigest()[:10]
    p = os.path.join(REPLAY, "%s-%s.json" % (ctx.pid, h))
    open(p, "w").write(blob)
    return p


def write_evidence(ctx, coverage, assumptions, violations, extra=None):
    os.makedirs(EVID, exist_ok=True)
    ev = {"property_id": ctx.pid, "tier": ctx.tier, "seed": ctx.seed, "level": "proof",
          "coverage": coverage, "assumptions": assumptions, "wall_s": round(ctx.elapsed(), 2),
          "violations": violations}
    if extra:
        ev.update(extra)
    p = os.path.join(EVID, ctx.pid + ".json")
    tmp = p + ".tmp"
    json.dump(ev, open(tmp, "w"), indent=1)
    os.replace(tmp, p)


class Failure:
    """one explored case on which something went wrong.
    kind: 'oracle' (the real code violates the property on this input),
          'sanitizer' (real code aborted / sanitizer report),
          'diff' (model and code disagree; oracle accepted the code's behaviour),
          'model' (model faults / model-side property monitor rejects; code fine)"""
    def __init__(self, kind, signature, detail, input, engine):
        self.kind, self.signature, self.detail, self.input, self.engine = kind, signature, detail, input, engine

    def concrete(self):
        return self.kind in ("oracle", "sanitizer")


def standard_flow(ctx, spec):
    """spec: object with
         props_module, required_theorems, lean_targets, trusted_base, assumptions
         gen(ctx)                      regenerate Gen files from /repo
         build(ctx)                    build harness(es); raises BuildError
         explore(ctx, boost) -> (failures, coverage_dict)
    """
    violations, known_lines = [], []
    # (A) regenerate
    try:
        spec.gen(ctx)
        gen_err = None
    except Exception as ex:  # extraction failure = the tie to the code is broken
        gen_err = "extractor failed: %r" % (ex,)
        ctx.note(gen_err)
    # (i) proof obligations
    ok, out = lake_build(spec.lean_targets)
    ctx.note("lake build %s: %s" % (" ".join(spec.lean_targets), "ok" if ok else "FAILED"))
    proof_problems = []
    if gen_err:
        proof_problems.append(gen_err)
    if not ok:
        errs = [l for l in out.splitlines() if "error" in l.lower()][:20]
        proof_problems.append("lake build failed: " + " | ".join(errs))
    au = {"obligations": [], "forbidden_hits": [], "missing_theorems": [], "files": []}
    if ok:
        au = audit(ctx, spec.props_module, spec.required_theorems)
        for o in au["obligations"]:
            if not o["ok"]:
                proof_problems.append("theorem %s: axioms %s not permitted / not found" % (o["theorem"], o["axioms"]))
        for h in au["forbidden_hits"]:
            proof_problems.append("forbidden token: " + h)
        for m in au["missing_theorems"]:
            proof_problems.append("required theorem missing: " + m)
        ctx.note("audit: %d theorems, %d problems" % (len(au["obligations"]), len(proof_problems)))
    # thorough tier: independent re-check of the compiled property module by leanchecker
    leanchk = None
    if ok and ctx.tier == "thorough":
        r = sh(["lake", "env", "leanchecker", spec.props_module], cwd=LEAN, timeout=1800)
        leanchk = (r.returncode == 0)
        ctx.note("leanchecker %s: %s" % (spec.props_module, "ok" if leanchk else "FAILED"))
        if not leanchk:
            proof_problems.append("leanchecker rejects %s: %s" % (spec.props_module, (r.stdout + r.stderr)[-400:]))
    n_obl = max(len(au["obligations"]), len(spec.required_theorems))
    n_dis = sum(1 for o in au["obligations"] if o["ok"]) if not proof_problems or ok else 0
    if any(p.startswith("forbidden") or p.startswith("required") for p in proof_problems):
        n_dis = min(n_dis, n_obl - 1)
    # (B) correspondence + (iii) oracle
    failures, cov = [], {}
    try:
        spec.build(ctx)
        failures, cov = spec.explore(ctx, boost=bool(proof_problems))
    except BuildError as ex:
        proof_problems.append("harness does not build against /repo: " + str(ex)[:1500])
    # verdict
    reported = set()
    unknown_concrete, unknown_soft = [], []
    for f in failures:
        k = known_match(ctx.pid, f.signature)
        if k is not None and f.concrete():
            line = "KNOWN-FINDING: property=%s %s [%s]" % (ctx.pid, k["what"], k["id"])
            if line not in reported:
                reported.add(line); print(line)
            continue
        (unknown_concrete if f.concrete() else unknown_soft).append(f)
    rc = 0
    if unknown_concrete:
        by_sig = {}
        for f in unknown_concrete:
            by_sig.setdefault(f.signature, f)
        for sig, f in list(by_sig.items())[:5]:
            p = write_replay(ctx, {"property": ctx.pid, "engine": f.engine, "kind": f.kind, "signature": sig,
                                   "detail": f.detail, "input": f.input, "seed": ctx.seed,
                                   "also_broken": proof_problems})
            print("VIOLATION property=%s replay=%s" % (ctx.pid, p))
            violations.append(p)
        rc = 1
    elif unknown_soft or proof_problems:
        what = {"property": ctx.pid, "seed": ctx.seed,
                "no_longer_checks": proof_problems + ["correspondence %s: %s" % (f.engine, f.signature) for f in unknown_soft[:5]],
                "disagreements": [{"engine": f.engine, "kind": f.kind, "detail": f.detail, "input": f.input}
                                  for f in unknown_soft[:5]],
                "lake_output_tail": out[-3000:] if not ok else "",
                "searched": cov.get("evaluations", 0)}
        p = write_replay(ctx, what)
        print("VIOLATION property=%s replay=%s no-failing-input-found" % (ctx.pid, p))
        violations.append(p)
        rc = 1
    coverage = {"obligations": n_obl, "discharged": n_dis if not (rc and proof_problems) else min(n_dis, max(n_obl - 1, 0)),
                "checker_cmd": "cd /verif/lean && lake build %s && lake env lean <file with `#print axioms` for every theorem of the module; written to build/audit/%s_axioms_<pid>.lean>  (#print axioms on every theorem of %s)"
                               % (" ".join(spec.lean_targets), ctx.pid, spec.props_module),
                "trusted_base": spec.trusted_base,
                "theorems": [{"name": o["theorem"], "axioms": o["axioms"]} for o in au["obligations"]],
                "lean_files_audited": au["files"],
                "proof_problems": proof_problems, "leanchecker": leanchk}
    coverage.update(cov)
    if "samples" not in coverage:
        coverage["samples"] = [o["theorem"] for o in au["obligations"][:5]] or ["none"]
    write_evidence(ctx, coverage, spec.assumptions, len(violations),
                   extra={"known_findings_reported": sorted(reported)})
    ctx.note("done rc=%d" % rc)
    return rc


# ------------------------------------------------- shared daemon harness build

def _tree_hash(paths):
    h = hashlib.sha1()
    for p in sorted(paths):
        try:
            h.update(p.encode()); h.update(open(p, "rb").read())
        except OSError:
            pass
    return h.hexdigest()


def repo_sources():
    out = []
    for d in ("src/microhttpd", "src/include", "src/microhttpd_ws"):
        dd = os.path.join(REPO, d)
        if os.path.isdir(dd):
            out += [os.path.join(dd, f) for f in os.listdir(dd) if f.endswith((".c", ".h"))]
    out.append(os.path.join("/repo", "MHD_config.h"))
    return out


def build_cached(name, key_paths, builder):
    """run builder() (which must produce build/<name>) unless the content hash of
    key_paths is unchanged since the last successful build.  Content-keyed, so any edit of
    /repo's working tree triggers a rebuild."""
    os.makedirs(BUILD, exist_ok=True)
    with flock("cc_" + name):
        stamp = os.path.join(BUILD, name + ".stamp")
        hv = _tree_hash(key_paths) + REPO
        out = os.path.join(BUILD, name)
        try:
            if open(stamp).read() == hv and os.path.exists(out):
                return out
        except OSError:
            pass
        if os.path.exists(stamp):
            os.unlink(stamp)
        builder()
        open(stamp, "w").write(hv)
        return out


def build_daemon_harness(name="h_daemon", src="harness/h_daemon.c", extra=(), exclude=("mhd_mono_clock.c",), tag="lib_san", san=True, compiler="gcc", ldextra=()):
    srcp = os.path.join(VERIF, src)
    keys = repo_sources() + [srcp, os.path.join(VERIF, "harness/common/lp.h")]

    def b():
        objs = cc_lib_objects(tag + "_" + name, extra=extra, san=san, exclude=exclude, compiler=compiler)
        cc(name, [srcp], extra=extra, libs=["-lgnutls", "-lpthread"] + list(ldextra), objs=objs, san=san, compiler=compiler)
    return build_cached(name, keys, b)
