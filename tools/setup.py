#!/usr/bin/env python3
"""MANIFEST.setup_cmd: offline build of the Lean library (all proofs) and all model drivers.
Regenerates every Gen file from /repo first, then builds the Lean targets of every property
module found in tools/props/ (a property whose build fails is reported; the setup fails only
if a property claimed in MANIFEST.json cannot be built)."""
import importlib, json, os, sys
sys.path.insert(0, os.path.dirname(os.path.abspath(__file__)))
import vlib

def main():
    os.makedirs(vlib.BUILD, exist_ok=True)
    claimed = {c["property_id"] for c in json.load(open(os.path.join(vlib.VERIF, "MANIFEST.json")))["checks"]}
    bad = []
    for f in sorted(os.listdir(os.path.join(vlib.VERIF, "tools", "props"))):
        if not f.endswith(".py") or f.startswith("_"):
            continue
        pid = f[:-3]
        try:
            spec = importlib.import_module("props." + pid).Spec()
            spec.gen(vlib.Ctx(pid, "quick", 1))
            ok, out = vlib.lake_build(spec.lean_targets)
        except Exception as ex:
            ok, out = False, repr(ex)
        print("setup: %s %s" % (pid, "ok" if ok else "FAILED"))
        if not ok:
            print(out[-2000:])
            if pid in claimed:
                bad.append(pid)
    sys.exit(1 if bad else 0)

if __name__ == "__main__":
    main()
