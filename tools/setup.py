#!/usr/bin/env python3
"""MANIFEST.setup_cmd: offline build of the Lean library (all proofs) and all model drivers."""
import os, sys, subprocess
sys.path.insert(0, os.path.dirname(os.path.abspath(__file__)))
import vlib, extract

def main():
    os.makedirs(vlib.BUILD, exist_ok=True)
    for name in dir(extract):
        if name.startswith("gen_"):
            try:
                getattr(extract, name)()
            except Exception as ex:
                print("setup: extractor %s failed: %r (kept committed Gen file)" % (name, ex))
    ok, out = vlib.lake_build([])
    print(out[-3000:])
    sys.exit(0 if ok else 1)

if __name__ == "__main__":
    main()
