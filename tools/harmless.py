#!/usr/bin/env python3
"""False-alarm test: apply each behaviour-preserving patch in seeded/harmless/*.diff to a scratch
worktree and run every claimed quick check with VERIF_REPO pointing at it.  Every check must stay
rc=0 with no VIOLATION line.  Results: seeded/harmless/results.json
usage: harmless.py [--jobs N] [name-substring ...]"""
import json, os, subprocess, sys, time
from concurrent.futures import ThreadPoolExecutor
VERIF = os.path.dirname(os.path.dirname(os.path.abspath(__file__)))
HD = os.path.join(VERIF, "seeded", "harmless")

def sh(cmd, **kw):
    return subprocess.run(cmd, stdout=subprocess.PIPE, stderr=subprocess.STDOUT, text=True, **kw)

def main():
    a = sys.argv[1:]
    jobs = int(a[a.index("--jobs") + 1]) if "--jobs" in a else 4
    only = [x for x in a if not x.startswith("--") and not x.isdigit()]
    man = json.load(open(os.path.join(VERIF, "MANIFEST.json")))
    try:
        results = json.load(open(os.path.join(HD, "results.json")))
    except OSError:
        results = {}
    for f in sorted(os.listdir(HD)):
        if not f.endswith(".diff") or (only and not any(o in f for o in only)):
            continue
        wt = "/tmp/harmless_%s_%d" % (f[:2], os.getpid())
        sh(["git", "-C", "/repo", "worktree", "add", "-q", "--detach", wt, "HEAD"])
        try:
            r = sh(["git", "-C", wt, "apply", os.path.join(HD, f)])
            if r.returncode != 0:
                print(f, "does not apply:", r.stdout[-200:]); results[f] = {"error": "does not apply"}; continue
            def run(c):
                t = time.time()
                r = sh(c["quick_cmd"], shell=True, cwd=VERIF, env=dict(os.environ, VERIF_REPO=wt, VERIF_TIER="quick"))
                v = [l for l in r.stdout.splitlines() if l.startswith("VIOLATION")]
                return c["property_id"], r.returncode, v, round(time.time() - t, 1)
            res = {}
            with ThreadPoolExecutor(jobs) as ex:
                for pid, rc, v, dt in ex.map(run, man["checks"]):
                    res[pid] = {"rc": rc, "violations": v[:2], "wall_s": dt}
                    if rc != 0:
                        print("FALSE ALARM %s on %s: %s" % (pid, f, v[:1]), flush=True)
            results[f] = res
            print(f, "alarms:", [p for p, x in res.items() if x["rc"] != 0], flush=True)
        finally:
            sh(["git", "-C", "/repo", "worktree", "remove", "--force", wt])
            import hashlib, shutil
            shutil.rmtree(os.path.join(VERIF, "build", "alt_" + hashlib.sha1(wt.encode()).hexdigest()[:8]), ignore_errors=True)
        json.dump(results, open(os.path.join(HD, "results.json"), "w"), indent=1, sort_keys=True)

if __name__ == "__main__":
    main()
