#!/usr/bin/env python3
"""Writes /verif/MANIFEST.json from the table below (kept in one place so the
manifest is valid at all times)."""
import json, os

VERIF = os.path.dirname(os.path.dirname(os.path.abspath(__file__)))
ALL = ["C%02d" % i for i in range(1, 21)]

CLAIMED = {
    "C01": dict(
        engine="conn+mem",
        text="Lean 4 theorems over an executable model of the buffer layer of connection.c on top of the pool model "
             "(alloc_memory_, try_grow_read_buffer, shrink_read_buffer, maximize_write_buffer, consume, shift-back, "
             "receive, reset, error-path releases): for every operation sequence with every argument both windows stay "
             "inside the arena, ordered and disjoint, and a receive writes only inside the read window; composed with C08 "
             "(pool) and C02/C03 (parser index safety). Tie: white-box op-sequence correspondence of the real static "
             "functions vs the model (bounded-exhaustive + random, independent window oracle) and the real daemon under "
             "ASan+UBSan on size-directed, pipelined and mutated byte streams x arena sizes 64..32768 x levels -3..3 x "
             "segmentations x handler behaviours, with a bystander connection that must stay served. PARTIAL: the theorem "
             "is about the model; C-level UB that is not an out-of-range index is only observed by the sanitizers.",
        note="Trusted: Lean kernel; propext/Classical.choice/Quot.sound only; hand-written ConnMem model + correspondence "
             "harness/h_mem.c (calls the real statics) and harness/h_daemon.c; gcc ASan/UBSan. External select/epoll "
             "modes only (threaded modes: C18).",
        design="DESIGN.md §3 C01",
        technique="Lean 4 proof (invariant by induction over buffer operations) + model/code correspondence + sanitizer oracle"),
    "C08": dict(
        engine="pool",
        text="Lean 4 theorems over an executable model of memorypool.c (every op, every size_t argument, every op "
             "sequence by induction): invariant, in-bounds/aligned/disjoint blocks, refused => unchanged, contents "
             "preserved by realloc, reset keeps prefix. Model tied to the C code each run by op-sequence "
             "correspondence (bounded-exhaustive + random, ASan/UBSan) and an independent interval-set oracle. "
             "Connection-level 'request too large => 413/414/431' part is covered under C01/C02 engines, not here.",
        note="Trusted: Lean kernel; propext/Classical.choice/Quot.sound only; hand-written model + correspondence "
             "harness/h_pool.c; extractor for ALIGN_SIZE/page size. Non-ASan-poison pool variant only. API used as "
             "documented (live blocks with their current size).",
        design="DESIGN.md §3 C08",
        technique="Lean 4 proof (invariant by induction over operations, refinement to live-block set) + model/code correspondence"),
}

NA_REASON = "check not yet built in this round (machine-checked model planned per DESIGN.md §3); not claimed until its theorem and correspondence exist"


def main():
    checks = []
    for pid in ALL:
        if pid not in CLAIMED:
            continue
        c = CLAIMED[pid]
        checks.append({
            "property_id": pid,
            "quick_cmd": "python3 tools/check.py %s --tier quick" % pid,
            "thorough_cmd": "python3 tools/check.py %s --tier thorough" % pid,
            "evidence_file": "/verif/evidence/%s.json" % pid,
            "replay_cmd_template": "python3 tools/check.py %s --replay {path}" % pid,
            "engine": c["engine"],
            "level_claimed": {"category": "proof", "text": c["text"], "design_ref": c["design"]},
            "level_note": c["note"],
            "technique": c["technique"],
        })
    man = {
        "version": 1,
        "setup_cmd": "python3 tools/setup.py",
        "hooks": {"guard": "MHD_VERIF_HOOKS",
                  "enable": "no source hooks are needed: harnesses #include the real .c files (white-box) and interpose libc/clock at link time; flag -DMHD_VERIF_HOOKS is reserved and currently unused",
                  "baseline_off_cmd": "cd /repo && make -j8 check",
                  "source_commits": [], "add_only": True},
        "engines": [],
        "checks": checks,
        "notes": "All checks: regenerate lean/Mhd/Gen from /repo, lake build (proof obligations), #print axioms + sorry audit, "
                 "rebuild C harness from /repo working tree with ASan+UBSan, run model driver and real code on the same "
                 "scripts, independent oracle, verdict. See DESIGN.md.",
        "not_applicable": [{"property_id": p, "reason": NA.get(p, NA_REASON)} for p in ALL if p not in CLAIMED],
    }
    engines = {}
    for pid, c in CLAIMED.items():
        engines.setdefault(c["engine"], []).append(pid)
    for e, ps in sorted(engines.items()):
        man["engines"].append({"name": e, "path": "harness/h_%s.c + lean/Driver" % e, "serves_properties": sorted(ps),
                               "kind_free_text": "line-protocol correspondence engine (real C code vs Lean model driver)"})
    json.dump(man, open(os.path.join(VERIF, "MANIFEST.json"), "w"), indent=1)
    print("MANIFEST.json: %d checks, %d not_applicable" % (len(checks), len(man["not_applicable"])))


NA = {}

if __name__ == "__main__":
    main()
