#!/usr/bin/env python3
"""Writes /verif/MANIFEST.json from the table below (kept in one place so the
manifest is valid at all times)."""
import json, os

VERIF = os.path.dirname(os.path.dirname(os.path.abspath(__file__)))
ALL = ["C%02d" % i for i in range(1, 21)]

CLAIMED = {
    "C01": dict(
        engine="conn+mem",
        text="Lean 4 theorems over an executable model of the buffer layer of connection.c on top of the pool model "
             "(alloc_memory_, try_grow_read_buffer, shrink_read_buffer, maximize_write_buffer, consume, shift-back, "
             "receive, reset, error-path releases): for every operation sequence with every argument both windows stay "
             "inside the arena, ordered and disjoint, and a receive writes only inside the read window; composed with C08 "
             "(pool) and C02/C03 (parser index safety). Tie: white-box op-sequence correspondence of the real static "
             "functions vs the model (bounded-exhaustive + random, independent window oracle) and the real daemon under "
             "ASan+UBSan on size-directed, pipelined and mutated byte streams x arena sizes 64..32768 x levels -3..3 x "
             "segmentations x handler behaviours, with a bystander connection that must stay served. PARTIAL: the theorem "
             "is about the model; C-level UB that is not an out-of-range index is only observed by the sanitizers.",
        note="Trusted: Lean kernel; propext/Classical.choice/Quot.sound only; hand-written ConnMem model + correspondence "
             "harness/h_mem.c (calls the real statics) and harness/h_daemon.c; gcc ASan/UBSan. External select/epoll "
             "modes only (threaded modes: C18).",
        design="DESIGN.md §3 C01",
        technique="Lean 4 proof (invariant by induction over buffer operations) + model/code correspondence + sanitizer oracle"),
    "C02": dict(
        engine="conn",
        text="Lean 4 theorems over a byte-accurate model of get_request_line_inner / get_req_header / get_req_headers (incl. the repaired "
             "shift-back), for every level (every flag combination), every buffer content and every segmentation: fault-freedom; split "
             "independence (generic scanner lemma + per-parser locality); stability (all strings handed out lie below read_buffer after "
             "the tail is re-used, bytes unchanged). Canonical-rendering round trip proved for the header section at all levels and for "
             "the request line at levels >= 0 (partial). Target/argument decoding, cookies, non-canonical renderings and request-line "
             "levels < 0 are carried by correspondence: bounded-exhaustive white-box differential (all strings <= 5/6 bytes x 7 levels "
             "x 2 feeding modes, 24.7M cases quick) + the real daemon with rendered requests against a semantic oracle and the model.",
        note="Assumes the request fits the arena (413/414/431 one class), the default unescape callback, the configured build; one-shot "
             "parsers (target, arguments, unescape, cookies) have no fault-freedom theorem (model has explicit faults; correspondence only).",
        design="DESIGN.md §3 C02/C03", technique="Lean 4 proof (scanner split-independence lemma, invariants, round-trip lemmas) + model/code correspondence + semantic oracle"),
    "C03": dict(
        engine="frame",
        text="Lean 4 proof: decideBody (Transfer-Encoding/Content-Length decision of parse_connection_headers) vs RFC 9112 s6.3 for all "
             "field lists and levels, every curated defect class rejected; chunk decoder decode(encode) = id with exact consumption "
             "for every admissible chunking; split independence of the whole connection automaton for every segmentation; pipelined "
             "valid streams framed exactly as generated and as a strict reference framer does; safety invariant 'no re-parse after "
             "discard / error / close' over all transition sequences. Tie: regenerated thresholds, daemon + white-box correspondence "
             "(pipelines x 18 defect kinds x splits x 7 levels x handler timings), independent Python reference framer.",
        note="Request heads restricted to CanonicalHead (strict splitter; the head parser is C02); in the theorems the application takes all "
             "offered bytes and replies at the final call (partial takes by correspondence); no-space paths oracle-only. Trusted: Lean "
             "kernel, standard axioms, harness/h_conn03.c, h_chunk.c.",
        design="DESIGN.md §3 C02/C03", technique="Lean 4 proof + regenerated thresholds + model/code correspondence + reference framer oracle"),
    "C09": dict(
        engine="daemon",
        text="Lean 4 proof: accounting invariant (connections = |active|+|suspended|+|cleanup| <= limit; per-address counter = number of "
             "connections from that address incl. the new list <= per-IP limit) for every history incl. every failure exit of admission; "
             "capacity restored; at stop every socket closed exactly once and start/close notifications paired; response refcount = "
             "multiset of holders, free callback exactly once exactly at zero, no use after. Tie: bounded-exhaustive + random histories "
             "against the real daemon (white-box list lengths and per-IP tree), allocation-failure enumeration, LeakSanitizer, log oracle.",
        note="HTTP exchange abstracted to scripted behaviours; accept4 wrapper, thread-per-connection and thread-creation failure are in the "
             "model/proofs but not in the correspondence; internal-thread modes oracle-only (thorough); tsearch abstracted to a map.",
        design="DESIGN.md §3 C09", technique="Lean 4 proof (invariants + conservation laws over step/run) + scripted differential run + oracle"),
    "C10": dict(
        engine="tmo",
        text="Lean 4 proof over a model of the timeout logic (close decision / wait with uint64 wrap and the 5 s jump-back rule; normal, "
             "manual, suspended, cleanup, eready lists in pointer order; override, suspend/resume, new-connection processing, "
             "MHD_get_timeout64, select and epoll rounds): 25-field invariant incl. sortedness for every history with a monotone clock; "
             "round soundness (closed => idle > T, never suspended) for all states; round completeness for epoll and select; hint <= "
             "earliest deadline + 100 ms and 0 when pending; override immediate; resume restarts. Tie: line-by-line correspondence incl. "
             "white-box list dump under a virtual clock (bounded-exhaustive + random, select + epoll), independent idle-time oracle.",
        note="Single-threaded external polling only; activity = received bytes; backward clock jumps at function level only; behaviour "
             "flags probed from the real code each run (a regression of a repaired defect flips a flag and breaks `current_is_repaired`).",
        design="DESIGN.md §3 C10", technique="Lean 4 proof (invariant by induction over operations) + model/code correspondence + oracle"),
    "C11": dict(
        engine="susp",
        text="Lean 4 proof over a model of internal_suspend_connection_ / MHD_resume_connection / resume_suspended_connections, the "
             "select/poll/epoll traversals and the connection state machine's `suspended` guards, for every history, mode, readiness "
             "answer and application script: lists stay consistent; a suspended connection is in no traversed list, gets no handler / "
             "reader / recv / send and keeps its state; the next resume pass re-enters at the same state (epoll: read+write ready); both "
             "orders of the suspend/resume race coincide; upload and reply are delivered losslessly (conservation laws); stutter "
             "equivalence: histories with the same suspend-erased plan deliver the same reply and upload bytes. The guard table is "
             "regenerated each run (behavioural probes + source patterns): a missing guard breaks `guards_present`. Tie: all placements "
             "of <= 2/3 suspend points x resume delays x select/epoll x 1-2 connections, exact callback-order diff, I/O-interposing "
             "harness, oracle against the suspends-erased run.",
        note="HTTP parsers abstracted to symbols, one request per connection in the model, no timeouts / socket errors / "
             "thread-per-connection; internal-thread modes and second-thread resume by canonical projection + oracle.",
        design="DESIGN.md §3 C11", technique="Lean 4 proof (simulation / conservation laws) + behavioural guard probes + real-daemon correspondence + log oracle"),
    "C12": dict(
        engine="dauth",
        text="Lean 4 theorems over a model of digest_auth_check_all_inner and its six public entry points, composed with C13 (nonce table), "
             "C14 (header parser) and C16 (hashes): the result class is a function of the meaning of the credential (`expectedClass`, "
             "clauses in the code's order); OK <=> RFC 7616/2617/2069-valid within the 65535-byte limits, for every request and header "
             "bytes; rendering independence; every single-field mutation rejected; replay rejected on every reachable nonce table; no "
             "write beyond hash1_bin/tmp1 for every input (false before fix F24); no client-triggered MHD_PANIC (false before F25). Tie: "
             "regenerated constants; real daemon whose handler calls check3 / check_digest3 / the four legacy wrappers under a virtual "
             "clock with nonces issued by the real code; random credentials x 3 algorithms x qop x username notation x bind options x "
             "~20 labelled mutations x nc window edges; independent RFC oracle with hashlib.",
        note="malloc failure and pool exhaustion not modelled; the request's GET argument list is a model input (recomputed by driver and "
             "oracle, printed by the harness); SHA-512/256 composition carries C16's size_t hypothesis; no unforgeability claim.",
        design="DESIGN.md §3 C12", technique="Lean 4 proof (composition of C13/C14/C16 models) + regenerated constants + real-daemon correspondence + RFC oracle"),
    "C13": dict(
        engine="nonce",
        text="Lean 4 proof over a model of digestauth.c's nonce-nc map, any table size, any sequence of registrations and presentations "
             "(= all interleavings under nnc_lock): (nc,nmask) refines a set of used counts; each (nonce,count) accepted at most once per "
             "registration; acceptance exactly 'new, non-zero, below UINT32_MAX-64, <= 64 behind the highest' (jumps 63/64/65); never-"
             "issued or evicted nonces never accepted; expired / above max_nc => stale; slot-reuse policy as coded; no out-of-buffer read. "
             "Tie: regenerated constants, bounded-exhaustive (584k seq quick) + random correspondence on check_nonce_nc, "
             "calculate_add_nonce, get_nonce_timestamp, fast_simple_hash, MHD_digest_auth_check3; independent set-based oracle.",
        note="Nonce derivation opaque (C12); presented nonces NUL-free (guaranteed by the request parser; witness theorem included); the "
             "locking itself is C18.",
        design="DESIGN.md §3 C13", technique="Lean 4 proof (refinement to a set) + model/code correspondence + reference oracle"),
    "C14": dict(
        engine="auth",
        text="Lean 4 proof over a model of gen_auth.c / basicauth.c / the digestauth.c info API: parse(render) = meaning for every well-formed "
             "Digest parameter list in every rendering (order, case, OWS, token/quoted-string, escapes, extension parameters, empty "
             "elements); algorithm/qop/userhash invariant under quoting; info-API structures depend only on the meaning; Basic round trip, "
             "canonical-base64-only, exact token68 extraction; no access beyond str[str_len]. Tie: regenerated if-chains/tables/enums + "
             "1.3e5 (quick) case correspondence, bounded-exhaustive + random, RFC 7616/7617 reference oracle.",
        note="Precondition: one readable byte behind the header value (the parser reads str[str_len]; it is the in-buffer NUL). Info-API "
             "theorem under Elem.infoWf (escaped nc <= 16 raw bytes, username* unescaped with complete pct-encoding).",
        design="DESIGN.md §3 C14", technique="Lean 4 proof + regenerated constants + model/code correspondence + RFC reference oracle"),
    "C16": dict(
        engine="hash",
        text="For MD5, SHA-1 (both copies), SHA-256 and SHA-512/256: machine-checked proof that init -> any sequence of update calls (any "
             "split, any alignment, any starting context) -> finish on the model returns the RFC 1321 / FIPS 180-4 digest of the "
             "concatenated data, never leaves the context buffer, and leaves a re-usable context. The step tables, round constants, "
             "shifts, IVs and sizes are re-extracted from the C source each run (instrumented execution of the real transform) and "
             "proved equal to the standards' tables by decide over the whole tables. Tie: every length 0..300 one-shot/byte-by-byte, "
             "all 2-way splits <= 140, 16 misalignments under UBSan, white-box counter wrap-arounds, hashlib triple comparison.",
        note="Specifications and the model's step/sigma/rotate functions are hand-written (validated by published vectors and hashlib). "
             "That a misaligned pointer is never dereferenced as a word is established by the UBSan run, not by the theorems.",
        design="DESIGN.md §3 C16", technique="Lean 4 refinement proof + instrumented-execution extractor + triple differential (model, code, hashlib)"),
    "C17": dict(
        engine="str",
        text="Lean 4 proofs over a model of mhd_str.c for all inputs: decimal/hex parse and print are exact inverses with exact overflow and "
             "short-buffer detection; hex<->bin, percent-decoding (strict/lenient, copying = in place), quote/unquote/quoted comparison, "
             "base64 (RFC 4648, canonical padding), caseless comparison and has_token equal short reference specifications; none of them, "
             "nor remove_token, reads beyond the stated length or writes beyond the stated size. remove_token's output and remove_tokens "
             "are tied by correspondence only (partial). Tie: exhaustive (8/16-bit domains), bounded-exhaustive (strings <= 4/5 over 18 "
             "bytes x all buffer sizes) and random correspondence under ASan, Python references.",
        note="Tables/constants regenerated from the source; remove_token output characterisation and remove_tokens not proved.",
        design="DESIGN.md §3 C17", technique="Lean 4 proof + correspondence + reference oracle"),
    "C18": dict(
        engine="locks",
        text="PARTIAL by nature. Proved (decide +kernel over the whole clang-AST-regenerated lock table, lifted by lemmas): lock-order graph "
             "acyclic => no wait cycle in an abstract thread/mutex model; no lock held while blocking; lockset discipline for shared "
             "fields except two flags (kernel-checked witness that the full statement is false: F18b); writes under mutex; callbacks "
             "unlocked; stop sequencing and stop state machines (termination, every connection notified once; thread-per-connection exit "
             "path). Validated dynamically, not proved: TSan stress (client threads x select/poll/epoll x pool/thread-per-connection, "
             "add_connection, cross-thread resume, shared responses, digest auth, stop under load with watchdog).",
        note="Memory-order effects, libc/GnuTLS, scheduler liveness outside the model; dynamic part schedule-dependent. Known finding F18b "
             "(data race on connection->suspended in thread-per-connection mode) is reported as KNOWN-FINDING.",
        design="DESIGN.md §3 C18", technique="Lean 4 decide +kernel over a clang-AST-extracted table + abstract thread model + TSan stress with watchdog"),
    "C19": dict(
        engine="ws",
        text="Lean 4 proof over a model of mhd_websocket.c: split independence of whole sessions for all states and chunk lists; no "
             "out-of-buffer access or non-termination for all states and inputs; each RFC 6455 violation class yields the prescribed "
             "status and an invalid stream; round trip for single-frame text/binary, ping/pong and close for all lengths and keys. "
             "Fragmented round trip by correspondence only (partial). Tie: regenerated enums, exhaustive header-pair and UTF-8 "
             "comparison, structured random streams x splits, independent RFC 6455 reference.",
        note="Round-trip part partial (fragmentation); accept-header helper oracle-only; alignment UB observed by a separate UBSan run.",
        design="DESIGN.md §3 C19", technique="Lean 4 proof + model/code correspondence + RFC 6455 reference oracle"),
    "C20": dict(
        engine="upg",
        text="Lean 4 proofs over a model of the upgrade path (queue_response preconditions, execute_upgrade, mark_app_closed, "
             "resume_suspended_connections, cleanup, close_all_connections) for every history and read/write schedule: byte conservation "
             "(extra + application reads + socket = bytes after the head, for a prefix-stable parser); the daemon's wire output is exactly "
             "the 101 head; no daemon I/O after hand-over; exactly one completed / conn-close / socket close, released in the round "
             "after CLOSE or at stop; an unmet precondition => refusal with unchanged state, ordinary response then accepted. Tie: all "
             "2-way splits x close timings x select/epoll x arenas, random 3-way, multi-connection, per-fd I/O interposition, log oracle.",
        note="TLS forwarding (process_urh/GnuTLS) and thread-per-connection outside the model; parser and ordinary reply bytes are "
             "parameters (C02/C04).",
        design="DESIGN.md §3 C20", technique="Lean 4 proof + model/code correspondence (per-fd I/O interposition) + log oracle"),
    "C04": dict(
        engine="reply",
        text="Lean 4 proof over a model of response.c / connection.c reply building: every finite sequence of response-API calls "
             "(add/del header, footer, options) preserves the 'flags_auto <=> header list' invariant; every completely sent reply - all "
             "statuses accepted by MHD_queue_response, methods, versions, connection states, buffer and callback bodies - parses under "
             "a strict HTTP/1.x grammar (independent of the model) with exactly one body delimitation (none for HEAD/1xx/204/304; "
             "chunked only to 1.1 clients; Content-Length = body; close-delimited), body = the application's bytes, user headers "
             "verbatim/once/in order, closesAfter => announced Connection: close, 100-continue only when asked. The converse 'announced "
             "close => daemon closes' is carried by correspondence only (partial). Tie: exhaustive differential of the decision "
             "functions (33M points), bounded-exhaustive API call sequences, random full exchanges, strict-parser oracle.",
        note="Hypotheses: no insanity flag; header names without ':'; numeric application Content-Length; callback contract; reply sent "
             "completely; no allocation failure. TLS, iovec/fd/pipe senders and socket faults outside the model (C07).",
        design="DESIGN.md §3 C04", technique="Lean 4 proof + regenerated constants + exhaustive/bounded/random differential + strict-parser oracle"),
    "C05": dict(
        engine="sm",
        text="Lean 4 refinement proof: for every sequence of connection events (receive, EOF, read error, handle_idle under any "
             "environment incl. timeout / pool exhaustion / allocation failure / epoll_ctl result / reader outcomes / shutdown, write "
             "results, forced close, resume, stop, cleanup, queue_response outside the handler) and every application, the callback log "
             "of the connection model (MHD_CONNECTION_STATE granularity, all entries into CLOSED) is accepted by the call-protocol "
             "automaton (first call without upload and with a fresh context; upload calls contiguous, re-presenting only the declined "
             "suffix; no call after a response is queued or the handler failed; completion exactly for presented requests, once, same "
             "context, strings not released before it; start/close bracket everything) and is complete once the connection is freed. "
             "Repair flags regenerated from connection.c are proof obligations; kernel-checked witnesses for the four repaired paths. "
             "Tie: callback-sequence + white-box state correspondence on a bounded-exhaustive placement grid (12 request shapes x phase "
             "boundaries x 8 client/daemon actions x 18 handler behaviours) + random histories; independent automaton oracle.",
        note="Parsers abstracted to tokens; external select/epoll modes; upload completeness oracle-only; idle-loop fuel sufficiency not "
             "proved (fault if exhausted, never observed); 102-Processing, upgrade, thread-per-connection shutdown path not modelled.",
        design="DESIGN.md §3 C05", technique="Lean 4 refinement proof + predictive correspondence + independent automaton oracle"),
    "C06": dict(
        engine="loop",
        text="Lean 4 theorems over a model of the three event loops (connection lists in pointer order with prev resolved in the list that "
             "holds the node, call_handlers, get_fdset, get_timeout class): round post-condition for select/poll/epoll, invariant over "
             "all histories, no lost wake-up (timeout none and no watched fd ready => no connection can proceed), progress of an awaiting "
             "connection within rank+1 fair rounds whatever other connections do; kernel-checked witness that the unsaved-prev select "
             "loop (F10) violates it; for every lawful per-connection step. Tie: saves-prev flags regenerated from daemon.c (a regression "
             "breaks the build), per-round predictive correspondence for select and epoll (bounded-exhaustive <= 4/5 events x 2 "
             "connections + random), law monitoring on every logged handler call, independent quiescence oracle.",
        note="Per-connection step is a parameter under explicit law records; the poll loop has model, proof and regenerated flag only (no "
             "external poll mode exists); timeout values are C10; accept, TLS, upgrade, thread-per-connection not modelled; kernel epoll "
             "events are an input.",
        design="DESIGN.md §3 C06", technique="Lean 4 proof + regenerated flags + trace-driven model correspondence + log oracle"),
    "C07": dict(
        engine="send",
        text="Lean 4 proof, for every fault script of any length: bytes delivered to the client are a prefix of the reply stream and the "
             "offsets account for exactly the rest (header+body coalescing, iovec tracker, sendfile with fallback, chunk framing); a hard "
             "socket error closes without sending; transient-only scripts never close and complete within 8*|R| productive rounds; every "
             "modelled allocation failure closes or is a no-op; upload bytes handed to the application are a prefix of the body. Tie: "
             "call-by-call replay of real fault-injected exchanges (libc interposition, --wrap malloc), complete single-fault "
             "enumeration per scenario (thorough), random multi-fault plans, independent log oracle, LeakSanitizer.",
        note="Completion-notification and resource-release clauses are carried by the implementation-side oracle on every enumerated run "
             "(and by C05/C09's theorems). TLS and threaded modes not covered.",
        design="DESIGN.md §3 C07", technique="Lean 4 proof (invariant over fault scripts + progress measure) + fault enumeration as validation"),
    "C15": dict(
        engine="pp",
        text="Lean 4 theorems over a model of postprocessor.c. urlencoded: full round trip for every conforming rendering, every split incl. "
             "empty chunks and every buffer size (contiguous offsets, order, every call MHD_YES); split independence; no fault incl. loop "
             "termination for all inputs. multipart: for all inputs and splits no out-of-object access and no fabricated value byte "
             "(modulo an unproved loop-termination bound - partial). The multipart round trip (single-level and nested) is carried by "
             "the correspondence run only. Tie: regenerated constants; model-vs-code diff over bounded-exhaustive 2/3-way splits, "
             "byte-by-byte, random and malformed bodies x buffer sizes; independent oracle.",
        note="Multipart round trip and multipart loop termination not proved (stated in Props/C15.lean).",
        design="DESIGN.md §3 C15", technique="Lean 4 proof + translator for constants + bounded-exhaustive/random correspondence"),
    "C08": dict(
        engine="pool",
        text="Lean 4 theorems over an executable model of memorypool.c (every op, every size_t argument, every op "
             "sequence by induction): invariant, in-bounds/aligned/disjoint blocks, refused => unchanged, contents "
             "preserved by realloc, reset keeps prefix. Model tied to the C code each run by op-sequence "
             "correspondence (bounded-exhaustive + random, ASan/UBSan) and an independent interval-set oracle. "
             "Connection-level 'request too large => 413/414/431' part is covered under C01/C02 engines, not here.",
        note="Trusted: Lean kernel; propext/Classical.choice/Quot.sound only; hand-written model + correspondence "
             "harness/h_pool.c; extractor for ALIGN_SIZE/page size. Non-ASan-poison pool variant only. API used as "
             "documented (live blocks with their current size).",
        design="DESIGN.md §3 C08",
        technique="Lean 4 proof (invariant by induction over operations, refinement to live-block set) + model/code correspondence"),
}

NA_REASON = "check not yet built in this round (machine-checked model planned per DESIGN.md §3); not claimed until its theorem and correspondence exist"


def main():
    checks = []
    for pid in ALL:
        if pid not in CLAIMED:
            continue
        c = CLAIMED[pid]
        checks.append({
            "property_id": pid,
            "quick_cmd": "python3 tools/check.py %s --tier quick" % pid,
            "thorough_cmd": "python3 tools/check.py %s --tier thorough" % pid,
            "evidence_file": "/verif/evidence/%s.json" % pid,
            "replay_cmd_template": "python3 tools/check.py %s --replay {path}" % pid,
            "engine": c["engine"],
            "level_claimed": {"category": "proof", "text": c["text"], "design_ref": c["design"]},
            "level_note": c["note"],
            "technique": c["technique"],
        })
    man = {
        "version": 1,
        "setup_cmd": "python3 tools/setup.py",
        "hooks": {"guard": "MHD_VERIF_HOOKS",
                  "enable": "no source hooks are needed: harnesses #include the real .c files (white-box) and interpose libc/clock at link time; flag -DMHD_VERIF_HOOKS is reserved and currently unused",
                  "baseline_off_cmd": "cd /repo && make -j8 check",
                  "source_commits": [], "add_only": True},
        "engines": [],
        "checks": checks,
        "notes": "All checks: regenerate lean/Mhd/Gen from /repo, lake build (proof obligations), #print axioms + sorry audit, "
                 "rebuild C harness from /repo working tree with ASan+UBSan, run model driver and real code on the same "
                 "scripts, independent oracle, verdict. See DESIGN.md.",
        "not_applicable": [{"property_id": p, "reason": NA.get(p, NA_REASON)} for p in ALL if p not in CLAIMED],
    }
    engines = {}
    for pid, c in CLAIMED.items():
        engines.setdefault(c["engine"], []).append(pid)
    for e, ps in sorted(engines.items()):
        man["engines"].append({"name": e, "path": "harness/h_%s.c + lean/Driver" % e, "serves_properties": sorted(ps),
                               "kind_free_text": "line-protocol correspondence engine (real C code vs Lean model driver)"})
    json.dump(man, open(os.path.join(VERIF, "MANIFEST.json"), "w"), indent=1)
    print("MANIFEST.json: %d checks, %d not_applicable" % (len(checks), len(man["not_applicable"])))


NA = {}

if __name__ == "__main__":
    main()
