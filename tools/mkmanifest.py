#!/usr/bin/env python3
"""Writes /verif/MANIFEST.json from the table below (kept in one place so the
manifest is valid at all times)."""
import json, os

VERIF = os.path.dirname(os.path.dirname(os.path.abspath(__file__)))
ALL = ["C%02d" % i for i in range(1, 21)]

CLAIMED = {
    "C01": dict(
        engine="conn+mem",
        text="Lean 4 theorems over (1) an executable model of the buffer layer of connection.c on top of the pool model "
             "(alloc_memory_, try_grow_read_buffer, shrink_read_buffer, maximize_write_buffer, consume, shift-back, body-drop, "
             "receive, reset, error-path releases): for every operation sequence with every argument both windows stay inside the "
             "arena, ordered and disjoint; and (2) the COMPOSED model ConnRead of the receiving half of a connection on one byte "
             "arena - MHD_connection_handle_read, the handle_idle states INIT..FOOTERS_RECEIVED, get_request_line, "
             "process_request_target, get_req_headers incl. shift-back, check_and_grow_read_buffer_space, process_request_body "
             "(identity and chunked via C03's chunkAct, handler take pattern), trailers, connection_reset with keep-alive - running "
             "C02's parser models on the arena through the buffer layer: connread_no_fault / connread_parser_view_inside / "
             "connread_full_buffer_is_error hold for every byte stream x every segmentation x every arena and pool size x every "
             "strictness level x every framing / keep-alive decision x every take pattern, i.e. for whole pipelined request "
             "sequences (the composition proves that every op issued is valid and every parser precondition is established). Tie: "
             "white-box `mem` engine (the real static functions incl. the real parsers and process_request_body on a fabricated "
             "connection with a real pool, state diffed against the model after every chunk incl. the window bytes; independent "
             "window and liveness oracles) and the real daemon under ASan+UBSan and under pool poisoning on size-directed, pipelined "
             "and mutated byte streams x arena sizes 64..32768 x levels -3..3 x segmentations x handler behaviours, with a bystander "
             "connection that must stay served. PARTIAL: cookies, 100-continue, early replies, MHD_NO from the handler and the "
             "write-buffer side of replies are outside ConnRead (covered by the buffer-layer theorem + daemon runs); the one-arena "
             "content invariant is checked at run time (sync flag + window diff), its stage-1 proof is parked in wip/; C-level UB "
             "that is not an out-of-range index is only observed by the sanitizers.",
        note="Trusted: Lean kernel; propext/Classical.choice/Quot.sound only; hand-written ConnMem model + correspondence "
             "harness/h_mem.c (calls the real statics) and harness/h_daemon.c; gcc ASan/UBSan. External select/epoll "
             "modes only (threaded modes: C18).",
        design="DESIGN.md §3 C01",
        technique="Lean 4 proof (invariant by induction over buffer operations) + model/code correspondence + sanitizer oracle"),
    "C02": dict(
        engine="conn",
        text="Lean 4 theorems (30) over byte-accurate models of get_request_line_inner / get_req_header / get_req_headers (incl. the "
             "repaired shift-back), process_request_target, MHD_parse_arguments_, the strict and lenient in-place percent decoders, "
             "MHD_unescape_plus, parse_cookie_header and MHD_lookup_connection_value_n, for every level (every flag combination), "
             "every buffer content and every segmentation: fault-freedom of the incremental scanners AND of the one-shot parsers "
             "(get_request_line_no_fault, args/target_no_fault, cookie_no_fault); split independence; stability of all strings "
             "handed out; target_decoding_exact (path and (key, value-or-none) argument list = reference decoding for every NUL-free "
             "target) and the round trip target_render_decode over every admissible percent-encoding choice "
             "(every_target_has_rendering); request-line round trip at every level (whitespace blocks at levels < 0) from method + "
             "raw target to method, decoded path, arguments, version; header-section round trip for canonical AND non-canonical "
             "renderings at every level (fields_roundtrip_nc_partial: optional whitespace, whitespace before the colon, obs-folds, "
             "NUL / bare CR replacement, bare LF, empty section), cookie round trip for canonical renderings; lookup_exact (first "
             "element of the kind with caselessly equal name of equal length - never a prefix). By correspondence only: whitespace "
             "inside the URI / bare CR at levels < 0, field lines that are not renderings of a well-formed field at the lenient "
             "levels, lenient cookie renderings. Tie: bounded-exhaustive white-box differential (all strings <= 5/6 bytes x 12 "
             "templates x 7 levels x 2 feeding modes, 24.7M cases quick), white-box look-up op, and the real daemon with rendered "
             "requests (875k look-up probes per quick run) against a semantic oracle and the model.",
        note="Assumes the request fits the arena (413/414/431 one class), the default unescape callback, the configured build. "
             "Trusted: Lean kernel, standard axioms, harness/h_reqparse.c, h_conn02.c, the Python semantic oracle.",
        design="DESIGN.md §3 C02/C03", technique="Lean 4 proof (scanner split-independence lemma, invariants, round-trip lemmas) + model/code correspondence + semantic oracle"),
    "C03": dict(
        engine="frame",
        text="Lean 4 proof (30 theorems): decideBody (Transfer-Encoding/Content-Length decision of parse_connection_headers) equals "
             "the RFC 9112 s6.3 reference decision for EVERY field list, level and version (decideBody_agrees_reference, total; "
             "mixed case, OWS, duplicates, list values), every defect class refused with close (framing_defect_no_resync); chunk "
             "decoder decode(encode) = id with exact consumption for every admissible chunking (extensions, BWS, bare LF, leading "
             "zeros per level); split independence of the connection automaton for every segmentation; pipelined valid streams "
             "framed exactly as a strict reference framer does, for every handler take pattern (partial_takes_no_desync, "
             "pipeline_no_desync_takes); safety invariant 'no re-parse after discard / error / close' over all transition sequences. "
             "The head parser is a parameter constrained by the incremental-scanner laws; both the strict splitter and C02's real "
             "parser model (rlScanner followed by hsScanner, every level) are proved lawful instances (real_parser_lawful), giving "
             "pipeline_no_desync / frames_agree_reference for the composition 'C02 parser + C03 framing' on the normalised head "
             "(partial: process_request_target and cookies outside); announced_close_no_further_request ties 'reply announces close' "
             "to the wire via C04's close_announced_iff. Tie: regenerated thresholds, daemon + white-box correspondence (pipelines x "
             "defect kinds x splits x 7 levels x handler timings x take patterns; 39k non-canonical field lists and 8k white-box "
             "bodytake cases per quick run), independent Python reference framer.",
        note="No-space paths oracle-only; non-strict head renderings are C02's. Trusted: Lean kernel, standard axioms, "
             "harness/h_conn03.c, h_chunk.c.",
        design="DESIGN.md §3 C02/C03", technique="Lean 4 proof + regenerated thresholds + model/code correspondence + reference framer oracle"),
    "C09": dict(
        engine="daemon",
        text="Lean 4 proof (17 theorems): accounting invariant (connections = |active|+|suspended|+|cleanup| <= limit; per-address "
             "counter = number of connections from that address incl. the new list <= per-IP limit) for every history incl. every "
             "failure exit of admission and failing accept4; capacity restored; at stop every socket closed exactly once and "
             "start/close notifications paired; response refcount = multiset of holders over EVERY acquisition/drop site (final "
             "replies, interim 102 replies, upgrade after 102, daemon error replies, queue from outside while suspended, shared "
             "objects, aborted connections): interim_replies_balanced, stop_releases_every_response, free callback exactly once "
             "exactly at zero, no use after. Tie: bounded-exhaustive + random histories against the real daemon (white-box list "
             "lengths and per-IP tree as a sorted map), acquisition/drop-site enumeration, a real listen socket (IPv4 + dual stack) "
             "with interposed accept4 failures compared line by line, pthread_create failures, thread-per-connection and pool "
             "histories (oracle + thread count), allocation-failure enumeration, LeakSanitizer, log oracle.",
        note="HTTP exchange abstracted to scripted behaviours; thread-per-connection / pools / thread-creation failure run with real "
             "threads against the oracle, not compared with the model; at_limit gating of the listen fd not exercised; tsearch "
             "abstracted to a map.",
        design="DESIGN.md §3 C09", technique="Lean 4 proof (invariants + conservation laws over step/run) + scripted differential run + oracle"),
    "C10": dict(
        engine="tmo",
        text="Lean 4 proof (57 theorems) over a model of the timeout logic (close decision / wait with uint64 wrap and the 5 s "
             "jump-back rule; normal, manual, suspended, cleanup, eready lists in pointer order; override, suspend/resume, "
             "new-connection processing, MHD_get_timeout64 and its wrappers, select and epoll rounds) for ARBITRARY clocks: the "
             "invariant incl. sortedness of the default-timeout list is unconditional; round soundness (closed => idle > T, never "
             "suspended), round completeness for epoll and select and hint <= earliest deadline + 100 ms hold for every history in "
             "which the clock is at most 5000 ms behind its high-water mark (the code's own tolerance; largeDisplacement witness "
             "shows the hypothesis cannot be dropped); hint 0 when pending (data_already_pending modelled as the fold over the select traversal it is: raised for a PROCESS connection, never lowered by a later idle one); override immediate; resume restarts; send progress is activity (regenerated activitySites table: every sending state restarts the timer after a partial send; send_progress_restarts_timer); conversions "
             "(MHD_get_timeout, _get_timeout64s, _get_timeout_i, get_timeout_millisec_(int), select / thread timevals) never wait "
             "longer than the hint for every uint64 value. Tie: line-by-line correspondence incl. white-box list dump under a "
             "virtual clock (bounded-exhaustive + random, select + epoll, a backward jump at every position of base histories), "
             "white-box conversion op, independent idle-time oracle.",
        note="Single-threaded external polling only; replies to slow readers in the select loop only; the two inline timeval conversions are tied by "
             "source pattern (LP64 only); behaviour flags probed from the real code each run (a regression of a repaired defect "
             "flips a flag and breaks `current_is_repaired`).",
        design="DESIGN.md §3 C10", technique="Lean 4 proof (invariant by induction over operations) + model/code correspondence + oracle"),
    "C11": dict(
        engine="susp",
        text="Lean 4 proof (29 theorems, incl. a stand-alone timer model: resume restarts the inactivity timer in both timeout lists, no timeout while suspended, no early timeout after resume) over a model of internal_suspend_connection_ / MHD_resume_connection / "
             "resume_suspended_connections, the select/poll/epoll traversals and the connection state machine's `suspended` guards, "
             "for keep-alive PIPELINES of requests, every history, mode, readiness answer and application script: lists stay "
             "consistent; a suspended connection is in no traversed list, gets no handler / reader / recv / send and keeps its state "
             "incl. buffered pipelined data; the next resume pass re-enters at the same state; epoll_no_lost_wakeup (a resumed "
             "connection gets its turn in the next round without a new epoll event); both orders of the suspend/resume race "
             "coincide; a resume request from another thread landing between any two atomic steps of a round (all three loops) is not lost (resume_any_point_of_round); timeout lists consistent under MHD_set_connection_option at any time incl. while suspended; upload and "
             "reply delivered losslessly over the whole pipeline; stutter equivalence. The guard table is regenerated each run "
             "(behavioural probes + source patterns). Tie: all placements of <= 2/3 suspend points x resume delays x select/epoll x "
             "1-2 connections x pipelined requests, exact callback-order diff and equal timeout-hint sequences, I/O-interposing "
             "harness, oracle against the suspends-erased run.",
        note="HTTP parsers abstracted to symbols; socket errors and thread-per-connection outside the model (C06/C07); ITC not "
             "modelled (hintZero stands in); internal-thread modes by canonical projection + oracle with confirm-by-rerun.",
        design="DESIGN.md §3 C11", technique="Lean 4 proof (simulation / conservation laws) + behavioural guard probes + real-daemon correspondence + log oracle"),
    "C12": dict(
        engine="dauth",
        text="Lean 4 theorems (42) over a model of digest_auth_check_all_inner and its six public entry points, composed with C13 "
             "(nonce table), C14 (header parser) and C16 (hashes): the result class is a function of the meaning of the credential "
             "(`expectedClass`, clauses in the code's order); OK <=> RFC 7616/2617/2069-valid within the 65535-byte limits, for "
             "every request and header bytes; rendering independence; every single-field mutation rejected; replay rejected on every "
             "reachable nonce table; no write beyond hash1_bin/tmp1 for every input (false before fix F24); no client-triggered "
             "MHD_PANIC (false before F25). Tie: regenerated constants; real daemon whose handler calls check3 / check_digest3 / the "
             "four legacy wrappers under a virtual clock with nonces issued by the real code; random credentials x 3 algorithms x "
             "qop x username notation x bind options x ~20 labelled mutations x nc window edges; independent RFC oracle with "
             "hashlib.",
        note="Allocation failure modelled all-or-nothing per check (alloc_failure_* theorems, --wrap=malloc runs); pool exhaustion "
             "in MHD_get_rq_dauth_params_ not modelled; the request's GET argument list is a model input (recomputed by driver and "
             "oracle, printed by the harness); SHA-512/256 composition carries C16's size_t hypothesis; no unforgeability claim.",
        design="DESIGN.md §3 C12", technique="Lean 4 proof (composition of C13/C14/C16 models) + regenerated constants + real-daemon correspondence + RFC oracle"),
    "C13": dict(
        engine="nonce",
        text="Lean 4 proof (48 theorems) over a model of digestauth.c's nonce-nc map, any table size, any sequence of registrations "
             "and presentations: (nc,nmask) refines a set of used counts; each (nonce,count) accepted at most once per registration; "
             "acceptance exactly 'new, non-zero, below UINT32_MAX-64, <= 64 behind the highest' (jumps 63/64/65); never-issued or "
             "evicted nonces never accepted; expired / above max_nc => stale; slot-reuse policy as coded; no out-of-buffer read. "
             "Nonce GENERATION is in the model at byte level (calculate_nonce on C16's hash specification, "
             "calculate_add_nonce(_with_retry)): generated nonces are well-formed, pass the verifier's format checks until they "
             "expire, are run steps (so all run theorems cover nonces the daemon really makes), the binding re-check accepts equal "
             "bound inputs and rejects different ones for every MHD_DAUTH_BIND_* option under the explicit hypothesis that the two "
             "concrete hash inputs do not collide; nonce length is tied to the algorithm. 'All interleavings' is a checked fact: "
             "nonce_table_accessed_only_under_lock over the regenerated lock table (every access to struct MHD_NonceNc holds "
             "nnc_lock; no callback, wait or second lock inside). Tie: regenerated constants, bounded-exhaustive (584k seq quick) + "
             "random correspondence on check_nonce_nc, calculate_add_nonce, get_nonce_timestamp, fast_simple_hash, "
             "MHD_digest_auth_check3, generated nonce bytes model vs code (28k per quick run); independent set-based oracle.",
        note="Hash inequality for two concrete inputs is an explicit hypothesis (no cryptographic claim); presented nonces NUL-free "
             "(guaranteed by the request parser; witness theorem included); mutual exclusion of pthread mutexes assumed (the locking "
             "discipline itself is C18).",
        design="DESIGN.md §3 C13", technique="Lean 4 proof (refinement to a set) + model/code correspondence + reference oracle"),
    "C14": dict(
        engine="auth",
        text="Lean 4 proof (44 theorems) over a model of gen_auth.c / basicauth.c / the digestauth.c info API: parse(render) = "
             "meaning for every well-formed Digest parameter list in every rendering (order, case, OWS, token/quoted-string, "
             "escapes, extension parameters, empty elements); parse_agrees_reference: every byte string an RFC 7235/7616 "
             "recursive-descent reference (written from the ABNF, returns the parse tree) accepts is parsed to the same values; "
             "algorithm/qop/userhash invariant under quoting; single-byte corruptions inside values are rejected or change only that "
             "parameter (corruption_local_quoted/_token, corruption_rejected_*; the re-bracketing class is the recorded finding "
             "F36); digest_accepts_only_lenient_grammar (accepted => sentence of an explicitly defined lenient grammar with the "
             "reported values: strict <= accepted <= lenient); per-request credential cache (early_query_not_cached, "
             "late_query_after_early, next_request_fresh); info-API structures depend only on the meaning, lie inside the one "
             "allocated block with exact sizes (info_block_layout), user-name type classification total and exact (presence, not "
             "emptiness, decides); first matching Authorization header wins; Basic round trip, canonical-base64-only, exact token68 "
             "extraction; no access beyond str[str_len]. Tie: regenerated if-chains/tables/enums + 2.0e5 (quick) case "
             "correspondence, bounded-exhaustive + random, header lists, layout with malloc_usable_size under ASan, real daemon with "
             "several Authorization headers, RFC 7616/7617 reference oracle.",
        note="Precondition: one readable byte behind the header value (the parser reads str[str_len]; it is the in-buffer NUL). Info-API "
             "theorem under Elem.infoWf (escaped nc <= 16 raw bytes, username* unescaped with complete pct-encoding).",
        design="DESIGN.md §3 C14", technique="Lean 4 proof + regenerated constants + model/code correspondence + RFC reference oracle"),
    "C16": dict(
        engine="hash",
        text="For MD5, SHA-1 (both copies), SHA-256 and SHA-512/256: machine-checked proof (22 theorems) that init -> any sequence "
             "of update calls (any split, any alignment, any starting context) -> finish on the model returns the RFC 1321 / FIPS "
             "180-4 digest of the concatenated data, never leaves the context buffer, writes the full-width bit length "
             "(finish_length_encoding_*) and leaves a re-usable context. The step tables, round constants, shifts, IVs and sizes are "
             "re-extracted from the C source each run (instrumented execution of the real transform) and proved equal to the "
             "standards' tables by decide over the whole tables. That the model's unbounded `length` is a faithful abstraction is a "
             "checked fact: no_narrowing_in_control_flow over the clang-AST list of every 64-bit-to-narrower conversion in the ten "
             "update/finish functions (each proved the identity on every value its operand can take); hash_functions_have_no_mutable_static_state (symbol-table scan of the five translation units). Tie: every length 0..300 "
             "one-shot/byte-by-byte, all 2-way splits <= 140, 16 misalignments under UBSan, white-box counter wrap-arounds, single "
             "update calls of 2^31 / 2^32 + d bytes read from a zero mapping, 4/8-thread concurrent hashing, hashlib triple comparison.",
        note="Specifications and the model's step/sigma/rotate functions are hand-written (validated by published vectors and hashlib). "
             "That a misaligned pointer is never dereferenced as a word is established by the UBSan run, not by the theorems.",
        design="DESIGN.md §3 C16", technique="Lean 4 refinement proof + instrumented-execution extractor + triple differential (model, code, hashlib)"),
    "C17": dict(
        engine="str",
        text="Lean 4 proofs (52 theorems) over a model of mhd_str.c for all inputs: decimal/hex parse and print are exact inverses "
             "with exact overflow and short-buffer detection; hex<->bin, percent-decoding (strict/lenient, copying = in place), "
             "quote/unquote/quoted comparison, base64 (RFC 4648, canonical padding), caseless comparison, has_token, remove_token "
             "(removeToken_exact: flag, output = reference editor, 'too small' exactly when the reference output does not fit, for "
             "every legal token and buffer size) and remove_tokens (removeTokens_exact on every comma-space list; removeToken's "
             "output provably is one) equal short reference specifications; none of them reads beyond the stated length or writes "
             "beyond the stated size. Tie: exhaustive (8/16-bit domains), bounded-exhaustive (strings <= 4/5 over 18 bytes x all "
             "buffer sizes; 2.0M remove_token and 0.5M remove_tokens calls per quick run) and random correspondence under ASan, "
             "Python references.",
        note="Tables/constants regenerated from the source; objects at most SSIZE_MAX bytes.",
        design="DESIGN.md §3 C17", technique="Lean 4 proof + correspondence + reference oracle"),
    "C18": dict(
        engine="locks",
        text="PARTIAL by nature. Proved (25 theorems; decide +kernel over the whole clang-AST-regenerated lock table, lifted by "
             "lemmas): lock-order graph acyclic => no wait cycle in an abstract thread/mutex model; no lock held while blocking; every exit of every function releases every mutex it took, lock wrappers excepted (locks_released_on_every_path over the regenerated exitsHoldingLock); "
             "lockset discipline for shared fields except two flags (kernel-checked witness that the full statement is false: F18b); "
             "writes under mutex, with no exception at all for the per-IP tree and the nonce table (per_ip_and_nonce_under_mutex); "
             "callbacks unlocked; stop sequencing and stop state machines (termination, every connection notified once; "
             "thread-per-connection exit path); every loop that releases a mutex inside its body re-reads its list cursor after "
             "re-locking (cursor_not_carried_across_unlock over the regenerated unlockLoops) and therefore the thread-per-connection "
             "join loop of close_all_connections joins every connection thread exactly once under any interleaving of thread exits "
             "(tpc_join_every_thread, with a kernel-checked witness for the carried-cursor variant). Validated dynamically, not "
             "proved: TSan stress (client threads x select/poll/epoll x pool/thread-per-connection, add_connection from application "
             "threads, cross-thread resume, shared callback/fd/static responses, digest auth with correct answers on a shared nonce "
             "table, 32 client addresses for per-IP accounting, stop under load with watchdog) and deterministic scenarios (pinadd, "
             "quietresume, stagger: all orders of three handlers finishing during MHD_stop_daemon).",
        note="Memory-order effects, libc/GnuTLS, scheduler liveness outside the model; dynamic part schedule-dependent. Known finding F18b "
             "(data race on connection->suspended in thread-per-connection mode) is reported as KNOWN-FINDING.",
        design="DESIGN.md §3 C18", technique="Lean 4 decide +kernel over a clang-AST-extracted table + abstract thread model + TSan stress with watchdog"),
    "C19": dict(
        engine="ws",
        text="Lean 4 proof (31 theorems) over a model of mhd_websocket.c (decoder state machine byte for byte, incremental UTF-8 "
             "checker, the real encoders): split independence of whole sessions for all states and chunk lists; no out-of-buffer "
             "access or non-termination for all states and inputs; each RFC 6455 violation class yields the prescribed status and an "
             "invalid stream; round trip through the modelled real encoders for single frames (roundtrip_data / _pingpong / _close / "
             "_close_noreason) and for FRAGMENTED messages in both decoder modes with interleaved ping/pong frames and fragment "
             "boundaries inside UTF-8 characters (roundtrip_fragmented_assembled, roundtrip_fragmented_fragments, fragments_binary, "
             "fragments_lossless), for every payload size, key, role and split; encoder calls between decode calls change nothing the decoder reads (encode_preserves_decoder_state, decode_interleaved_with_encode_independent). A close frame between fragments is not a round trip "
             "(=> bad_frame_sequence). Tie: regenerated enums, exhaustive header-pair (65 536) and UTF-8 comparison, structured "
             "random streams x splits, fragmented messages through the real encoders x 2 modes x splits (1168 messages / 13.9k "
             "scripts per quick run), independent RFC 6455 reference.",
        note="Accept-header helper oracle-only; alignment UB observed by a separate UBSan run.",
        design="DESIGN.md §3 C19", technique="Lean 4 proof + model/code correspondence + RFC 6455 reference oracle"),
    "C20": dict(
        engine="upg",
        text="Lean 4 proofs (40 theorems) over a model of the upgrade path (queue_response preconditions, execute_upgrade, "
             "mark_app_closed, resume/cleanup, stop) for every split of 'request head + following bytes', close timing and mode: "
             "lossless_handover (every byte beyond the head reaches the upgrade handler exactly once and in order), wire_is_head101 "
             "where the 101 head is C04's reply builder applied to the application's response object "
             "(upgrade_head_connection_tokens, head101_is_reply_builder, head101_explicit: for all response flags and all legal "
             "header call sequences nothing is added to the head, no Keep-Alive / close token, no Content-Length / "
             "Transfer-Encoding), no_daemon_io_after_handover, released_exactly_once_*, refused_unchanged, "
             "unmet_precondition_refused; TLS forwarding layer (process_urh): tls_forwarding_fifo (both directions prefix-preserving "
             "FIFOs for every interleaving of readiness and short reads/writes), tls_buffers_never_overrun, tls_no_loss_*, close "
             "propagation, tls_released_exactly_once. Tie: all 2-way splits x close timings x modes x arenas on the real daemon with "
             "per-fd I/O interposition; decorated-response family with an exact-head oracle; white-box engine on the real static "
             "process_urh with interposed GnuTLS record functions (1.5k histories quick); thread pools 1-4 and thread-per-connection "
             "x 3 close timings.",
        note="The TLS release path after the finish test is modelled but not run on the real daemon (no TLS handshake in the "
             "harness) - not claimed; requests with a body only with early reply; parser and ordinary reply bytes are C02/C04's.",
        design="DESIGN.md §3 C20", technique="Lean 4 proof + model/code correspondence (per-fd I/O interposition) + log oracle"),
    "C04": dict(
        engine="reply",
        text="Lean 4 proof (13 theorems): calls_preserve_inv (induction over every legal sequence of add/del header/footer calls "
             "from any constructor), reply_wellFramed against a strict HTTP/1.x response grammar, one_body_delimitation (incl. "
             "trailers only on chunked replies with a body), no_body_when_forbidden, user_headers_verbatim (headers and footers: "
             "once, in insertion order), close_announced_iff (a `close` token in a Connection field of the wire head <=> the daemon "
             "closes after the reply; the model copies of both string editors MHD_str_remove_token(s)_caseless_ are specified and "
             "proved, no assumed editor specs), continue_only_when_asked, error_reply_framed_and_closes "
             "(transmit_error_response_len: complete, WellFramed, never chunked, announces close), iovec_body_is_concatenation "
             "(MHD_create_response_from_iovec: counting/compaction loops, single-buffer shortcut, overflow checks; body = "
             "concatenation of the elements for every array). Tie: exhaustive differential of keepalive_possible / "
             "is_reply_body_needed / setup_reply_properties over their whole abstracted input space (33M points), bounded-exhaustive "
             "API sequences, white-box transmit_error_response_len (6.3k cases quick), full exchanges through the real daemon for "
             "every response constructor incl. degenerate-but-legal inputs (all iovec arrays of length <= 3 over "
             "zero-length/NULL/overlapping elements, NULL buffers, size-0 fd/pipe/callback), strict Python response parser.",
        note="Hypotheses: no insanity flag; header names without ':'; numeric application Content-Length; callback contract. Error "
             "replies are tied white-box (transmit_error_response_len), not as full malformed-request exchanges (C03/C05 do those).",
        design="DESIGN.md §3 C04", technique="Lean 4 proof + regenerated constants + exhaustive/bounded/random differential + strict-parser oracle"),
    "C05": dict(
        engine="sm",
        text="Lean 4 proof (23 theorems) over a model of the request state machine at MHD_CONNECTION_STATE granularity incl. interim "
             "(102) replies and upgrade responses (MHD_response_execute_upgrade_, upgradeDone, execution failure): protocol_accepts "
             "/ protocol_complete (every event list incl. timeouts, pool exhaustion, allocation and epoll_ctl failures, stop, "
             "resume, upgrade; every application) against the call-protocol automaton; aware_iff_open_request; closed_only_unaware; "
             "upgraded_holds_no_response; idle_fuel_sufficient / body_fuel_sufficient (the fuel of the two model loops always "
             "suffices: the theorems are about the unbounded while loops); upload_accounting / upload_complete_length / "
             "early_response_discards_upload (every body byte presented exactly once and in order, only the declined suffix "
             "re-presented; at the final call the summed offset equals Content-Length; an early-accepted response discards the "
             "upload); start_close_paired / refused_silent (connection notifications paired and bracketing; refused connections get none); tpc_shutdown_is_shutdownClose; regenerated repair flags with kernel-checked witnesses of F9/F9b/F9c/F14. Tie: placement grid 12 request "
             "shapes x phase boundaries x 8 actions x 28 handler behaviours (19.6k cases quick) + interim/upgrade scripts + "
             "interim-with-pipelined-bytes scripts + random histories on the real daemon (select + epoll): exact callback sequence "
             "and white-box state / client_aware at every settled point vs the model; independent automaton oracle.",
        note="Parsers abstracted to tokens; external select/epoll modes; chunked-upload total proved at process_request_body level "
             "only; suspended-resuming thread-per-connection exit and TLS upgrade forwarding not modelled.",
        design="DESIGN.md §3 C05", technique="Lean 4 refinement proof + predictive correspondence + independent automaton oracle"),
    "C06": dict(
        engine="loop",
        text="Lean 4 proof (61 theorems): round post-conditions for the select / poll / epoll loops, invariant over histories, "
             "no_lost_wakeup(_epoll), progress over a per-connection step constrained by laws; the safety laws are PROVED for C05's "
             "concrete state machine (connsm_satisfies_laws with the unbounded handleIdle; no_lost_wakeup_connsm, "
             "tpc_no_lost_wakeup_connsm, no_unexamined_input_when_quiescent), the progress laws and one epoll-only law stay "
             "assumptions monitored on every logged call; pipelined input (reply_sent_leaves_no_unexamined_input); every back-end's "
             "daemon cycle processes resumes (regenerated facts, daemon_cycle_processes_resumes); thread-per-connection loop "
             "(thread_main_handle_connection): tpc_invariant_reachable, tpc_no_lost_wakeup (at every blocking call: suspended => "
             "waits on the ITC for <= 250 ms; active => waits on the socket with zero timeout when work is pending; infinite timeout "
             "=> nothing could proceed), tpc_resume_is_served, tpc_progress, kernel-checked witnesses that the property fails "
             "without the F29 re-check and without the F30 early marking, two regenerated source facts (the file does not build on a "
             "tree lacking either fix); connsm_wait_class_in_table (C05's eventLoopInfo agrees with the regenerated state -> "
             "wait-class table). Tie: trace-driven per-round / per-thread-iteration prediction against the real daemon in external "
             "select and epoll modes and, in lock-step through a gated poll(), the internal poll thread and thread-per-connection "
             "with poll() and with select() (all threads park in the interposed poll()/select(); exhaustive schedules of <= 4 events "
             "on 2 connections); quiescence oracle.",
        note="For the concrete step ProgLaws and LawsEp.idle_quiet stay monitored assumptions; the thread pool is not run in "
             "lock-step; one thread iteration is atomic with respect to the daemon thread (finer interleavings: C18).",
        design="DESIGN.md §3 C06", technique="Lean 4 proof + regenerated flags + trace-driven model correspondence + log oracle"),
    "C07": dict(
        engine="send",
        text="Lean 4 proof (33 theorems) over a model of the write path (header / body / chunk / footer phases, combined header+body "
             "send, iovec with partial elements, sendfile with offset and fallback, pipe, callback readers incl. END_WITH_ERROR and "
             "premature END_OF_STREAM on known-size bodies, the interim 100-Continue message as a send phase of its own) and the "
             "upload path: delivered_prefix and session_prefix (all bytes the socket accepted over a keep-alive session are a prefix "
             "of the concatenated reply streams, no duplication or gap, for every fault script), done_delivers_all, "
             "transient_never_closes, transient_fair_delivers_all (any infinite schedule of transient results under an explicit "
             "fairness hypothesis), closed_never_sends, hard_error_closes, sendfile_error_policy, alloc_failure_*, upload_prefix / "
             "upload_complete / upload_transient_unchanged / upload_hard_error_closes, release_exactly_once and "
             "permanent_failure_releases_once (one completion notification iff the request was presented, response reference dropped "
             "exactly once, pool destroyed or reset exactly once, stable afterwards). Tie: syscall-level replay of fault-injected "
             "exchanges on the real daemon (interposed send/sendmsg/sendfile/recv, --wrap malloc/calloc with the failing site "
             "symbolised), completion count and code per reply and response refcount = 1 after release compared with the model, "
             "complete single-fault enumeration in the thorough tier.",
        note="Pool destroy/reset and cleanup counters proved in the "
             "model, tied only via sanitizers; chunked uploads are C03's.",
        design="DESIGN.md §3 C07", technique="Lean 4 proof (invariant over fault scripts + progress measure) + fault enumeration as validation"),
    "C15": dict(
        engine="pp",
        text="Lean 4 proof (11 theorems): urlencoded: url_roundtrip(_tokens), url_every_call_accepts, url_split_independent, "
             "url_no_fault for every field list, every split and every buffer size >= 256; multipart: multipart_all_inputs (all "
             "inputs and splits: no fault, loop termination, every delivered byte is a byte of the input), multipart_roundtrip and "
             "multipart_nested_roundtrip (form fields and nested multipart/mixed containers, header lines in any spelling the line "
             "parser reads back: for every buffer size, boundary, item list with arbitrary binary values incl. boundary look-alikes, "
             "and EVERY chunk list whose concatenation is the encoding: all calls accept and the delivered (key, filename, content "
             "type, transfer encoding, value pieces with contiguous offsets) equal the fields, fields after a container under their "
             "own metadata), multipart_split_independent. multipart_roundtrip_syntactic (purely syntactic side conditions for "
             "top-level fields), multipart_preamble_roundtrip (arbitrary preamble). An epilogue after the closing delimiter is "
             "answered with MHD_NO after all fields were delivered (witness, observation). Tie: all 2/3-way splits of small bodies, "
             "byte-by-byte, random, malformed, look-alike x border splits and line-fill cases at buffer sizes 256/257/300, "
             "header-quirk parts, nested bodies against the real MHD_post_process.",
        note="Multipart round trip and multipart loop termination not proved (stated in Props/C15.lean).",
        design="DESIGN.md §3 C15", technique="Lean 4 proof + translator for constants + bounded-exhaustive/random correspondence"),
    "C08": dict(
        engine="pool",
        text="Lean 4 theorems (45) over an executable model of memorypool.c (every op, every size_t argument, every op sequence by "
             "induction) for BOTH build variants of the pool (ordinary, and the red-zone / ASan-poison variant with its per-byte "
             "poison map; red-zone size and the form of the size-wrap test are regenerated): invariant, in-bounds / aligned (>= "
             "_Alignof(max_align_t)) / disjoint blocks each owning its red zone, refused => unchanged, contents preserved by realloc "
             "(relocation memcpy never overlaps), reset keeps exactly the requested prefix and zeroes the rest. Second sentence of "
             "the property as theorems over C01's composed ConnRead model: arena_hard_bound (for every stream, segmentation, arena "
             "size, pool config and level there is one arena of the configured size, all windows inside it, and a request that does "
             "not fit ends in a recorded refusal: 413/414/431/501 or a close), refusal_by_stage, no_space_413_iff; and for the reply "
             "head: header_build_in_bounds / footer_build_in_bounds (every store of build_header_response / add_user_headers lies "
             "below the buffer size, also on runs that end in a refusal; refines C04's builder). Tie: op-sequence correspondence on "
             "both pool builds (bounded-exhaustive + random, ASan/UBSan, poison map compared) with an independent interval-set "
             "oracle; buffer-layer and composed engines against the real statics with the exact no-space status per stage; "
             "byte-by-byte size sweeps of every part of the reply head across the fit/refuse boundary on the real daemon under the "
             "pool-poisoning build; oversized requests on the real daemon.",
        note="Trusted: Lean kernel; propext/Classical.choice/Quot.sound only; hand-written models + correspondence harness/h_pool.c "
             "(two builds), h_mem.c, h_daemon.c; extractor for ALIGN_SIZE / red zone / wrap-test form / page size. arena_hard_bound "
             "covers the external-polling branch of check_and_grow (the threaded modes' 500 is not modelled) and takes the reply as "
             "sent. API used as documented (live blocks with their current size; reset with n <= size).",
        design="DESIGN.md §3 C08",
        technique="Lean 4 proof (invariant by induction over operations, refinement to live-block set) + model/code correspondence"),
}

NA_REASON = "check not yet built in this round (machine-checked model planned per DESIGN.md §3); not claimed until its theorem and correspondence exist"


def main():
    checks = []
    for pid in ALL:
        if pid not in CLAIMED:
            continue
        c = CLAIMED[pid]
        checks.append({
            "property_id": pid,
            "quick_cmd": "python3 tools/check.py %s --tier quick" % pid,
            "thorough_cmd": "python3 tools/check.py %s --tier thorough" % pid,
            "evidence_file": "/verif/evidence/%s.json" % pid,
            "replay_cmd_template": "python3 tools/check.py %s --replay {path}" % pid,
            "engine": c["engine"],
            "level_claimed": {"category": "proof", "text": c["text"], "design_ref": c["design"]},
            "level_note": c["note"],
            "technique": c["technique"],
        })
    man = {
        "version": 1,
        "setup_cmd": "python3 tools/setup.py",
        "hooks": {"guard": "MHD_VERIF_HOOKS",
                  "enable": "no source hooks are needed: harnesses #include the real .c files (white-box) and interpose libc/clock at link time; flag -DMHD_VERIF_HOOKS is reserved and currently unused",
                  "baseline_off_cmd": "cd /repo && make -j8 check",
                  "source_commits": [], "add_only": True},
        "engines": [],
        "checks": checks,
        "notes": "All checks: regenerate lean/Mhd/Gen from /repo, lake build (proof obligations), #print axioms + sorry audit, "
                 "rebuild C harness from /repo working tree with ASan+UBSan, run model driver and real code on the same "
                 "scripts, independent oracle, verdict. See DESIGN.md.",
        "not_applicable": [{"property_id": p, "reason": NA.get(p, NA_REASON)} for p in ALL if p not in CLAIMED],
    }
    engines = {}
    for pid, c in CLAIMED.items():
        engines.setdefault(c["engine"], []).append(pid)
    for e, ps in sorted(engines.items()):
        man["engines"].append({"name": e, "path": "harness/h_%s.c + lean/Driver" % e, "serves_properties": sorted(ps),
                               "kind_free_text": "line-protocol correspondence engine (real C code vs Lean model driver)"})
    json.dump(man, open(os.path.join(VERIF, "MANIFEST.json"), "w"), indent=1)
    print("MANIFEST.json: %d checks, %d not_applicable" % (len(checks), len(man["not_applicable"])))


NA = {}

if __name__ == "__main__":
    main()
