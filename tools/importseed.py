#!/usr/bin/env python3
"""Confirm a seeded change written by an independent sub-agent and import it into /verif/seeded/<id>/.

usage: importseed.py <dir-with-patch.diff+meta.json+run.sh> <seed-id> [--no-makecheck]

Confirmation is done by the coordinator in its own scratch worktree of /repo HEAD (outside /repo and /verif):
  1. the demonstration passes (exit 0) on the unchanged tree,
  2. the patch applies, the library rebuilds, the demonstration fails (exit != 0),
  3. `make check` passes with the patch (0 FAIL in all sub-suites).
Only then is the directory copied to seeded/<id>/ with the field "confirmed" added to meta.json.
The worktree and its build output are removed afterwards.
"""
import json, os, re, shutil, subprocess, sys

VERIF = os.path.dirname(os.path.dirname(os.path.abspath(__file__)))


def sh(cmd, cwd=None, timeout=3600):
    r = subprocess.run(cmd, cwd=cwd, shell=isinstance(cmd, str), stdout=subprocess.PIPE, stderr=subprocess.STDOUT,
                       text=True, errors="replace", timeout=timeout)
    return r.returncode, r.stdout


def main():
    src, sid = sys.argv[1], sys.argv[2]
    makecheck = "--no-makecheck" not in sys.argv
    wt = "/tmp/importseed_%s_%d" % (sid, os.getpid())
    rc, out = sh(["git", "-C", "/repo", "worktree", "add", "-q", "--detach", wt, "HEAD"])
    if rc:
        print("worktree failed", out); return 2
    try:
        sh("rsync -a --ignore-existing --exclude .git /repo/ ./", cwd=wt)
        rc, out = sh("make -j8 -C src/microhttpd libmicrohttpd.la", cwd=wt)
        if rc:
            print("baseline build failed", out[-800:]); return 2
        sd = os.path.join(wt, "_seed", sid)
        os.makedirs(os.path.dirname(sd), exist_ok=True)
        shutil.copytree(src, sd)
        sh("chmod +x run.sh", cwd=sd)
        rc0, out0 = sh("./run.sh", cwd=sd, timeout=600)
        rca, outa = sh(["git", "apply", os.path.join(sd, "patch.diff")], cwd=wt)
        if rca:
            print("PATCH DOES NOT APPLY", outa); return 1
        rcb, outb = sh("make -j8 -C src/microhttpd libmicrohttpd.la", cwd=wt)
        if rcb:
            print("patched build failed", outb[-800:]); return 1
        rc1, out1 = sh("./run.sh", cwd=sd, timeout=600)
        fails = "skipped"
        mrc = 0
        if makecheck:
            mrc, mout = sh("make -j8 check", cwd=wt, timeout=3000)
            fails = " ".join(re.findall(r"^# FAIL:\s+\d+", mout, re.M)).replace("# ", "#").replace(" ", "")
            bad = [l for l in mout.splitlines() if l.startswith("FAIL:")]
            if bad:  # a test may fail because many suites share the machine: re-run the failing ones alone
                retry = []
                for l in bad:
                    t = l.split()[1]
                    for sub in ("src/microhttpd", "src/testcurl", "src/testcurl/https"):
                        if os.path.exists(os.path.join(wt, sub, t + ".c")) or os.path.exists(os.path.join(wt, sub, t)):
                            r2, o2 = sh("make check TESTS=%s" % t, cwd=os.path.join(wt, sub), timeout=1200)
                            retry.append((t, r2))
                            break
                fails += " retry=" + json.dumps(retry)
                mrc = 1 if any(r for _, r in retry) or not retry else 0
        ok = (rc0 == 0 and rc1 != 0 and mrc == 0)
        print("%s demo_without=%d demo_with=%d makecheck_rc=%d %s -> %s" % (sid, rc0, rc1, mrc, fails, "CONFIRMED" if ok else "REJECTED"))
        if not ok:
            print("--- demo without:\n" + out0[-1200:] + "\n--- demo with:\n" + out1[-1200:])
            return 1
        dst = os.path.join(VERIF, "seeded", sid)
        if os.path.exists(dst):
            shutil.rmtree(dst)
        shutil.copytree(src, dst, ignore=shutil.ignore_patterns("demo", "*.o", "a.out"))
        mp = os.path.join(dst, "meta.json")
        m = json.load(open(mp))
        m["confirmed"] = ("coordinator (tools/importseed.py, scratch worktree of /repo HEAD %s): demo passes without / fails with the patch; "
                          "make -j8 check passes with it (demo_without=%d demo_with=%d makecheck_rc=%d %s)"
                          % (sh(["git", "-C", "/repo", "rev-parse", "--short", "HEAD"])[1].strip(), rc0, rc1, mrc, fails))
        m["demo_files"] = sorted(os.listdir(dst))
        json.dump(m, open(mp, "w"), indent=1)
        return 0
    finally:
        sh(["git", "-C", "/repo", "worktree", "remove", "--force", wt])
        shutil.rmtree(wt, ignore_errors=True)


if __name__ == "__main__":
    sys.exit(main())
