/* Engine "upg" (property C20): copy of h_daemon.c extended with
 *  - a per-descriptor I/O log: recv/send/sendmsg/writev/shutdown/close on the
 *    SERVER side socket of every scripted connection are interposed; every call
 *    made by the library is logged (`io c=<c> <call> n=<ret>`), calls made by
 *    the harness itself in the role of the application (up-recv/up-send) are not;
 *  - `sock-close c=<c>` when the library closes the server-side descriptor,
 *    `bad-close` when any close() fails with EBADF (double close);
 *  - response kind `upgrade-hc`: the upgrade handler itself calls
 *    MHD_upgrade_action(CLOSE) before returning;
 *  - response kinds `upgrade-hcw` (close action inside the handler, then the handler goes on: it blocks on a gate) and
 *    `upgrade-w` (the handler blocks on the gate without closing: the script can issue the close action while the handler
 *    is still running); internal-thread modes only.  `up-await <c>` waits until the handler of connection c is at its
 *    gate, `up-release <c>` opens it;
 *  - `beh f=r<a>/r<b>`: if queueing response a is refused, response b is queued;
 *  - `resp … o=<flags>`: MHD_set_response_options in the middle of the header calls; response flags in
 *    the script use the canonical numbering strict=1 server=2 insanity=4 keepalive-hdr=8 head-only=16;
 *    after the object is built: `resp-obj rid=<r> rets=<call results> fa=<flags_auto, canonical:
 *    conn=1 close=2 te=4 cl=8 date=16> fl=<flags> ents=<H|F:name=value,…>` (MHD_get_response_headers);
 *  - `cfg nodate=1`: MHD_USE_SUPPRESS_DATE_NO_CLOCK; `cfg pool=<n>`: MHD_OPTION_THREAD_POOL_SIZE (with a *-thr mode);
 *  - white-box state snapshot around MHD_queue_response (state, response pointer,
 *    read-buffer offset, discard flag) printed as `unchanged=<0|1>`;
 *
 * Scripted in-process daemon harness (engines "conn" and "daemon").
 *
 * The real library objects are linked except mhd_mono_clock.c: the clock is
 * virtual (script op `tick`).  Connections are socketpairs handed to the
 * daemon with MHD_add_connection(); event-loop rounds are scripted.  Every
 * callback the library makes is logged as one line; after every round the
 * bytes each client received, EOF/reset, the timeout hint and the connection
 * count are logged.  See DESIGN.md Appendix F for the vocabulary.
 *
 * No address, fd number or Date value is ever printed.
 */
#include "MHD_config.h"
#include "internal.h"
#include "mhd_str.h"
#include <microhttpd.h>
#include <dlfcn.h>
#include <sys/uio.h>
#include <sys/types.h>
#include <sys/socket.h>
#include <sys/select.h>
#include <netinet/in.h>
#include <arpa/inet.h>
#include <fcntl.h>
#include <unistd.h>
#include <errno.h>
#include <signal.h>
#include <pthread.h>
#include <stdarg.h>
#include <semaphore.h>
#include "common/lp.h"

/* ---------------------------------------------------------------- clock */
static uint64_t vclock_ms = 1000000;
void MHD_monotonic_sec_counter_init (void) {}
void MHD_monotonic_sec_counter_finish (void) {}
time_t MHD_monotonic_sec_counter (void) { return (time_t) (vclock_ms / 1000); }
uint64_t MHD_monotonic_msec_counter (void) { return vclock_ms; }

/* ---------------------------------------------------------------- config */
static struct {
  char mode[16]; size_t mem, incr; int lvl; unsigned limit, perip, timeout;
  int upgrade, suspend, have_lvl; unsigned nonce_tbl; int nodate; unsigned pool;
} cfg = { "select", 0, 0, 0, 0, 0, 0, 0, 0, 0, 0, 0, 0 };

static struct MHD_Daemon *d;

#define MAXC 16
#define MAXR 32
#define MAXRESP 32
#define MAXKV 64

struct beh {           /* behaviour for one request */
  int used;
  char f[16];          /* first call: c | r<rid> | no | s<k> */
  char l[16];          /* final call: r<rid> | no | s<k> */
  long take[8]; int ntake;    /* -1 = all */
  int ur_n, ur_rid;    /* reply at upload call n (or -1) */
  int us_n, us_k;      /* suspend at upload call n for k rounds */
};

struct snap { const char *p; size_t len; uint8_t *copy; };

struct req {           /* per-request application context */
  int c, r;
  int ncalls, nupload, nfinal;
  int replied, suspended_once_final, suspended_once_first;
  struct snap snaps[3 + 2 * MAXKV]; int nsnap;
  int upg_pending;
};

struct conn {
  int used, cfd, sfd, started, closed_seen, eof_seen, addr;
  int nreq;                 /* requests presented so far */
  struct MHD_Connection *mc;
  int resume_in;            /* rounds until auto-resume; -1 none */
  struct beh beh[MAXR];
  /* upgrade */
  struct MHD_UpgradeResponseHandle *urh; MHD_socket usock; int upgraded;
  sem_t gate; volatile int at_gate;
  int ctx_serial;
};
static struct conn conns[MAXC];

/* ---------------------------------------------------------------- I/O log */
static __thread int app_io;      /* >0: the harness acts as the application */
static int conn_of_sfd (int fd)
{
  int c;
  if (fd < 0) return -1;
  for (c = 0; c < MAXC; c++) if (conns[c].used && conns[c].sfd == fd) return c;
  return -1;
}
#define REAL(name) static __typeof__(&name) real; if (!real) real = (__typeof__(&name)) dlsym (RTLD_NEXT, #name)
static void iolog (int fd, const char *what, long n)
{
  int c;
  if (app_io) return;
  c = conn_of_sfd (fd);
  if (c >= 0) printf ("io c=%d %s n=%ld\n", c, what, n);
}
ssize_t recv (int fd, void *buf, size_t len, int flags)
{ REAL (recv); ssize_t r = real (fd, buf, len, flags); int e = errno; iolog (fd, "recv", (long) r); errno = e; return r; }
ssize_t send (int fd, const void *buf, size_t len, int flags)
{ REAL (send); ssize_t r = real (fd, buf, len, flags); int e = errno; iolog (fd, "send", (long) r); errno = e; return r; }
ssize_t sendmsg (int fd, const struct msghdr *m, int flags)
{ REAL (sendmsg); ssize_t r = real (fd, m, flags); int e = errno; iolog (fd, "sendmsg", (long) r); errno = e; return r; }
ssize_t writev (int fd, const struct iovec *iov, int cnt)
{ REAL (writev); ssize_t r = real (fd, iov, cnt); int e = errno; iolog (fd, "writev", (long) r); errno = e; return r; }
int shutdown (int fd, int how)
{ REAL (shutdown); int r = real (fd, how); int e = errno; iolog (fd, "shutdown", (long) r); errno = e; return r; }
int close (int fd)
{
  REAL (close); int c = app_io ? -1 : conn_of_sfd (fd); int r, e;
  if (c >= 0) { printf ("sock-close c=%d\n", c); conns[c].sfd = -1; }
  r = real (fd); e = errno;
  if (0 != r && EBADF == e) printf ("bad-close\n");
  errno = e; return r;
}

struct hdrspec { int kind; /* 0 add hdr, 1 add footer, 2 del hdr, 3 set options */ uint8_t *n, *v; unsigned fl; };
struct resp {
  int used; char kind[16]; unsigned code; size_t size; unsigned flags;
  size_t cbmax; int cbnr; int cberr_at; /* content callback: max per call, not-ready count, error at pos (-1) */
  struct hdrspec h[16]; int nh;
};
static struct resp resps[MAXRESP];
static int freecb_count[MAXRESP];

/* every log line is written under the stdio lock: in the internal-thread modes the daemon thread
   and the script thread both print */
static void out (const char *fmt, ...)
{
  va_list ap; va_start (ap, fmt); flockfile (stdout); vprintf (fmt, ap); putchar ('\n'); funlockfile (stdout); va_end (ap);
}

static void puthexs (const char *s, size_t n)
{ if (NULL == s) { putchar ('~'); return; } lp_puthex (stdout, s, n); }

static uint8_t pat (int rid, size_t off) { return (uint8_t) ('a' + ((size_t) rid * 7 + off) % 26); }

/* ---------------------------------------------------------------- responses */
struct cbctx { int rid; int calls; };

static ssize_t content_cb (void *cls, uint64_t pos, char *buf, size_t max)
{
  struct cbctx *x = (struct cbctx *) cls;
  struct resp *r = &resps[x->rid];
  size_t n, i;
  x->calls++;
  if (x->calls <= r->cbnr) { out ("reader rid=%d pos=%" PRIu64 " -> 0", x->rid, pos); return 0; }
  if (r->cberr_at >= 0 && pos >= (uint64_t) r->cberr_at)
  { out ("reader rid=%d pos=%" PRIu64 " -> err", x->rid, pos); return MHD_CONTENT_READER_END_WITH_ERROR; }
  if (pos >= r->size) { out ("reader rid=%d pos=%" PRIu64 " -> eos", x->rid, pos); return MHD_CONTENT_READER_END_OF_STREAM; }
  n = r->size - (size_t) pos;
  if (n > max) n = max;
  if (r->cbmax && n > r->cbmax) n = r->cbmax;
  for (i = 0; i < n; i++) buf[i] = (char) pat (x->rid, (size_t) pos + i);
  out ("reader rid=%d pos=%" PRIu64 " -> %zu", x->rid, pos, n);
  return (ssize_t) n;
}
static void content_free (void *cls) { struct cbctx *x = (struct cbctx *) cls; out ("free-cb rid=%d", x->rid); freecb_count[x->rid]++; free (x); }
static void buf_free (void *cls) { struct cbctx *x = (struct cbctx *) cls; out ("free-cb rid=%d", x->rid); freecb_count[x->rid]++; free (x); }

static int threaded (void);
static void upgrade_cb (void *cls, struct MHD_Connection *connection, void *req_cls,
                        const char *extra_in, size_t extra_in_size, MHD_socket sock,
                        struct MHD_UpgradeResponseHandle *urh)
{
  struct req *rq = (struct req *) req_cls;
  const int cidx = rq->c;
  (void) connection;
  flockfile (stdout); printf ("upgrade c=%d extra=", rq->c); puthexs (extra_in, extra_in_size); putchar ('\n'); funlockfile (stdout);
  conns[rq->c].urh = urh; conns[rq->c].usock = sock; conns[rq->c].upgraded = 1;
  printf ("upgrade-sock c=%d same=%d\n", rq->c, (int) (sock == conns[rq->c].sfd));
  if (0 != (1 & (intptr_t) cls))
  { /* close action from inside the upgrade handler */
    out ("up-close c=%d -> %d", cidx, (int) MHD_upgrade_action (urh, MHD_UPGRADE_ACTION_CLOSE));
    conns[cidx].upgraded = 0;
  }
  if (0 != (2 & (intptr_t) cls) && threaded ())
  { /* the handler goes on for a while (until the script opens the gate) */
    const int c = cidx;
    out ("up-waiting c=%d", c);
    conns[c].at_gate = 1;
    while (0 != sem_wait (&conns[c].gate) && EINTR == errno) ;
    conns[c].at_gate = 2;
    out ("up-resumed c=%d", c);
  }
}

/* canonical flag numbering of the line protocol <-> the real enum values */
static unsigned rf_real (unsigned c)
{
  return ((c & 1) ? (unsigned) MHD_RF_HTTP_1_0_COMPATIBLE_STRICT : 0u) | ((c & 2) ? (unsigned) MHD_RF_HTTP_1_0_SERVER : 0u)
         | ((c & 4) ? (unsigned) MHD_RF_INSANITY_HEADER_CONTENT_LENGTH : 0u) | ((c & 8) ? (unsigned) MHD_RF_SEND_KEEP_ALIVE_HEADER : 0u)
         | ((c & 16) ? (unsigned) MHD_RF_HEAD_ONLY_RESPONSE : 0u);
}
static unsigned rf_canon (unsigned f)
{
  return ((f & MHD_RF_HTTP_1_0_COMPATIBLE_STRICT) ? 1u : 0u) | ((f & MHD_RF_HTTP_1_0_SERVER) ? 2u : 0u)
         | ((f & MHD_RF_INSANITY_HEADER_CONTENT_LENGTH) ? 4u : 0u) | ((f & MHD_RF_SEND_KEEP_ALIVE_HEADER) ? 8u : 0u)
         | ((f & MHD_RF_HEAD_ONLY_RESPONSE) ? 16u : 0u);
}
static unsigned raf_canon (unsigned f)
{
  return ((f & MHD_RAF_HAS_CONNECTION_HDR) ? 1u : 0u) | ((f & MHD_RAF_HAS_CONNECTION_CLOSE) ? 2u : 0u)
         | ((f & MHD_RAF_HAS_TRANS_ENC_CHUNKED) ? 4u : 0u) | ((f & MHD_RAF_HAS_CONTENT_LENGTH) ? 8u : 0u)
         | ((f & MHD_RAF_HAS_DATE_HDR) ? 16u : 0u);
}
static enum MHD_Result ent_iter (void *cls, enum MHD_ValueKind kind, const char *key, const char *value)
{
  int *n = (int *) cls;
  if ((*n)++) putchar (',');
  printf ("%c:", MHD_HEADER_KIND == kind ? 'H' : 'F'); puthexs (key, strlen (key)); putchar ('='); puthexs (value, strlen (value));
  return MHD_YES;
}

static struct MHD_Response *make_resp (int rid)
{
  struct resp *r = &resps[rid];
  struct MHD_Response *m = NULL;
  size_t i;
  if (!r->used) { /* default response */
    r->used = 1; strcpy (r->kind, "copy"); r->code = 200; r->size = 5; r->cberr_at = -1; }
  if (!strcmp (r->kind, "static") || !strcmp (r->kind, "copy") || !strcmp (r->kind, "freecb"))
  {
    char *b = (char *) malloc (r->size ? r->size : 1);
    for (i = 0; i < r->size; i++) b[i] = (char) pat (rid, i);
    if (!strcmp (r->kind, "copy")) { m = MHD_create_response_from_buffer_copy (r->size, b); free (b); }
    else if (!strcmp (r->kind, "freecb"))
    { /* buffer freed together with ctx: use with-free-callback-cls */
      struct cbctx *x = (struct cbctx *) calloc (1, sizeof(*x)); x->rid = rid;
      m = MHD_create_response_from_buffer_with_free_callback_cls (r->size, b, &buf_free, x);
      /* note: b leaks by design of this tiny harness unless tracked */
      (void) b;
    }
    else { static char *keep[4096]; static int nkeep; if (nkeep < 4096) keep[nkeep++] = b;
           m = MHD_create_response_from_buffer_static (r->size, b); }
  }
  else if (!strcmp (r->kind, "empty")) m = MHD_create_response_empty (MHD_RF_NONE);
  else if (!strcmp (r->kind, "cb-known") || !strcmp (r->kind, "cb-unknown"))
  {
    struct cbctx *x = (struct cbctx *) calloc (1, sizeof(*x)); x->rid = rid;
    m = MHD_create_response_from_callback (!strcmp (r->kind, "cb-known") ? (uint64_t) r->size : MHD_SIZE_UNKNOWN,
                                           1024, &content_cb, x, &content_free);
  }
  else if (!strcmp (r->kind, "fd") || !strcmp (r->kind, "fdoff"))
  {
    char name[] = "/tmp/vhXXXXXX"; int fd = mkstemp (name); size_t off = !strcmp (r->kind, "fdoff") ? 3 : 0;
    unlink (name);
    for (i = 0; i < r->size + off; i++) { char ch = (i < off) ? '#' : (char) pat (rid, i - off); if (1 != write (fd, &ch, 1)) abort (); }
    m = off ? MHD_create_response_from_fd_at_offset64 (r->size, fd, off) : MHD_create_response_from_fd (r->size, fd);
  }
  else if (!strcmp (r->kind, "pipe"))
  {
    int p[2]; if (0 != pipe (p)) abort ();
    for (i = 0; i < r->size; i++) { char ch = (char) pat (rid, i); if (1 != write (p[1], &ch, 1)) abort (); }
    close (p[1]);
    m = MHD_create_response_from_pipe (p[0]);
  }
  else if (!strcmp (r->kind, "iovec"))
  {
    struct MHD_IoVec iov[3]; static char *keep[4096]; static int nkeep;
    char *b = (char *) malloc (r->size ? r->size : 1); size_t a = r->size / 3, c2 = r->size / 3;
    for (i = 0; i < r->size; i++) b[i] = (char) pat (rid, i);
    if (nkeep < 4096) keep[nkeep++] = b;
    iov[0].iov_base = b; iov[0].iov_len = a; iov[1].iov_base = b + a; iov[1].iov_len = c2;
    iov[2].iov_base = b + a + c2; iov[2].iov_len = r->size - a - c2;
    m = MHD_create_response_from_iovec (iov, 3, NULL, NULL);
  }
  else if (!strcmp (r->kind, "upgrade")) m = MHD_create_response_for_upgrade (&upgrade_cb, NULL);
  else if (!strcmp (r->kind, "upgrade-hc")) m = MHD_create_response_for_upgrade (&upgrade_cb, (void *) 1);
  else if (!strcmp (r->kind, "upgrade-w")) m = MHD_create_response_for_upgrade (&upgrade_cb, (void *) 2);
  else if (!strcmp (r->kind, "upgrade-hcw")) m = MHD_create_response_for_upgrade (&upgrade_cb, (void *) 3);
  if (NULL == m) return NULL;
  if (r->flags) MHD_set_response_options (m, (enum MHD_ResponseFlags) rf_real (r->flags), MHD_RO_END);
  {
    int rets[16], nents = 0;
    for (i = 0; i < (size_t) r->nh; i++)
    {
      enum MHD_Result q;
      if (0 == r->h[i].kind) q = MHD_add_response_header (m, (char *) r->h[i].n, (char *) r->h[i].v);
      else if (1 == r->h[i].kind) q = MHD_add_response_footer (m, (char *) r->h[i].n, (char *) r->h[i].v);
      else if (2 == r->h[i].kind) q = MHD_del_response_header (m, (char *) r->h[i].n, (char *) r->h[i].v);
      else q = MHD_set_response_options (m, (enum MHD_ResponseFlags) rf_real (r->h[i].fl), MHD_RO_END);
      rets[i] = (MHD_YES == q) ? 1 : 0;
    }
    flockfile (stdout);
    printf ("resp-obj rid=%d rets=", rid);
    for (i = 0; i < (size_t) r->nh; i++) printf ("%s%d", i ? "," : "", rets[i]);
    printf (" fa=%u fl=%u ents=", raf_canon ((unsigned) m->flags_auto), rf_canon ((unsigned) m->flags));
    MHD_get_response_headers (m, &ent_iter, &nents);
    putchar ('\n');
    funlockfile (stdout);
  }
  return m;
}

/* ---------------------------------------------------------------- callbacks */
struct kvacc { int n; };
static enum MHD_Result kv_iter (void *cls, enum MHD_ValueKind kind, const char *key, size_t key_size,
                                const char *value, size_t value_size)
{
  struct kvacc *a = (struct kvacc *) cls;
  if (a->n++) putchar (',');
  printf ("%d:", (int) kind); puthexs (key, key_size); putchar ('='); puthexs (value, value_size);
  return MHD_YES;
}

struct snapacc { struct req *rq; };
static void add_snap (struct req *rq, const char *p, size_t len)
{
  if (NULL == p || rq->nsnap >= (int) (sizeof(rq->snaps) / sizeof(rq->snaps[0]))) return;
  rq->snaps[rq->nsnap].p = p; rq->snaps[rq->nsnap].len = len;
  rq->snaps[rq->nsnap].copy = (uint8_t *) malloc (len ? len : 1); memcpy (rq->snaps[rq->nsnap].copy, p, len);
  rq->nsnap++;
}
static enum MHD_Result snap_iter (void *cls, enum MHD_ValueKind kind, const char *key, size_t key_size,
                                  const char *value, size_t value_size)
{
  struct snapacc *a = (struct snapacc *) cls; (void) kind;
  add_snap (a->rq, key, key_size + 1); /* incl. terminating NUL */
  if (value) add_snap (a->rq, value, value_size + 1);
  return MHD_YES;
}
static void check_snaps (struct req *rq, const char *when)
{
  int i;
  for (i = 0; i < rq->nsnap; i++)
    if (0 != memcmp (rq->snaps[i].p, rq->snaps[i].copy, rq->snaps[i].len))
    { printf ("unstable c=%d r=%d at=%s idx=%d was=", rq->c, rq->r, when, i);
      lp_puthex (stdout, rq->snaps[i].copy, rq->snaps[i].len); printf (" now=");
      lp_puthex (stdout, rq->snaps[i].p, rq->snaps[i].len); putchar ('\n'); return; }
}
static void free_req (struct req *rq)
{ int i; for (i = 0; i < rq->nsnap; i++) free (rq->snaps[i].copy); free (rq); }

static int conn_index (struct MHD_Connection *mc)
{
  const union MHD_ConnectionInfo *ci = MHD_get_connection_info (mc, MHD_CONNECTION_INFO_SOCKET_CONTEXT);
  if (ci && ci->socket_context) return (int) (intptr_t) ci->socket_context - 1;
  return -1;
}

static void notify_conn (void *cls, struct MHD_Connection *mc, void **socket_context,
                         enum MHD_ConnectionNotificationCode toe)
{
  (void) cls;
  if (MHD_CONNECTION_NOTIFY_STARTED == toe)
  {
    int c = -1;
    const union MHD_ConnectionInfo *ci = MHD_get_connection_info (mc, MHD_CONNECTION_INFO_CLIENT_ADDRESS);
    if (ci && ci->client_addr && AF_INET == ci->client_addr->sa_family)
      c = (int) ntohs (((const struct sockaddr_in *) ci->client_addr)->sin_port) - 1000;
    if (c < 0 || c >= MAXC) c = -1;
    *socket_context = (void *) (intptr_t) (c + 1);
    if (c >= 0) { conns[c].mc = mc; conns[c].started = 1; }
    out ("conn-start c=%d", c);
  }
  else
  {
    int c = (int) (intptr_t) *socket_context - 1;
    out ("conn-close c=%d", c);
    if (c >= 0) { conns[c].mc = NULL; conns[c].started = 2; }
  }
}

static void *uri_log (void *cls, const char *uri, struct MHD_Connection *mc)
{
  (void) cls;
  flockfile (stdout); printf ("uri-log c=%d uri=", conn_index (mc)); puthexs (uri, strlen (uri)); putchar ('\n'); funlockfile (stdout);
  return NULL;
}

static void completed (void *cls, struct MHD_Connection *mc, void **req_cls, enum MHD_RequestTerminationCode toe)
{
  struct req *rq = (struct req *) *req_cls;
  (void) cls;
  if (NULL == rq) { out ("completed c=%d r=? code=%d ctx=null", conn_index (mc), (int) toe); return; }
  check_snaps (rq, "completed");
  out ("completed c=%d r=%d code=%d", rq->c, rq->r, (int) toe);
  *req_cls = NULL;
  free_req (rq);
}

static int parse_rid (const char *s) { return atoi (s + 1); }

static enum MHD_Result do_reply (struct MHD_Connection *mc, struct req *rq, int rid)
{
  struct MHD_Response *m = make_resp (rid);
  enum MHD_Result q;
  if (NULL == m) { out ("queued c=%d r=%d rid=%d -> no-response-object", rq->c, rq->r, rid); return MHD_NO; }
  {
    struct { int st; const void *rp; size_t rbo, rbs; const char *rb; int disc, susp; uint64_t rem; unsigned eli; } a, z;
    a.st = (int) mc->state; a.rp = mc->rp.response; a.rbo = mc->read_buffer_offset; a.rbs = mc->read_buffer_size;
    a.rb = mc->read_buffer; a.disc = mc->discard_request; a.susp = mc->suspended; a.rem = mc->rq.remaining_upload_size;
    a.eli = (unsigned) mc->event_loop_info;
    q = MHD_queue_response (mc, resps[rid].code, m);
    z.st = (int) mc->state; z.rp = mc->rp.response; z.rbo = mc->read_buffer_offset; z.rbs = mc->read_buffer_size;
    z.rb = mc->read_buffer; z.disc = mc->discard_request; z.susp = mc->suspended; z.rem = mc->rq.remaining_upload_size;
    z.eli = (unsigned) mc->event_loop_info;
    out ("queued c=%d r=%d rid=%d code=%u -> %d unchanged=%d", rq->c, rq->r, rid, resps[rid].code, (int) q,
         (int) (a.st == z.st && a.rp == z.rp && a.rbo == z.rbo && a.rbs == z.rbs && a.rb == z.rb && a.disc == z.disc
                && a.susp == z.susp && a.rem == z.rem && a.eli == z.eli));
  }
  MHD_destroy_response (m);
  if (MHD_YES == q) rq->replied = 1;
  return q;
}

/* spec: r<a> or r<a>/r<b> (b is queued when a is refused) */
static enum MHD_Result do_reply_spec (struct MHD_Connection *mc, struct req *rq, const char *spec)
{
  const char *sl = strchr (spec, '/');
  enum MHD_Result q = do_reply (mc, rq, parse_rid (spec));
  if (MHD_YES != q && NULL != sl && 'r' == sl[1]) q = do_reply (mc, rq, parse_rid (sl + 1));
  return q;
}

static void do_suspend (struct MHD_Connection *mc, struct req *rq, int k)
{
  MHD_suspend_connection (mc);
  conns[rq->c].resume_in = k;
  out ("suspend c=%d r=%d", rq->c, rq->r);
}

static enum MHD_Result handler (void *cls, struct MHD_Connection *mc, const char *url, const char *method,
                                const char *version, const char *upload_data, size_t *upload_data_size,
                                void **req_cls)
{
  int c = conn_index (mc);
  struct req *rq = (struct req *) *req_cls;
  struct beh *b;
  struct kvacc acc = {0};
  const union MHD_ConnectionInfo *ci;
  const char *phase;
  static struct beh defbeh;
  (void) cls;
  if (c < 0) { out ("handler c=? (no socket context)"); return MHD_NO; }
  if (NULL == rq)
  {
    struct snapacc sa;
    rq = (struct req *) calloc (1, sizeof(*rq));
    rq->c = c; rq->r = conns[c].nreq++;
    *req_cls = rq;
    phase = "first";
    add_snap (rq, url, strlen (url) + 1); add_snap (rq, method, strlen (method) + 1); add_snap (rq, version, strlen (version) + 1);
    sa.rq = rq;
    MHD_get_connection_values_n (mc, (enum MHD_ValueKind) (MHD_HEADER_KIND | MHD_COOKIE_KIND | MHD_GET_ARGUMENT_KIND), &snap_iter, &sa);
  }
  else phase = (0 != *upload_data_size) ? "upload" : "final";
  if (rq->replied) printf ("protocol-error c=%d r=%d handler-called-after-reply\n", rq->c, rq->r);
  check_snaps (rq, phase);
  rq->ncalls++;
  b = (rq->r < MAXR && conns[c].beh[rq->r].used) ? &conns[c].beh[rq->r] : &defbeh;
  if (!defbeh.used) { defbeh.used = 1; strcpy (defbeh.f, "c"); strcpy (defbeh.l, "r0"); defbeh.ntake = 0; defbeh.ur_n = -1; defbeh.us_n = -1; }

  flockfile (stdout);
  printf ("handler c=%d r=%d phase=%s method=", rq->c, rq->r, phase); puthexs (method, strlen (method));
  printf (" url="); puthexs (url, strlen (url)); printf (" ver="); puthexs (version, strlen (version));
  printf (" up=");
  if (0 != *upload_data_size) lp_puthex (stdout, upload_data, *upload_data_size); else putchar ('-');
  if (rq->ncalls == 1)
  {
    printf (" kv=[");
    MHD_get_connection_values_n (mc, (enum MHD_ValueKind) (MHD_HEADER_KIND | MHD_COOKIE_KIND | MHD_GET_ARGUMENT_KIND | MHD_FOOTER_KIND),
                                 &kv_iter, &acc);
    putchar (']');
    ci = MHD_get_connection_info (mc, MHD_CONNECTION_INFO_REQUEST_HEADER_SIZE);
    printf (" hdrsize=%zu", ci ? ci->header_size : (size_t) 0);
  }
  else if (!strcmp (phase, "final"))
  { /* trailers become visible at the final call */
    printf (" footers=[");
    MHD_get_connection_values_n (mc, MHD_FOOTER_KIND, &kv_iter, &acc);
    putchar (']');
  }
  putchar ('\n');
  funlockfile (stdout);

  if (!strcmp (phase, "first"))
  {
    if (b->f[0] == 'r') return do_reply_spec (mc, rq, b->f) == MHD_YES ? MHD_YES : MHD_NO;
    if (!strcmp (b->f, "no")) return MHD_NO;
    if (b->f[0] == 's') { do_suspend (mc, rq, atoi (b->f + 1)); return MHD_YES; }
    return MHD_YES;
  }
  if (!strcmp (phase, "upload"))
  {
    int n = rq->nupload++;
    long t = (b->ntake > 0) ? b->take[n % b->ntake] : -1;
    size_t avail = *upload_data_size;
    size_t take = (t < 0 || (size_t) t > avail) ? avail : (size_t) t;
    *upload_data_size = avail - take;
    out ("took c=%d r=%d n=%zu of=%zu", rq->c, rq->r, take, avail);
    if (b->ur_n == n) return do_reply (mc, rq, b->ur_rid) == MHD_YES ? MHD_YES : MHD_NO;
    if (b->us_n == n) do_suspend (mc, rq, b->us_k);
    return MHD_YES;
  }
  /* final */
  rq->nfinal++;
  if (b->l[0] == 's' && !rq->suspended_once_final)
  { rq->suspended_once_final = 1; do_suspend (mc, rq, atoi (b->l + 1)); return MHD_YES; }
  if (!strcmp (b->l, "no")) return MHD_NO;
  if (b->l[0] == 'r') return do_reply_spec (mc, rq, b->l) == MHD_YES ? MHD_YES : MHD_NO;
  return do_reply (mc, rq, 0) == MHD_YES ? MHD_YES : MHD_NO;
}

/* ---------------------------------------------------------------- rounds */
static void drain_clients (void)
{
  int c;
  for (c = 0; c < MAXC; c++)
  {
    static uint8_t buf[1 << 16];
    if (!conns[c].used || conns[c].cfd < 0 || conns[c].eof_seen) continue;
    for (;;)
    {
      ssize_t r = recv (conns[c].cfd, buf, sizeof(buf), MSG_DONTWAIT);
      if (r > 0) { flockfile (stdout); printf ("wire c=%d ", c); lp_puthex (stdout, buf, (size_t) r); putchar ('\n'); funlockfile (stdout); continue; }
      if (0 == r) { out ("eof c=%d", c); conns[c].eof_seen = 1; }
      else if (errno == ECONNRESET || errno == EPIPE) { out ("rst c=%d", c); conns[c].eof_seen = 1; }
      break;
    }
  }
}

static void report (void)
{
  uint64_t to;
  const union MHD_DaemonInfo *di;
  drain_clients ();
  if (NULL == d) return;
  if (MHD_YES == MHD_get_timeout64 (d, &to)) out ("hint %" PRIu64, to); else out ("hint none");
  di = MHD_get_daemon_info (d, MHD_DAEMON_INFO_CURRENT_CONNECTIONS);
  out ("conns %u", di ? di->num_connections : 0u);
}

static int threaded (void) { return NULL != strstr (cfg.mode, "-thr") || !strcmp (cfg.mode, "tpc"); }

static void one_round (void)
{
  int c;
  for (c = 0; c < MAXC; c++)
    if (conns[c].used && conns[c].resume_in >= 0 && conns[c].mc)
    {
      if (0 == conns[c].resume_in) { conns[c].resume_in = -1; out ("resume c=%d", c); MHD_resume_connection (conns[c].mc); }
      else conns[c].resume_in--;
    }
  if (threaded ()) { usleep (20000); return; }
  if (!strcmp (cfg.mode, "select"))
  {
    fd_set rs, ws, es; MHD_socket maxfd = 0; struct timeval tv = {0, 0};
    FD_ZERO (&rs); FD_ZERO (&ws); FD_ZERO (&es);
    if (MHD_YES != MHD_get_fdset2 (d, &rs, &ws, &es, &maxfd, FD_SETSIZE)) { out ("fdset-failed"); return; }
    select ((int) maxfd + 1, &rs, &ws, &es, &tv);
    MHD_run_from_select2 (d, &rs, &ws, &es, FD_SETSIZE);
  }
  else MHD_run_wait (d, 0);
}

/* ---------------------------------------------------------------- script */
static int kv (const char *w, const char *key, const char **val)
{ size_t n = strlen (key); if (!strncmp (w, key, n) && w[n] == '=') { *val = w + n + 1; return 1; } return 0; }

static void start_daemon (void)
{
  unsigned flags = MHD_USE_NO_LISTEN_SOCKET;
  struct MHD_OptionItem ops[16]; int n = 0;
  if (cfg.suspend) flags |= MHD_ALLOW_SUSPEND_RESUME;
  if (cfg.upgrade) flags |= MHD_ALLOW_UPGRADE;
  if (cfg.nodate) flags |= MHD_USE_SUPPRESS_DATE_NO_CLOCK;
  if (!strcmp (cfg.mode, "epoll")) flags |= MHD_USE_EPOLL;
  else if (!strcmp (cfg.mode, "poll-thr")) flags |= MHD_USE_POLL | MHD_USE_INTERNAL_POLLING_THREAD | MHD_USE_ITC;
  else if (!strcmp (cfg.mode, "select-thr")) flags |= MHD_USE_INTERNAL_POLLING_THREAD | MHD_USE_ITC;
  else if (!strcmp (cfg.mode, "epoll-thr")) flags |= MHD_USE_EPOLL | MHD_USE_INTERNAL_POLLING_THREAD | MHD_USE_ITC;
  else if (!strcmp (cfg.mode, "tpc")) flags |= MHD_USE_THREAD_PER_CONNECTION | MHD_USE_INTERNAL_POLLING_THREAD | MHD_USE_ITC;
  if (cfg.mem) { ops[n].option = MHD_OPTION_CONNECTION_MEMORY_LIMIT; ops[n].value = (intptr_t) cfg.mem; ops[n++].ptr_value = NULL; }
  if (cfg.incr) { ops[n].option = MHD_OPTION_CONNECTION_MEMORY_INCREMENT; ops[n].value = (intptr_t) cfg.incr; ops[n++].ptr_value = NULL; }
  if (cfg.have_lvl) { ops[n].option = MHD_OPTION_CLIENT_DISCIPLINE_LVL; ops[n].value = cfg.lvl; ops[n++].ptr_value = NULL; }
  if (cfg.limit) { ops[n].option = MHD_OPTION_CONNECTION_LIMIT; ops[n].value = cfg.limit; ops[n++].ptr_value = NULL; }
  if (cfg.perip) { ops[n].option = MHD_OPTION_PER_IP_CONNECTION_LIMIT; ops[n].value = cfg.perip; ops[n++].ptr_value = NULL; }
  if (cfg.timeout) { ops[n].option = MHD_OPTION_CONNECTION_TIMEOUT; ops[n].value = cfg.timeout; ops[n++].ptr_value = NULL; }
  if (cfg.pool) { ops[n].option = MHD_OPTION_THREAD_POOL_SIZE; ops[n].value = cfg.pool; ops[n++].ptr_value = NULL; }
  if (cfg.nonce_tbl) { ops[n].option = MHD_OPTION_NONCE_NC_SIZE; ops[n].value = cfg.nonce_tbl; ops[n++].ptr_value = NULL; }
  ops[n].option = MHD_OPTION_NOTIFY_COMPLETED; ops[n].value = (intptr_t) &completed; ops[n++].ptr_value = NULL;
  ops[n].option = MHD_OPTION_NOTIFY_CONNECTION; ops[n].value = (intptr_t) &notify_conn; ops[n++].ptr_value = NULL;
  ops[n].option = MHD_OPTION_URI_LOG_CALLBACK; ops[n].value = (intptr_t) &uri_log; ops[n++].ptr_value = NULL;
  ops[n].option = MHD_OPTION_END; ops[n].value = 0; ops[n++].ptr_value = NULL;
  d = MHD_start_daemon (flags, 0, NULL, NULL, &handler, NULL, MHD_OPTION_ARRAY, ops, MHD_OPTION_END);
  out (d ? "started" : "start-failed");
}

static void elog (void *cls, const char *fmt, va_list ap) { (void) cls; (void) fmt; (void) ap; }

static void reset_all (void)
{
  int c, i, j;
  if (d) { MHD_stop_daemon (d); d = NULL; }
  for (c = 0; c < MAXC; c++) { if (conns[c].used && conns[c].cfd >= 0) close (conns[c].cfd); }
  memset (conns, 0, sizeof(conns));
  for (i = 0; i < MAXRESP; i++) { for (j = 0; j < resps[i].nh; j++) { free (resps[i].h[j].n); free (resps[i].h[j].v); } }
  memset (resps, 0, sizeof(resps));
  memset (freecb_count, 0, sizeof(freecb_count));
  memset (&cfg, 0, sizeof(cfg)); strcpy (cfg.mode, "select");
  vclock_ms = 1000000;
}

static uint8_t *unhexz (const char *s)
{ size_t n; uint8_t *b = lp_unhex (s, &n), *z; if (!b) return NULL; z = (uint8_t *) malloc (n + 1); memcpy (z, b, n); z[n] = 0; free (b); return z; }

int main (void)
{
  struct lp_line l = {0};
  signal (SIGPIPE, SIG_IGN);
  setvbuf (stdout, NULL, _IOFBF, 1 << 16);
  MHD_set_panic_func (NULL, NULL);
  (void) elog;
  while (lp_read (stdin, &l))
  {
    const char *v; int i; uint64_t a, b;
    const char *op = l.w[0];
    { int k; flockfile (stdout); printf ("#"); for (k = 0; k < l.n && k < 3; k++) printf (" %s", l.w[k]); putchar ('\n'); funlockfile (stdout); }   /* op echo */
    if (!strcmp (op, "tok") && l.n >= 2)
    { uint8_t *z = unhexz (l.w[1]); if (!z) { out ("bad-op"); continue; }
      out ("tok %d", (int) MHD_str_has_s_token_caseless_ ((const char *) z, "upgrade")); free (z); continue; }
    if (!strcmp (op, "case")) { reset_all (); out ("case %s", l.n > 1 ? l.w[1] : "-"); continue; }
    if (!strcmp (op, "cfg"))
    {
      for (i = 1; i < l.n; i++)
      {
        if (kv (l.w[i], "mode", &v)) { strncpy (cfg.mode, v, sizeof(cfg.mode) - 1); }
        else if (kv (l.w[i], "mem", &v)) cfg.mem = (size_t) atol (v);
        else if (kv (l.w[i], "incr", &v)) cfg.incr = (size_t) atol (v);
        else if (kv (l.w[i], "lvl", &v)) { cfg.lvl = atoi (v); cfg.have_lvl = 1; }
        else if (kv (l.w[i], "limit", &v)) cfg.limit = (unsigned) atoi (v);
        else if (kv (l.w[i], "perip", &v)) cfg.perip = (unsigned) atoi (v);
        else if (kv (l.w[i], "timeout", &v)) cfg.timeout = (unsigned) atoi (v);
        else if (kv (l.w[i], "upgrade", &v)) cfg.upgrade = atoi (v);
        else if (kv (l.w[i], "nodate", &v)) cfg.nodate = atoi (v);
        else if (kv (l.w[i], "pool", &v)) cfg.pool = (unsigned) atoi (v);
        else if (kv (l.w[i], "suspend", &v)) cfg.suspend = atoi (v);
        else if (kv (l.w[i], "nonce_tbl", &v)) cfg.nonce_tbl = (unsigned) atoi (v);
      }
      out ("ok"); continue;
    }
    if (!strcmp (op, "start")) { start_daemon (); continue; }
    if (!strcmp (op, "resp") && l.n >= 2)
    {
      int rid = atoi (l.w[1]); struct resp *r;
      if (rid < 0 || rid >= MAXRESP) { out ("bad-op"); continue; }
      r = &resps[rid]; memset (r, 0, sizeof(*r)); r->used = 1; strcpy (r->kind, "copy"); r->code = 200; r->size = 5; r->cberr_at = -1;
      for (i = 2; i < l.n; i++)
      {
        if (kv (l.w[i], "kind", &v)) strncpy (r->kind, v, sizeof(r->kind) - 1);
        else if (kv (l.w[i], "code", &v)) r->code = (unsigned) atoi (v);
        else if (kv (l.w[i], "size", &v)) r->size = (size_t) atol (v);
        else if (kv (l.w[i], "flags", &v)) r->flags = (unsigned) atoi (v);
        else if (kv (l.w[i], "cbmax", &v)) r->cbmax = (size_t) atol (v);
        else if (kv (l.w[i], "cbnr", &v)) r->cbnr = atoi (v);
        else if (kv (l.w[i], "cberr", &v)) r->cberr_at = atoi (v);
        else if (kv (l.w[i], "o", &v) && r->nh < 16)
        { struct hdrspec *h = &r->h[r->nh]; h->kind = 3; h->n = NULL; h->v = NULL; h->fl = (unsigned) atoi (v); r->nh++; }
        else if ((kv (l.w[i], "h", &v) || kv (l.w[i], "f", &v) || kv (l.w[i], "d", &v)) && r->nh < 16)
        {
          char *colon = strchr ((char *) v, ':'); struct hdrspec *h = &r->h[r->nh];
          if (!colon) continue;
          *colon = 0;
          h->kind = (l.w[i][0] == 'h') ? 0 : (l.w[i][0] == 'f') ? 1 : 2;
          h->n = unhexz (v); h->v = unhexz (colon + 1);
          if (h->n && h->v) r->nh++;
        }
      }
      out ("ok"); continue;
    }
    if (!strcmp (op, "beh") && l.n >= 3)
    {
      int c = atoi (l.w[1]), r = atoi (l.w[2]); struct beh *bh;
      if (c < 0 || c >= MAXC || r < 0 || r >= MAXR) { out ("bad-op"); continue; }
      bh = &conns[c].beh[r]; memset (bh, 0, sizeof(*bh)); bh->used = 1; strcpy (bh->f, "c"); strcpy (bh->l, "r0"); bh->ur_n = -1; bh->us_n = -1;
      for (i = 3; i < l.n; i++)
      {
        if (kv (l.w[i], "f", &v)) strncpy (bh->f, v, sizeof(bh->f) - 1);
        else if (kv (l.w[i], "l", &v)) strncpy (bh->l, v, sizeof(bh->l) - 1);
        else if (kv (l.w[i], "u", &v))
        { char *s = (char *) v; bh->ntake = 0;
          while (*s && bh->ntake < 8) { bh->take[bh->ntake++] = !strncmp (s, "all", 3) ? -1 : atol (s); s = strchr (s, ','); if (!s) break; s++; } }
        else if (kv (l.w[i], "ur", &v)) { bh->ur_n = atoi (v); v = strchr (v, ':'); bh->ur_rid = v ? atoi (v + 2) : 0; }
        else if (kv (l.w[i], "us", &v)) { bh->us_n = atoi (v); v = strchr (v, ':'); bh->us_k = v ? atoi (v + 1) : 0; }
      }
      out ("ok"); continue;
    }
    if (NULL == d && strcmp (op, "tick")) { out ("bad-op"); continue; }
    if (!strcmp (op, "arrive") && l.n >= 3 && lp_u64 (l.w[1], &a) && lp_u64 (l.w[2], &b) && a < MAXC)
    {
      int sv[2]; struct sockaddr_in sa; enum MHD_Result q;
      if (conns[a].used) { out ("bad-op"); continue; }
      if (0 != socketpair (AF_UNIX, SOCK_STREAM | SOCK_NONBLOCK, 0, sv)) { out ("bad-op"); continue; }
      memset (&sa, 0, sizeof(sa)); sa.sin_family = AF_INET; sa.sin_port = htons ((uint16_t) (1000 + a));
      sa.sin_addr.s_addr = htonl (0x0a000000u + (uint32_t) b);
      { int saved = conns[a].resume_in; (void) saved; }
      sem_init (&conns[a].gate, 0, 0); conns[a].at_gate = 0;
      conns[a].used = 1; conns[a].cfd = sv[0]; conns[a].sfd = sv[1]; conns[a].addr = (int) b; conns[a].resume_in = -1;
      q = MHD_add_connection (d, sv[1], (struct sockaddr *) &sa, sizeof(sa));
      out ("arrive c=%d -> %d", (int) a, (int) q);
      if (MHD_YES != q) { /* MHD closed sv[1] itself */ }
      report ();
      continue;
    }
    if (!strcmp (op, "send") && l.n >= 3 && lp_u64 (l.w[1], &a) && a < MAXC && conns[a].used)
    {
      size_t n, offn = 0; uint8_t *bytes = lp_unhex (l.w[2], &n);
      if (!bytes) { out ("bad-op"); continue; }
      while (offn < n) { ssize_t r = send (conns[a].cfd, bytes + offn, n - offn, MSG_DONTWAIT | MSG_NOSIGNAL); if (r <= 0) break; offn += (size_t) r; }
      free (bytes);
      out ("sent c=%d n=%zu", (int) a, offn); continue;
    }
    if (!strcmp (op, "shutwr") && l.n >= 2 && lp_u64 (l.w[1], &a) && a < MAXC && conns[a].used)
    { shutdown (conns[a].cfd, SHUT_WR); out ("ok"); continue; }
    if (!strcmp (op, "cclose") && l.n >= 2 && lp_u64 (l.w[1], &a) && a < MAXC && conns[a].used)
    { drain_clients (); close (conns[a].cfd); conns[a].cfd = -1; conns[a].eof_seen = 1; out ("ok"); continue; }
    if (!strcmp (op, "round")) { one_round (); report (); continue; }
    if (!strcmp (op, "rounds") && l.n >= 2 && lp_u64 (l.w[1], &a))
    { for (i = 0; i < (int) a; i++) { one_round (); drain_clients (); } report (); continue; }
    if (!strcmp (op, "tick") && l.n >= 2 && lp_u64 (l.w[1], &a)) { vclock_ms += a; out ("ok"); continue; }
    if (!strcmp (op, "tickback") && l.n >= 2 && lp_u64 (l.w[1], &a)) { vclock_ms -= a; out ("ok"); continue; }
    if (!strcmp (op, "set-timeout") && l.n >= 3 && lp_u64 (l.w[1], &a) && lp_u64 (l.w[2], &b) && a < MAXC && conns[a].mc)
    { out ("set-timeout c=%d -> %d", (int) a, (int) MHD_set_connection_option (conns[a].mc, MHD_CONNECTION_OPTION_TIMEOUT, (unsigned int) b)); continue; }
    if (!strcmp (op, "resume") && l.n >= 2 && lp_u64 (l.w[1], &a) && a < MAXC && conns[a].mc)
    { conns[a].resume_in = -1; out ("resume c=%d", (int) a); MHD_resume_connection (conns[a].mc); continue; }
    if (!strcmp (op, "up-await") && l.n >= 2 && lp_u64 (l.w[1], &a) && a < MAXC && conns[a].used)
    { int k; for (k = 0; k < 5000 && 0 == conns[a].at_gate; k++) usleep (1000); out ("ok"); continue; }
    if (!strcmp (op, "up-release") && l.n >= 2 && lp_u64 (l.w[1], &a) && a < MAXC && conns[a].used)
    { sem_post (&conns[a].gate); out ("ok"); continue; }
    if (!strcmp (op, "up-close") && l.n >= 2 && lp_u64 (l.w[1], &a) && a < MAXC && conns[a].upgraded)
    { /* the daemon's threads may log the release before this thread logs the result: mark the start of the action */
      out ("up-closing c=%d", (int) a);
      out ("up-close c=%d -> %d", (int) a, (int) MHD_upgrade_action (conns[a].urh, MHD_UPGRADE_ACTION_CLOSE)); conns[a].upgraded = 0; continue; }
    if (!strcmp (op, "up-recv") && l.n >= 2 && lp_u64 (l.w[1], &a) && a < MAXC && conns[a].upgraded)
    { static uint8_t ub[65536]; ssize_t r; app_io++; r = recv (conns[a].usock, ub, sizeof(ub), MSG_DONTWAIT); app_io--;
      flockfile (stdout); printf ("up-data c=%d ", (int) a); if (r > 0) lp_puthex (stdout, ub, (size_t) r); else putchar ('-'); putchar ('\n'); funlockfile (stdout); continue; }
    if (!strcmp (op, "up-send") && l.n >= 3 && lp_u64 (l.w[1], &a) && a < MAXC && conns[a].upgraded)
    { size_t n; uint8_t *bytes = lp_unhex (l.w[2], &n); ssize_t r; app_io++; r = bytes ? send (conns[a].usock, bytes, n, MSG_NOSIGNAL) : -1; app_io--; free (bytes);
      out ("up-sent c=%d n=%zd", (int) a, r); continue; }
    if (!strcmp (op, "stop")) {
      /* the API forbids stopping with suspended connections: resume them first */
      int any = 0;
      for (i = 0; i < MAXC; i++)
        if (conns[i].used && conns[i].resume_in >= 0 && conns[i].mc)
        { conns[i].resume_in = -1; out ("resume c=%d", i); MHD_resume_connection (conns[i].mc); any = 1; }
      if (any && !threaded ()) { one_round (); one_round (); }
      else if (any) usleep (50000);
      drain_clients (); MHD_stop_daemon (d); d = NULL; drain_clients (); out ("stopped");
      for (i = 0; i < MAXRESP; i++) if (freecb_count[i]) out ("free-cb-total rid=%d n=%d", i, freecb_count[i]);
      continue; }
    out ("bad-op");
  }
  reset_all ();
  free (l.buf);
  return 0;
}
