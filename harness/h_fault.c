/* Fault-injection daemon harness (engine "send", property C07): a copy of
 * h_daemon.c extended with
 *   - libc interposition of recv/send/sendmsg/writev/sendfile/sendfile64 for the
 *     SERVER-side sockets of the scripted connections (`fault` plan),
 *   - allocation failures through -Wl,--wrap=malloc,--wrap=calloc (`alloc-fail`),
 *   - a white-box log of the write-side connection state at every intercepted call
 *     (`sys` lines) and after every round (`wst` lines),
 *   - `settle <max>`: run rounds until nothing happens any more,
 *   - iovec responses with a configurable element count, digest-auth info calls
 *     in the handler (`beh ... da=1`).
 *
 * Scripted in-process daemon harness (engines "conn" and "daemon").
 *
 * The real library objects are linked except mhd_mono_clock.c: the clock is
 * virtual (script op `tick`).  Connections are socketpairs handed to the
 * daemon with MHD_add_connection(); event-loop rounds are scripted.  Every
 * callback the library makes is logged as one line; after every round the
 * bytes each client received, EOF/reset, the timeout hint and the connection
 * count are logged.  See DESIGN.md Appendix F for the vocabulary.
 *
 * No address, fd number or Date value is ever printed.
 */
#include "MHD_config.h"
#include "internal.h"
#include <microhttpd.h>
#include <sys/types.h>
#include <sys/uio.h>
#include <sys/sendfile.h>
#include <sys/epoll.h>
#include <dlfcn.h>
#include <stdlib.h>
#include <sys/socket.h>
#include <sys/select.h>
#include <netinet/in.h>
#include <arpa/inet.h>
#include <fcntl.h>
#include <unistd.h>
#include <errno.h>
#include <signal.h>
#include <pthread.h>
#include <stdarg.h>
#include <sanitizer/common_interface_defs.h>
/* the harness itself must never be hit by an injected allocation failure */
void *__real_malloc (size_t n);
void *__real_calloc (size_t a, size_t b);
#define malloc(n) __real_malloc (n)
#define calloc(a,b) __real_calloc ((a), (b))
#include "common/lp.h"

/* ---------------------------------------------------------------- clock */
static uint64_t vclock_ms = 1000000;
void MHD_monotonic_sec_counter_init (void) {}
void MHD_monotonic_sec_counter_finish (void) {}
time_t MHD_monotonic_sec_counter (void) { return (time_t) (vclock_ms / 1000); }
uint64_t MHD_monotonic_msec_counter (void) { return vclock_ms; }
/* the Date header follows the virtual clock too (deterministic reply streams) */
time_t time (time_t *t) { time_t v = (time_t) (1000000000 + vclock_ms / 1000); if (t) *t = v; return v; }

/* ---------------------------------------------------------------- config */
static struct {
  char mode[16]; size_t mem, incr; int lvl; unsigned limit, perip, timeout;
  int upgrade, suspend, have_lvl; unsigned nonce_tbl; int spipe;
} cfg = { "select", 0, 0, 0, 0, 0, 0, 0, 0, 0, 0, 0 };

static struct MHD_Daemon *d;

#define MAXC 16
#define MAXR 32
#define MAXRESP 32
#define MAXKV 64

struct beh {           /* behaviour for one request */
  int used;
  char f[16];          /* first call: c | r<rid> | no | s<k> */
  char l[16];          /* final call: r<rid> | no | s<k> */
  long take[8]; int ntake;    /* -1 = all */
  int ur_n, ur_rid;    /* reply at upload call n (or -1) */
  int us_n, us_k;      /* suspend at upload call n for k rounds */
  int da;              /* call the digest-auth info API at the first call */
  int ba;              /* call the basic-auth info API at the first call */
};

struct snap { const char *p; size_t len; uint8_t *copy; };

struct req {           /* per-request application context */
  int c, r;
  int ncalls, nupload, nfinal;
  int replied, suspended_once_final, suspended_once_first;
  struct snap snaps[3 + 2 * MAXKV]; int nsnap;
  int upg_pending;
};

struct conn {
  int used, cfd, sfd, started, closed_seen, eof_seen, addr;
  int nreq;                 /* requests presented so far */
  struct MHD_Connection *mc;
  int resume_in;            /* rounds until auto-resume; -1 none */
  struct beh beh[MAXR];
  /* upgrade */
  struct MHD_UpgradeResponseHandle *urh; MHD_socket usock; int upgraded;
  int ctx_serial;
};
static struct conn conns[MAXC];

struct hdrspec { int kind; /* 0 add hdr, 1 add footer, 2 del hdr */ uint8_t *n, *v; };
struct resp {
  int used; char kind[16]; unsigned code; size_t size; unsigned flags;
  size_t cbmax; int cbnr; int cberr_at; int cbeos_at; /* cbeos_at: END_OF_STREAM from this position on although more was announced (-1 never); */ /* content callback: max per call, not-ready count, error at pos (-1) */
  int iovn;            /* number of elements of an iovec response (default 3) */
  struct hdrspec h[16]; int nh;
};
static struct resp resps[MAXRESP];
static int freecb_count[MAXRESP];

/* ------------------------------------------------ fault plan + libc shims */
static unsigned long g_events;        /* anything observable happened (for `settle`) */
static unsigned long g_events_fwd (void) { return ++g_events; }
enum { K_RECV = 0, K_SEND, K_SENDMSG, K_SENDFILE, K_NKIND };
static const char *const kind_name[K_NKIND] = { "recv", "send", "sendmsg", "sendfile" };
enum { F_SHORT = 1, F_EAGAIN, F_EINTR, F_ECONNRESET, F_EPIPE, F_ENOTCONN, F_EINVAL, F_ENOMEM, F_EBADF, F_NFAULT };
static const char *const fault_name[F_NFAULT] = { "-", "short", "eagain", "eintr", "econnreset", "epipe", "enotconn", "einval", "enomem", "ebadf" };
static const int fault_errno[F_NFAULT] = { 0, 0, EAGAIN, EINTR, ECONNRESET, EPIPE, ENOTCONN, EINVAL, ENOMEM, EBADF };
struct fault { int c, kind; unsigned long k; int what; size_t n; int fired; };
#define MAXFAULT 64
static struct fault faults[MAXFAULT]; static int nfaults;
static unsigned long call_count[MAXC][K_NKIND];
static unsigned long fired_count[F_NFAULT], alloc_fired;
static int shim_quiet;                /* no `sys` lines (threaded modes) */

/* allocation failures */
static unsigned long alloc_count, alloc_fail_at; static int alloc_armed;
/* the library function whose allocation was made to fail (symbolised in-process by the sanitizer
   run-time; MHD_calloc_ is looked through), and the libc entry point it used */
static char alloc_site[128] = "-"; static const char *alloc_via = "-";
static int alloc_should_fail (void)
{
  if (! alloc_armed) return 0;
  alloc_count++;
  if (alloc_fail_at && alloc_count == alloc_fail_at) { alloc_fired++; return 1; }
  return 0;
}
static void alloc_note_site (void *ra0, void *ra1, const char *via)
{
  size_t i;
  alloc_site[0] = 0;
  __sanitizer_symbolize_pc (ra0, "%f", alloc_site, sizeof(alloc_site));
  if (0 == strcmp (alloc_site, "MHD_calloc_") && NULL != ra1)
  { alloc_site[0] = 0; __sanitizer_symbolize_pc (ra1, "%f", alloc_site, sizeof(alloc_site)); via = "MHD_calloc_"; }
  for (i = 0; alloc_site[i]; i++) if (' ' == alloc_site[i] || '\n' == alloc_site[i]) alloc_site[i] = '_';
  if (0 == alloc_site[0]) strcpy (alloc_site, "?");
  alloc_via = via;
}
void *__wrap_malloc (size_t n)
{
  if (alloc_should_fail ())
  { alloc_note_site (__builtin_return_address (0), __builtin_return_address (1), "malloc"); errno = ENOMEM; return NULL; }
  return __real_malloc (n);
}
void *__wrap_calloc (size_t a, size_t b)
{
  if (alloc_should_fail ())
  { alloc_note_site (__builtin_return_address (0), __builtin_return_address (1), "calloc"); errno = ENOMEM; return NULL; }
  return __real_calloc (a, b);
}

static int conn_of_fd (int fd)
{
  int c;
  if (fd < 0) return -1;
  for (c = 0; c < MAXC; c++) if (conns[c].used && conns[c].sfd == fd && conns[c].mc) return c;
  return -1;
}

static const char *st_name (enum MHD_CONNECTION_STATE st)
{
  switch (st)
  {
  case MHD_CONNECTION_INIT: return "init";
  case MHD_CONNECTION_REQ_LINE_RECEIVING: return "req-line-receiving";
  case MHD_CONNECTION_REQ_LINE_RECEIVED: return "req-line-received";
  case MHD_CONNECTION_REQ_HEADERS_RECEIVING: return "req-headers-receiving";
  case MHD_CONNECTION_HEADERS_RECEIVED: return "headers-received";
  case MHD_CONNECTION_HEADERS_PROCESSED: return "headers-processed";
  case MHD_CONNECTION_CONTINUE_SENDING: return "continue-sending";
  case MHD_CONNECTION_BODY_RECEIVING: return "body-receiving";
  case MHD_CONNECTION_BODY_RECEIVED: return "body-received";
  case MHD_CONNECTION_FOOTERS_RECEIVING: return "footers-receiving";
  case MHD_CONNECTION_FOOTERS_RECEIVED: return "footers-received";
  case MHD_CONNECTION_FULL_REQ_RECEIVED: return "full-req-received";
  case MHD_CONNECTION_START_REPLY: return "start-reply";
  case MHD_CONNECTION_HEADERS_SENDING: return "headers-sending";
  case MHD_CONNECTION_HEADERS_SENT: return "headers-sent";
  case MHD_CONNECTION_NORMAL_BODY_UNREADY: return "normal-body-unready";
  case MHD_CONNECTION_NORMAL_BODY_READY: return "normal-body-ready";
  case MHD_CONNECTION_CHUNKED_BODY_UNREADY: return "chunked-body-unready";
  case MHD_CONNECTION_CHUNKED_BODY_READY: return "chunked-body-ready";
  case MHD_CONNECTION_CHUNKED_BODY_SENT: return "chunked-body-sent";
  case MHD_CONNECTION_FOOTERS_SENDING: return "footers-sending";
  case MHD_CONNECTION_FULL_REPLY_SENT: return "full-reply-sent";
  case MHD_CONNECTION_CLOSED: return "closed";
#ifdef UPGRADE_SUPPORT
  case MHD_CONNECTION_UPGRADE: return "upgrade";
#endif
  default: return "?";
  }
}

/* white-box view of the write side: state, write-buffer offsets, body position,
   iovec tracker (index / count / bytes left in the current element), sender */
static void print_wst (const struct MHD_Connection *mc)
{
  size_t ie = 0;
  if (NULL != mc->rp.resp_iov.iov && mc->rp.resp_iov.sent < mc->rp.resp_iov.cnt)
    ie = (size_t) mc->rp.resp_iov.iov[mc->rp.resp_iov.sent].iov_len;
  printf ("st=%s so=%zu ao=%zu rp=%" PRIu64 " is=%zu ic=%zu ie=%zu sf=%d wbsz=%zu rbo=%zu co=%zu",
          st_name (mc->state), mc->write_buffer_send_offset, mc->write_buffer_append_offset,
          (uint64_t) mc->rp.rsp_write_position,
          (NULL != mc->rp.resp_iov.iov) ? mc->rp.resp_iov.sent : (size_t) 0,
          (NULL != mc->rp.resp_iov.iov) ? mc->rp.resp_iov.cnt : (size_t) 0, ie,
          (int) (MHD_resp_sender_sendfile == mc->rp.resp_sender), mc->write_buffer_size,
          mc->read_buffer_offset, mc->continue_message_write_offset);
}

/* returns the fault to apply to this call (or NULL) and counts the call */
static struct fault *next_fault (int c, int kind)
{
  int i; unsigned long k = ++call_count[c][kind];
  for (i = 0; i < nfaults; i++)
    if (faults[i].c == c && faults[i].kind == kind && faults[i].k == k && ! faults[i].fired)
    { faults[i].fired = 1; fired_count[faults[i].what]++; return &faults[i]; }
  return NULL;
}

/* an injected EAGAIN / short count is not known to the kernel: in edge-triggered epoll mode
   re-arm the descriptor so that the "ready again" edge the library waits for is delivered */
static void rearm_epoll (int c)
{
  struct epoll_event ev;
  if (NULL == d || 0 == (d->options & MHD_USE_EPOLL) || NULL == conns[c].mc) return;
  ev.events = EPOLLIN | EPOLLOUT | EPOLLPRI | EPOLLET | EPOLLRDHUP;
  ev.data.ptr = conns[c].mc;
  (void) epoll_ctl (d->epoll_fd, EPOLL_CTL_MOD, conns[c].sfd, &ev);
}

/* per-round accounting for the spin detector of `settle`: send-type calls made on server sockets, bytes that
   moved (either direction), injected faults */
static unsigned long rnd_send_calls, rnd_progress, rnd_faults;
static void sys_log (int c, int kind, size_t req, size_t iovn, ssize_t ret, int err, const struct fault *f)
{
  g_events++;
  if (K_RECV != kind) rnd_send_calls++;
  if (ret > 0) rnd_progress += (unsigned long) ret;
  if (f) rnd_faults++;
  if (shim_quiet) return;
  printf ("sys c=%d k=%s n=%lu req=%zu iovn=%zu ", c, kind_name[kind], call_count[c][kind], req, iovn);
  print_wst (conns[c].mc);
  if (ret >= 0) printf (" -> %zd", ret); else printf (" -> E%d", err);
  printf (" inj=%s\n", f ? fault_name[f->what] : "-");
}

/* unit op `hab`: answers for the (at most two) send() calls on the unit descriptor */
static int unit_fd = -1; static int unit_what[2]; static size_t unit_n[2]; static int unit_calls;

typedef ssize_t (*recv_fn) (int, void *, size_t, int);
typedef ssize_t (*send_fn) (int, const void *, size_t, int);
typedef ssize_t (*sendmsg_fn) (int, const struct msghdr *, int);
typedef ssize_t (*writev_fn) (int, const struct iovec *, int);
typedef ssize_t (*sendfile64_fn) (int, int, off64_t *, size_t);

ssize_t recv (int fd, void *buf, size_t len, int flags)
{
  static recv_fn real; int c; struct fault *f; ssize_t r; int e;
  if (! real) real = (recv_fn) dlsym (RTLD_NEXT, "recv");
  c = conn_of_fd (fd);
  if (c < 0) return real (fd, buf, len, flags);
  f = next_fault (c, K_RECV);
  if (f && F_SHORT != f->what) { r = -1; e = fault_errno[f->what]; }
  else
  {
    size_t l = len;
    if (f && f->n < l) l = f->n ? f->n : 1;
    r = real (fd, buf, l, flags); e = errno;
  }
  sys_log (c, K_RECV, len, 0, r, e, f);
  if (f && (F_SHORT == f->what || F_EAGAIN == f->what)) rearm_epoll (c);
  errno = e;
  return r;
}

ssize_t send (int fd, const void *buf, size_t len, int flags)
{
  static send_fn real; int c; struct fault *f; ssize_t r; int e;
  if (! real) real = (send_fn) dlsym (RTLD_NEXT, "send");
  if (fd == unit_fd && unit_fd >= 0)
  {
    int k = unit_calls < 2 ? unit_calls : 1; unit_calls++;
    if (0 == unit_what[k]) return real (fd, buf, len, flags);
    if (F_SHORT == unit_what[k]) return real (fd, buf, unit_n[k] < len ? unit_n[k] : len, flags);
    errno = fault_errno[unit_what[k]]; return -1;
  }
  c = conn_of_fd (fd);
  if (c < 0) return real (fd, buf, len, flags);
  f = next_fault (c, K_SEND);
  if (f && F_SHORT != f->what) { r = -1; e = fault_errno[f->what]; }
  else
  {
    size_t l = len;
    if (f && f->n < l) l = f->n ? f->n : 1;
    r = real (fd, buf, l, flags); e = errno;
  }
  sys_log (c, K_SEND, len, 0, r, e, f);
  if (f && (F_SHORT == f->what || F_EAGAIN == f->what)) rearm_epoll (c);
  errno = e;
  return r;
}

static ssize_t vec_common (int fd, const struct iovec *iov, size_t cnt, int flags, int use_writev)
{
  static sendmsg_fn real_sm; static writev_fn real_wv;
  int c; struct fault *f; ssize_t r; int e; size_t total = 0, i;
  if (! real_sm) real_sm = (sendmsg_fn) dlsym (RTLD_NEXT, "sendmsg");
  if (! real_wv) real_wv = (writev_fn) dlsym (RTLD_NEXT, "writev");
  for (i = 0; i < cnt; i++) total += iov[i].iov_len;
  c = conn_of_fd (fd);
  f = (c >= 0) ? next_fault (c, K_SENDMSG) : NULL;
  if (f && F_SHORT != f->what) { r = -1; e = fault_errno[f->what]; }
  else
  {
    struct iovec *cp = NULL; size_t ncp = cnt; const struct iovec *use = iov;
    if (f && f->n < total)
    { /* truncated copy of the vector: exactly max(n,1) bytes */
      size_t left = f->n ? f->n : 1;
      cp = (struct iovec *) malloc (sizeof(struct iovec) * (cnt ? cnt : 1)); ncp = 0;
      for (i = 0; i < cnt && left > 0; i++)
      { cp[ncp] = iov[i]; if (cp[ncp].iov_len > left) cp[ncp].iov_len = left; left -= cp[ncp].iov_len; ncp++; }
      use = cp;
    }
    if (use_writev) r = real_wv (fd, use, (int) ncp);
    else { struct msghdr m; memset (&m, 0, sizeof(m)); m.msg_iov = (struct iovec *) use; m.msg_iovlen = ncp; r = real_sm (fd, &m, flags); }
    e = errno;
    free (cp);
  }
  if (c >= 0)
  {
    sys_log (c, K_SENDMSG, total, cnt, r, e, f);
    if (f && (F_SHORT == f->what || F_EAGAIN == f->what)) rearm_epoll (c);
  }
  errno = e;
  return r;
}

ssize_t sendmsg (int fd, const struct msghdr *msg, int flags)
{
  static sendmsg_fn real;
  if (conn_of_fd (fd) < 0 || NULL != msg->msg_control || NULL != msg->msg_name)
  { if (! real) real = (sendmsg_fn) dlsym (RTLD_NEXT, "sendmsg"); return real (fd, msg, flags); }
  return vec_common (fd, msg->msg_iov, msg->msg_iovlen, flags, 0);
}

ssize_t writev (int fd, const struct iovec *iov, int cnt)
{
  static writev_fn real;
  if (conn_of_fd (fd) < 0) { if (! real) real = (writev_fn) dlsym (RTLD_NEXT, "writev"); return real (fd, iov, cnt); }
  return vec_common (fd, iov, (size_t) cnt, 0, 1);
}

static ssize_t sendfile_common (int out_fd, int in_fd, off64_t *off, size_t count)
{
  static sendfile64_fn real; int c; struct fault *f; ssize_t r; int e;
  if (! real) real = (sendfile64_fn) dlsym (RTLD_NEXT, "sendfile64");
  c = conn_of_fd (out_fd);
  if (c < 0) return real (out_fd, in_fd, off, count);
  f = next_fault (c, K_SENDFILE);
  if (f && F_SHORT != f->what) { r = -1; e = fault_errno[f->what]; }
  else
  {
    size_t l = count;
    if (f && f->n < l) l = f->n ? f->n : 1;
    r = real (out_fd, in_fd, off, l); e = errno;
  }
  sys_log (c, K_SENDFILE, count, 0, r, e, f);
  if (f && (F_SHORT == f->what || F_EAGAIN == f->what)) rearm_epoll (c);
  errno = e;
  return r;
}
ssize_t sendfile64 (int out_fd, int in_fd, off64_t *off, size_t count)
{ return sendfile_common (out_fd, in_fd, off, count); }
ssize_t sendfile (int out_fd, int in_fd, off_t *off, size_t count)
{ return sendfile_common (out_fd, in_fd, (off64_t *) off, count); }

static unsigned long g_events_fwd (void);
static void out (const char *fmt, ...)
{
  va_list ap; (void) g_events_fwd (); va_start (ap, fmt); vprintf (fmt, ap); va_end (ap); putchar ('\n');
}

static void puthexs (const char *s, size_t n)
{ if (NULL == s) { putchar ('~'); return; } lp_puthex (stdout, s, n); }

static uint8_t pat (int rid, size_t off) { return (uint8_t) ('a' + ((size_t) rid * 7 + off) % 26); }

/* ---------------------------------------------------------------- responses */
struct cbctx { int rid; int calls; };

static ssize_t content_cb (void *cls, uint64_t pos, char *buf, size_t max)
{
  struct cbctx *x = (struct cbctx *) cls;
  struct resp *r = &resps[x->rid];
  size_t n, i;
  x->calls++;
  if (x->calls <= r->cbnr) { out ("reader rid=%d pos=%" PRIu64 " -> 0", x->rid, pos); return 0; }
  if (r->cberr_at >= 0 && pos >= (uint64_t) r->cberr_at)
  { out ("reader rid=%d pos=%" PRIu64 " -> err", x->rid, pos); return MHD_CONTENT_READER_END_WITH_ERROR; }
  if (r->cbeos_at >= 0 && pos >= (uint64_t) r->cbeos_at && pos < r->size)
  { out ("reader rid=%d pos=%" PRIu64 " -> eos-early", x->rid, pos); return MHD_CONTENT_READER_END_OF_STREAM; }
  if (pos >= r->size) { out ("reader rid=%d pos=%" PRIu64 " -> eos", x->rid, pos); return MHD_CONTENT_READER_END_OF_STREAM; }
  n = r->size - (size_t) pos;
  if (n > max) n = max;
  if (r->cbmax && n > r->cbmax) n = r->cbmax;
  for (i = 0; i < n; i++) buf[i] = (char) pat (x->rid, (size_t) pos + i);
  out ("reader rid=%d pos=%" PRIu64 " -> %zu", x->rid, pos, n);
  return (ssize_t) n;
}
static void content_free (void *cls) { struct cbctx *x = (struct cbctx *) cls; out ("free-cb rid=%d", x->rid); freecb_count[x->rid]++; free (x); }
static void buf_free (void *cls) { struct cbctx *x = (struct cbctx *) cls; out ("free-cb rid=%d", x->rid); freecb_count[x->rid]++; free (x); }

static void upgrade_cb (void *cls, struct MHD_Connection *connection, void *req_cls,
                        const char *extra_in, size_t extra_in_size, MHD_socket sock,
                        struct MHD_UpgradeResponseHandle *urh)
{
  struct req *rq = (struct req *) req_cls;
  (void) cls; (void) connection;
  printf ("upgrade c=%d extra=", rq->c); puthexs (extra_in, extra_in_size); putchar ('\n');
  conns[rq->c].urh = urh; conns[rq->c].usock = sock; conns[rq->c].upgraded = 1;
}

static struct MHD_Response *make_resp (int rid)
{
  struct resp *r = &resps[rid];
  struct MHD_Response *m = NULL;
  size_t i;
  if (!r->used) { /* default response */
    r->used = 1; strcpy (r->kind, "copy"); r->code = 200; r->size = 5; r->cberr_at = -1; r->cbeos_at = -1; }
  if (!strcmp (r->kind, "static") || !strcmp (r->kind, "copy") || !strcmp (r->kind, "freecb"))
  {
    char *b = (char *) malloc (r->size ? r->size : 1);
    for (i = 0; i < r->size; i++) b[i] = (char) pat (rid, i);
    if (!strcmp (r->kind, "copy")) { m = MHD_create_response_from_buffer_copy (r->size, b); free (b); }
    else if (!strcmp (r->kind, "freecb"))
    { /* buffer freed together with ctx: use with-free-callback-cls */
      struct cbctx *x = (struct cbctx *) calloc (1, sizeof(*x)); x->rid = rid;
      static char *keepf[4096]; static int nkeepf; if (nkeepf < 4096) keepf[nkeepf++] = b;
      m = MHD_create_response_from_buffer_with_free_callback_cls (r->size, b, &buf_free, x);
      if (NULL == m) free (x);
    }
    else { static char *keep[4096]; static int nkeep; if (nkeep < 4096) keep[nkeep++] = b;
           m = MHD_create_response_from_buffer_static (r->size, b); }
  }
  else if (!strcmp (r->kind, "empty")) m = MHD_create_response_empty (MHD_RF_NONE);
  else if (!strcmp (r->kind, "cb-known") || !strcmp (r->kind, "cb-unknown"))
  {
    struct cbctx *x = (struct cbctx *) calloc (1, sizeof(*x)); x->rid = rid;
    m = MHD_create_response_from_callback (!strcmp (r->kind, "cb-known") ? (uint64_t) r->size : MHD_SIZE_UNKNOWN,
                                           1024, &content_cb, x, &content_free);
    if (NULL == m) free (x);
  }
  else if (!strcmp (r->kind, "fd") || !strcmp (r->kind, "fdoff"))
  {
    char name[] = "/tmp/vhXXXXXX"; int fd = mkstemp (name); size_t off = !strcmp (r->kind, "fdoff") ? 3 : 0;
    unlink (name);
    { char *fb = (char *) malloc (r->size + off + 1);
      for (i = 0; i < r->size + off; i++) fb[i] = (i < off) ? '#' : (char) pat (rid, i - off);
      if ((ssize_t) (r->size + off) != write (fd, fb, r->size + off)) abort ();
      free (fb); }
    m = off ? MHD_create_response_from_fd_at_offset64 (r->size, fd, off) : MHD_create_response_from_fd (r->size, fd);
    if (NULL == m) close (fd);
  }
  else if (!strcmp (r->kind, "pipe"))
  {
    int p[2]; if (0 != pipe (p)) abort ();
    for (i = 0; i < r->size; i++) { char ch = (char) pat (rid, i); if (1 != write (p[1], &ch, 1)) abort (); }
    close (p[1]);
    m = MHD_create_response_from_pipe (p[0]);
    if (NULL == m) close (p[0]);
  }
  else if (!strcmp (r->kind, "iovec"))
  {
    /* iovn elements: the first iovn-1 have size/iovn bytes, the last one the rest */
    static char *keep[4096]; static int nkeep;
    unsigned int n = (unsigned int) (r->iovn > 0 ? r->iovn : 3), j;
    struct MHD_IoVec *iov = (struct MHD_IoVec *) calloc (n, sizeof(*iov));
    char *b = (char *) malloc (r->size ? r->size : 1); size_t a = r->size / n, off = 0;
    for (i = 0; i < r->size; i++) b[i] = (char) pat (rid, i);
    if (nkeep < 4096) keep[nkeep++] = b;
    for (j = 0; j < n; j++)
    { iov[j].iov_base = b + off; iov[j].iov_len = (j + 1 == n) ? r->size - off : a; off += iov[j].iov_len; }
    m = MHD_create_response_from_iovec (iov, n, NULL, NULL);
    free (iov);
  }
  else if (!strcmp (r->kind, "upgrade")) m = MHD_create_response_for_upgrade (&upgrade_cb, NULL);
  if (NULL == m) return NULL;
  out ("resp-made rid=%d", rid);
  if (r->flags) MHD_set_response_options (m, (enum MHD_ResponseFlags) r->flags, MHD_RO_END);
  for (i = 0; i < (size_t) r->nh; i++)
  {
    enum MHD_Result q;
    if (0 == r->h[i].kind) q = MHD_add_response_header (m, (char *) r->h[i].n, (char *) r->h[i].v);
    else if (1 == r->h[i].kind) q = MHD_add_response_footer (m, (char *) r->h[i].n, (char *) r->h[i].v);
    else q = MHD_del_response_header (m, (char *) r->h[i].n, (char *) r->h[i].v);
    out ("resp-hdr rid=%d op=%d -> %d", rid, r->h[i].kind, (int) q);
  }
  return m;
}

/* ---------------------------------------------------------------- callbacks */
struct kvacc { int n; };
static enum MHD_Result kv_iter (void *cls, enum MHD_ValueKind kind, const char *key, size_t key_size,
                                const char *value, size_t value_size)
{
  struct kvacc *a = (struct kvacc *) cls;
  if (a->n++) putchar (',');
  printf ("%d:", (int) kind); puthexs (key, key_size); putchar ('='); puthexs (value, value_size);
  return MHD_YES;
}

struct snapacc { struct req *rq; };
static void add_snap (struct req *rq, const char *p, size_t len)
{
  if (NULL == p || rq->nsnap >= (int) (sizeof(rq->snaps) / sizeof(rq->snaps[0]))) return;
  rq->snaps[rq->nsnap].p = p; rq->snaps[rq->nsnap].len = len;
  rq->snaps[rq->nsnap].copy = (uint8_t *) malloc (len ? len : 1); memcpy (rq->snaps[rq->nsnap].copy, p, len);
  rq->nsnap++;
}
static enum MHD_Result snap_iter (void *cls, enum MHD_ValueKind kind, const char *key, size_t key_size,
                                  const char *value, size_t value_size)
{
  struct snapacc *a = (struct snapacc *) cls; (void) kind;
  add_snap (a->rq, key, key_size + 1); /* incl. terminating NUL */
  if (value) add_snap (a->rq, value, value_size + 1);
  return MHD_YES;
}
static void check_snaps (struct req *rq, const char *when)
{
  int i;
  for (i = 0; i < rq->nsnap; i++)
    if (0 != memcmp (rq->snaps[i].p, rq->snaps[i].copy, rq->snaps[i].len))
    { printf ("unstable c=%d r=%d at=%s idx=%d was=", rq->c, rq->r, when, i);
      lp_puthex (stdout, rq->snaps[i].copy, rq->snaps[i].len); printf (" now=");
      lp_puthex (stdout, rq->snaps[i].p, rq->snaps[i].len); putchar ('\n'); return; }
}
static void free_req (struct req *rq)
{ int i; for (i = 0; i < rq->nsnap; i++) free (rq->snaps[i].copy); free (rq); }

static int conn_index (struct MHD_Connection *mc)
{
  const union MHD_ConnectionInfo *ci = MHD_get_connection_info (mc, MHD_CONNECTION_INFO_SOCKET_CONTEXT);
  if (ci && ci->socket_context) return (int) (intptr_t) ci->socket_context - 1;
  return -1;
}

static void print_held (const char *when);
static int threaded (void);
static void notify_conn (void *cls, struct MHD_Connection *mc, void **socket_context,
                         enum MHD_ConnectionNotificationCode toe)
{
  (void) cls;
  if (MHD_CONNECTION_NOTIFY_STARTED == toe)
  {
    int c = -1;
    const union MHD_ConnectionInfo *ci = MHD_get_connection_info (mc, MHD_CONNECTION_INFO_CLIENT_ADDRESS);
    if (ci && ci->client_addr && AF_INET == ci->client_addr->sa_family)
      c = (int) ntohs (((const struct sockaddr_in *) ci->client_addr)->sin_port) - 1000;
    if (c < 0 || c >= MAXC) c = -1;
    *socket_context = (void *) (intptr_t) (c + 1);
    if (c >= 0) { conns[c].mc = mc; conns[c].started = 1; }
    out ("conn-start c=%d", c);
  }
  else
  {
    int c = (int) (intptr_t) *socket_context - 1;
    out ("conn-close c=%d", c);
    if (! threaded ()) print_held ("conn-close");
    if (c >= 0) { conns[c].mc = NULL; conns[c].started = 2; }
  }
}

static void *uri_log (void *cls, const char *uri, struct MHD_Connection *mc)
{
  (void) cls;
  printf ("uri-log c=%d uri=", conn_index (mc)); puthexs (uri, strlen (uri)); putchar ('\n');
  return NULL;
}

static void completed (void *cls, struct MHD_Connection *mc, void **req_cls, enum MHD_RequestTerminationCode toe)
{
  struct req *rq = (struct req *) *req_cls;
  (void) cls;
  if (NULL == rq) { out ("completed c=%d r=? code=%d ctx=null", conn_index (mc), (int) toe); return; }
  check_snaps (rq, "completed");
  out ("completed c=%d r=%d code=%d", rq->c, rq->r, (int) toe);
  *req_cls = NULL;
  free_req (rq);
}

static int parse_rid (const char *s) { return atoi (s + 1); }

/* The application keeps its own reference to every response object until `stop`, so that the
   reference count can be read at any time: 1 = only the application's reference is left, i.e.
   the connection has released the response exactly once. */
#define MAXHELD 64
static struct { struct MHD_Response *m; int rid; } held[MAXHELD]; static int nheld;
static int threaded (void);
static void print_held (const char *when)
{
  int i;
  for (i = 0; i < nheld; i++)
    out ("resp-ref rid=%d rc=%u at=%s", held[i].rid, held[i].m->reference_count, when);
}
static void drop_held (void)
{ int i; for (i = 0; i < nheld; i++) MHD_destroy_response (held[i].m); nheld = 0; }

static enum MHD_Result do_reply (struct MHD_Connection *mc, struct req *rq, int rid)
{
  struct MHD_Response *m = make_resp (rid);
  enum MHD_Result q;
  if (NULL == m) { out ("queued c=%d r=%d rid=%d -> no-response-object", rq->c, rq->r, rid); return MHD_NO; }
  q = MHD_queue_response (mc, resps[rid].code, m);
  out ("queued c=%d r=%d rid=%d code=%u -> %d", rq->c, rq->r, rid, resps[rid].code, (int) q);
  if (nheld < MAXHELD) { held[nheld].m = m; held[nheld].rid = rid; nheld++; }
  else MHD_destroy_response (m);
  if (MHD_YES == q) rq->replied = 1;
  return q;
}

static void do_suspend (struct MHD_Connection *mc, struct req *rq, int k)
{
  MHD_suspend_connection (mc);
  conns[rq->c].resume_in = k;
  out ("suspend c=%d r=%d", rq->c, rq->r);
}

static enum MHD_Result handler (void *cls, struct MHD_Connection *mc, const char *url, const char *method,
                                const char *version, const char *upload_data, size_t *upload_data_size,
                                void **req_cls)
{
  int c = conn_index (mc);
  struct req *rq = (struct req *) *req_cls;
  struct beh *b;
  struct kvacc acc = {0};
  const union MHD_ConnectionInfo *ci;
  const char *phase;
  static struct beh defbeh;
  (void) cls;
  if (c < 0) { out ("handler c=? (no socket context)"); return MHD_NO; }
  if (NULL == rq)
  {
    struct snapacc sa;
    rq = (struct req *) calloc (1, sizeof(*rq));
    rq->c = c; rq->r = conns[c].nreq++;
    *req_cls = rq;
    phase = "first";
    add_snap (rq, url, strlen (url) + 1); add_snap (rq, method, strlen (method) + 1); add_snap (rq, version, strlen (version) + 1);
    sa.rq = rq;
    MHD_get_connection_values_n (mc, (enum MHD_ValueKind) (MHD_HEADER_KIND | MHD_COOKIE_KIND | MHD_GET_ARGUMENT_KIND), &snap_iter, &sa);
  }
  else phase = (0 != *upload_data_size) ? "upload" : "final";
  if (rq->replied) printf ("protocol-error c=%d r=%d handler-called-after-reply\n", rq->c, rq->r);
  check_snaps (rq, phase);
  rq->ncalls++;
  b = (rq->r < MAXR && conns[c].beh[rq->r].used) ? &conns[c].beh[rq->r] : &defbeh;
  if (!defbeh.used) { defbeh.used = 1; strcpy (defbeh.f, "c"); strcpy (defbeh.l, "r0"); defbeh.ntake = 0; defbeh.ur_n = -1; defbeh.us_n = -1; }

  printf ("handler c=%d r=%d phase=%s method=", rq->c, rq->r, phase); puthexs (method, strlen (method));
  printf (" url="); puthexs (url, strlen (url)); printf (" ver="); puthexs (version, strlen (version));
  printf (" up=");
  if (0 != *upload_data_size) lp_puthex (stdout, upload_data, *upload_data_size); else putchar ('-');
  if (rq->ncalls == 1)
  {
    printf (" kv=[");
    MHD_get_connection_values_n (mc, (enum MHD_ValueKind) (MHD_HEADER_KIND | MHD_COOKIE_KIND | MHD_GET_ARGUMENT_KIND | MHD_FOOTER_KIND),
                                 &kv_iter, &acc);
    putchar (']');
    ci = MHD_get_connection_info (mc, MHD_CONNECTION_INFO_REQUEST_HEADER_SIZE);
    printf (" hdrsize=%zu", ci ? ci->header_size : (size_t) 0);
  }
  else if (!strcmp (phase, "final"))
  { /* trailers become visible at the final call */
    printf (" footers=[");
    MHD_get_connection_values_n (mc, MHD_FOOTER_KIND, &kv_iter, &acc);
    putchar (']');
  }
  putchar ('\n');

  if (!strcmp (phase, "first") && b->da)
  { /* F13: both functions allocate with MHD_calloc_() */
    struct MHD_DigestAuthInfo *inf = MHD_digest_auth_get_request_info3 (mc);
    struct MHD_DigestAuthUsernameInfo *un;
    printf ("dauth-info c=%d r=%d -> ", rq->c, rq->r);
    if (NULL == inf) printf ("null\n");
    else { printf ("type=%d user=", (int) inf->uname_type); puthexs (inf->username, inf->username_len); putchar ('\n'); MHD_free (inf); }
    un = MHD_digest_auth_get_username3 (mc);
    printf ("dauth-user c=%d r=%d -> ", rq->c, rq->r);
    if (NULL == un) printf ("null\n");
    else { printf ("type=%d user=", (int) un->uname_type); puthexs (un->username, un->username_len); putchar ('\n'); MHD_free (un); }
  }
  if (!strcmp (phase, "first") && b->ba)
  { /* allocates the result with malloc() */
    struct MHD_BasicAuthInfo *bi = MHD_basic_auth_get_username_password3 (mc);
    printf ("bauth-info c=%d r=%d -> ", rq->c, rq->r);
    if (NULL == bi) printf ("null\n");
    else { printf ("user="); puthexs (bi->username, bi->username_len); putchar ('\n'); MHD_free (bi); }
  }
  if (!strcmp (phase, "first"))
  {
    if (b->f[0] == 'r') return do_reply (mc, rq, parse_rid (b->f)) == MHD_YES ? MHD_YES : MHD_NO;
    if (!strcmp (b->f, "no")) return MHD_NO;
    if (b->f[0] == 's') { do_suspend (mc, rq, atoi (b->f + 1)); return MHD_YES; }
    return MHD_YES;
  }
  if (!strcmp (phase, "upload"))
  {
    int n = rq->nupload++;
    long t = (b->ntake > 0) ? b->take[n % b->ntake] : -1;
    size_t avail = *upload_data_size;
    size_t take = (t < 0 || (size_t) t > avail) ? avail : (size_t) t;
    *upload_data_size = avail - take;
    out ("took c=%d r=%d n=%zu of=%zu", rq->c, rq->r, take, avail);
    if (b->ur_n == n) return do_reply (mc, rq, b->ur_rid) == MHD_YES ? MHD_YES : MHD_NO;
    if (b->us_n == n) do_suspend (mc, rq, b->us_k);
    return MHD_YES;
  }
  /* final */
  rq->nfinal++;
  if (b->l[0] == 's' && !rq->suspended_once_final)
  { rq->suspended_once_final = 1; do_suspend (mc, rq, atoi (b->l + 1)); return MHD_YES; }
  if (!strcmp (b->l, "no")) return MHD_NO;
  if (b->l[0] == 'r') return do_reply (mc, rq, parse_rid (b->l)) == MHD_YES ? MHD_YES : MHD_NO;
  return do_reply (mc, rq, 0) == MHD_YES ? MHD_YES : MHD_NO;
}


/* ------------------------------------------------ mhd_send.c once more, WITHOUT vector send:
   the header-then-body fall-back of MHD_send_hdr_and_body_ (in the configured build it is
   reachable with TLS only) compiled from the same source text and entered directly */
#undef HAVE_SENDMSG
#undef HAVE_WRITEV
#include "connection.h"
#ifndef MHD_SEND_H
#define MHD_SEND_H 1   /* skip mhd_send.h: it would switch MHD_VECT_SEND on */
#endif
#undef MHD_VECT_SEND
#define MHD_send_init_static_vars_ nv_MHD_send_init_static_vars_
#define MHD_connection_set_nodelay_state_ nv_MHD_connection_set_nodelay_state_
#define MHD_connection_set_cork_state_ nv_MHD_connection_set_cork_state_
#define MHD_send_data_ nv_MHD_send_data_
#define MHD_send_hdr_and_body_ nv_MHD_send_hdr_and_body_
#define MHD_send_sendfile_ nv_MHD_send_sendfile_
#define MHD_send_iovec_ nv_MHD_send_iovec_
ssize_t nv_MHD_send_data_ (struct MHD_Connection *connection, const char *buffer, size_t buffer_size, bool push_data);
#include "mhd_send.c"
#undef MHD_send_init_static_vars_
#undef MHD_connection_set_nodelay_state_
#undef MHD_connection_set_cork_state_
#undef MHD_send_data_
#undef MHD_send_hdr_and_body_
#undef MHD_send_sendfile_
#undef MHD_send_iovec_

static int parse_answer (const char *w, int *what, size_t *n)
{
  int i;
  *what = 0; *n = 0;
  if (!strcmp (w, "full")) return 1;
  if (!strncmp (w, "short:", 6)) { *what = F_SHORT; *n = (size_t) atol (w + 6); return *n >= 1; }
  for (i = 2; i < F_NFAULT; i++) if (!strcmp (w, fault_name[i])) { *what = i; return 1; }
  return 0;
}

/* hab <hdrhex> <bodyhex> <nonblk> <answer1> <answer2> */
static void unit_hab (const char *hh, const char *bh, int nonblk, const char *a1, const char *a2)
{
  static struct MHD_Daemon fd_; static struct MHD_Connection fc;
  size_t hl, bl; uint8_t *hb = lp_unhex (hh, &hl), *bb = lp_unhex (bh, &bl);
  int sv[2]; ssize_t ret; static uint8_t rb[1 << 16]; ssize_t got;
  if (!hb || !bb || !parse_answer (a1, &unit_what[0], &unit_n[0]) || !parse_answer (a2, &unit_what[1], &unit_n[1])
      || 0 != socketpair (AF_UNIX, SOCK_STREAM | SOCK_NONBLOCK, 0, sv))
  { free (hb); free (bb); out ("bad-op"); return; }
  memset (&fd_, 0, sizeof(fd_)); memset (&fc, 0, sizeof(fc));
  fc.daemon = &fd_; fc.socket_fd = sv[1]; fc.state = MHD_CONNECTION_HEADERS_SENDING;
  fc.sk_nonblck = (0 != nonblk); fc.is_nonip = _MHD_YES; fc.sk_spipe_suppress = true;
  unit_fd = sv[1]; unit_calls = 0;
  ret = nv_MHD_send_hdr_and_body_ (&fc, (const char *) hb, hl, false, bl ? (const char *) bb : NULL, bl, true);
  unit_fd = -1;
  got = recv (sv[0], rb, sizeof(rb), MSG_DONTWAIT);
  printf ("hab ret=%zd calls=%d wire=", ret, unit_calls); lp_puthex (stdout, rb, got > 0 ? (size_t) got : 0); putchar ('\n');
  close (sv[0]); close (sv[1]); free (hb); free (bb);
}

/* ---------------------------------------------------------------- rounds */
static void drain_clients (void)
{
  int c;
  for (c = 0; c < MAXC; c++)
  {
    static uint8_t buf[1 << 16];
    if (!conns[c].used || conns[c].cfd < 0 || conns[c].eof_seen) continue;
    for (;;)
    {
      ssize_t r = recv (conns[c].cfd, buf, sizeof(buf), MSG_DONTWAIT);
      if (r > 0) { g_events++; printf ("wire c=%d ", c); lp_puthex (stdout, buf, (size_t) r); putchar ('\n'); continue; }
      if (0 == r) { out ("eof c=%d", c); conns[c].eof_seen = 1; }
      else if (errno == ECONNRESET || errno == EPIPE) { out ("rst c=%d", c); conns[c].eof_seen = 1; }
      break;
    }
  }
}

static int threaded (void);
static void report (void)
{
  uint64_t to;
  const union MHD_DaemonInfo *di;
  drain_clients ();
  if (NULL == d) return;
  if (! threaded ())
  { int c; for (c = 0; c < MAXC; c++) if (conns[c].used && conns[c].mc)
    { printf ("wst c=%d ", c); print_wst (conns[c].mc); putchar ('\n'); } }
  if (MHD_YES == MHD_get_timeout64 (d, &to)) out ("hint %" PRIu64, to); else out ("hint none");
  di = MHD_get_daemon_info (d, MHD_DAEMON_INFO_CURRENT_CONNECTIONS);
  out ("conns %u", di ? di->num_connections : 0u);
}

static int threaded (void) { return NULL != strstr (cfg.mode, "-thr") || !strcmp (cfg.mode, "tpc"); }

static void one_round (void)
{
  int c;
  for (c = 0; c < MAXC; c++)
    if (conns[c].used && conns[c].resume_in >= 0 && conns[c].mc)
    {
      if (0 == conns[c].resume_in) { conns[c].resume_in = -1; out ("resume c=%d", c); MHD_resume_connection (conns[c].mc); }
      else conns[c].resume_in--;
    }
  if (threaded ()) { usleep (20000); return; }
  if (!strcmp (cfg.mode, "select"))
  {
    fd_set rs, ws, es; MHD_socket maxfd = 0; struct timeval tv = {0, 0};
    FD_ZERO (&rs); FD_ZERO (&ws); FD_ZERO (&es);
    if (MHD_YES != MHD_get_fdset2 (d, &rs, &ws, &es, &maxfd, FD_SETSIZE)) { out ("fdset-failed"); return; }
    select ((int) maxfd + 1, &rs, &ws, &es, &tv);
    MHD_run_from_select2 (d, &rs, &ws, &es, FD_SETSIZE);
  }
  else MHD_run_wait (d, 0);
}

/* ---------------------------------------------------------------- script */
static int kv (const char *w, const char *key, const char **val)
{ size_t n = strlen (key); if (!strncmp (w, key, n) && w[n] == '=') { *val = w + n + 1; return 1; } return 0; }

static void start_daemon (void)
{
  unsigned flags = MHD_USE_NO_LISTEN_SOCKET;
  struct MHD_OptionItem ops[16]; int n = 0;
  if (cfg.suspend) flags |= MHD_ALLOW_SUSPEND_RESUME;
  if (cfg.upgrade) flags |= MHD_ALLOW_UPGRADE;
  if (!strcmp (cfg.mode, "epoll")) flags |= MHD_USE_EPOLL;
  else if (!strcmp (cfg.mode, "poll-thr")) flags |= MHD_USE_POLL | MHD_USE_INTERNAL_POLLING_THREAD | MHD_USE_ITC;
  else if (!strcmp (cfg.mode, "select-thr")) flags |= MHD_USE_INTERNAL_POLLING_THREAD | MHD_USE_ITC;
  else if (!strcmp (cfg.mode, "epoll-thr")) flags |= MHD_USE_EPOLL | MHD_USE_INTERNAL_POLLING_THREAD | MHD_USE_ITC;
  else if (!strcmp (cfg.mode, "tpc")) flags |= MHD_USE_THREAD_PER_CONNECTION | MHD_USE_INTERNAL_POLLING_THREAD | MHD_USE_ITC;
  if (cfg.mem) { ops[n].option = MHD_OPTION_CONNECTION_MEMORY_LIMIT; ops[n].value = (intptr_t) cfg.mem; ops[n++].ptr_value = NULL; }
  if (cfg.incr) { ops[n].option = MHD_OPTION_CONNECTION_MEMORY_INCREMENT; ops[n].value = (intptr_t) cfg.incr; ops[n++].ptr_value = NULL; }
  if (cfg.have_lvl) { ops[n].option = MHD_OPTION_CLIENT_DISCIPLINE_LVL; ops[n].value = cfg.lvl; ops[n++].ptr_value = NULL; }
  if (cfg.limit) { ops[n].option = MHD_OPTION_CONNECTION_LIMIT; ops[n].value = cfg.limit; ops[n++].ptr_value = NULL; }
  if (cfg.perip) { ops[n].option = MHD_OPTION_PER_IP_CONNECTION_LIMIT; ops[n].value = cfg.perip; ops[n++].ptr_value = NULL; }
  if (cfg.timeout) { ops[n].option = MHD_OPTION_CONNECTION_TIMEOUT; ops[n].value = cfg.timeout; ops[n++].ptr_value = NULL; }
  if (cfg.spipe) { ops[n].option = MHD_OPTION_SIGPIPE_HANDLED_BY_APP; ops[n].value = 1; ops[n++].ptr_value = NULL; }
  if (cfg.nonce_tbl) { ops[n].option = MHD_OPTION_NONCE_NC_SIZE; ops[n].value = cfg.nonce_tbl; ops[n++].ptr_value = NULL; }
  ops[n].option = MHD_OPTION_NOTIFY_COMPLETED; ops[n].value = (intptr_t) &completed; ops[n++].ptr_value = NULL;
  ops[n].option = MHD_OPTION_NOTIFY_CONNECTION; ops[n].value = (intptr_t) &notify_conn; ops[n++].ptr_value = NULL;
  ops[n].option = MHD_OPTION_URI_LOG_CALLBACK; ops[n].value = (intptr_t) &uri_log; ops[n++].ptr_value = NULL;
  ops[n].option = MHD_OPTION_END; ops[n].value = 0; ops[n++].ptr_value = NULL;
  d = MHD_start_daemon (flags, 0, NULL, NULL, &handler, NULL, MHD_OPTION_ARRAY, ops, MHD_OPTION_END);
  out (d ? "started" : "start-failed");
}

static void elog (void *cls, const char *fmt, va_list ap) { (void) cls; (void) fmt; (void) ap; }

static void reset_all (void)
{
  int c, i, j;
  if (d) { MHD_stop_daemon (d); d = NULL; }
  drop_held ();
  for (c = 0; c < MAXC; c++) { if (conns[c].used && conns[c].cfd >= 0) close (conns[c].cfd); }
  memset (conns, 0, sizeof(conns));
  for (i = 0; i < MAXRESP; i++) { for (j = 0; j < resps[i].nh; j++) { free (resps[i].h[j].n); free (resps[i].h[j].v); } }
  memset (resps, 0, sizeof(resps));
  memset (freecb_count, 0, sizeof(freecb_count));
  memset (&cfg, 0, sizeof(cfg)); strcpy (cfg.mode, "select");
  vclock_ms = 1000000;
  nfaults = 0; memset (faults, 0, sizeof(faults)); memset (call_count, 0, sizeof(call_count));
  memset (fired_count, 0, sizeof(fired_count)); alloc_fired = 0;
  alloc_armed = 0; alloc_count = 0; alloc_fail_at = 0; shim_quiet = 0;
  strcpy (alloc_site, "-"); alloc_via = "-";
}

static uint8_t *unhexz (const char *s)
{ size_t n; uint8_t *b = lp_unhex (s, &n), *z; if (!b) return NULL; z = (uint8_t *) malloc (n + 1); memcpy (z, b, n); z[n] = 0; free (b); return z; }

int main (void)
{
  struct lp_line l = {0};
  signal (SIGPIPE, SIG_IGN);
  setvbuf (stdout, NULL, _IOFBF, 1 << 16);
  MHD_set_panic_func (NULL, NULL);
  (void) elog;
  while (lp_read (stdin, &l))
  {
    const char *v; int i; uint64_t a, b;
    const char *op = l.w[0];
    if (!strcmp (op, "case")) { reset_all (); out ("case %s", l.n > 1 ? l.w[1] : "-"); continue; }
    if (!strcmp (op, "cfg"))
    {
      for (i = 1; i < l.n; i++)
      {
        if (kv (l.w[i], "mode", &v)) { strncpy (cfg.mode, v, sizeof(cfg.mode) - 1); }
        else if (kv (l.w[i], "mem", &v)) cfg.mem = (size_t) atol (v);
        else if (kv (l.w[i], "incr", &v)) cfg.incr = (size_t) atol (v);
        else if (kv (l.w[i], "lvl", &v)) { cfg.lvl = atoi (v); cfg.have_lvl = 1; }
        else if (kv (l.w[i], "limit", &v)) cfg.limit = (unsigned) atoi (v);
        else if (kv (l.w[i], "perip", &v)) cfg.perip = (unsigned) atoi (v);
        else if (kv (l.w[i], "timeout", &v)) cfg.timeout = (unsigned) atoi (v);
        else if (kv (l.w[i], "upgrade", &v)) cfg.upgrade = atoi (v);
        else if (kv (l.w[i], "suspend", &v)) cfg.suspend = atoi (v);
        else if (kv (l.w[i], "nonce_tbl", &v)) cfg.nonce_tbl = (unsigned) atoi (v);
        else if (kv (l.w[i], "spipe", &v)) cfg.spipe = atoi (v);
      }
      out ("ok"); continue;
    }
    if (!strcmp (op, "hab") && l.n >= 6) { unit_hab (l.w[1], l.w[2], atoi (l.w[3]), l.w[4], l.w[5]); continue; }
    if (!strcmp (op, "start")) { start_daemon (); shim_quiet = threaded (); continue; }
    if (!strcmp (op, "fault") && l.n >= 5 && lp_u64 (l.w[1], &a) && a < MAXC && lp_u64 (l.w[3], &b) && b >= 1)
    { /* fault <c> <recv|send|sendmsg|sendfile> <k> <short n|eagain|eintr|econnreset|epipe|...> */
      int kind = -1, what = -1; uint64_t n = 0;
      for (i = 0; i < K_NKIND; i++) if (!strcmp (l.w[2], kind_name[i])) kind = i;
      for (i = 1; i < F_NFAULT; i++) if (!strcmp (l.w[4], fault_name[i])) what = i;
      if (kind < 0 || what < 0 || nfaults >= MAXFAULT || (F_SHORT == what && (l.n < 6 || !lp_u64 (l.w[5], &n) || 0 == n)))
      { out ("bad-op"); continue; }
      faults[nfaults].c = (int) a; faults[nfaults].kind = kind; faults[nfaults].k = (unsigned long) b;
      faults[nfaults].what = what; faults[nfaults].n = (size_t) n; faults[nfaults].fired = 0; nfaults++;
      out ("ok"); continue;
    }
    if (!strcmp (op, "alloc-fail") && l.n >= 2 && lp_u64 (l.w[1], &a))
    { /* the a-th library allocation from now on returns NULL (0 = only count) */
      alloc_armed = 1; alloc_count = 0; alloc_fail_at = (unsigned long) a; out ("ok"); continue; }
    if (!strcmp (op, "alloc-off"))
    { alloc_armed = 0; out ("allocs n=%lu fired=%lu site=%s via=%s", alloc_count, alloc_fired, alloc_site, alloc_via); continue; }
    if (!strcmp (op, "resp") && l.n >= 2)
    {
      int rid = atoi (l.w[1]); struct resp *r;
      if (rid < 0 || rid >= MAXRESP) { out ("bad-op"); continue; }
      r = &resps[rid]; memset (r, 0, sizeof(*r)); r->used = 1; strcpy (r->kind, "copy"); r->code = 200; r->size = 5; r->cberr_at = -1; r->cbeos_at = -1;
      for (i = 2; i < l.n; i++)
      {
        if (kv (l.w[i], "kind", &v)) strncpy (r->kind, v, sizeof(r->kind) - 1);
        else if (kv (l.w[i], "code", &v)) r->code = (unsigned) atoi (v);
        else if (kv (l.w[i], "size", &v)) r->size = (size_t) atol (v);
        else if (kv (l.w[i], "flags", &v)) r->flags = (unsigned) atoi (v);
        else if (kv (l.w[i], "cbmax", &v)) r->cbmax = (size_t) atol (v);
        else if (kv (l.w[i], "cbnr", &v)) r->cbnr = atoi (v);
        else if (kv (l.w[i], "cberr", &v)) r->cberr_at = atoi (v);
        else if (kv (l.w[i], "cbeos", &v)) r->cbeos_at = atoi (v);
        else if (kv (l.w[i], "iovn", &v)) r->iovn = atoi (v);
        else if ((kv (l.w[i], "h", &v) || kv (l.w[i], "f", &v) || kv (l.w[i], "d", &v)) && r->nh < 16)
        {
          char *colon = strchr ((char *) v, ':'); struct hdrspec *h = &r->h[r->nh];
          if (!colon) continue;
          *colon = 0;
          h->kind = (l.w[i][0] == 'h') ? 0 : (l.w[i][0] == 'f') ? 1 : 2;
          h->n = unhexz (v); h->v = unhexz (colon + 1);
          if (h->n && h->v) r->nh++;
        }
      }
      out ("ok"); continue;
    }
    if (!strcmp (op, "beh") && l.n >= 3)
    {
      int c = atoi (l.w[1]), r = atoi (l.w[2]); struct beh *bh;
      if (c < 0 || c >= MAXC || r < 0 || r >= MAXR) { out ("bad-op"); continue; }
      bh = &conns[c].beh[r]; memset (bh, 0, sizeof(*bh)); bh->used = 1; strcpy (bh->f, "c"); strcpy (bh->l, "r0"); bh->ur_n = -1; bh->us_n = -1;
      for (i = 3; i < l.n; i++)
      {
        if (kv (l.w[i], "f", &v)) strncpy (bh->f, v, sizeof(bh->f) - 1);
        else if (kv (l.w[i], "l", &v)) strncpy (bh->l, v, sizeof(bh->l) - 1);
        else if (kv (l.w[i], "da", &v)) bh->da = atoi (v);
        else if (kv (l.w[i], "ba", &v)) bh->ba = atoi (v);
        else if (kv (l.w[i], "u", &v))
        { char *s = (char *) v; bh->ntake = 0;
          while (*s && bh->ntake < 8) { bh->take[bh->ntake++] = !strncmp (s, "all", 3) ? -1 : atol (s); s = strchr (s, ','); if (!s) break; s++; } }
        else if (kv (l.w[i], "ur", &v)) { bh->ur_n = atoi (v); v = strchr (v, ':'); bh->ur_rid = v ? atoi (v + 2) : 0; }
        else if (kv (l.w[i], "us", &v)) { bh->us_n = atoi (v); v = strchr (v, ':'); bh->us_k = v ? atoi (v + 1) : 0; }
      }
      out ("ok"); continue;
    }
    if (NULL == d && strcmp (op, "tick")) { out ("bad-op"); continue; }
    if (!strcmp (op, "arrive") && l.n >= 3 && lp_u64 (l.w[1], &a) && lp_u64 (l.w[2], &b) && a < MAXC)
    {
      int sv[2]; struct sockaddr_in sa; enum MHD_Result q;
      if (conns[a].used) { out ("bad-op"); continue; }
      if (0 != socketpair (AF_UNIX, SOCK_STREAM | SOCK_NONBLOCK, 0, sv)) { out ("bad-op"); continue; }
      memset (&sa, 0, sizeof(sa)); sa.sin_family = AF_INET; sa.sin_port = htons ((uint16_t) (1000 + a));
      sa.sin_addr.s_addr = htonl (0x0a000000u + (uint32_t) b);
      { int saved = conns[a].resume_in; (void) saved; }
      conns[a].used = 1; conns[a].cfd = sv[0]; conns[a].sfd = sv[1]; conns[a].addr = (int) b; conns[a].resume_in = -1;
      q = MHD_add_connection (d, sv[1], (struct sockaddr *) &sa, sizeof(sa));
      out ("arrive c=%d -> %d", (int) a, (int) q);
      if (MHD_YES != q) { /* MHD closed sv[1] itself */ }
      report ();
      continue;
    }
    if (!strcmp (op, "send") && l.n >= 3 && lp_u64 (l.w[1], &a) && a < MAXC && conns[a].used)
    {
      size_t n, offn = 0; uint8_t *bytes = lp_unhex (l.w[2], &n);
      if (!bytes) { out ("bad-op"); continue; }
      while (offn < n) { ssize_t r = send (conns[a].cfd, bytes + offn, n - offn, MSG_DONTWAIT | MSG_NOSIGNAL); if (r <= 0) break; offn += (size_t) r; }
      free (bytes);
      out ("sent c=%d n=%zu", (int) a, offn); continue;
    }
    if (!strcmp (op, "shutwr") && l.n >= 2 && lp_u64 (l.w[1], &a) && a < MAXC && conns[a].used)
    { shutdown (conns[a].cfd, SHUT_WR); out ("ok"); continue; }
    if (!strcmp (op, "cclose") && l.n >= 2 && lp_u64 (l.w[1], &a) && a < MAXC && conns[a].used)
    { drain_clients (); close (conns[a].cfd); conns[a].cfd = -1; conns[a].eof_seen = 1; out ("ok"); continue; }
    if (!strcmp (op, "round")) { one_round (); report (); continue; }
    if (!strcmp (op, "rounds") && l.n >= 2 && lp_u64 (l.w[1], &a))
    { for (i = 0; i < (int) a; i++) { one_round (); drain_clients (); } report (); continue; }
    if (!strcmp (op, "settle") && l.n >= 2 && lp_u64 (l.w[1], &a))
    { /* run rounds until three consecutive rounds produced no observable event, or a rounds */
      int quiet = 0, n = 0, spin = 0;
      while (n < (int) a && quiet < 3)
      { unsigned long before = g_events;
        rnd_send_calls = rnd_progress = rnd_faults = 0;
        one_round (); drain_clients (); n++;
        if (g_events == before) quiet++; else quiet = 0;
        /* spin: the socket was writable and the library called send, yet not a single byte moved and no fault was injected */
        if (rnd_send_calls > 0 && 0 == rnd_progress && 0 == rnd_faults) spin++; else spin = 0;
        if (spin >= 8) { out ("wedged rounds=%d send-calls-without-progress", spin); break; } }
      out ("settled rounds=%d quiet=%d", n, quiet); report (); continue; }
    if (!strcmp (op, "tick") && l.n >= 2 && lp_u64 (l.w[1], &a)) { vclock_ms += a; out ("ok"); continue; }
    if (!strcmp (op, "tickback") && l.n >= 2 && lp_u64 (l.w[1], &a)) { vclock_ms -= a; out ("ok"); continue; }
    if (!strcmp (op, "set-timeout") && l.n >= 3 && lp_u64 (l.w[1], &a) && lp_u64 (l.w[2], &b) && a < MAXC && conns[a].mc)
    { out ("set-timeout c=%d -> %d", (int) a, (int) MHD_set_connection_option (conns[a].mc, MHD_CONNECTION_OPTION_TIMEOUT, (unsigned int) b)); continue; }
    if (!strcmp (op, "resume") && l.n >= 2 && lp_u64 (l.w[1], &a) && a < MAXC && conns[a].mc)
    { conns[a].resume_in = -1; out ("resume c=%d", (int) a); MHD_resume_connection (conns[a].mc); continue; }
    if (!strcmp (op, "up-close") && l.n >= 2 && lp_u64 (l.w[1], &a) && a < MAXC && conns[a].upgraded)
    { out ("up-close c=%d -> %d", (int) a, (int) MHD_upgrade_action (conns[a].urh, MHD_UPGRADE_ACTION_CLOSE)); conns[a].upgraded = 0; continue; }
    if (!strcmp (op, "up-recv") && l.n >= 2 && lp_u64 (l.w[1], &a) && a < MAXC && conns[a].upgraded)
    { static uint8_t ub[65536]; ssize_t r = recv (conns[a].usock, ub, sizeof(ub), MSG_DONTWAIT);
      printf ("up-data c=%d ", (int) a); if (r > 0) lp_puthex (stdout, ub, (size_t) r); else putchar ('-'); putchar ('\n'); continue; }
    if (!strcmp (op, "up-send") && l.n >= 3 && lp_u64 (l.w[1], &a) && a < MAXC && conns[a].upgraded)
    { size_t n; uint8_t *bytes = lp_unhex (l.w[2], &n); ssize_t r = bytes ? send (conns[a].usock, bytes, n, MSG_NOSIGNAL) : -1; free (bytes);
      out ("up-sent c=%d n=%zd", (int) a, r); continue; }
    if (!strcmp (op, "stop")) {
      /* the API forbids stopping with suspended connections: resume them first */
      int any = 0;
      for (i = 0; i < MAXC; i++)
        if (conns[i].used && conns[i].resume_in >= 0 && conns[i].mc)
        { conns[i].resume_in = -1; out ("resume c=%d", i); MHD_resume_connection (conns[i].mc); any = 1; }
      if (any && !threaded ()) { one_round (); one_round (); }
      else if (any) usleep (50000);
      drain_clients (); MHD_stop_daemon (d); d = NULL; drain_clients ();
      print_held ("stop"); drop_held (); out ("stopped");
      for (i = 0; i < MAXRESP; i++) if (freecb_count[i]) out ("free-cb-total rid=%d n=%d", i, freecb_count[i]);
      printf ("fired"); for (i = 1; i < F_NFAULT; i++) printf (" %s=%lu", fault_name[i], fired_count[i]);
      printf (" alloc=%lu allocs=%lu\n", alloc_fired, alloc_count);
      for (i = 0; i < nfaults; i++) if (! faults[i].fired) out ("fault-unfired c=%d k=%s n=%lu", faults[i].c, kind_name[faults[i].kind], faults[i].k);
      continue; }
    out ("bad-op");
  }
  reset_all ();
  free (l.buf);
  fflush (stdout);   /* LeakSanitizer may _exit() before stdio is flushed */
  return 0;
}
