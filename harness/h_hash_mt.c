/* Concurrency harness for the hash functions (engine "hash", property C16).
   The digest must be a function of (context, data) only: several calculations running at the same time in
   different threads — each with its own context, its own copy of the data, its own output buffer — must all
   equal the standard.  Hidden shared state (a `static` scratch buffer in a transform) shows here and nowhere
   in a single-threaded run.

   Built without sanitizers, -O0 (an optimiser keeps a static scratch array in registers and hides the race), -pthread; twice like h_hash.c (main files / -DHASH_WS_H=… + ws sha1.c).

   Script ops (one output line each):
     msg <alg> <datahex> <digesthex> <cuts>    remember a message with the digest an independent implementation
                                               computed; <cuts> = "-" or "a,b,c": ascending positions where the
                                               split feeding cuts the message            -> ok <index>
     run <alg> <threads> <millis>              every thread walks the messages of <alg> (starting at a different
                                               one) until the time is over: one-shot and split feeding each
                                               -> mt <alg> threads <t> rounds <r> mismatches <m> [first <msg> <oneshot|split> <gothex>]
     clear <alg>                               forget the messages                         -> ok */
#include "MHD_config.h"
#ifdef HASH_WS_H
#include HASH_WS_H
#define HASH_WS 1
#else
#include "md5.h"
#include "sha256.h"
#include "sha512_256.h"
#include "sha1.h"
#endif
#include <pthread.h>
#include <time.h>
#include "common/lp.h"

#define MAXDG 64
#define MAXMSG 256
#define MAXCUT 16
#define MAXTHR 16

typedef void (*init_fn) (void *);
typedef void (*update_fn) (void *, const uint8_t *, size_t);
typedef void (*finish_fn) (void *, uint8_t *);

struct msg { uint8_t *data; size_t len; uint8_t dg[MAXDG]; size_t cut[MAXCUT]; int ncut; };

struct alg
{
  const char *name;
  size_t ctx_size;
  size_t dg_size;
  init_fn init;
  update_fn update;
  finish_fn finish;
  struct msg m[MAXMSG];
  int nm;
};

#ifdef HASH_WS
static void i_sha1 (void *c) { MHD_SHA1_init (c); }
static void u_sha1 (void *c, const uint8_t *d, size_t n) { MHD_SHA1_update (c, d, n); }
static void f_sha1 (void *c, uint8_t *o) { MHD_SHA1_finish (c, o); }
static struct alg algs[] = {
  { "wssha1", sizeof (struct sha1_ctx), SHA1_DIGEST_SIZE, i_sha1, u_sha1, f_sha1, {{0}}, 0 },
};
#else
static void i_md5 (void *c) { MHD_MD5_init (c); }
static void u_md5 (void *c, const uint8_t *d, size_t n) { MHD_MD5_update (c, d, n); }
static void f_md5 (void *c, uint8_t *o) { MHD_MD5_finish (c, o); }
static void i_sha1 (void *c) { MHD_SHA1_init (c); }
static void u_sha1 (void *c, const uint8_t *d, size_t n) { MHD_SHA1_update (c, d, n); }
static void f_sha1 (void *c, uint8_t *o) { MHD_SHA1_finish (c, o); }
static void i_sha256 (void *c) { MHD_SHA256_init (c); }
static void u_sha256 (void *c, const uint8_t *d, size_t n) { MHD_SHA256_update (c, d, n); }
static void f_sha256 (void *c, uint8_t *o) { MHD_SHA256_finish (c, o); }
static void i_sha512 (void *c) { MHD_SHA512_256_init (c); }
static void u_sha512 (void *c, const uint8_t *d, size_t n) { MHD_SHA512_256_update (c, d, n); }
static void f_sha512 (void *c, uint8_t *o) { MHD_SHA512_256_finish (c, o); }
static struct alg algs[] = {
  { "md5", sizeof (struct Md5Ctx), MD5_DIGEST_SIZE, i_md5, u_md5, f_md5, {{0}}, 0 },
  { "sha1", sizeof (struct sha1_ctx), SHA1_DIGEST_SIZE, i_sha1, u_sha1, f_sha1, {{0}}, 0 },
  { "sha256", sizeof (struct Sha256Ctx), SHA256_DIGEST_SIZE, i_sha256, u_sha256, f_sha256, {{0}}, 0 },
  { "sha512_256", sizeof (struct Sha512_256Ctx), SHA512_256_DIGEST_SIZE, i_sha512, u_sha512, f_sha512, {{0}}, 0 },
};
#endif
#define NALG (sizeof (algs) / sizeof (algs[0]))

static struct alg *find (const char *name)
{
  for (size_t i = 0; i < NALG; i++)
    if (! strcmp (algs[i].name, name))
      return &algs[i];
  return NULL;
}

struct job
{
  struct alg *a;
  int id;
  double until;
  uint64_t rounds, bad;
  int first_msg, first_split;
  uint8_t first_dg[MAXDG];
};

static double now (void)
{
  struct timespec ts;
  clock_gettime (CLOCK_MONOTONIC, &ts);
  return (double) ts.tv_sec + 1e-9 * (double) ts.tv_nsec;
}

static void *worker (void *arg)
{
  struct job *j = arg;
  struct alg *a = j->a;
  void *ctx = malloc (a->ctx_size);          /* this thread's own context (re-used for every message) */
  uint8_t **copy = malloc (sizeof (uint8_t *) * (size_t) a->nm);
  uint8_t dg[MAXDG];
  for (int i = 0; i < a->nm; i++)            /* this thread's own copy of the data */
  {
    copy[i] = malloc (a->m[i].len ? a->m[i].len : 1);
    memcpy (copy[i], a->m[i].data, a->m[i].len);
  }
  for (int i = j->id % a->nm; now () < j->until; i = (i + 1) % a->nm)
  {
    struct msg *m = &a->m[i];
    for (int split = 0; split < 2; split++)
    {
      a->init (ctx);
      if (! split)
        a->update (ctx, copy[i], m->len);
      else
      {
        size_t pos = 0;
        for (int c = 0; c < m->ncut; c++)
        {
          a->update (ctx, copy[i] + pos, m->cut[c] - pos);
          pos = m->cut[c];
        }
        a->update (ctx, copy[i] + pos, m->len - pos);
      }
      a->finish (ctx, dg);
      j->rounds++;
      if (memcmp (dg, m->dg, a->dg_size))
      {
        if (0 == j->bad) { j->first_msg = i; j->first_split = split; memcpy (j->first_dg, dg, a->dg_size); }
        j->bad++;
      }
    }
  }
  for (int i = 0; i < a->nm; i++) free (copy[i]);
  free (copy);
  free (ctx);
  return NULL;
}

int main (void)
{
  struct lp_line l = {0};
  setvbuf (stdout, NULL, _IOLBF, 0);
  while (lp_read (stdin, &l))
  {
    struct alg *a = (l.n >= 2) ? find (l.w[1]) : NULL;
    if (! a) { puts ("bad-op"); continue; }
    if (l.n == 5 && ! strcmp (l.w[0], "msg") && a->nm < MAXMSG)
    {
      struct msg *m = &a->m[a->nm];
      size_t dl;
      uint8_t *dg = lp_unhex (l.w[3], &dl);
      int ok = 1;
      m->data = lp_unhex (l.w[2], &m->len);
      m->ncut = 0;
      if (! m->data || ! dg || dl != a->dg_size) ok = 0;
      if (ok && strcmp (l.w[4], "-"))
      {
        char *p = l.w[4];
        while (ok && *p)
        {
          char *e = p;
          uint64_t v = 0;
          while (*e && *e != ',') e++;
          if (*e) *e++ = 0;
          if (! lp_u64 (p, &v) || v > m->len || m->ncut >= MAXCUT
              || (m->ncut && v < m->cut[m->ncut - 1])) ok = 0;
          else m->cut[m->ncut++] = (size_t) v;
          p = e;
        }
      }
      if (ok) memcpy (m->dg, dg, dl);
      free (dg);
      if (! ok) { free (m->data); puts ("bad-op"); continue; }
      printf ("ok %d\n", a->nm++);
    }
    else if (l.n == 4 && ! strcmp (l.w[0], "run") && a->nm > 0)
    {
      uint64_t nt, ms;
      pthread_t th[MAXTHR];
      struct job jb[MAXTHR];
      uint64_t rounds = 0, bad = 0;
      int first = -1;
      if (! lp_u64 (l.w[2], &nt) || ! lp_u64 (l.w[3], &ms) || nt < 1 || nt > MAXTHR || ms > 60000)
      { puts ("bad-op"); continue; }
      memset (jb, 0, sizeof (jb));
      for (uint64_t t = 0; t < nt; t++)
      {
        jb[t].a = a; jb[t].id = (int) t; jb[t].until = now () + 1e-3 * (double) ms;
        if (0 != pthread_create (&th[t], NULL, worker, &jb[t])) abort ();
      }
      for (uint64_t t = 0; t < nt; t++)
      {
        pthread_join (th[t], NULL);
        rounds += jb[t].rounds; bad += jb[t].bad;
        if (first < 0 && jb[t].bad) first = (int) t;
      }
      printf ("mt %s threads %" PRIu64 " rounds %" PRIu64 " mismatches %" PRIu64, a->name, nt, rounds, bad);
      if (first >= 0)
      {
        printf (" first %d %s ", jb[first].first_msg, jb[first].first_split ? "split" : "oneshot");
        lp_puthex (stdout, jb[first].first_dg, a->dg_size);
      }
      putchar ('\n');
    }
    else if (l.n == 2 && ! strcmp (l.w[0], "clear"))
    {
      for (int i = 0; i < a->nm; i++) free (a->m[i].data);
      a->nm = 0;
      puts ("ok");
    }
    else puts ("bad-op");
  }
  for (size_t i = 0; i < NALG; i++)
    for (int k = 0; k < algs[i].nm; k++) free (algs[i].m[k].data);
  free (l.buf);
  return 0;
}
