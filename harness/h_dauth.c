/* Correspondence harness for engine "dauth" (C12): Digest authentication checking of
   src/microhttpd/digestauth.c on a REAL daemon (MHD_USE_NO_LISTEN_SOCKET, connections
   added with MHD_add_connection on a socketpair, driven by MHD_run; virtual monotonic
   clock because mhd_mono_clock.c is not linked).  digestauth.c is included white-box so
   that (a) a nonce can be issued deterministically with the real calculate_add_nonce
   inside the handler and (b) the nonce-nc table can be printed.  The public functions
   MHD_digest_auth_check3 / _check_digest3 / _check / _check2 / _check_digest /
   _check_digest2 / MHD_digest_auth_calc_userhash / _calc_userdigest are called exactly as
   an application calls them, from the access handler of a real request.
   `failmalloc 1`: linked with -Wl,--wrap=malloc; while one of the six check functions runs every
   malloc (the only ones are those of get_buffer_for_size) returns NULL.  The harness's own
   allocations (cstr, lp_unhex, the daemon, the pool) are made outside that window.
   Protocol: see lean/Driver/Dauth.lean.  No source change in /repo is needed. */
#include "MHD_config.h"
#include "digestauth.c"
#include "common/lp.h"
#include <sys/socket.h>
#include <unistd.h>
#include <signal.h>
#include <errno.h>

/* ---- virtual clock (replaces mhd_mono_clock.c) ---- */
static uint64_t vclock_ms;
void MHD_monotonic_sec_counter_init (void) { }
void MHD_monotonic_sec_counter_finish (void) { }
time_t MHD_monotonic_sec_counter (void) { return (time_t) (vclock_ms / 1000); }
uint64_t MHD_monotonic_msec_counter (void) { return vclock_ms; }

static struct MHD_Daemon *rd;
static int csock = -1;           /* client side of the current connection */
static char *rnd_copy;

/* ---- the scripted action of the current request ---- */
static struct lp_line *cur;      /* words of the current `req` line */
static int act0;                 /* index of the first action word */
static FILE *hout;
static int handler_calls;

/* ---- allocation failure injection (-Wl,--wrap=malloc) ---- */
void *__real_malloc (size_t n);
static int fail_flag;            /* `failmalloc <0|1>` */
static int fail_now;             /* non-zero only while a check function of digestauth.c runs */
static unsigned long failed_mallocs;
void *__wrap_malloc (size_t n)
{
  if (fail_now) { failed_mallocs++; errno = ENOMEM; return NULL; }
  return __real_malloc (n);
}
#define FAILING(stmt) do { fail_now = fail_flag; stmt; fail_now = 0; } while (0)

static char *cstr (const char *hex)
{ /* exact-size zero-terminated copy of a hex-encoded C string (no NUL inside) */
  size_t n; uint8_t *b = lp_unhex (hex, &n); char *s;
  if (NULL == b) return NULL;
  for (size_t i = 0; i < n; i++) if (0 == b[i]) { free (b); return NULL; }
  s = (char *) malloc (n + 1);
  if (n) memcpy (s, b, n);
  s[n] = 0;
  free (b);
  return s;
}

static const char *res_name (enum MHD_DigestAuthResult r)
{
  switch (r)
  {
  case MHD_DAUTH_OK: return "OK";
  case MHD_DAUTH_ERROR: return "ERROR";
  case MHD_DAUTH_WRONG_HEADER: return "WRONG_HEADER";
  case MHD_DAUTH_WRONG_USERNAME: return "WRONG_USERNAME";
  case MHD_DAUTH_WRONG_REALM: return "WRONG_REALM";
  case MHD_DAUTH_WRONG_URI: return "WRONG_URI";
  case MHD_DAUTH_WRONG_QOP: return "WRONG_QOP";
  case MHD_DAUTH_WRONG_ALGO: return "WRONG_ALGO";
  case MHD_DAUTH_TOO_LARGE: return "TOO_LARGE";
  case MHD_DAUTH_NONCE_STALE: return "NONCE_STALE";
  case MHD_DAUTH_NONCE_OTHER_COND: return "NONCE_OTHER_COND";
  case MHD_DAUTH_NONCE_WRONG: return "NONCE_WRONG";
  case MHD_DAUTH_RESPONSE_WRONG: return "RESPONSE_WRONG";
  default: return "UNKNOWN";
  }
}

static const char *legacy_name (int r)
{
  if (MHD_YES == r) return "YES";
  if (MHD_NO == r) return "NO";
  if (MHD_INVALID_NONCE == r) return "INVALID_NONCE";
  return "UNKNOWN";
}

static enum MHD_Result
print_arg (void *cls, enum MHD_ValueKind kind, const char *key, size_t key_size, const char *value, size_t value_size)
{
  int *n = (int *) cls;
  (void) kind;
  if ((*n)++) fputc (',', hout);
  lp_puthex (hout, key, key_size);
  if (NULL != value) { fputc ('=', hout); lp_puthex (hout, value, value_size); }
  return MHD_YES;
}

/* returns 0 when the action words are not understood */
static int do_action (struct MHD_Connection *c)
{
  char **w = cur->w + act0;
  int n = cur->n - act0;
  uint64_t a, b, q, m;
  if (3 == n && !strcmp (w[0], "issue") && lp_u64 (w[1], &a) && a <= 2)
  {
    static const enum MHD_DigestBaseAlgo ba[3] = { MHD_DIGEST_BASE_ALGO_MD5, MHD_DIGEST_BASE_ALGO_SHA256,
                                                   MHD_DIGEST_BASE_ALGO_SHA512_256 };
    struct DigestAlgorithm da;
    char *realm = cstr (w[2]);
    char *nonce; size_t nl; bool r;
    if (NULL == realm) return 0;
    digest_setup_zero (&da);
    if (! digest_init_one_time (&da, ba[a])) abort ();
    nl = NONCE_STD_LEN (digest_get_size (&da));
    nonce = (char *) malloc (nl);         /* exact size: "NOT zero-terminated" */
    r = calculate_add_nonce (c, MHD_monotonic_msec_counter (), realm, strlen (realm), &da, nonce);
    digest_deinit (&da);
    fputs (r ? "added " : "refused ", hout);
    lp_puthex (hout, nonce, nl);
    free (nonce); free (realm);
    return 1;
  }
  if (8 == n && (!strcmp (w[0], "check3") || !strcmp (w[0], "digest3")) && lp_u64 (w[4], &a) && lp_u64 (w[5], &b)
      && lp_u64 (w[6], &q) && lp_u64 (w[7], &m) && a <= UINT32_MAX && b <= UINT32_MAX && q < 256 && m < 256)
  {
    char *realm = cstr (w[1]), *user = cstr (w[2]);
    enum MHD_DigestAuthResult r;
    if (NULL == realm || NULL == user) { free (realm); free (user); return 0; }
    if ('c' == w[0][0])
    {
      char *pw = cstr (w[3]);
      if (NULL == pw) { free (realm); free (user); return 0; }
      FAILING (r = MHD_digest_auth_check3 (c, realm, user, pw, (unsigned int) a, (uint32_t) b,
                                           (enum MHD_DigestAuthMultiQOP) q, (enum MHD_DigestAuthMultiAlgo3) m));
      free (pw);
    }
    else
    {
      size_t dl; uint8_t *dg = lp_unhex (w[3], &dl);   /* exact size */
      if (NULL == dg) { free (realm); free (user); return 0; }
      FAILING (r = MHD_digest_auth_check_digest3 (c, realm, user, dg, dl, (unsigned int) a, (uint32_t) b,
                                                  (enum MHD_DigestAuthMultiQOP) q, (enum MHD_DigestAuthMultiAlgo3) m));
      free (dg);
    }
    fprintf (hout, "r=%s", res_name (r));
    free (realm); free (user);
    return 1;
  }
  if ((5 == n || 6 == n) && lp_u64 (w[4], &a) && a <= UINT32_MAX)
  {
    int two = (6 == n);
    int pwk = (!strcmp (w[0], two ? "check2" : "check"));
    int dgk = (!strcmp (w[0], two ? "cdigest2" : "cdigest"));
    char *realm, *user; int r;
    uint64_t al = 0;
    if (!pwk && !dgk) return 0;
    if (two && (!lp_u64 (w[5], &al) || al > 2)) return 0;
    realm = cstr (w[1]); user = cstr (w[2]);
    if (NULL == realm || NULL == user) { free (realm); free (user); return 0; }
    if (pwk)
    {
      char *pw = cstr (w[3]);
      if (NULL == pw) { free (realm); free (user); return 0; }
      FAILING (r = two ? MHD_digest_auth_check2 (c, realm, user, pw, (unsigned int) a, (enum MHD_DigestAuthAlgorithm) al)
                       : MHD_digest_auth_check (c, realm, user, pw, (unsigned int) a));
      free (pw);
    }
    else
    {
      size_t dl; uint8_t *dg = lp_unhex (w[3], &dl);
      if (NULL == dg) { free (realm); free (user); return 0; }
      if (!two && MHD_MD5_DIGEST_SIZE != dl) { free (dg); free (realm); free (user); return 0; }
      FAILING (r = two ? MHD_digest_auth_check_digest2 (c, realm, user, dg, dl, (unsigned int) a, (enum MHD_DigestAuthAlgorithm) al)
                       : MHD_digest_auth_check_digest (c, realm, user, dg, (unsigned int) a));
      free (dg);
    }
    fprintf (hout, "l=%s", legacy_name (r));
    free (realm); free (user);
    return 1;
  }
  return 0;
}

static enum MHD_Result
ahc (void *cls, struct MHD_Connection *c, const char *url, const char *method, const char *version,
     const char *upload_data, size_t *upload_data_size, void **req_cls)
{
  static int marker;
  struct MHD_Response *r;
  enum MHD_Result ret;
  int nargs = 0;
  (void) cls; (void) url; (void) method; (void) version; (void) upload_data; (void) upload_data_size;
  if (NULL == *req_cls) { *req_cls = &marker; return MHD_YES; }
  handler_calls++;
  fprintf (hout, "m=%d url=", (int) c->rq.http_mthd);
  lp_puthex (hout, c->rq.url, c->rq.url_len);
  fputs (" args=", hout);
  MHD_get_connection_values_n (c, MHD_GET_ARGUMENT_KIND, &print_arg, &nargs);
  if (0 == nargs) fputs ("none", hout);
  fputc (' ', hout);
  if (! do_action (c)) fputs ("bad-action", hout);
  r = MHD_create_response_from_buffer_static (2, "ok");
  ret = MHD_queue_response (c, MHD_HTTP_OK, r);
  MHD_destroy_response (r);
  return ret;
}

static void close_conn (void)
{
  if (csock >= 0)
  {
    char rb[512];
    shutdown (csock, SHUT_WR);
    if (rd) for (int k = 0; k < 4; k++) MHD_run (rd);
    while (recv (csock, rb, sizeof(rb), MSG_DONTWAIT) > 0) { }
    close (csock);
    csock = -1;
    if (rd) for (int k = 0; k < 3; k++) MHD_run (rd);
  }
}

static int token_ok (const char *s)
{
  if (!*s) return 0;
  for (; *s; s++) if (*s <= 32 || *s >= 127) return 0;
  return 1;
}

static int wire_ok (const uint8_t *v, size_t n, int target)
{
  for (size_t i = 0; i < n; i++)
  {
    if (0 == v[i] || '\r' == v[i] || '\n' == v[i]) return 0;
    if (target && (' ' == v[i] || '\t' == v[i])) return 0;
  }
  if (n && !target && (' ' == v[0] || '\t' == v[0] || ' ' == v[n-1] || '\t' == v[n-1])) return 0;
  return 1;
}

int main (void)
{
  struct lp_line l = {0};
  signal (SIGPIPE, SIG_IGN);
  while (lp_read (stdin, &l))
  {
    uint64_t a, b, c, d, e;
    if (7 == l.n && !strcmp (l.w[0], "daemon") && lp_u64 (l.w[1], &a) && lp_u64 (l.w[2], &b) && lp_u64 (l.w[4], &c)
        && lp_u64 (l.w[5], &d) && lp_u64 (l.w[6], &e) && a < 16 && b <= 64 && c && c <= UINT32_MAX && d && d <= UINT32_MAX && e <= 2)
    {
      size_t rl; uint8_t *rnd = lp_unhex (l.w[3], &rl);
      if (NULL == rnd) { puts ("bad-op"); continue; }
      close_conn ();
      if (rd) MHD_stop_daemon (rd);
      free (rnd_copy);
      rnd_copy = (char *) rnd;
      rd = MHD_start_daemon (MHD_USE_NO_LISTEN_SOCKET, 0, NULL, NULL, &ahc, NULL,
                             MHD_OPTION_CONNECTION_MEMORY_LIMIT, (size_t) 262144,
                             MHD_OPTION_NONCE_NC_SIZE, (unsigned int) b,
                             MHD_OPTION_DIGEST_AUTH_RANDOM, rl, rnd_copy,
                             MHD_OPTION_DIGEST_AUTH_NONCE_BIND_TYPE, (unsigned int) a,
                             MHD_OPTION_DIGEST_AUTH_DEFAULT_NONCE_TIMEOUT, (unsigned int) c,
                             MHD_OPTION_DIGEST_AUTH_DEFAULT_MAX_NC, (uint32_t) d,
                             MHD_OPTION_CLIENT_DISCIPLINE_LVL, (int) e - 1,
                             MHD_OPTION_END);
      puts (rd ? "ok" : "fault daemon-start");
    }
    else if (2 == l.n && !strcmp (l.w[0], "clock") && lp_u64 (l.w[1], &a))
    {
      vclock_ms = a;
      puts ("ok");
    }
    else if (2 == l.n && !strcmp (l.w[0], "conn") && rd)
    {
      size_t al; uint8_t *ab = lp_unhex (l.w[1], &al);
      int sv[2];
      if (NULL == ab || !(0 == al || sizeof (struct sockaddr_in) == al || sizeof (struct sockaddr_in6) == al))
      { free (ab); puts ("bad-op"); continue; }
      close_conn ();
      if (0 != socketpair (AF_UNIX, SOCK_STREAM, 0, sv)) { free (ab); puts ("fault socketpair"); continue; }
      if (MHD_YES != MHD_add_connection (rd, sv[0], al ? (const struct sockaddr *) ab : NULL, (socklen_t) al))
      { close (sv[1]); free (ab); puts ("fault add-connection"); continue; }
      csock = sv[1];
      free (ab);
      puts ("ok");
    }
    else if (l.n >= 5 && !strcmp (l.w[0], "req") && rd && csock >= 0 && token_ok (l.w[1]))
    {
      size_t tl, vl = 0; uint8_t *tg = lp_unhex (l.w[2], &tl);
      uint8_t *av = strcmp (l.w[3], "-") ? lp_unhex (l.w[3], &vl) : NULL;
      char *buf = NULL; size_t blen = 0;
      char rb[4096]; size_t got = 0;
      int done = 0;
      if (NULL == tg || (strcmp (l.w[3], "-") && NULL == av) || 0 == tl || '/' != tg[0] || !wire_ok (tg, tl, 1)
          || (av && (0 == vl || !wire_ok (av, vl, 0))))
      { free (tg); free (av); puts ("bad-op"); continue; }
      cur = &l; act0 = 4;
      hout = open_memstream (&buf, &blen);
      handler_calls = 0;
      {
        static const char h1[] = " HTTP/1.1\r\nHost: h\r\n";
        static const char h2[] = "Authorization: ";
        int bad = 0;
        bad |= write (csock, l.w[1], strlen (l.w[1])) < 0;
        bad |= write (csock, " ", 1) < 0;
        bad |= write (csock, tg, tl) < 0;
        bad |= write (csock, h1, sizeof(h1) - 1) < 0;
        if (av) { bad |= write (csock, h2, sizeof(h2) - 1) < 0; bad |= write (csock, av, vl) < 0; bad |= write (csock, "\r\n", 2) < 0; }
        bad |= write (csock, "\r\n", 2) < 0;
        if (bad) fputs ("fault write ", stdout);
      }
      for (int k = 0; k < 40 && !done; k++)
      {
        ssize_t r;
        MHD_run (rd);
        while ((r = recv (csock, rb + got, sizeof(rb) - 1 - got, MSG_DONTWAIT)) > 0)
        {
          got += (size_t) r;
          rb[got] = 0;
          if (got >= 6 && 0 == memcmp (rb + got - 6, "\r\n\r\nok", 6))
            done = 1;               /* the reply of the handler has arrived completely */
          if (got >= 4 && !strcmp (l.w[1], "HEAD") && 0 == memcmp (rb + got - 4, "\r\n\r\n", 4))
            done = 1;               /* … which has no body for HEAD */
          if (got > sizeof(rb) - 512) { memmove (rb, rb + got - 16, 16); got = 16; }
        }
        if (0 == r) done = 1;   /* closed by the server */
      }
      fclose (hout);
      if (1 != handler_calls)
      { /* the HTTP layer refused the request: the connection is gone */
        printf ("nohandler calls=%d status=%.12s", handler_calls, got ? rb : "-");
        close_conn ();
      }
      else
        fputs (buf ? buf : "", stdout);
      putchar ('\n');
      free (buf); free (tg); free (av);
    }
    else if (5 == l.n && !strcmp (l.w[0], "calc") && !strcmp (l.w[1], "userhash") && lp_u64 (l.w[2], &a) && a < 256)
    {
      char *user = cstr (l.w[3]), *realm = cstr (l.w[4]);
      size_t sz = MHD_digest_get_hash_size ((enum MHD_DigestAuthAlgo3) a);
      uint8_t *out = (uint8_t *) malloc (sz ? sz : 1);     /* exact size */
      char *hx = (char *) malloc (2 * sz + 1);
      if (NULL == user || NULL == realm || 0 == sz) puts ("bad-op");
      else if (MHD_YES != MHD_digest_auth_calc_userhash ((enum MHD_DigestAuthAlgo3) a, user, realm, out, sz)) puts ("fail");
      else if (MHD_YES != MHD_digest_auth_calc_userhash_hex ((enum MHD_DigestAuthAlgo3) a, user, realm, hx, 2 * sz + 1)) puts ("fail-hex");
      else
      { /* both forms must agree */
        char *chk = (char *) malloc (2 * sz + 1);
        MHD_bin_to_hex_z (out, sz, chk);
        if (0 != strcmp (chk, hx)) puts ("hex-mismatch"); else { lp_puthex (stdout, out, sz); putchar ('\n'); }
        free (chk);
      }
      free (user); free (realm); free (out); free (hx);
    }
    else if (6 == l.n && !strcmp (l.w[0], "calc") && !strcmp (l.w[1], "userdigest") && lp_u64 (l.w[2], &a) && a < 256)
    {
      char *user = cstr (l.w[3]), *realm = cstr (l.w[4]), *pw = cstr (l.w[5]);
      size_t sz = MHD_digest_get_hash_size ((enum MHD_DigestAuthAlgo3) a);
      uint8_t *out = (uint8_t *) malloc (sz ? sz : 1);
      if (NULL == user || NULL == realm || NULL == pw || 0 == sz) puts ("bad-op");
      else if (MHD_YES != MHD_digest_auth_calc_userdigest ((enum MHD_DigestAuthAlgo3) a, user, realm, pw, out, sz)) puts ("fail");
      else { lp_puthex (stdout, out, sz); putchar ('\n'); }
      free (user); free (realm); free (pw); free (out);
    }
    else if (2 == l.n && !strcmp (l.w[0], "failmalloc") && (!strcmp (l.w[1], "0") || !strcmp (l.w[1], "1")))
    {
      fail_flag = ('1' == l.w[1][0]);
      puts ("ok");
    }
    else if (1 == l.n && !strcmp (l.w[0], "state") && rd)
    {
      printf ("n=%u", rd->nonce_nc_size);
      for (unsigned int i = 0; i < rd->nonce_nc_size; i++)
      {
        const struct MHD_NonceNc *nn = &rd->nnc[i];
        uint64_t mk = nn->nmask;
        if (nn->nc < 64) mk &= (UINT64_C (1) << nn->nc) - 1;
        printf (" %" PRIu32 ":%016" PRIx64 ":", nn->nc, mk);
        lp_puthex (stdout, nn->nonce, strnlen (nn->nonce, sizeof (nn->nonce)));
      }
      putchar ('\n');
    }
    else puts ("bad-op");
    fflush (stdout);
  }
  close_conn ();
  if (rd) MHD_stop_daemon (rd);
  free (rnd_copy);
  free (l.buf);
  if (getenv ("H_DAUTH_MSTAT")) fprintf (stderr, "failed_mallocs=%lu\n", failed_mallocs);
  return 0;
}
