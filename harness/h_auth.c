/* Correspondence harness for engine "auth" (C14): src/microhttpd/gen_auth.c white-box
   (static parsers), the public Basic/Digest information API on a fabricated connection
   (volume) and on a real connection of a real daemon (glue).  No source change needed.
   Protocol: see lean/Driver/Auth.lean. */
#include "MHD_config.h"
#include "gen_auth.c"
#include "memorypool.h"
#include "common/lp.h"
#include <sys/socket.h>
#include <unistd.h>
#include <signal.h>
#include <malloc.h>

/* exact-size copy (optionally followed by one terminator byte) so that ASan sees over-reads */
static char *exact (const uint8_t *b, size_t len, int term)
{
  char *p = (char *) malloc (len + (term >= 0 ? 1 : 0) + ((0 == len && term < 0) ? 1 : 0));
  if (len) memcpy (p, b, len);
  if (term >= 0) p[len] = (char) term;
  return p;
}

static void put_opt (FILE *f, const void *p, size_t n)
{
  if (NULL == p) fputs ("none", f); else lp_puthex (f, p, n);
}

/* ---------------------------------------------------------------- API printing */

static void print_basic (FILE *f, struct MHD_Connection *c)
{
  struct MHD_BasicAuthInfo *bi = MHD_basic_auth_get_username_password3 (c);
  if (NULL == bi) { fputs ("basic none", f); return; }
  fputs ("basic u=", f);
  /* the strings must be zero-terminated */
  if (0 != bi->username[bi->username_len]) fputs ("UNTERMINATED", f);
  lp_puthex (f, bi->username, bi->username_len);
  fputs (" p=", f);
  if (NULL != bi->password && 0 != bi->password[bi->password_len]) fputs ("UNTERMINATED", f);
  if (NULL == bi->password && 0 != bi->password_len) fputs ("BADLEN", f);
  put_opt (f, bi->password, bi->password_len);
  MHD_free (bi);
}

static void print_uname (FILE *f, enum MHD_DigestAuthUsernameType ut, const char *username, size_t username_len,
                         const char *uhh, size_t uhh_len, const uint8_t *uhb)
{
  fprintf (f, "ut=%d user=", (int) ut);
  if (NULL != username && 0 != username[username_len]) fputs ("UNTERMINATED", f);
  if (NULL == username && 0 != username_len) fputs ("BADLEN", f);
  put_opt (f, username, username_len);
  fputs (" uhh=", f);
  if (NULL != uhh && 0 != uhh[uhh_len]) fputs ("UNTERMINATED", f);
  if (NULL == uhh && 0 != uhh_len) fputs ("BADLEN", f);
  put_opt (f, uhh, uhh_len);
  fputs (" uhb=", f);
  put_opt (f, uhb, uhh_len / 2);
}

static void print_info (FILE *f, struct MHD_Connection *c)
{
  struct MHD_DigestAuthInfo *di = MHD_digest_auth_get_request_info3 (c);
  struct MHD_DigestAuthUsernameInfo *ui;
  if (NULL == di) { fputs ("info none", f); return; }
  fprintf (f, "info algo=%d ", (int) di->algo3);
  print_uname (f, di->uname_type, di->username, di->username_len, di->userhash_hex, di->userhash_hex_len, di->userhash_bin);
  fputs (" opaque=", f);
  if (NULL != di->opaque && 0 != di->opaque[di->opaque_len]) fputs ("UNTERMINATED", f);
  if (NULL == di->opaque && 0 != di->opaque_len) fputs ("BADLEN", f);
  put_opt (f, di->opaque, di->opaque_len);
  fputs (" realm=", f);
  if (NULL != di->realm && 0 != di->realm[di->realm_len]) fputs ("UNTERMINATED", f);
  if (NULL == di->realm && 0 != di->realm_len) fputs ("BADLEN", f);
  put_opt (f, di->realm, di->realm_len);
  fprintf (f, " qop=%d cnl=%zu nc=%" PRIu32 " | ", (int) di->qop, di->cnonce_len, di->nc);
  MHD_free (di);
  ui = MHD_digest_auth_get_username3 (c);
  if (NULL == ui) { fputs ("un3 none", f); return; }
  fputs ("un3 ", f);
  print_uname (f, ui->uname_type, ui->username, ui->username_len, ui->userhash_hex, ui->userhash_hex_len, ui->userhash_bin);
  fprintf (f, " algo=%d", (int) ui->algo3);
  MHD_free (ui);
}

/* ---------------------------------------------------------------- block layout */

static void reg (FILE *f, const char *tag, const void *base, const void *p, size_t n)
{
  if (NULL == p) fprintf (f, " %s=-", tag);
  else fprintf (f, " %s=%td:%zu", tag, (const uint8_t *) p - (const uint8_t *) base, n);
}

/* offsets of the returned pointers relative to the first byte behind the structure, and the number of bytes
   allocated there (ASan's malloc_usable_size is the requested size) */
static void print_layout (FILE *f, struct MHD_Connection *c)
{
  struct MHD_DigestAuthInfo *di = MHD_digest_auth_get_request_info3 (c);
  struct MHD_DigestAuthUsernameInfo *ui;
  if (NULL == di) { fputs ("lay none", f); return; }
  fprintf (f, "lay alloc=%zu", malloc_usable_size (di) - sizeof(*di));
  reg (f, "user", di + 1, di->username, di->username_len);
  reg (f, "uhh", di + 1, di->userhash_hex, di->userhash_hex_len);
  reg (f, "uhb", di + 1, di->userhash_bin, di->userhash_hex_len / 2);
  reg (f, "opaque", di + 1, di->opaque, di->opaque_len);
  reg (f, "realm", di + 1, di->realm, di->realm_len);
  MHD_free (di);
  fputs (" | ", f);
  ui = MHD_digest_auth_get_username3 (c);
  if (NULL == ui) { fputs ("un3 none", f); return; }
  fprintf (f, "un3 alloc=%zu", malloc_usable_size (ui) - sizeof(*ui));
  reg (f, "user", ui + 1, ui->username, ui->username_len);
  reg (f, "uhh", ui + 1, ui->userhash_hex, ui->userhash_hex_len);
  reg (f, "uhb", ui + 1, ui->userhash_bin, ui->userhash_hex_len / 2);
  MHD_free (ui);
}

/* ---------------------------------------------------------------- fabricated connection */

#define MAXH 20
static struct MHD_Daemon fdaemon;
static struct MHD_Connection fconn;
static struct MHD_HTTP_Req_Header fh[MAXH];

static void fab_reset (void)
{
  memset (&fconn, 0, sizeof(fconn));
  memset (&fdaemon, 0, sizeof(fdaemon));
  memset (fh, 0, sizeof(fh));
  fconn.daemon = &fdaemon;
}

static void fab_add (int idx, int kind, char *name, size_t nlen, char *value, size_t vlen)
{
  fh[idx].kind = (enum MHD_ValueKind) kind;
  fh[idx].header = name; fh[idx].header_size = nlen;
  fh[idx].value = value; fh[idx].value_size = vlen;
  fh[idx].next = NULL; fh[idx].prev = idx ? &fh[idx-1] : NULL;
  if (idx) fh[idx-1].next = &fh[idx]; else fconn.rq.headers_received = &fh[0];
  fconn.rq.headers_received_tail = &fh[idx];
}

/* a connection that has received exactly "Authorization: <value>" */
static char *fab_single (const uint8_t *v, size_t vlen)
{
  static char name[] = MHD_HTTP_HEADER_AUTHORIZATION;
  char *val = exact (v, vlen, 0);
  fab_reset ();
  fab_add (0, MHD_HEADER_KIND, name, strlen (name), val, vlen);
  fconn.state = MHD_CONNECTION_FULL_REQ_RECEIVED;
  fconn.pool = MHD_pool_create (2048);
  return val;
}

static void fab_done (char *val)
{
  MHD_pool_destroy (fconn.pool);
  free (val);
}

/* ---------------------------------------------------------------- real connection */

static struct MHD_Daemon *rd;
static FILE *hout;
static int handler_calls;

static enum MHD_Result
ahc (void *cls, struct MHD_Connection *c, const char *url, const char *method, const char *version,
     const char *upload_data, size_t *upload_data_size, void **req_cls)
{
  static int marker;
  struct MHD_Response *r;
  enum MHD_Result ret;
  (void) cls; (void) url; (void) method; (void) version; (void) upload_data; (void) upload_data_size;
  if (NULL == *req_cls) { *req_cls = &marker; return MHD_YES; }
  handler_calls++;
  print_basic (hout, c);
  fputs (" ; ", hout);
  print_info (hout, c);
  r = MHD_create_response_from_buffer_static (2, "ok");
  ret = MHD_queue_response (c, MHD_HTTP_OK, r);
  MHD_destroy_response (r);
  return ret;
}

static int conn_value_ok (const uint8_t *v, size_t n)
{
  if (0 == n) return 0;
  for (size_t i = 0; i < n; i++) if (0 == v[i] || '\r' == v[i] || '\n' == v[i]) return 0;
  if (' ' == v[0] || '\t' == v[0] || ' ' == v[n-1] || '\t' == v[n-1]) return 0;
  return 1;
}

static void do_conn_m (uint8_t **vs, const size_t *ns, int cnt)
{
  int sv[2];
  char *buf = NULL; size_t blen = 0;
  static const char pre[] = "GET /x HTTP/1.1\r\nHost: h";
  static const char hdr[] = "\r\nAuthorization: ";
  static const char post[] = "\r\nConnection: close\r\n\r\n";
  int wbad = 0;
  char rb[512];
  if (NULL == rd)
  {
    rd = MHD_start_daemon (MHD_USE_NO_LISTEN_SOCKET, 0, NULL, NULL, &ahc, NULL,
                           MHD_OPTION_CONNECTION_MEMORY_LIMIT, (size_t) 65536, MHD_OPTION_END);
    if (NULL == rd) { puts ("fault daemon-start"); return; }
  }
  if (0 != socketpair (AF_UNIX, SOCK_STREAM, 0, sv)) { puts ("fault socketpair"); return; }
  hout = open_memstream (&buf, &blen);
  handler_calls = 0;
  if (MHD_YES != MHD_add_connection (rd, sv[0], NULL, 0)) { puts ("fault add-connection"); close (sv[1]); fclose (hout); free (buf); return; }
  if (write (sv[1], pre, sizeof(pre) - 1) < 0) wbad = 1;
  for (int k = 0; k < cnt; k++)
    if (write (sv[1], hdr, sizeof(hdr) - 1) < 0 || write (sv[1], vs[k], ns[k]) < 0) wbad = 1;
  if (write (sv[1], post, sizeof(post) - 1) < 0) wbad = 1;
  if (wbad) { puts ("fault write"); }
  for (int k = 0; k < 12; k++) MHD_run (rd);
  shutdown (sv[1], SHUT_WR);
  while (recv (sv[1], rb, sizeof(rb), MSG_DONTWAIT) > 0) { }
  close (sv[1]);
  for (int k = 0; k < 4; k++) MHD_run (rd);
  fclose (hout);
  if (1 != handler_calls) printf ("fault handler-calls=%d ", handler_calls);
  fputs (buf ? buf : "", stdout);
  putchar ('\n');
  free (buf);
}

static void do_conn (const uint8_t *v, size_t n)
{
  uint8_t *vs[1]; size_t ns[1];
  vs[0] = (uint8_t *) v; ns[0] = n;
  do_conn_m (vs, ns, 1);
}

/* ---------------------------------------------------------------- real connection, scripted queries (per-request cache) */

static struct MHD_Daemon *rdq;
static int q_early, q_phase, q_reqs;

/* all three API functions, twice: "<basic> ; <info>" of the first round, REPEAT-DIFF if the second differs */
static void q_round (struct MHD_Connection *c)
{
  char *b[2] = {NULL, NULL}; size_t n[2];
  for (int k = 0; k < 2; k++)
  {
    FILE *f = open_memstream (&b[k], &n[k]);
    print_basic (f, c); fputs (" ; ", f); print_info (f, c);
    fclose (f);
  }
  if (0 != strcmp (b[0], b[1])) fputs ("REPEAT-DIFF ", hout);
  fputs (b[0], hout);
  free (b[0]); free (b[1]);
}

/* MHD_OPTION_URI_LOG_CALLBACK: runs when the request line has been read, before the header fields */
static void *q_uri_log (void *cls, const char *uri, struct MHD_Connection *c)
{
  static int marker;
  (void) cls; (void) uri;
  if (q_reqs++) fputs (" / ", hout);
  q_phase = 0;
  if (q_early) { fputs ("[u=", hout); q_round (c); fputs ("] ", hout); }
  return &marker;
}

static enum MHD_Result
q_ahc (void *cls, struct MHD_Connection *c, const char *url, const char *method, const char *version,
       const char *upload_data, size_t *upload_data_size, void **req_cls)
{
  struct MHD_Response *r;
  enum MHD_Result ret;
  (void) cls; (void) url; (void) method; (void) version; (void) upload_data; (void) req_cls;
  q_phase++;
  fprintf (hout, "%s[h%d=", (q_phase > 1) ? " " : "", q_phase);
  q_round (c);
  fputs ("]", hout);
  if (1 == q_phase) return MHD_YES;
  if (0 != *upload_data_size) { *upload_data_size = 0; return MHD_YES; }
  r = MHD_create_response_from_buffer_static (2, "ok");
  ret = MHD_queue_response (c, MHD_HTTP_OK, r);
  MHD_destroy_response (r);
  return ret;
}

/* reqs[k] = list of Authorization values of request k; all requests are pipelined on one connection */
static void do_connq (int early, uint8_t ***vals, size_t **lens, int *cnts, int nreq)
{
  int sv[2];
  char *buf = NULL; size_t blen = 0;
  char rb[512];
  int wbad = 0;
  if (NULL == rdq)
  {
    rdq = MHD_start_daemon (MHD_USE_NO_LISTEN_SOCKET, 0, NULL, NULL, &q_ahc, NULL,
                            MHD_OPTION_URI_LOG_CALLBACK, &q_uri_log, NULL,
                            MHD_OPTION_CONNECTION_MEMORY_LIMIT, (size_t) 65536, MHD_OPTION_END);
    if (NULL == rdq) { puts ("fault daemon-start"); return; }
  }
  if (0 != socketpair (AF_UNIX, SOCK_STREAM, 0, sv)) { puts ("fault socketpair"); return; }
  hout = open_memstream (&buf, &blen);
  q_early = early; q_reqs = 0; q_phase = 0;
  if (MHD_YES != MHD_add_connection (rdq, sv[0], NULL, 0)) { puts ("fault add-connection"); close (sv[1]); fclose (hout); free (buf); return; }
  for (int k = 0; k < nreq; k++)
  {
    static const char pre[] = "POST /x HTTP/1.1\r\nHost: h";
    static const char hdr[] = "\r\nAuthorization: ";
    static const char mid[] = "\r\nContent-Length: 3";
    static const char cl[] = "\r\nConnection: close";
    static const char end[] = "\r\n\r\nabc";
    if (write (sv[1], pre, sizeof(pre) - 1) < 0) wbad = 1;
    for (int j = 0; j < cnts[k]; j++)
      if (write (sv[1], hdr, sizeof(hdr) - 1) < 0 || write (sv[1], vals[k][j], lens[k][j]) < 0) wbad = 1;
    if (write (sv[1], mid, sizeof(mid) - 1) < 0) wbad = 1;
    if (k + 1 == nreq && write (sv[1], cl, sizeof(cl) - 1) < 0) wbad = 1;
    if (write (sv[1], end, sizeof(end) - 1) < 0) wbad = 1;
  }
  if (wbad) puts ("fault write");
  for (int k = 0; k < 12 + 10 * nreq; k++)
  {
    MHD_run (rdq);
    while (recv (sv[1], rb, sizeof(rb), MSG_DONTWAIT) > 0) { }
  }
  shutdown (sv[1], SHUT_WR);
  while (recv (sv[1], rb, sizeof(rb), MSG_DONTWAIT) > 0) { }
  close (sv[1]);
  for (int k = 0; k < 4; k++) MHD_run (rdq);
  fclose (hout);
  if (nreq != q_reqs) printf ("fault requests-seen=%d ", q_reqs);
  fputs (buf ? buf : "", stdout);
  putchar ('\n');
  free (buf);
}

/* ---------------------------------------------------------------- white-box parsers */

static void slot (const char *base, const struct MHD_RqDAuthParam *p)
{
  if (NULL == p->value.str) fputs (" -", stdout);
  else printf (" %zu:%zu:%d", (size_t) (p->value.str - base), p->value.len, p->quoted ? 1 : 0);
}

int main (void)
{
  struct lp_line l = {0};
  signal (SIGPIPE, SIG_IGN);
  MHD_init_mem_pools_ ();
  while (lp_read (stdin, &l))
  {
    if (l.n >= 3 && 0 == (l.n % 3) && !strcmp (l.w[0], "find") && (!strcmp (l.w[1], "b") || !strcmp (l.w[1], "d"))
        && (!strcmp (l.w[2], "0") || !strcmp (l.w[2], "1")) && (l.n / 3 - 1) <= MAXH)
    {
      int nh = l.n / 3 - 1, bad = 0, found = -1;
      char *names[MAXH], *vals[MAXH];
      size_t vlens[MAXH];
      struct _MHD_str_w_len av;
      fab_reset ();
      for (int i = 0; i < nh; i++) { names[i] = vals[i] = NULL; }
      for (int i = 0; i < nh && !bad; i++)
      {
        uint64_t kind; size_t nl, vl; uint8_t *nb, *vb;
        if (!lp_u64 (l.w[3 + 3*i], &kind) || kind > 1000) { bad = 1; break; }
        nb = lp_unhex (l.w[4 + 3*i], &nl);
        vb = lp_unhex (l.w[5 + 3*i], &vl);
        if (!nb || !vb) { free (nb); free (vb); bad = 1; break; }
        names[i] = exact (nb, nl, 0); vals[i] = exact (vb, vl, 0); vlens[i] = vl;
        free (nb); free (vb);
        fab_add (i, (int) kind, names[i], nl, vals[i], vl);
      }
      if (bad) puts ("bad-op");
      else
      {
        fconn.state = ('1' == l.w[2][0]) ? MHD_CONNECTION_FULL_REQ_RECEIVED : MHD_CONNECTION_HEADERS_RECEIVED;
        av.str = NULL; av.len = 0;
        if (find_auth_rq_header_ (&fconn, ('b' == l.w[1][0]) ? MHD_AUTHTYPE_BASIC : MHD_AUTHTYPE_DIGEST, &av))
        {
          for (int i = 0; i < nh; i++)
            if (av.str >= vals[i] && av.str <= vals[i] + vlens[i]) { found = i; break; }
          if (found < 0) puts ("fault find-pointer-outside-headers");
          else printf ("found %d %zu %zu\n", found, (size_t) (av.str - vals[found]), av.len);
        }
        else puts ("none");
      }
      for (int i = 0; i < nh; i++) { free (names[i]); free (vals[i]); }
    }
    else if (l.n == 2 && !strcmp (l.w[0], "bparse"))
    {
      size_t n; uint8_t *b = lp_unhex (l.w[1], &n);
      if (!b) { puts ("bad-op"); continue; }
      char *s = exact (b, n, 0);
      struct MHD_RqBAuth ba;
      memset (&ba, 0, sizeof(ba));
      if (!parse_bauth_params (s, n, &ba)) puts ("fail");
      else if (NULL == ba.token68.str) puts ("ok -");
      else printf ("ok %zu %zu\n", (size_t) (ba.token68.str - s), ba.token68.len);
      free (s); free (b);
    }
    else if (l.n == 3 && !strcmp (l.w[0], "dparse"))
    {
      size_t n; uint8_t *b = lp_unhex (l.w[1], &n);
      uint64_t t = 0; int term;
      if (!b) { puts ("bad-op"); continue; }
      if (!strcmp (l.w[2], "x")) term = -1;
      else if (lp_u64 (l.w[2], &t) && t < 256) term = (int) t;
      else { free (b); puts ("bad-op"); continue; }
      char *s = exact (b, n, term);
      struct MHD_RqDAuth da;
      memset (&da, 0, sizeof(da));
      if (!parse_dauth_params (s, n, &da)) puts ("fail");
      else
      {
        /* slots 2 (algorithm) and 11 (userhash) are locals of the parser: not observable */
        fputs ("ok", stdout);
        slot (s, &da.nonce); slot (s, &da.opaque); fputs (" *", stdout); slot (s, &da.response);
        slot (s, &da.username); slot (s, &da.username_ext); slot (s, &da.realm); slot (s, &da.uri);
        slot (s, &da.qop_raw); slot (s, &da.cnonce); slot (s, &da.nc); fputs (" *", stdout);
        printf (" uh=%d algo=%d qop=%d\n", da.userhash ? 1 : 0, (int) da.algo3, (int) da.qop);
      }
      free (s); free (b);
    }
    else if (l.n == 3 && (!strcmp (l.w[0], "algo") || !strcmp (l.w[0], "qop")) && (!strcmp (l.w[2], "0") || !strcmp (l.w[2], "1")))
    {
      struct MHD_RqDAuthParam p;
      size_t n = 0; uint8_t *b = NULL; char *s = NULL;
      memset (&p, 0, sizeof(p));
      if (strcmp (l.w[1], "none"))
      {
        b = lp_unhex (l.w[1], &n);
        if (!b) { puts ("bad-op"); continue; }
        s = exact (b, n, -1);
        p.value.str = s; p.value.len = n;
      }
      p.quoted = ('1' == l.w[2][0]);
      if ('a' == l.w[0][0]) printf ("algo=%d\n", (int) get_rq_dauth_algo (&p));
      else printf ("qop=%d\n", (int) get_rq_dauth_qop (&p));
      free (s); free (b);
    }
    else if (l.n == 2 && (!strcmp (l.w[0], "basic") || !strcmp (l.w[0], "info")))
    {
      size_t n; uint8_t *b = lp_unhex (l.w[1], &n);
      if (!b) { puts ("bad-op"); continue; }
      char *val = fab_single (b, n);
      if ('b' == l.w[0][0]) print_basic (stdout, &fconn); else print_info (stdout, &fconn);
      putchar ('\n');
      fab_done (val); free (b);
    }
    else if (l.n >= 1 && 1 == (l.n % 3) && (!strcmp (l.w[0], "basich") || !strcmp (l.w[0], "infoh")) && (l.n / 3) <= MAXH)
    {
      int nh = l.n / 3, bad = 0;
      char *names[MAXH], *vals[MAXH];
      fab_reset ();
      for (int i = 0; i < nh; i++) { names[i] = vals[i] = NULL; }
      for (int i = 0; i < nh && !bad; i++)
      {
        uint64_t kind; size_t nl, vl; uint8_t *nb, *vb;
        if (!lp_u64 (l.w[1 + 3*i], &kind) || kind > 1000) { bad = 1; break; }
        nb = lp_unhex (l.w[2 + 3*i], &nl);
        vb = lp_unhex (l.w[3 + 3*i], &vl);
        if (!nb || !vb) { free (nb); free (vb); bad = 1; break; }
        names[i] = exact (nb, nl, 0); vals[i] = exact (vb, vl, 0);
        free (nb); free (vb);
        fab_add (i, (int) kind, names[i], nl, vals[i], vl);
      }
      if (bad) puts ("bad-op");
      else
      {
        fconn.state = MHD_CONNECTION_FULL_REQ_RECEIVED;
        fconn.pool = MHD_pool_create (2048);
        if ('b' == l.w[0][0]) print_basic (stdout, &fconn); else print_info (stdout, &fconn);
        putchar ('\n');
        MHD_pool_destroy (fconn.pool);
      }
      for (int i = 0; i < nh; i++) { free (names[i]); free (vals[i]); }
    }
    else if (l.n == 2 && !strcmp (l.w[0], "layout"))
    {
      size_t n; uint8_t *b = lp_unhex (l.w[1], &n);
      if (!b) { puts ("bad-op"); continue; }
      char *val = fab_single (b, n);
      print_layout (stdout, &fconn);
      putchar ('\n');
      fab_done (val); free (b);
    }
    else if (l.n >= 2 && l.n <= 9 && !strcmp (l.w[0], "connm"))
    {
      uint8_t *vs[8]; size_t ns[8]; int cnt = l.n - 1, bad = 0;
      for (int k = 0; k < cnt; k++) vs[k] = NULL;
      for (int k = 0; k < cnt && !bad; k++)
      {
        vs[k] = lp_unhex (l.w[1 + k], &ns[k]);
        if (!vs[k] || !conn_value_ok (vs[k], ns[k])) bad = 1;
      }
      if (bad) puts ("bad-op"); else do_conn_m (vs, ns, cnt);
      for (int k = 0; k < cnt; k++) free (vs[k]);
    }
    else if (l.n >= 3 && l.n <= 10 && !strcmp (l.w[0], "connq") && (!strcmp (l.w[1], "0") || !strcmp (l.w[1], "1")))
    {
      int nreq = l.n - 2, bad = 0;
      uint8_t **vals[8]; size_t *lens[8]; int cnts[8];
      for (int k = 0; k < nreq; k++) { vals[k] = NULL; lens[k] = NULL; cnts[k] = 0; }
      for (int k = 0; k < nreq && !bad; k++)
      {
        char *w = l.w[2 + k];
        int cnt = 1;
        if (!strcmp (w, "-")) continue;
        for (char *q = w; *q; q++) if (',' == *q) cnt++;
        vals[k] = (uint8_t **) calloc ((size_t) cnt, sizeof(uint8_t *));
        lens[k] = (size_t *) calloc ((size_t) cnt, sizeof(size_t));
        for (int j = 0; j < cnt && !bad; j++)
        {
          char *e = strchr (w, ',');
          if (e) *e = 0;
          vals[k][j] = lp_unhex (w, &lens[k][j]);
          cnts[k] = j + 1;
          if (!vals[k][j] || !conn_value_ok (vals[k][j], lens[k][j])) bad = 1;
          w = e ? e + 1 : w;
        }
      }
      if (bad) puts ("bad-op"); else do_connq ('1' == l.w[1][0], vals, lens, cnts, nreq);
      for (int k = 0; k < nreq; k++)
      {
        for (int j = 0; j < cnts[k]; j++) free (vals[k][j]);
        free (vals[k]); free (lens[k]);
      }
    }
    else if (l.n == 2 && !strcmp (l.w[0], "conn"))
    {
      size_t n; uint8_t *b = lp_unhex (l.w[1], &n);
      if (!b) { puts ("bad-op"); continue; }
      if (!conn_value_ok (b, n)) puts ("bad-op"); else do_conn (b, n);
      free (b);
    }
    else puts ("bad-op");
    fflush (stdout);
  }
  if (rd) MHD_stop_daemon (rd);
  if (rdq) MHD_stop_daemon (rdq);
  free (l.buf);
  return 0;
}
