/* Engine "upgtls" (property C20, TLS forwarding): white-box run of the real static
 * process_urh() of daemon.c, followed by the "Finished forwarding?" test its callers make
 * (with the real MHD_connection_finish_forward_) and the real MHD_upgrade_action(CLOSE).
 *
 * The record layer is scripted: gnutls_record_recv / gnutls_record_send /
 * gnutls_record_check_pending are defined HERE (link-time interposition: the executable's
 * definitions win over libgnutls'), recv()/send() on the daemon's end of the forwarding
 * socketpair are interposed the same way.  The socketpair itself is real; the forwarding
 * buffers are exact-size heap blocks (ASan sees any overrun).
 *
 * Script (one output line per input line):
 *   case <name>
 *   init cap=<n> [tpc=1]          -> ok ssize_max=<..> send_max=<..>
 *   csend <hex>                   client plaintext becomes available to gnutls_record_recv
 *   asend <hex>                   the application writes to its end of the socketpair -> asent n=<k>
 *   aclose                        MHD_upgrade_action (urh, MHD_UPGRADE_ACTION_CLOSE)    -> aclose <ret>
 *   visit lv=<0|1> r=<bits> p=<bits> tr=<res> pend=<0|1> pr=<res> ts=<res> ps=<res> [sh=1]
 *         bits: 1 read-ready 2 write-ready 4 error (r: TLS socket, p: daemon's socketpair end);
 *         lv=1 like urh_from_fdset (read/write bits replaced), lv=0 like epoll (OR-ed);
 *         res: ok:<n> | again | intr | eof | fatal
 *     -> st inU= inS= outU= outS= wc= cr= rem=<bits> pair=<bits> trr= pend= io=<calls> in=<hex> out=<hex>
 *           app=<hex the application end received> cli=<hex accepted by gnutls_record_send> eof=<app end sees EOF>
 */
#include "MHD_config.h"
#include "daemon.c"   /* white-box: static process_urh */
#include "internal.h"
#include <microhttpd.h>
#include <sys/types.h>
#include <sys/socket.h>
#include <fcntl.h>
#include <unistd.h>
#include <errno.h>
#include <signal.h>
#include <dlfcn.h>
#include <limits.h>
#include "common/lp.h"

enum resk { Q_OK, Q_AGAIN, Q_INTR, Q_EOF, Q_FATAL };
struct res { enum resk k; size_t n; };
static struct res s_tr, s_pr, s_ts, s_ps;
static int s_pend;
static int in_visit;                 /* >0: calls come from process_urh */
static char iolog[64]; static size_t iolen;

static struct MHD_Daemon *dm;
static struct MHD_Connection *cn;
static struct MHD_UpgradeResponseHandle *u;
static int appfd = -1, mhdfd = -1;
static size_t cap;
static char *inb, *outb;             /* kept for release: the library sets the sizes to 0, never frees */
static uint8_t *rq; static size_t rq_len;      /* client plaintext not yet received */
static uint8_t *tc; static size_t tc_len;      /* accepted by gnutls_record_send during this visit */

static void io (char c) { if (iolen + 1 < sizeof(iolog)) iolog[iolen++] = c; iolog[iolen] = 0; }

/* ---- the scripted record layer */
ssize_t gnutls_record_recv (gnutls_session_t s, void *data, size_t sz)
{
  size_t n;
  (void) s; io ('R');
  switch (s_tr.k)
  {
  case Q_OK:
    n = s_tr.n; if (n > sz) n = sz; if (n > rq_len) n = rq_len;
    if (0 == n) return GNUTLS_E_AGAIN;
    memcpy (data, rq, n); memmove (rq, rq + n, rq_len - n); rq_len -= n;
    return (ssize_t) n;
  case Q_AGAIN: return GNUTLS_E_AGAIN;
  case Q_INTR: return GNUTLS_E_INTERRUPTED;
  case Q_EOF: return 0;
  default: return GNUTLS_E_PULL_ERROR;
  }
}
size_t gnutls_record_check_pending (gnutls_session_t s) { (void) s; return s_pend ? 1 : 0; }
ssize_t gnutls_record_send (gnutls_session_t s, const void *data, size_t sz)
{
  size_t n;
  (void) s; io ('S');
  switch (s_ts.k)
  {
  case Q_OK:
    n = s_ts.n; if (n > sz) n = sz;
    if (0 == n) return GNUTLS_E_AGAIN;
    tc = (uint8_t *) realloc (tc, tc_len + n); memcpy (tc + tc_len, data, n); tc_len += n;
    return (ssize_t) n;
  case Q_AGAIN: return GNUTLS_E_AGAIN;
  case Q_INTR: return GNUTLS_E_INTERRUPTED;
  case Q_EOF: return 0;
  default: return GNUTLS_E_PUSH_ERROR;
  }
}

/* ---- the daemon's end of the socketpair */
#define REAL(name) static __typeof__(&name) real; if (!real) real = (__typeof__(&name)) dlsym (RTLD_NEXT, #name)
ssize_t recv (int fd, void *buf, size_t len, int flags)
{
  REAL (recv);
  if (! in_visit || fd != mhdfd) return real (fd, buf, len, flags);
  io ('r');
  switch (s_pr.k)
  {
  case Q_OK:
    if (len > s_pr.n) len = s_pr.n;
    if (0 == len) { errno = EAGAIN; return -1; }
    {
      ssize_t r = real (fd, buf, len, flags | MSG_DONTWAIT);
      if (0 == r) { errno = EAGAIN; return -1; }     /* scripted "ok" but the peer has shut down and nothing is left: nothing there */
      return r;
    }
  case Q_AGAIN: errno = EAGAIN; return -1;
  case Q_INTR: errno = EINTR; return -1;
  case Q_EOF: return 0;
  default: errno = ECONNRESET; return -1;
  }
}
ssize_t send (int fd, const void *buf, size_t len, int flags)
{
  REAL (send);
  if (! in_visit || fd != mhdfd) return real (fd, buf, len, flags);
  io ('s');
  switch (s_ps.k)
  {
  case Q_OK:
    if (len > s_ps.n) len = s_ps.n;
    if (0 == len) { errno = EAGAIN; return -1; }
    return real (fd, buf, len, flags | MSG_DONTWAIT | MSG_NOSIGNAL);
  case Q_AGAIN: errno = EAGAIN; return -1;
  case Q_INTR: errno = EINTR; return -1;
  case Q_EOF: errno = EPIPE; return -1;
  default: errno = EPIPE; return -1;
  }
}

static int parse_res (const char *v, struct res *r)
{
  if (!strncmp (v, "ok:", 3)) { r->k = Q_OK; r->n = (size_t) atol (v + 3); return 1; }
  if (!strcmp (v, "again")) { r->k = Q_AGAIN; return 1; }
  if (!strcmp (v, "intr")) { r->k = Q_INTR; return 1; }
  if (!strcmp (v, "eof")) { r->k = Q_EOF; return 1; }
  if (!strcmp (v, "fatal")) { r->k = Q_FATAL; return 1; }
  return 0;
}
static int kv (const char *w, const char *key, const char **val)
{ size_t n = strlen (key); if (!strncmp (w, key, n) && w[n] == '=') { *val = w + n + 1; return 1; } return 0; }

static unsigned bits_of (enum MHD_EpollState c)
{ return ((c & MHD_EPOLL_STATE_READ_READY) ? 1u : 0u) | ((c & MHD_EPOLL_STATE_WRITE_READY) ? 2u : 0u) | ((c & MHD_EPOLL_STATE_ERROR) ? 4u : 0u); }
static enum MHD_EpollState celi_of (unsigned b)
{ return (enum MHD_EpollState) (((b & 1) ? MHD_EPOLL_STATE_READ_READY : 0) | ((b & 2) ? MHD_EPOLL_STATE_WRITE_READY : 0) | ((b & 4) ? MHD_EPOLL_STATE_ERROR : 0)); }

static void release_all (void)
{
  if (u)
  {
    if (mhdfd >= 0) close (mhdfd);
    if (appfd >= 0) close (appfd);
    free (inb); free (outb); inb = outb = NULL;
    MHD_mutex_destroy_chk_ (&dm->cleanup_connection_mutex);
    free (u); free (cn); free (dm); u = NULL; cn = NULL; dm = NULL; mhdfd = appfd = -1;
  }
  free (rq); rq = NULL; rq_len = 0; free (tc); tc = NULL; tc_len = 0;
}

int main (void)
{
  struct lp_line l = {0};
  signal (SIGPIPE, SIG_IGN);
  setvbuf (stdout, NULL, _IOFBF, 1 << 16);
  while (lp_read (stdin, &l))
  {
    const char *op = l.w[0], *v; int i;
    if (!strcmp (op, "case")) { release_all (); printf ("case %s\n", l.n > 1 ? l.w[1] : "-"); continue; }
    if (!strcmp (op, "init"))
    {
      int sv[2], tpc = 0;
      release_all (); cap = 16;
      for (i = 1; i < l.n; i++) { if (kv (l.w[i], "cap", &v)) cap = (size_t) atol (v); else if (kv (l.w[i], "tpc", &v)) tpc = atoi (v); }
      if (0 == cap || 0 != socketpair (AF_UNIX, SOCK_STREAM | SOCK_NONBLOCK, 0, sv)) { printf ("bad-op\n"); continue; }
      dm = (struct MHD_Daemon *) calloc (1, sizeof(*dm));
      cn = (struct MHD_Connection *) calloc (1, sizeof(*cn));
      u = (struct MHD_UpgradeResponseHandle *) calloc (1, sizeof(*u));
      dm->options = (enum MHD_FLAG) (MHD_USE_TLS | MHD_ALLOW_UPGRADE | MHD_TEST_ALLOW_SUSPEND_RESUME
                                     | (tpc ? (MHD_USE_THREAD_PER_CONNECTION | MHD_USE_INTERNAL_POLLING_THREAD) : 0));
      MHD_itc_set_invalid_ (dm->itc);
      if (! MHD_mutex_init_ (&dm->cleanup_connection_mutex)) abort ();
      cn->daemon = dm; cn->urh = u; cn->state = MHD_CONNECTION_UPGRADE; cn->socket_fd = MHD_INVALID_SOCKET;
      cn->tls_session = (gnutls_session_t) (void *) u;   /* never dereferenced: the record layer is scripted */
      cn->suspended = true;
      u->connection = cn; u->app.socket = sv[0]; u->mhd.socket = sv[1]; appfd = sv[0]; mhdfd = sv[1];
      inb = (char *) malloc (cap); outb = (char *) malloc (cap);
      u->in_buffer = inb; u->out_buffer = outb; u->in_buffer_size = cap; u->out_buffer_size = cap;
      if (! tpc) DLL_insert (dm->urh_head, dm->urh_tail, u);
      printf ("ok ssize_max=%lld send_max=%lld\n", (long long) SSIZE_MAX, (long long) MHD_SCKT_SEND_MAX_SIZE_);
      continue;
    }
    if (NULL == u) { printf ("bad-op\n"); continue; }
    if (!strcmp (op, "csend") && l.n >= 2)
    {
      size_t n; uint8_t *b = lp_unhex (l.w[1], &n);
      if (!b) { printf ("bad-op\n"); continue; }
      rq = (uint8_t *) realloc (rq, rq_len + n + 1); memcpy (rq + rq_len, b, n); rq_len += n; free (b);
      printf ("ok\n"); continue;
    }
    if (!strcmp (op, "asend") && l.n >= 2)
    {
      size_t n; uint8_t *b = lp_unhex (l.w[1], &n); ssize_t r;
      if (!b) { printf ("bad-op\n"); continue; }
      r = u->was_closed ? -1 : send (appfd, b, n, MSG_DONTWAIT | MSG_NOSIGNAL); free (b);
      printf ("asent n=%zd\n", r < 0 ? (ssize_t) 0 : r); continue;
    }
    if (!strcmp (op, "aclose"))
    { printf ("aclose %d\n", (int) MHD_upgrade_action (u, MHD_UPGRADE_ACTION_CLOSE)); continue; }
    if (!strcmp (op, "visit"))
    {
      unsigned r = 0, p = 0; int sh = 0, lv = 0, bad = 0, eof = 0;
      static uint8_t ab[1 << 16]; size_t an = 0;
      s_tr.k = s_pr.k = s_ts.k = s_ps.k = Q_AGAIN; s_pend = 0;
      for (i = 1; i < l.n; i++)
      {
        if (kv (l.w[i], "r", &v)) r = (unsigned) atoi (v);
        else if (kv (l.w[i], "p", &v)) p = (unsigned) atoi (v);
        else if (kv (l.w[i], "lv", &v)) lv = atoi (v);
        else if (kv (l.w[i], "sh", &v)) sh = atoi (v);
        else if (kv (l.w[i], "pend", &v)) s_pend = atoi (v);
        else if (kv (l.w[i], "tr", &v)) bad |= ! parse_res (v, &s_tr);
        else if (kv (l.w[i], "pr", &v)) bad |= ! parse_res (v, &s_pr);
        else if (kv (l.w[i], "ts", &v)) bad |= ! parse_res (v, &s_ts);
        else if (kv (l.w[i], "ps", &v)) bad |= ! parse_res (v, &s_ps);
        else bad = 1;
      }
      if (bad) { printf ("bad-op\n"); continue; }
      iolen = 0; iolog[0] = 0; tc_len = 0;
      if (cn->suspended && ! u->clean_ready)
      {
        if (sh) dm->shutdown = true;
        if (lv)
        { /* urh_from_fdset: reset read/write ready, preserve error state */
          u->app.celi &= (~((enum MHD_EpollState) MHD_EPOLL_STATE_READ_READY) & ~((enum MHD_EpollState) MHD_EPOLL_STATE_WRITE_READY));
          u->mhd.celi &= (~((enum MHD_EpollState) MHD_EPOLL_STATE_READ_READY) & ~((enum MHD_EpollState) MHD_EPOLL_STATE_WRITE_READY));
        }
        u->app.celi |= celi_of (r); u->mhd.celi |= celi_of (p);
        in_visit = 1;
        process_urh (u);
        in_visit = 0;
        /* Finished forwarding? (MHD_run_from_select2 / MHD_poll_all / run_epoll_for_upgrade) */
        if ( (0 == u->in_buffer_size) && (0 == u->out_buffer_size) && (0 == u->in_buffer_used) && (0 == u->out_buffer_used) )
        {
          MHD_connection_finish_forward_ (cn);
          u->clean_ready = true;
          cn->resuming = true;    /* MHD_resume_connection (the daemon lists are not part of this harness) */
        }
        if (sh) dm->shutdown = false;
      }
      for (;;)
      {
        ssize_t k = recv (appfd, ab + an, sizeof(ab) - an, MSG_DONTWAIT);
        if (k > 0) { an += (size_t) k; continue; }
        if (0 == k) eof = 1;
        break;
      }
      if (u->in_buffer_used > cap || u->out_buffer_used > cap) { printf ("overrun\n"); continue; }
      printf ("st inU=%zu inS=%zu outU=%zu outS=%zu wc=%d cr=%d rem=%u pair=%u trr=%d pend=%d io=%s in=",
              u->in_buffer_used, u->in_buffer_size, u->out_buffer_used, u->out_buffer_size, (int) u->was_closed, (int) u->clean_ready,
              bits_of (u->app.celi), bits_of (u->mhd.celi), (int) cn->tls_read_ready, (int) dm->data_already_pending, iolen ? iolog : "-");
      lp_puthex (stdout, inb, u->in_buffer_used); printf (" out="); lp_puthex (stdout, outb, u->out_buffer_used);
      printf (" app="); lp_puthex (stdout, ab, an); printf (" cli="); lp_puthex (stdout, tc, tc_len);
      printf (" eof=%d\n", u->was_closed ? -1 : eof);
      dm->data_already_pending = false;
      continue;
    }
    printf ("bad-op\n");
  }
  release_all ();
  free (l.buf);
  return 0;
}
