/* White-box harness for the chunk decoder of process_request_body()
 * (connection.c), engine "chunk" of C03.
 *
 *   chunkrun <lvl> <cur> <off> <bufhex>
 *
 * builds a minimal connection in MHD_CONNECTION_BODY_RECEIVING with a chunked
 * upload, current_chunk_size = cur, current_chunk_offset = off and the read
 * buffer = the given bytes (placed at the very end of the pool block, so that
 * a read past `available` is seen by ASan), calls process_request_body() once
 * with an application that takes every byte, and prints
 *
 *   up=<hex> cur=<n> off=<n> left=<n> out=<need|last|err:<status>|closed>
 *
 *   bodytake <lvl> <chunked 0|1> <cur|remaining> <off> <takes k,k,...|-> <bufhex>
 *
 * the same for one call of process_request_body() with an application that takes at
 * most takes[i] bytes at its i-th invocation (everything once the list is used up);
 * chunked = 0: identity body with remaining_upload_size = <remaining>.  Prints
 *
 *   up=<hex> cur=<n> off=<n> rem=<n|unk> left=<n> buf=<hex of the read buffer afterwards>
 *   used=<number of list entries consumed> out=<need|last|err:<status>|closed>
 *
 * Nothing but values the property talks about is printed.
 */
#include "MHD_config.h"
#include "connection.c"
#include "common/lp.h"

/* virtual clock (mhd_mono_clock.c is not linked) */
void MHD_monotonic_sec_counter_init (void) {}
void MHD_monotonic_sec_counter_finish (void) {}
time_t MHD_monotonic_sec_counter (void) { return 1000; }
uint64_t MHD_monotonic_msec_counter (void) { return 1000000; }

static uint8_t upbuf[1 << 16];
static size_t uplen;

static uint64_t takes[64];
static size_t ntakes, ncalls;
static int take_mode;

static enum MHD_Result
app (void *cls, struct MHD_Connection *connection, const char *url, const char *method,
     const char *version, const char *upload_data, size_t *upload_data_size, void **req_cls)
{
  (void) cls; (void) connection; (void) url; (void) method; (void) version; (void) req_cls;
  if (take_mode)
  {
    size_t t = *upload_data_size;
    if (ncalls < ntakes && takes[ncalls] < t)
      t = (size_t) takes[ncalls];
    ncalls++;
    if (t && uplen + t <= sizeof(upbuf))
    {
      memcpy (upbuf + uplen, upload_data, t);
      uplen += t;
    }
    *upload_data_size -= t;
    return MHD_YES;
  }
  if (*upload_data_size && uplen + *upload_data_size <= sizeof(upbuf))
  {
    memcpy (upbuf + uplen, upload_data, *upload_data_size);
    uplen += *upload_data_size;
  }
  *upload_data_size = 0;
  return MHD_YES;
}

int
main (void)
{
  struct lp_line l = {0};
  setvbuf (stdout, NULL, _IOFBF, 1 << 16);
  MHD_init_mem_pools_ ();
  while (lp_read (stdin, &l))
  {
    uint64_t cur, off;
    long lvl;
    size_t n;
    uint8_t *bytes;
    static struct MHD_Daemon d;
    static struct MHD_Connection c;
    char *endp;

    int chunked = 1;
    take_mode = 0; ntakes = 0; ncalls = 0;
    if (l.n == 7 && ! strcmp (l.w[0], "bodytake"))
    {
      char *tp;
      take_mode = 1;
      lvl = strtol (l.w[1], &endp, 10);
      if (*endp || lvl < -3 || lvl > 3 || (strcmp (l.w[2], "0") && strcmp (l.w[2], "1"))
          || ! lp_u64 (l.w[3], &cur) || ! lp_u64 (l.w[4], &off))
      { puts ("bad-op"); continue; }
      chunked = ('1' == l.w[2][0]);
      if ((chunked && off > cur) || (! chunked && (0 != off || 0 == cur || MHD_SIZE_UNKNOWN == cur)))
      { puts ("bad-op"); continue; }
      tp = l.w[5];
      if (strcmp (tp, "-"))
      {
        int bad = 0;
        while (*tp)
        {
          char *e2;
          unsigned long long v = strtoull (tp, &e2, 10);
          if (e2 == tp || (*e2 && ',' != *e2) || ntakes >= 64) { bad = 1; break; }
          takes[ntakes++] = v;
          tp = *e2 ? e2 + 1 : e2;
          if (',' == *e2 && ! *tp) { bad = 1; break; }
        }
        if (bad) { puts ("bad-op"); continue; }
      }
      bytes = lp_unhex (l.w[6], &n);
      if (NULL == bytes || 0 == n || n > 4096) { free (bytes); puts ("bad-op"); continue; }
    }
    else
    {
    if (l.n != 5 || strcmp (l.w[0], "chunkrun")) { puts ("bad-op"); continue; }
    lvl = strtol (l.w[1], &endp, 10);
    if (*endp || lvl < -3 || lvl > 3 || ! lp_u64 (l.w[2], &cur) || ! lp_u64 (l.w[3], &off) || off > cur)
    { puts ("bad-op"); continue; }
    bytes = lp_unhex (l.w[4], &n);
    if (NULL == bytes || 0 == n || n > 4096) { free (bytes); puts ("bad-op"); continue; }
    }

    memset (&d, 0, sizeof(d));
    memset (&c, 0, sizeof(c));
    d.client_discipline = (int) lvl;
    d.default_handler = &app;
    d.pool_size = 8192;
    d.pool_increment = 1024;
    c.daemon = &d;
    c.pool = MHD_pool_create (8192);
    c.socket_fd = MHD_INVALID_SOCKET;
    c.read_buffer = (char *) MHD_pool_allocate (c.pool, n, true);    /* from the end of the block */
    c.read_buffer_size = n;
    memcpy (c.read_buffer, bytes, n);
    c.read_buffer_offset = n;
    c.state = MHD_CONNECTION_BODY_RECEIVING;
    c.rq.http_ver = MHD_HTTP_VER_1_1;
    c.rq.http_mthd = MHD_HTTP_MTHD_POST;
    c.rq.have_chunked_upload = chunked ? true : false;
    c.rq.remaining_upload_size = chunked ? MHD_SIZE_UNKNOWN : cur;
    c.rq.current_chunk_size = chunked ? cur : 0;
    c.rq.current_chunk_offset = chunked ? off : 0;
    c.in_idle = true;              /* error replies are queued without running the state machine */
    uplen = 0;

    process_request_body (&c);

    printf ("up=");
    lp_puthex (stdout, upbuf, uplen);
    if (take_mode)
    {
      size_t used = (ncalls < ntakes) ? ncalls : ntakes;
      if (MHD_CONNECTION_BODY_RECEIVING == c.state)
      {
        printf (" cur=%" PRIu64 " off=%" PRIu64, c.rq.current_chunk_size, c.rq.current_chunk_offset);
        if (MHD_SIZE_UNKNOWN == c.rq.remaining_upload_size) printf (" rem=unk");
        else printf (" rem=%" PRIu64, c.rq.remaining_upload_size);
        printf (" left=%zu buf=", c.read_buffer_offset);
        lp_puthex (stdout, (const uint8_t *) c.read_buffer, c.read_buffer_offset);
        printf (" used=%zu out=%s\n", used, (0 == c.rq.remaining_upload_size) ? "last" : "need");
      }
      else if (NULL != c.rp.response && c.stop_with_error)
        printf (" cur=- off=- rem=- left=%zu buf=- used=%zu out=err:%u\n", c.read_buffer_offset, used, c.rp.responseCode);
      else
        printf (" cur=- off=- rem=- left=- buf=- used=%zu out=closed\n", used);
    }
    else if (MHD_CONNECTION_BODY_RECEIVING == c.state)
      printf (" cur=%" PRIu64 " off=%" PRIu64 " left=%zu out=%s\n", c.rq.current_chunk_size, c.rq.current_chunk_offset,
              c.read_buffer_offset, (0 == c.rq.remaining_upload_size) ? "last" : "need");
    else if (NULL != c.rp.response && c.stop_with_error)
      printf (" cur=- off=- left=%zu out=err:%u\n", c.read_buffer_offset, c.rp.responseCode);
    else
      printf (" cur=- off=- left=- out=closed\n");
    if (NULL != c.rp.response) { MHD_destroy_response (c.rp.response); c.rp.response = NULL; }
    if (NULL != c.pool) MHD_pool_destroy (c.pool);
    free (bytes);
  }
  free (l.buf);
  fflush (stdout);
  return 0;
}
