/* C09 harness (engine "daemon"): scripted in-process daemon, derived from
 * h_daemon.c and extended for connection limits / resource accounting.
 *
 * White-box: daemon.c is #included (not linked) so that struct MHD_IPCount,
 * the per-IP tree and the connection lists can be observed.
 *
 * Extensions over h_daemon.c
 *  - accept-policy callback with a scripted verdict per arrival
 *  - MHD_USE_NO_THREAD_SAFETY mode (cfg nts=1): MHD_add_connection() then runs
 *    new_connection_process_() directly (the path MHD_accept_connection() uses)
 *  - allocation-failure injection (-Wl,--wrap=malloc,--wrap=calloc):
 *      alloc-fail <k>          the k-th library allocation from now returns NULL
 *      alloc-fail-site <site>  the next library allocation of that class fails
 *    the class of the failed allocation is logged (`alloc-failed site=…`)
 *  - epoll_ctl(EPOLL_CTL_ADD) failure injection for connection sockets
 *  - close() interposed: one `fd-close c=<c>` per server-side socket, the fd
 *    number is then parked (dup2 of /dev/null) so that a second close of the
 *    same number is recognised as `double-close c=<c>`
 *  - shared response objects (resp-create / resp-drop) with free callbacks
 *  - clients that stop reading (hold / drain) so that a connection keeps a
 *    response queued over several rounds
 *  - LeakSanitizer check at every case boundary (`leak` line)
 *  - interim "102 Processing" replies (`req <c> <kind> <rid> <pre>...`: every handler call answers with the next
 *    <pre> response and status 102, then the final one), malformed requests (`req <c> bad 0`: the daemon's own
 *    error response), MHD_queue_response on a suspended connection from outside the handler (`ext-queue`)
 *  - addresses 100..199 are the IPv4-mapped IPv6 forms (keys of their own in the per-address tree); the tree is
 *    printed as a sorted map
 *  - cfg listen=1|2: a real listen socket (IPv4 / dual stack); `arrive` connects a TCP client from 127.0.0.<a>
 *    and calls MHD_accept_connection(); accept4() interposed (`accept-fail <errno-name>`)
 *  - pthread_create() interposed (`thread-fail <k>`: the k-th creation from now fails), `threads` = live threads;
 *    in the thread modes `settle` waits for the scripted events and a quiet period instead of sleeping
 *  - every script line is answered by its event lines followed by `--`
 *
 * No address, fd number or pointer is ever printed.
 */
#include "MHD_config.h"
#include "daemon.c"
#include "memorypool.c"

#include <sys/syscall.h>
#include <sys/un.h>
#include <sys/epoll.h>
#include <poll.h>
#include <signal.h>
#include <stdarg.h>
#include <search.h>
#include <sanitizer/lsan_interface.h>
#include <dlfcn.h>
#include <dirent.h>
#include "common/lp.h"

/* ---------------------------------------------------------------- clock */
static uint64_t vclock_ms = 1000000;
void MHD_monotonic_sec_counter_init (void) {}
void MHD_monotonic_sec_counter_finish (void) {}
time_t MHD_monotonic_sec_counter (void) { return (time_t) (vclock_ms / 1000); }
uint64_t MHD_monotonic_msec_counter (void) { return vclock_ms; }

/* ---------------------------------------------------------------- config */
static struct {
  char mode[16]; size_t mem; unsigned limit, perip, timeout;
  int upgrade, suspend, nts; unsigned pool;
  int listen;       /* 1: real listen socket on 127.0.0.1, arrivals are accepted with accept4(); 2: dual stack */
} hcfg;
static uint16_t listen_port;

static struct MHD_Daemon *hd;

#define MAXC 32
#define MAXRESP 16
#define SETTLE_ROUNDS 12
#define MAXPRE 4

struct hconn {
  int used, cfd, addr, cport, verdict;
  int sfd, sfd_open, sfd_closed_n;   /* server side of the socketpair */
  int started, closed_n, added_ok;
  int nodrain, eof_seen, epoll_added;
  int nreq_sent, nreq_seen;
  char beh[8][12]; int behrid[8];    /* behaviour per request: reply|replyc|suspend|upgrade|bad */
  int npre[8], pre[8][MAXPRE], pre_done; /* interim "102 Processing" replies before the final one */
  struct MHD_Connection *mc;
  struct MHD_UpgradeResponseHandle *urh; int upgraded;
};
static struct hconn hc[MAXC];

struct hresp { int used; char kind[16]; size_t size; struct MHD_Response *obj; int freed; char *buf;
               unsigned n, mix;        /* iovec: number of elements; mix: every second element is empty */
               int rfd, rfd_open; };   /* pipe / file responses: the descriptor the response owns */
static struct hresp hr[MAXRESP];

static volatile unsigned long ev_counter;   /* every logged event (any thread) */
static void out (const char *fmt, ...)
{ va_list ap; __atomic_add_fetch (&ev_counter, 1, __ATOMIC_SEQ_CST); flockfile (stdout); va_start (ap, fmt); vprintf (fmt, ap); va_end (ap); putchar ('\n'); funlockfile (stdout); }

/* ------------------------------------------------- allocation failure */
void *__real_malloc (size_t n);
void *__real_calloc (size_t a, size_t b);
static __thread int lib_ctx; /* 1 while library code runs on behalf of an API call (per thread) */
static __thread int in_add;  /* 1 inside MHD_add_connection() */
static __thread int in_loop; /* 1 inside an event-loop round */
static long fail_k;          /* >0: countdown */
static int fail_site;        /* class to fail next (0 none) */
static int fired_site;       /* class of the allocation that was failed (0 none) */
static unsigned long alloc_seen;
enum { S_NONE = 0, S_IPNODE, S_CONN, S_ADDR, S_POOL, S_URH, S_OTHER, S_POOLHDR };
static const char *site_name[] = { "none", "ipnode", "conn", "addr", "pool", "urh", "other", "pool" };

static int classify (size_t n)
{
  if (n == sizeof (struct MHD_Connection)) return S_CONN;
  if (in_add && n == sizeof (struct MHD_IPCount)) return S_IPNODE;
  if (in_add && n == sizeof (struct sockaddr_in)) return S_ADDR;
  if (in_add && n == sizeof (struct sockaddr_un)) return S_ADDR;
  if (in_add && n == sizeof (struct sockaddr_in6)) return S_ADDR;
  if (hd && n == ((hd->pool_size + 15) & ~((size_t) 15))) return S_POOL;
  if ((in_add || in_loop) && n == sizeof (struct MemoryPool)) return S_POOLHDR;
  if (n == sizeof (struct MHD_UpgradeResponseHandle)) return S_URH;
  return S_OTHER;
}
static int should_fail (size_t n)
{
  if (! lib_ctx) return 0;
  alloc_seen++;
  if (fail_k > 0 && 0 == --fail_k) { fired_site = classify (n); return 1; }
  if (fail_site && classify (n) == fail_site) { fired_site = fail_site; fail_site = 0; return 1; }
  return 0;
}
void *__wrap_malloc (size_t n) { if (should_fail (n)) { errno = ENOMEM; return NULL; } return __real_malloc (n); }
void *__wrap_calloc (size_t a, size_t b) { if (should_fail (a * b)) { errno = ENOMEM; return NULL; } return __real_calloc (a, b); }
#define LIB(stmt) do { int sv_ = lib_ctx; lib_ctx = 1; stmt; lib_ctx = sv_; } while (0)
#define APP_ENTER int sv_ctx_ = lib_ctx; lib_ctx = 0
#define APP_LEAVE lib_ctx = sv_ctx_
static void report_fired (void)
{ if (fired_site) { out ("alloc-failed site=%s", site_name[fired_site]); fired_site = 0; } }

/* ------------------------------------------------- descriptor accounting */
static int parked[MAXC * 2]; static int nparked;
static int devnull = -1;
static pthread_mutex_t fd_mx = PTHREAD_MUTEX_INITIALIZER;
static int close_locked (int fd);
int close (int fd)
{ int r; pthread_mutex_lock (&fd_mx); r = close_locked (fd); pthread_mutex_unlock (&fd_mx); return r; }
static int close_locked (int fd)
{
  int c, i;
  for (i = 0; i < nparked; i++)
    if (parked[i] == fd)
    { /* the library closes a number that it has closed before */
      for (c = 0; c < MAXC; c++) if (hc[c].used && hc[c].sfd == fd) break;
      printf ("double-close c=%d\n", c < MAXC ? c : -1);
      return 0;
    }
  for (i = 0; i < MAXRESP; i++)
    if (hr[i].used && hr[i].rfd_open && hr[i].rfd == fd)
    { /* a response gives up the descriptor it owns: its "free callback" */
      hr[i].rfd_open = 0; hr[i].freed++; hr[i].obj = NULL;
      __atomic_add_fetch (&ev_counter, 1, __ATOMIC_SEQ_CST);
      printf ("free-cb rid=%d\n", i);
      if (devnull >= 0 && nparked < MAXC * 2 && fd == dup2 (devnull, fd)) { parked[nparked++] = fd; return 0; }
      return (int) syscall (SYS_close, fd);
    }
  for (c = 0; c < MAXC; c++)
    if (hc[c].used && hc[c].sfd_open && hc[c].sfd == fd)
    {
      hc[c].sfd_open = 0; hc[c].sfd_closed_n++;
      __atomic_add_fetch (&ev_counter, 1, __ATOMIC_SEQ_CST);
      printf ("fd-close c=%d\n", c);
      if (devnull >= 0 && nparked < MAXC * 2 && fd == dup2 (devnull, fd)) { parked[nparked++] = fd; return 0; }
      break;
    }
  return (int) syscall (SYS_close, fd);
}
static void unpark_all (void)
{ int i; for (i = 0; i < nparked; i++) syscall (SYS_close, parked[i]); nparked = 0; }

/* ------------------------------------------------- epoll_ctl failure */
static int epoll_fail_next;
int epoll_ctl (int epfd, int op, int fd, struct epoll_event *ev)
{
  if (epoll_fail_next && EPOLL_CTL_ADD == op)
  {
    int c;
    for (c = 0; c < MAXC; c++)
      if (hc[c].used && hc[c].sfd_open && hc[c].sfd == fd && ! hc[c].epoll_added)
      { epoll_fail_next = 0; printf ("epoll-ctl-failed\n"); errno = ENOMEM; return -1; }
  }
  if (EPOLL_CTL_ADD == op)
  { int c; for (c = 0; c < MAXC; c++) if (hc[c].used && hc[c].sfd_open && hc[c].sfd == fd) hc[c].epoll_added = 1; }
  return (int) syscall (SYS_epoll_ctl, epfd, op, fd, ev);
}

/* ------------------------------------------------- accept4 on the real listen socket */
static int acc_fail_n, acc_errno; static const char *acc_name = "";
static int listen_cur = -1;   /* the scripted client whose accept is in progress (the accept is driven synchronously) */
/* source address (127.0.0.x, also as IPv4-mapped IPv6) and port of a peer; 0 if it is neither */
static int peer_id (const struct sockaddr *addr, unsigned *host, unsigned *port)
{
  if (NULL == addr) return 0;
  if (AF_INET == addr->sa_family)
  { const struct sockaddr_in *a = (const struct sockaddr_in *) addr; *host = ntohl (a->sin_addr.s_addr) & 0xffu; *port = ntohs (a->sin_port); return 1; }
  if (AF_INET6 == addr->sa_family)
  { const struct sockaddr_in6 *a = (const struct sockaddr_in6 *) addr; *host = a->sin6_addr.s6_addr[15]; *port = ntohs (a->sin6_port); return 1; }
  return 0;
}
/* the scripted client behind a peer address: the one being accepted right now if address AND port agree (an
   ephemeral port number alone is not an identity: closed clients' ports are handed out again at once) */
static int client_of_peer (const struct sockaddr *addr)
{
  unsigned host = 0, port = 0; int c = listen_cur;
  if (! peer_id (addr, &host, &port)) return -1;
  if (c >= 0 && c < MAXC && hc[c].used && hc[c].cport == (int) port && (unsigned) (hc[c].addr % 100) == host) return c;
  return -1;
}
int accept4 (int fd, struct sockaddr *addr, socklen_t *alen, int flags)
{
  int r, c;
  /* an injected failure happens before the kernel is asked: the backlog is not touched (and it is empty: every
     scripted client is accepted in its own `arrive` line) */
  if (acc_fail_n > 0) { acc_fail_n--; out ("accept-failed %s", acc_name); errno = acc_errno; return -1; }
  r = (int) syscall (SYS_accept4, fd, addr, alen, flags);
  if (r < 0) return r;
  c = client_of_peer (addr);
  if (c < 0 || hc[c].sfd_open || 0 != hc[c].sfd_closed_n)
  { out ("fault accepted-a-connection-the-script-did-not-expect"); return r; }
  pthread_mutex_lock (&fd_mx);
  hc[c].sfd = r; hc[c].sfd_open = 1;
  pthread_mutex_unlock (&fd_mx);
  return r;
}

/* ------------------------------------------------- thread creation failure */
static long thr_fail_k; static int thr_failed;
int pthread_create (pthread_t *t, const pthread_attr_t *a, void *(*fn)(void *), void *arg)
{
  static int (*real) (pthread_t *, const pthread_attr_t *, void *(*)(void *), void *);
  if (NULL == real) *(void **) &real = dlsym (RTLD_NEXT, "pthread_create");
  if (thr_fail_k > 0 && 0 == __atomic_sub_fetch (&thr_fail_k, 1, __ATOMIC_SEQ_CST))
  { __atomic_add_fetch (&thr_failed, 1, __ATOMIC_SEQ_CST); out ("thread-create-failed"); return EAGAIN; }
  return real (t, a, fn, arg);
}
static int count_threads_ (void)
{
  DIR *d = opendir ("/proc/self/task"); struct dirent *e; int n = 0;
  if (NULL == d) return -1;
  while (NULL != (e = readdir (d))) if (e->d_name[0] != '.') n++;
  closedir (d);
  return n;
}
/* a joined thread may still be listed for a moment (the kernel clears the tid, wakes the joiner, then reaps the task) */
static int count_threads (void)
{
  int i, n = count_threads_ ();
  for (i = 0; i < 200 && 1 != n; i++) { usleep (2000); n = count_threads_ (); }
  return n;
}

/* ---------------------------------------------------------------- responses */
struct cbctx { int rid; };
static uint8_t pat (int rid, size_t off) { return (uint8_t) ('a' + ((size_t) rid * 7 + off) % 26); }

static ssize_t content_cb (void *cls, uint64_t pos, char *buf, size_t max)
{
  struct cbctx *x = (struct cbctx *) cls; struct hresp *r = &hr[x->rid]; size_t n, i;
  APP_ENTER;
  if (r->freed) out ("use-after-free rid=%d", x->rid);
  out ("reader rid=%d", x->rid);
  if (pos >= r->size) { APP_LEAVE; return MHD_CONTENT_READER_END_OF_STREAM; }
  n = r->size - (size_t) pos; if (n > max) n = max;
  for (i = 0; i < n; i++) buf[i] = (char) pat (x->rid, (size_t) pos + i);
  APP_LEAVE;
  return (ssize_t) n;
}
static void resp_free_cb (void *cls)
{
  struct cbctx *x = (struct cbctx *) cls;
  APP_ENTER;
  out ("free-cb rid=%d", x->rid);
  hr[x->rid].freed++; hr[x->rid].obj = NULL;
  free (hr[x->rid].buf); hr[x->rid].buf = NULL;
  free (x);
  APP_LEAVE;
}
/* MHD_create_response_from_buffer_with_free_callback: the callback gets the buffer itself */
static void buf_free_cb (void *p)
{
  int rid;
  APP_ENTER;
  for (rid = 0; rid < MAXRESP; rid++) if (hr[rid].used && p == (void *) hr[rid].buf) break;
  out ("free-cb rid=%d", rid < MAXRESP ? rid : -1);
  if (rid < MAXRESP) { hr[rid].freed++; hr[rid].obj = NULL; hr[rid].buf = NULL; }
  free (p);
  APP_LEAVE;
}
static void upgrade_cb (void *cls, struct MHD_Connection *connection, void *req_cls,
                        const char *extra_in, size_t extra_in_size, MHD_socket sock,
                        struct MHD_UpgradeResponseHandle *urh)
{
  int c = (int) (intptr_t) req_cls - 1;
  APP_ENTER;
  (void) cls; (void) connection; (void) extra_in; (void) extra_in_size; (void) sock;
  out ("upgrade c=%d", c);
  if (c >= 0 && c < MAXC)
  {
    int r = hc[c].nreq_seen - 1;
    if (r >= 0 && r < 8 && ! strcmp (hc[c].beh[r], "upgradec"))
    { /* the application is done with the session before its upgrade handler returns */
      enum MHD_Result q; LIB (q = MHD_upgrade_action (urh, MHD_UPGRADE_ACTION_CLOSE));
      if (MHD_YES != q) out ("fault upgrade-close-inside-handler-refused");
    }
    else { hc[c].urh = urh; hc[c].upgraded = 1; }
  }
  APP_LEAVE;
}

static struct MHD_Response *make_resp (int rid)
{
  struct hresp *r = &hr[rid]; struct MHD_Response *m = NULL; size_t i;
  if (! strcmp (r->kind, "freecb"))
  {
    struct cbctx *x = (struct cbctx *) calloc (1, sizeof (*x));
    r->buf = (char *) malloc (r->size ? r->size : 1); x->rid = rid;
    for (i = 0; i < r->size; i++) r->buf[i] = (char) pat (rid, i);
    LIB (m = MHD_create_response_from_buffer_with_free_callback_cls (r->size, r->buf, &resp_free_cb, x));
    if (NULL == m) { free (r->buf); r->buf = NULL; free (x); }
  }
  else if (! strcmp (r->kind, "freecbnull"))
  { /* no buffer at all, size 0, still a callback to run */
    struct cbctx *x = (struct cbctx *) calloc (1, sizeof (*x)); x->rid = rid; r->size = 0;
    LIB (m = MHD_create_response_from_buffer_with_free_callback_cls (0, NULL, &resp_free_cb, x));
    if (NULL == m) free (x);
  }
  else if (! strcmp (r->kind, "bufcb"))
  {
    r->buf = (char *) malloc (r->size ? r->size : 1);
    for (i = 0; i < r->size; i++) r->buf[i] = (char) pat (rid, i);
    LIB (m = MHD_create_response_from_buffer_with_free_callback (r->size, r->buf, &buf_free_cb));
    if (NULL == m) { free (r->buf); r->buf = NULL; }
  }
  else if (! strcmp (r->kind, "iov"))
  { /* scatter/gather response: n elements of `size` bytes (mix: every second one empty); n may be 0 */
    struct cbctx *x = (struct cbctx *) calloc (1, sizeof (*x));
    struct MHD_IoVec *iov = (struct MHD_IoVec *) calloc (r->n ? r->n : 1, sizeof (*iov)); unsigned k;
    x->rid = rid; if (r->n > 8) r->n = 8;
    r->buf = (char *) malloc (r->n * r->size + 1);
    for (k = 0; k < r->n; k++)
    {
      iov[k].iov_base = r->buf + k * r->size;
      iov[k].iov_len = (r->mix && 0 == k % 2) ? 0 : r->size;
      for (i = 0; i < r->size; i++) r->buf[k * r->size + i] = (char) pat (rid, k * r->size + i);
    }
    LIB (m = MHD_create_response_from_iovec (iov, r->n, &resp_free_cb, x));
    free (iov);      /* the array itself is copied by the library */
    if (NULL == m) { free (r->buf); r->buf = NULL; free (x); }
  }
  else if (! strcmp (r->kind, "cb") || ! strcmp (r->kind, "cbunk"))
  {
    struct cbctx *x = (struct cbctx *) calloc (1, sizeof (*x)); x->rid = rid;
    LIB (m = MHD_create_response_from_callback (! strcmp (r->kind, "cbunk") ? MHD_SIZE_UNKNOWN : (uint64_t) r->size,
                                                262144, &content_cb, x, &resp_free_cb));
    if (NULL == m) free (x);
  }
  else if (! strcmp (r->kind, "pipe") || ! strcmp (r->kind, "fd"))
  { /* the response owns a descriptor and has to close it exactly once (close() is interposed) */
    int fds[2] = { -1, -1 }; int fd = -1; size_t k;
    if (! strcmp (r->kind, "pipe"))
    {
      if (0 == pipe (fds))
      { for (k = 0; k < r->size && k < 4096; k++) { char ch = (char) pat (rid, k); if (1 != write (fds[1], &ch, 1)) break; }
        syscall (SYS_close, fds[1]); fd = fds[0]; }
    }
    else
    {
      fd = open ("/tmp", O_TMPFILE | O_RDWR, 0600);
      for (k = 0; fd >= 0 && k < r->size && k < 4096; k++) { char ch = (char) pat (rid, k); if (1 != write (fd, &ch, 1)) break; }
    }
    if (fd >= 0)
    {
      r->rfd = fd; r->rfd_open = 1;
      if (! strcmp (r->kind, "pipe")) LIB (m = MHD_create_response_from_pipe (fd));
      else LIB (m = MHD_create_response_from_fd (r->size, fd));
      if (NULL == m) { r->rfd_open = 0; syscall (SYS_close, fd); }
    }
  }
  else if (! strcmp (r->kind, "upgrade"))
  {
    LIB (m = MHD_create_response_for_upgrade (&upgrade_cb, NULL));
    if (m) { enum MHD_Result q; LIB (q = MHD_add_response_header (m, "Upgrade", "x-test")); (void) q; }
  }
  return m;
}

/* ---------------------------------------------------------------- callbacks */
static int conn_of_fd (int fd)
{ int c; for (c = 0; c < MAXC; c++) if (hc[c].used && hc[c].sfd_open && hc[c].sfd == fd) return c; return -1; }

static enum MHD_Result policy_cb (void *cls, const struct sockaddr *addr, socklen_t addrlen)
{
  int *cur = (int *) cls;   /* cur[0] = connection index, cur[1] = verdict */
  int c = cur[0], v = cur[1];
  APP_ENTER;
  (void) addrlen;
  if (hcfg.listen)
  { /* accepted from the listen socket: source address and port must be those of the client being accepted */
    c = client_of_peer (addr);
    v = c >= 0 ? hc[c].verdict : 1;
  }
  out ("policy c=%d -> %d", c, v);
  APP_LEAVE;
  return v ? MHD_YES : MHD_NO;
}
static int cur_arrival[2];

static void notify_conn (void *cls, struct MHD_Connection *mc, void **socket_context,
                         enum MHD_ConnectionNotificationCode toe)
{
  APP_ENTER;
  (void) cls;
  if (MHD_CONNECTION_NOTIFY_STARTED == toe)
  {
    int c = conn_of_fd (mc->socket_fd);
    *socket_context = (void *) (intptr_t) (c + 1);
    if (c >= 0) { hc[c].mc = mc; hc[c].started++; }
    out ("conn-start c=%d", c);
  }
  else
  {
    int c = (int) (intptr_t) *socket_context - 1;
    out ("conn-close c=%d", c);
    if (c >= 0) { hc[c].mc = NULL; hc[c].closed_n++; }
  }
  APP_LEAVE;
}

static void completed (void *cls, struct MHD_Connection *mc, void **req_cls, enum MHD_RequestTerminationCode toe)
{ (void) cls; (void) mc; (void) toe; *req_cls = NULL; }

static enum MHD_Result handler (void *cls, struct MHD_Connection *mc, const char *url, const char *method,
                                const char *version, const char *upload_data, size_t *upload_data_size,
                                void **req_cls)
{
  const union MHD_ConnectionInfo *ci;
  int c, r, rid; const char *b; enum MHD_Result q = MHD_NO;
  APP_ENTER;
  (void) cls; (void) url; (void) method; (void) version; (void) upload_data; (void) upload_data_size;
  ci = MHD_get_connection_info (mc, MHD_CONNECTION_INFO_SOCKET_CONTEXT);
  c = (ci && ci->socket_context) ? (int) (intptr_t) ci->socket_context - 1 : -1;
  if (c < 0) { out ("handler c=?"); APP_LEAVE; return MHD_NO; }
  if (NULL == *req_cls)
  {
    *req_cls = (void *) (intptr_t) (c + 1);
    r = hc[c].nreq_seen++;
    hc[c].pre_done = 0;
    b = (r < 8) ? hc[c].beh[r] : "";
    if (! strcmp (b, "suspend"))
    {
      LIB (MHD_suspend_connection (mc));
      out ("suspend c=%d", c);
      APP_LEAVE; return MHD_YES;
    }
    if (strcmp (b, "replyc")) { APP_LEAVE; return MHD_YES; }  /* reply at the final call (keep-alive possible) */
  }
  r = hc[c].nreq_seen - 1;
  b = (r >= 0 && r < 8) ? hc[c].beh[r] : "";
  rid = (r >= 0 && r < 8) ? hc[c].behrid[r] : -1;
  if (r >= 0 && r < 8 && hc[c].pre_done < hc[c].npre[r])
  { /* an interim reply: the handler is called again once it is on the wire */
    rid = hc[c].pre[r][hc[c].pre_done++];
    if (rid < 0 || rid >= MAXRESP || NULL == hr[rid].obj)
    { out ("queued c=%d rid=%d -> 0", c, rid); APP_LEAVE; return MHD_NO; }
    LIB (q = MHD_queue_response (mc, MHD_HTTP_PROCESSING, hr[rid].obj));
    out ("queued c=%d rid=%d -> %d", c, rid, (int) q);
    APP_LEAVE;
    return q;
  }
  if (rid < 0 || rid >= MAXRESP || NULL == hr[rid].obj)
  { out ("queued c=%d rid=%d -> 0", c, rid); APP_LEAVE; return MHD_NO; }
  LIB (q = MHD_queue_response (mc, ! strcmp (hr[rid].kind, "upgrade") ? 101 : 200, hr[rid].obj));
  out ("queued c=%d rid=%d -> %d", c, rid, (int) q);
  APP_LEAVE;
  return q;
}

/* ---------------------------------------------------------------- rounds */
static void drain_clients (void)
{
  int c;
  for (c = 0; c < MAXC; c++)
  {
    static uint8_t buf[1 << 16];
    if (! hc[c].used || hc[c].cfd < 0 || hc[c].eof_seen || hc[c].nodrain) continue;
    for (;;)
    {
      ssize_t r = recv (hc[c].cfd, buf, sizeof (buf), MSG_DONTWAIT);
      if (r > 0) { if (getenv ("H_WIRE")) { printf ("wire c=%d ", c); fwrite (buf, 1, (size_t) r, stdout); putchar (10); } continue; }
      if (0 == r || errno == ECONNRESET || errno == EPIPE) hc[c].eof_seen = 1;
      break;
    }
  }
}

struct ipacc { char txt[1024]; size_t n; unsigned key[64], val[64], cnt; };
static struct ipacc ipa;
static void ip_walk (const void *nodep, VISIT which, int depth)
{
  const struct MHD_IPCount *k = *(const struct MHD_IPCount *const *) nodep;
  (void) depth;
  if (postorder != which && leaf != which) return;
  if (ipa.cnt < 64 && (AF_INET == k->family || AF_INET6 == k->family))
  {
    ipa.key[ipa.cnt] = AF_INET == k->family ? (unsigned) (ntohl (k->addr.ipv4.s_addr) & 0xffu)
                                            : 100u + ((const uint8_t *) &k->addr.ipv6)[15];
    ipa.val[ipa.cnt++] = k->count;
  }
}
static unsigned dll_len (struct MHD_Connection *head)
{ unsigned n = 0; for (; head; head = head->next) n++; return n; }

static int threaded (void);
static void report (void)
{
  const union MHD_DaemonInfo *di;
  drain_clients ();
  if (NULL == hd) return;
  LIB (di = MHD_get_daemon_info (hd, MHD_DAEMON_INFO_CURRENT_CONNECTIONS));
  out ("conns %u", di ? di->num_connections : 0u);
  if (threaded ()) return;
  out ("lists new=%u act=%u susp=%u clean=%u", dll_len (hd->new_connections_head), dll_len (hd->connections_head),
       dll_len (hd->suspended_connections_head), dll_len (hd->cleanup_head));
  ipa.n = 0; ipa.txt[0] = 0; ipa.cnt = 0;
  twalk (hd->per_ip_connection_count, &ip_walk);
  { /* the tree as a map: sorted by script address, whatever the tree order is */
    unsigned i, j;
    for (i = 0; i < ipa.cnt; i++)
      for (j = i + 1; j < ipa.cnt; j++)
        if (ipa.key[j] < ipa.key[i])
        { unsigned t = ipa.key[i]; ipa.key[i] = ipa.key[j]; ipa.key[j] = t; t = ipa.val[i]; ipa.val[i] = ipa.val[j]; ipa.val[j] = t; }
    for (i = 0; i < ipa.cnt; i++)
      ipa.n += (size_t) snprintf (ipa.txt + ipa.n, sizeof (ipa.txt) - ipa.n, " %u=%u", ipa.key[i], ipa.val[i]);
  }
  out ("ipc%s", ipa.n ? ipa.txt : " -");
}

static int threaded (void) { return NULL != strstr (hcfg.mode, "-thr") || ! strcmp (hcfg.mode, "tpc"); }

static void one_round_ (void);
static void one_round (void) { in_loop = 1; one_round_ (); in_loop = 0; }
static void one_round_ (void)
{
  if (threaded ()) { usleep (5000); return; }
  if (! strcmp (hcfg.mode, "select"))
  {
    fd_set rs, ws, es; MHD_socket maxfd = 0; struct timeval tv = {0, 0}; enum MHD_Result q;
    FD_ZERO (&rs); FD_ZERO (&ws); FD_ZERO (&es);
    LIB (q = MHD_get_fdset2 (hd, &rs, &ws, &es, &maxfd, FD_SETSIZE));
    if (MHD_YES != q) { out ("fdset-failed"); return; }
    select ((int) maxfd + 1, &rs, &ws, &es, &tv);
    LIB (MHD_run_from_select2 (hd, &rs, &ws, &es, FD_SETSIZE));
  }
  else LIB (MHD_run_wait (hd, 0));
}

/* ---------------------------------------------------------------- script */
static int kv (const char *w, const char *key, const char **val)
{ size_t n = strlen (key); if (! strncmp (w, key, n) && w[n] == '=') { *val = w + n + 1; return 1; } return 0; }

static void start_daemon (void)
{
  unsigned flags = hcfg.listen ? (2 == hcfg.listen ? MHD_USE_DUAL_STACK : 0) : MHD_USE_NO_LISTEN_SOCKET;
  struct MHD_OptionItem ops[16]; int n = 0;
  if (hcfg.suspend) flags |= MHD_ALLOW_SUSPEND_RESUME;
  if (hcfg.upgrade) flags |= MHD_ALLOW_UPGRADE;
  if (hcfg.nts) flags |= MHD_USE_NO_THREAD_SAFETY;
  if (! strcmp (hcfg.mode, "epoll")) flags |= MHD_USE_EPOLL;
  else if (! strcmp (hcfg.mode, "poll-thr")) flags |= MHD_USE_POLL | MHD_USE_INTERNAL_POLLING_THREAD | MHD_USE_ITC;
  else if (! strcmp (hcfg.mode, "select-thr")) flags |= MHD_USE_INTERNAL_POLLING_THREAD | MHD_USE_ITC;
  else if (! strcmp (hcfg.mode, "epoll-thr")) flags |= MHD_USE_EPOLL | MHD_USE_INTERNAL_POLLING_THREAD | MHD_USE_ITC;
  else if (! strcmp (hcfg.mode, "tpc")) flags |= MHD_USE_THREAD_PER_CONNECTION | MHD_USE_INTERNAL_POLLING_THREAD | MHD_USE_ITC;
  if (hcfg.mem) { ops[n].option = MHD_OPTION_CONNECTION_MEMORY_LIMIT; ops[n].value = (intptr_t) hcfg.mem; ops[n++].ptr_value = NULL; }
  if (hcfg.limit) { ops[n].option = MHD_OPTION_CONNECTION_LIMIT; ops[n].value = hcfg.limit; ops[n++].ptr_value = NULL; }
  if (hcfg.perip) { ops[n].option = MHD_OPTION_PER_IP_CONNECTION_LIMIT; ops[n].value = hcfg.perip; ops[n++].ptr_value = NULL; }
  if (hcfg.pool) { ops[n].option = MHD_OPTION_THREAD_POOL_SIZE; ops[n].value = hcfg.pool; ops[n++].ptr_value = NULL; }
  if (hcfg.timeout) { ops[n].option = MHD_OPTION_CONNECTION_TIMEOUT; ops[n].value = hcfg.timeout; ops[n++].ptr_value = NULL; }
  ops[n].option = MHD_OPTION_NOTIFY_COMPLETED; ops[n].value = (intptr_t) &completed; ops[n++].ptr_value = NULL;
  ops[n].option = MHD_OPTION_NOTIFY_CONNECTION; ops[n].value = (intptr_t) &notify_conn; ops[n++].ptr_value = NULL;
  ops[n].option = MHD_OPTION_END; ops[n].value = 0; ops[n++].ptr_value = NULL;
  LIB (hd = MHD_start_daemon (flags, 0, &policy_cb, cur_arrival, &handler, NULL, MHD_OPTION_ARRAY, ops, MHD_OPTION_END));
  listen_port = 0;
  if (hd && hcfg.listen)
  {
    const union MHD_DaemonInfo *di;
    LIB (di = MHD_get_daemon_info (hd, MHD_DAEMON_INFO_BIND_PORT));
    listen_port = di ? di->port : 0;
  }
  out (hd ? "started" : "start-failed");
}

static void stop_daemon (void)
{
  int c;
  if (NULL == hd) return;
  drain_clients ();
  /* upgraded connections still open: the application closes them first (API contract) */
  LIB (MHD_stop_daemon (hd)); hd = NULL;
  for (c = 0; c < MAXC; c++) { hc[c].urh = NULL; hc[c].upgraded = 0; }
  report_fired ();
  out ("stopped");
  out ("threads %d", count_threads ());
}

static void reset_all (void)
{
  int c, i;
  if (hd) { fail_k = 0; fail_site = 0; LIB (MHD_stop_daemon (hd)); hd = NULL; }
  for (i = 0; i < MAXRESP; i++)
    if (hr[i].obj) { struct MHD_Response *m = hr[i].obj; LIB (MHD_destroy_response (m)); }
  for (c = 0; c < MAXC; c++) { if (hc[c].used && hc[c].cfd >= 0) close (hc[c].cfd); }
  for (i = 0; i < MAXRESP; i++) if (hr[i].used && hr[i].rfd_open) syscall (SYS_close, hr[i].rfd);  /* leaked with its response */
  unpark_all ();
  memset (hc, 0, sizeof (hc));
  memset (hr, 0, sizeof (hr));
  memset (&hcfg, 0, sizeof (hcfg)); strcpy (hcfg.mode, "select");
  fail_k = 0; fail_site = 0; fired_site = 0; epoll_fail_next = 0;
  thr_fail_k = 0; thr_failed = 0; acc_fail_n = 0;
  vclock_ms = 1000000;
}

static const char REQ_PLAIN[] = "GET / HTTP/1.1\r\nHost: h\r\n\r\n";
static const char REQ_BAD[] = "GET / HTTP/1.1\r\n\r\n";   /* no Host: the daemon answers 400 with a response of its own */
static const char REQ_UPG[] = "GET / HTTP/1.1\r\nHost: h\r\nConnection: Upgrade\r\nUpgrade: x-test\r\n\r\n";

int main (void)
{
  struct lp_line l = {0};
  signal (SIGPIPE, SIG_IGN);
  setvbuf (stdout, NULL, _IOFBF, 1 << 16);
  MHD_set_panic_func (NULL, NULL);
  devnull = open ("/dev/null", O_RDONLY);
  strcpy (hcfg.mode, "select");
  while (lp_read (stdin, &l))
  {
    const char *v; int i; uint64_t a, b, p;
    const char *op = l.w[0];
    if (! strcmp (op, "leak-test"))
    { /* self-test of the leak detector: drop the only pointer to a heap block */
      volatile char *p = (char *) malloc (77); p[0] = 1; p = NULL; out ("ok");
    }
    else if (! strcmp (op, "case"))
    {
      reset_all ();
      if (__lsan_do_recoverable_leak_check ()) out ("leak");
      out ("case %s", l.n > 1 ? l.w[1] : "-");
    }
    else if (! strcmp (op, "cfg"))
    {
      for (i = 1; i < l.n; i++)
      {
        if (kv (l.w[i], "mode", &v)) { memset (hcfg.mode, 0, sizeof (hcfg.mode)); strncpy (hcfg.mode, v, sizeof (hcfg.mode) - 1); }
        else if (kv (l.w[i], "mem", &v)) hcfg.mem = (size_t) atol (v);
        else if (kv (l.w[i], "limit", &v)) hcfg.limit = (unsigned) atoi (v);
        else if (kv (l.w[i], "perip", &v)) hcfg.perip = (unsigned) atoi (v);
        else if (kv (l.w[i], "timeout", &v)) hcfg.timeout = (unsigned) atoi (v);
        else if (kv (l.w[i], "upgrade", &v)) hcfg.upgrade = atoi (v);
        else if (kv (l.w[i], "suspend", &v)) hcfg.suspend = atoi (v);
        else if (kv (l.w[i], "nts", &v)) hcfg.nts = atoi (v);
        else if (kv (l.w[i], "pool", &v)) hcfg.pool = (unsigned) atoi (v);
        else if (kv (l.w[i], "listen", &v)) hcfg.listen = atoi (v);
      }
      out ("ok");
    }
    else if (! strcmp (op, "thread-fail") && l.n >= 2 && lp_u64 (l.w[1], &a))
    { thr_fail_k = (long) a; out ("ok"); }
    else if (! strcmp (op, "threads")) out ("threads %d", count_threads ());
    else if (! strcmp (op, "start") && NULL == hd) start_daemon ();
    else if (! strcmp (op, "resp-create") && l.n >= 2 && lp_u64 (l.w[1], &a) && a < MAXRESP && ! hr[a].used)
    {
      struct hresp *r = &hr[a];
      r->used = 1; strcpy (r->kind, "freecb"); r->size = 5;
      for (i = 2; i < l.n; i++)
      {
        if (kv (l.w[i], "kind", &v)) { memset (r->kind, 0, sizeof (r->kind)); strncpy (r->kind, v, sizeof (r->kind) - 1); }
        else if (kv (l.w[i], "size", &v)) r->size = (size_t) atol (v);
        else if (kv (l.w[i], "n", &v)) r->n = (unsigned) atoi (v);
        else if (kv (l.w[i], "mix", &v)) r->mix = (unsigned) atoi (v);
      }
      r->obj = make_resp ((int) a);
      report_fired ();
      out ("resp-create rid=%d -> %d", (int) a, r->obj ? 1 : 0);
    }
    else if (! strcmp (op, "resp-drop") && l.n >= 2 && lp_u64 (l.w[1], &a) && a < MAXRESP && hr[a].used && hr[a].obj)
    {
      struct MHD_Response *m = hr[a].obj;
      hr[a].obj = NULL;     /* the application's reference is gone, whatever happens to the object */
      LIB (MHD_destroy_response (m));
      out ("resp-drop rid=%d", (int) a);
    }
    else if (NULL == hd) out ("bad-op");
    else if (! strcmp (op, "arrive") && hcfg.listen && l.n >= 4 && lp_u64 (l.w[1], &a) && lp_u64 (l.w[2], &b) && lp_u64 (l.w[3], &p)
             && a < MAXC && ! hc[a].used && ((1 == hcfg.listen && b >= 1 && b < 100) || (2 == hcfg.listen && b > 100 && b < 200)))
    { /* a real TCP client from 127.0.0.<b> connects; the daemon accepts it (accept4) and runs the admission code */
      struct sockaddr_in me, srv; socklen_t sl = sizeof (me); enum MHD_Result q = MHD_NO;
      int fd = socket (AF_INET, SOCK_STREAM, 0);
      memset (&me, 0, sizeof (me)); me.sin_family = AF_INET; me.sin_addr.s_addr = htonl (0x7f000000u + (uint32_t) (b % 100));
      memset (&srv, 0, sizeof (srv)); srv.sin_family = AF_INET; srv.sin_port = htons (listen_port); srv.sin_addr.s_addr = htonl (0x7f000001u);
      if (fd < 0 || 0 != bind (fd, (struct sockaddr *) &me, sizeof (me)) || 0 != connect (fd, (struct sockaddr *) &srv, sizeof (srv))
          || 0 != getsockname (fd, (struct sockaddr *) &me, &sl))
      { if (fd >= 0) syscall (SYS_close, fd); out ("bad-op"); }
      else
      {
        fcntl (fd, F_SETFL, fcntl (fd, F_GETFL) | O_NONBLOCK);
        hc[a].used = 1; hc[a].cfd = fd; hc[a].sfd = -1; hc[a].sfd_open = 0; hc[a].addr = (int) b; hc[a].nodrain = 0;
        hc[a].cport = ntohs (me.sin_port); hc[a].verdict = (int) (p != 0);
        { /* connect() has returned, but the last step of the handshake is delivered to the listener by the kernel's
             own (possibly deferred) processing: wait for the event "listen socket readable", not for time */
          struct pollfd pf; int tries = 0; pf.fd = hd->listen_fd; pf.events = POLLIN; pf.revents = 0;
          while (1 != poll (&pf, 1, 1000) && ++tries < 30) pf.revents = 0;
          if (0 == (pf.revents & POLLIN)) out ("fault connection-never-reached-the-listen-queue");
        }
        listen_cur = (int) a;
        in_add = 1;
        LIB (q = MHD_accept_connection (hd));
        in_add = 0;
        listen_cur = -1;
        report_fired ();
        /* MHD_accept_connection reports only whether accept() worked: the admission result is whether the socket survived */
        out ("arrive c=%d -> %d", (int) a, (int) (MHD_YES == q && hc[a].sfd_open));
        report ();
      }
    }
    else if (! strcmp (op, "accept-fail") && hcfg.listen && l.n >= 2)
    { /* accept4() fails: nothing may be counted, nothing may be lost */
      static const struct { const char *n; int e; } tab[] = { {"EMFILE", EMFILE}, {"ENFILE", ENFILE}, {"ECONNABORTED", ECONNABORTED},
                                                             {"EAGAIN", EAGAIN}, {"ENOMEM", ENOMEM}, {"ENOBUFS", ENOBUFS} };
      enum MHD_Result q = MHD_YES; unsigned k, hit = 0;
      for (k = 0; k < sizeof (tab) / sizeof (tab[0]); k++)
        if (! strcmp (tab[k].n, l.w[1])) { acc_errno = tab[k].e; acc_name = tab[k].n; hit = 1; }
      if (! hit) out ("bad-op");
      else
      {
        acc_fail_n = 1;
        listen_cur = -1;
        LIB (q = MHD_accept_connection (hd));
        acc_fail_n = 0;
        if (MHD_NO != q) out ("fault accept-failure-reported-as-success");
        report ();
      }
    }
    else if (! strcmp (op, "arrive") && l.n >= 4 && lp_u64 (l.w[1], &a) && lp_u64 (l.w[2], &b) && lp_u64 (l.w[3], &p)
             && a < MAXC && ! hc[a].used && b < 250)
    {
      int sv[2]; union { struct sockaddr sa; struct sockaddr_in in; struct sockaddr_in6 in6; struct sockaddr_un un; } u; socklen_t alen; enum MHD_Result q;
      if (0 != socketpair (AF_UNIX, SOCK_STREAM | SOCK_NONBLOCK, 0, sv)) { out ("bad-op"); }
      else
      {
        memset (&u, 0, sizeof (u));
        if (b >= 100 && b < 200)
        { /* IPv4-mapped IPv6 address ::ffff:10.0.0.(b-100): a key of its own in the per-address tree */
          static const uint8_t pfx[12] = {0, 0, 0, 0, 0, 0, 0, 0, 0, 0, 0xff, 0xff};
          u.in6.sin6_family = AF_INET6; u.in6.sin6_port = htons ((uint16_t) (1000 + a));
          memcpy (u.in6.sin6_addr.s6_addr, pfx, 12);
          u.in6.sin6_addr.s6_addr[12] = 10; u.in6.sin6_addr.s6_addr[15] = (uint8_t) (b - 100);
          alen = sizeof (u.in6);
        }
        else if (0 != b)
        { u.in.sin_family = AF_INET; u.in.sin_port = htons ((uint16_t) (1000 + a)); u.in.sin_addr.s_addr = htonl (0x0a000000u + (uint32_t) b); alen = sizeof (u.in); }
        else
        { u.un.sun_family = AF_UNIX; strcpy (u.un.sun_path, "/nonexistent"); alen = sizeof (u.un); }
        hc[a].used = 1; hc[a].cfd = sv[0]; hc[a].sfd = sv[1]; hc[a].sfd_open = 1; hc[a].addr = (int) b; hc[a].nodrain = 0;
        cur_arrival[0] = (int) a; cur_arrival[1] = (int) (p != 0);
        in_add = 1;
        LIB (q = MHD_add_connection (hd, sv[1], &u.sa, alen));
        in_add = 0;
        report_fired ();
        hc[a].added_ok = (MHD_YES == q);
        out ("arrive c=%d -> %d", (int) a, (int) q);
        report ();
      }
    }
    else if (! strcmp (op, "req") && l.n >= 4 && lp_u64 (l.w[1], &a) && lp_u64 (l.w[3], &b) && a < MAXC && hc[a].used
             && hc[a].cfd >= 0 && hc[a].nreq_sent < 8 && b < MAXRESP
             && l.n <= 4 + MAXPRE
             && (! strcmp (l.w[2], "reply") || ! strcmp (l.w[2], "replyc") || ! strcmp (l.w[2], "suspend") || ! strcmp (l.w[2], "upgrade") || ! strcmp (l.w[2], "upgradec")
                 || (! strcmp (l.w[2], "bad") && 4 == l.n)))
    {
      const char *rq = (! strcmp (l.w[2], "upgrade") || ! strcmp (l.w[2], "upgradec")) ? REQ_UPG : ! strcmp (l.w[2], "bad") ? REQ_BAD : REQ_PLAIN; size_t n = strlen (rq), offn = 0;
      int k = hc[a].nreq_sent++;
      strcpy (hc[a].beh[k], l.w[2]); hc[a].behrid[k] = (int) b;
      hc[a].npre[k] = 0;
      for (i = 4; i < l.n; i++) { uint64_t x; hc[a].pre[k][hc[a].npre[k]++] = lp_u64 (l.w[i], &x) && x < MAXRESP ? (int) x : -1; }
      while (offn < n) { ssize_t r = send (hc[a].cfd, rq + offn, n - offn, MSG_DONTWAIT | MSG_NOSIGNAL); if (r <= 0) break; offn += (size_t) r; }
      out ("req c=%d sent=%d", (int) a, offn == n);
    }
    else if (! strcmp (op, "cclose") && l.n >= 2 && lp_u64 (l.w[1], &a) && a < MAXC)
    { if (hc[a].used && hc[a].cfd >= 0) { close (hc[a].cfd); hc[a].cfd = -1; hc[a].eof_seen = 1; } out ("ok"); }
    else if (! strcmp (op, "hold") && l.n >= 2 && lp_u64 (l.w[1], &a) && a < MAXC) { hc[a].nodrain = 1; out ("ok"); }
    else if (! strcmp (op, "drain") && l.n >= 2 && lp_u64 (l.w[1], &a) && a < MAXC) { hc[a].nodrain = 0; out ("ok"); }
    else if (! strcmp (op, "round")) { one_round (); report_fired (); report (); }
    else if (! strcmp (op, "settle") && threaded ())
    { /* the daemon's threads run on their own: wait for what the script has asked for (admission or refusal of every
         added connection, the handler for every request sent, the disposal of every connection whose client has
         gone), then for a quiet period; bounded, so a daemon that never gets there is reported by the oracle */
      unsigned long seen = ev_counter; int quiet = 0; struct timespec t0, t1;
      clock_gettime (CLOCK_MONOTONIC, &t0); t1 = t0;
      for (i = 0; quiet < 20 && (t1.tv_sec - t0.tv_sec) < 8; i++, clock_gettime (CLOCK_MONOTONIC, &t1))
      {
        int c, pend = 0;
        usleep (2000); drain_clients ();
        for (c = 0; c < MAXC && ! pend; c++)
        {
          if (! hc[c].used || ! hc[c].sfd_open) continue;
          if (hc[c].added_ok && ! hc[c].started) pend = 1;
          else if (hc[c].cfd < 0 && ! hc[c].upgraded && ! (hc[c].mc && hc[c].mc->suspended)) pend = 1;
          else if (hc[c].cfd >= 0 && hc[c].nreq_seen < hc[c].nreq_sent) pend = 1;
        }
        if (pend || seen != ev_counter) { quiet = 0; seen = ev_counter; } else quiet++;
      }
      report_fired (); report ();
    }
    else if (! strcmp (op, "settle"))
    { for (i = 0; i < SETTLE_ROUNDS; i++) { one_round (); drain_clients (); } report_fired (); report (); }
    else if (! strcmp (op, "query")) report ();
    else if (! strcmp (op, "tick") && l.n >= 2 && lp_u64 (l.w[1], &a)) { vclock_ms += a; out ("ok"); }
    else if (! strcmp (op, "resume") && l.n >= 2 && lp_u64 (l.w[1], &a) && a < MAXC && hc[a].mc && hc[a].mc->suspended && NULL == hc[a].mc->urh)
    { out ("resume c=%d", (int) a); LIB (MHD_resume_connection (hc[a].mc)); }
    else if (! strcmp (op, "ext-queue") && l.n >= 3 && lp_u64 (l.w[1], &a) && lp_u64 (l.w[2], &b) && a < MAXC && b < MAXRESP
             && hc[a].mc && hc[a].mc->suspended && NULL == hc[a].mc->urh)
    { /* the application queues a response from outside the handler while the connection is suspended */
      enum MHD_Result q = MHD_NO;
      if (NULL != hr[b].obj) LIB (q = MHD_queue_response (hc[a].mc, 200, hr[b].obj));
      out ("queued c=%d rid=%d -> %d", (int) a, (int) b, (int) q);
    }
    else if (! strcmp (op, "up-close") && l.n >= 2 && lp_u64 (l.w[1], &a) && a < MAXC && hc[a].upgraded)
    { enum MHD_Result q; LIB (q = MHD_upgrade_action (hc[a].urh, MHD_UPGRADE_ACTION_CLOSE)); out ("up-close c=%d -> %d", (int) a, (int) q); hc[a].upgraded = 0; hc[a].urh = NULL; }
    else if (! strcmp (op, "alloc-fail") && l.n >= 2 && lp_u64 (l.w[1], &a) && a > 0) { fail_k = (long) a; out ("ok"); }
    else if (! strcmp (op, "alloc-fail-site") && l.n >= 2)
    {
      int s = 0;
      for (i = 1; i <= S_URH; i++) if (! strcmp (l.w[1], site_name[i])) s = i;
      if (s) { fail_site = s; epoll_fail_next = 0; out ("ok"); } else out ("bad-op");
    }
    else if (! strcmp (op, "epoll-fail")) { epoll_fail_next = 1; fail_site = 0; out ("ok"); }
    else if (! strcmp (op, "stop")) stop_daemon ();
    else if (! strcmp (op, "alloc-fail-off")) { fail_k = 0; fail_site = 0; epoll_fail_next = 0; out ("ok"); }
    else if (! strcmp (op, "pool-limits"))
    { /* white-box: how MHD_start_daemon split the connection limit among the pool workers */
      unsigned k;
      flockfile (stdout);
      printf ("pool n=%u limits=", hd->worker_pool_size);
      if (0 == hd->worker_pool_size) putchar ('-');
      for (k = 0; k < hd->worker_pool_size; k++) printf ("%s%u", k ? "," : "", hd->worker_pool[k].connection_limit);
      putchar ('\n');
      funlockfile (stdout);
    }
    else if (! strcmp (op, "defaults")) out ("defaults limit=%u pool=%zu", hd->connection_limit, hd->pool_size);
    else if (! strcmp (op, "mark")) out ("mark %s", l.n > 1 ? l.w[1] : "-");
    else out ("bad-op");
    out ("--");
    fflush (stdout);
  }
  reset_all ();
  free (l.buf);
  if (devnull >= 0) syscall (SYS_close, devnull);
  return 0;
}
