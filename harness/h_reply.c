/* Correspondence harness for the reply code (engine "reply", property C04).
   White-box include of connection.c (static decision functions, header builder) plus a
   real daemon (no listen socket, external polling, socketpair clients) for complete
   exchanges.  Same line protocol as lean/Driver/Reply.lean.  No source change needed:
   the clock used for the "Date:" header is redirected with a macro. */
#include "MHD_config.h"
#include <time.h>
static int verif_time_fail;
static time_t verif_time (time_t *t)
{
  if (verif_time_fail) return (time_t) -1;
  if (t) *t = 0;
  return 0;
}
#define time verif_time
#include "connection.c"
#undef time
#include "common/lp.h"
#include <sys/socket.h>
#include <netinet/in.h>
#include <fcntl.h>
#include <signal.h>
#include <errno.h>
#include <unistd.h>

/* ------------------------------------------------------------------ slots */
#define NSLOT 8
#define MAXP 64
struct cbst { int n; size_t lens[MAXP]; int ending; int idx; };
struct iovmem { void *pool; void *decoy[MAXP]; int nd; };
struct slot { struct MHD_Response *r; struct cbst cb; };
static void iov_free (void *cls)
{
  struct iovmem *m = (struct iovmem *) cls;
  for (int i = 0; i < m->nd; i++) free (m->decoy[i]);
  free (m->pool); free (m);
}
static struct slot slots[NSLOT];

/* response flags / flags_auto travel over the line protocol in a canonical numbering (strict=1 server=2
   insanity=4 keepalive-hdr=8 head-only=16 ; conn=1 close=2 te=4 cl=8 date=16), independent of the enum values */
static enum MHD_ResponseFlags c2rf (unsigned c)
{
  return (enum MHD_ResponseFlags) (((c & 1) ? MHD_RF_HTTP_1_0_COMPATIBLE_STRICT : 0) | ((c & 2) ? MHD_RF_HTTP_1_0_SERVER : 0)
                                   | ((c & 4) ? MHD_RF_INSANITY_HEADER_CONTENT_LENGTH : 0) | ((c & 8) ? MHD_RF_SEND_KEEP_ALIVE_HEADER : 0)
                                   | ((c & 16) ? MHD_RF_HEAD_ONLY_RESPONSE : 0));
}
static unsigned rf2c (enum MHD_ResponseFlags f)
{
  return ((f & MHD_RF_HTTP_1_0_COMPATIBLE_STRICT) ? 1u : 0) | ((f & MHD_RF_HTTP_1_0_SERVER) ? 2u : 0)
         | ((f & MHD_RF_INSANITY_HEADER_CONTENT_LENGTH) ? 4u : 0) | ((f & MHD_RF_SEND_KEEP_ALIVE_HEADER) ? 8u : 0)
         | ((f & MHD_RF_HEAD_ONLY_RESPONSE) ? 16u : 0);
}
static enum MHD_ResponseAutoFlags c2raf (unsigned c)
{
  return (enum MHD_ResponseAutoFlags) (((c & 1) ? MHD_RAF_HAS_CONNECTION_HDR : 0) | ((c & 2) ? MHD_RAF_HAS_CONNECTION_CLOSE : 0)
                                       | ((c & 4) ? MHD_RAF_HAS_TRANS_ENC_CHUNKED : 0) | ((c & 8) ? MHD_RAF_HAS_CONTENT_LENGTH : 0)
                                       | ((c & 16) ? MHD_RAF_HAS_DATE_HDR : 0));
}
static unsigned raf2c (enum MHD_ResponseAutoFlags f)
{
  return ((f & MHD_RAF_HAS_CONNECTION_HDR) ? 1u : 0) | ((f & MHD_RAF_HAS_CONNECTION_CLOSE) ? 2u : 0)
         | ((f & MHD_RAF_HAS_TRANS_ENC_CHUNKED) ? 4u : 0) | ((f & MHD_RAF_HAS_CONTENT_LENGTH) ? 8u : 0)
         | ((f & MHD_RAF_HAS_DATE_HDR) ? 16u : 0);
}

static unsigned char pat (size_t i) { return (unsigned char) (97 + (i * 7 + i / 26) % 26); }

static ssize_t crc_cb (void *cls, uint64_t pos, char *buf, size_t max)
{
  struct cbst *s = (struct cbst *) cls;
  size_t n;
  if (s->idx >= s->n)
    return s->ending ? MHD_CONTENT_READER_END_WITH_ERROR : MHD_CONTENT_READER_END_OF_STREAM;
  n = s->lens[s->idx++];
  if (n > max) n = max;
  for (size_t i = 0; i < n; i++) buf[i] = (char) pat ((size_t) pos + i);
  return (ssize_t) n;
}

static void upg_cb (void *cls, struct MHD_Connection *c, void *req_cls, const char *extra, size_t extra_size,
                    MHD_socket sock, struct MHD_UpgradeResponseHandle *urh)
{
  (void) cls; (void) c; (void) req_cls; (void) extra; (void) extra_size; (void) sock;
  MHD_upgrade_action (urh, MHD_UPGRADE_ACTION_CLOSE);
}

static void slot_free (int i)
{
  if (slots[i].r) MHD_destroy_response (slots[i].r);
  memset (&slots[i], 0, sizeof(slots[i]));
}

static enum MHD_Result dump_it (void *cls, enum MHD_ValueKind kind, const char *key, const char *value)
{
  (void) cls;
  printf (" %s:", (MHD_HEADER_KIND == kind) ? "H" : ((MHD_FOOTER_KIND == kind) ? "F" : "?"));
  lp_puthex (stdout, key, strlen (key));
  putchar ('=');
  lp_puthex (stdout, value, strlen (value));
  return MHD_YES;
}

static void dump (enum MHD_Result ret, struct MHD_Response *r)
{
  printf ("ret=%d fa=%u fl=%u", (MHD_NO != ret) ? 1 : 0, raf2c (r->flags_auto), rf2c (r->flags));
  MHD_get_response_headers (r, &dump_it, NULL);
  putchar ('\n');
}

static char *hexstr (const char *s)   /* hex -> NUL-terminated exact-size C string, NULL if it contains NUL */
{
  size_t n; uint8_t *b = lp_unhex (s, &n);
  char *r;
  if (!b) return NULL;
  if (memchr (b, 0, n)) { free (b); return NULL; }
  r = (char *) malloc (n + 1);
  memcpy (r, b, n); r[n] = 0;
  free (b);
  return r;
}

/* ------------------------------------------------------------------ fabricated connection */
static struct MHD_Daemon fdaemon;
static struct MHD_Connection fc;
static struct MemoryPool *zpool;   /* a pool without free space */
static struct MHD_HTTP_Req_Header rh[2];
static struct MHD_Response *grid_r;

static void fake_reset (void)
{
  memset (&fdaemon, 0, sizeof(fdaemon));
  memset (&fc, 0, sizeof(fc));
  fc.daemon = &fdaemon;
  fc.pool = zpool;
  fc.in_idle = true;
  fc.in_access_handler = true;
  fc.socket_fd = MHD_INVALID_SOCKET;
}

static void set_conn_tokens (unsigned ct)
{
  int n = 0;
  memset (rh, 0, sizeof(rh));
  if (ct & 1) { rh[n].header = "Connection"; rh[n].header_size = 10; rh[n].value = "close"; rh[n].value_size = 5; rh[n].kind = MHD_HEADER_KIND; n++; }
  if (ct & 2) { rh[n].header = "connection"; rh[n].header_size = 10; rh[n].value = "Keep-Alive"; rh[n].value_size = 10; rh[n].kind = MHD_HEADER_KIND; n++; }
  if (n == 2) { rh[0].next = &rh[1]; rh[1].prev = &rh[0]; }
  fc.rq.headers_received = n ? &rh[0] : NULL;
  fc.rq.headers_received_tail = n ? &rh[n - 1] : NULL;
}

static int p_int (const char *s, long long *v)
{
  uint64_t u;
  if (*s == '-') { if (!lp_u64 (s + 1, &u)) return 0; *v = -(long long) u; return 1; }
  if (!lp_u64 (s, &u)) return 0;
  *v = (long long) u; return 1;
}
static int p_b (const char *s, int *v) { if (!strcmp (s, "0")) { *v = 0; return 1; } if (!strcmp (s, "1")) { *v = 1; return 1; } return 0; }
static int ok_ka (long long k) { return k == MHD_CONN_MUST_CLOSE || k == MHD_CONN_KEEPALIVE_UNKOWN || k == MHD_CONN_USE_KEEPALIVE || k == MHD_CONN_MUST_UPGRADE; }
static int ok_ver (long long v) { return v == MHD_HTTP_VER_INVALID || v == MHD_HTTP_VER_UNKNOWN || v == MHD_HTTP_VER_TOO_OLD || v == MHD_HTTP_VER_1_0 || v == MHD_HTTP_VER_1_1 || v == MHD_HTTP_VER_1_2__1_9 || v == MHD_HTTP_VER_FUTURE; }
static int ok_mthd (long long m) { return (m >= MHD_HTTP_MTHD_NO_METHOD && m <= MHD_HTTP_MTHD_TRACE) || m == MHD_HTTP_MTHD_OTHER; }
static const char b32[] = "0123456789ABCDEFGHIJKLMNOPQRSTUV";
static char props_char (void)
{
  return b32[((unsigned) ((int) fc.keepalive + 1) * 8 + (fc.rp.props.send_reply_body ? 4 : 0)
              + (fc.rp.props.use_reply_body_headers ? 2 : 0) + (fc.rp.props.chunked ? 1 : 0)) % 32];
}

/* ------------------------------------------------------------------ real daemon, scripted exchanges */
static struct MHD_Daemon *d;
static struct { int n; int slot[8]; unsigned code[8]; int next; int early; int first_done; char q[16]; int qn; } xs;

static enum MHD_Result ahc (void *cls, struct MHD_Connection *c, const char *url, const char *method,
                            const char *version, const char *upload_data, size_t *upload_data_size, void **req_cls)
{
  static int marker;
  (void) cls; (void) url; (void) method; (void) version; (void) upload_data;
  if (NULL == *req_cls)
  {
    *req_cls = &marker;
    if (! xs.early) return MHD_YES;
  }
  else if (0 != *upload_data_size)
  {
    *upload_data_size = 0;
    return MHD_YES;
  }
  if (xs.next < xs.n)
  {
    int k = xs.next++;
    enum MHD_Result r = MHD_queue_response (c, xs.code[k], slots[xs.slot[k]].r);
    if (xs.qn < 15) xs.q[xs.qn++] = (MHD_NO != r) ? 'Y' : 'N';
    return r;
  }
  return MHD_YES;
}

static uint8_t *wire; static size_t wire_n, wire_cap;
static int drain (int fd)   /* returns 1 if the peer closed */
{
  for (;;)
  {
    char b[4096];
    ssize_t r = recv (fd, b, sizeof(b), MSG_DONTWAIT);
    if (r > 0)
    {
      if (wire_n + (size_t) r > wire_cap) { wire_cap = (wire_n + (size_t) r) * 2; wire = (uint8_t *) realloc (wire, wire_cap); }
      memcpy (wire + wire_n, b, (size_t) r); wire_n += (size_t) r;
      continue;
    }
    if (0 == r) return 1;
    if (EAGAIN == errno || EWOULDBLOCK == errno) return 0;
    if (EINTR == errno) continue;
    return 1; /* ECONNRESET etc. */
  }
}

static int pump (int fd)
{
  int idle = 0, closed = 0;
  for (int i = 0; i < 2000 && idle < 4 && !closed; i++)
  {
    size_t before = wire_n;
    MHD_run (d);
    closed = drain (fd);
    idle = (wire_n == before) ? idle + 1 : 0;
  }
  return closed;
}

static void send_all (int fd, const char *p, size_t n)
{
  while (n)
  {
    ssize_t w = send (fd, p, n, MSG_NOSIGNAL | MSG_DONTWAIT);
    if (w <= 0) return;
    p += w; n -= (size_t) w;
  }
}

int main (void)
{
  struct lp_line l = {0};
  signal (SIGPIPE, SIG_IGN);
  MHD_init_mem_pools_ ();
  zpool = MHD_pool_create (64);
  (void) MHD_pool_allocate (zpool, MHD_pool_get_free (zpool), true);
  grid_r = MHD_create_response_empty (MHD_RF_NONE);
  d = MHD_start_daemon (MHD_USE_NO_LISTEN_SOCKET | MHD_ALLOW_UPGRADE, 0, NULL, NULL, &ahc, NULL,
                        MHD_OPTION_CONNECTION_MEMORY_LIMIT, (size_t) 32768,
                        MHD_OPTION_END);
  if (!d || !zpool || !grid_r) { puts ("fault init"); return 2; }
  fake_reset ();
  while (lp_read (stdin, &l))
  {
    uint64_t a, b;
    long long ka, ver, m;
    int upg, rc, dr, i1, i2, i3;
    const char *op = l.w[0];
    /* ---------------- response objects */
    if (!strcmp (op, "new") && l.n >= 3 && lp_u64 (l.w[1], &a) && a < NSLOT)
    {
      int i = (int) a;
      if (l.n == 4 && !strcmp (l.w[2], "buf") && lp_u64 (l.w[3], &b) && b < (1u << 24))
      {
        char *buf = (char *) malloc (b ? b : 1);
        for (size_t j = 0; j < b; j++) buf[j] = (char) pat (j);
        slot_free (i);
        /* alternate the three buffer constructors: same behaviour is expected */
        if (i % 3 == 0) { slots[i].r = MHD_create_response_from_buffer_copy ((size_t) b, buf); free (buf); }
        else if (i % 3 == 1) slots[i].r = MHD_create_response_from_buffer_with_free_callback ((size_t) b, buf, &free);
        else slots[i].r = MHD_create_response_from_buffer ((size_t) b, buf, MHD_RESPMEM_MUST_FREE);
        puts (slots[i].r ? "ok" : "fault new");
      }
      else if (l.n == 6 && !strcmp (l.w[2], "cb"))
      {
        uint64_t tot; int okk = 1, n = 0, ending;
        size_t lens[MAXP];
        if (!strcmp (l.w[3], "u")) tot = MHD_SIZE_UNKNOWN; else if (!lp_u64 (l.w[3], &tot)) okk = 0;
        if (strcmp (l.w[4], "-"))
        {
          char *p = l.w[4];
          while (okk && *p)
          {
            char *e = strchr (p, ','); uint64_t v;
            if (e) *e = 0;
            if (!lp_u64 (p, &v) || n >= MAXP) okk = 0; else lens[n++] = (size_t) v;
            if (!e) break;
            p = e + 1;
          }
        }
        if (!strcmp (l.w[5], "eos")) ending = 0; else if (!strcmp (l.w[5], "err")) ending = 1; else { ending = 0; okk = 0; }
        if (!okk) { puts ("bad-op"); continue; }
        slot_free (i);
        slots[i].cb.n = n; memcpy (slots[i].cb.lens, lens, sizeof(lens[0]) * (size_t) n); slots[i].cb.ending = ending;
        slots[i].r = MHD_create_response_from_callback (tot, 1024, &crc_cb, &slots[i].cb, NULL);
        puts (slots[i].r ? "ok" : "fault new");
      }
      else if (l.n == 4 && !strcmp (l.w[2], "empty") && lp_u64 (l.w[3], &b) && b < 32)
      {
        slot_free (i);
        slots[i].r = MHD_create_response_empty (c2rf ((unsigned) b));
        puts (slots[i].r ? "ok" : "fault new");
      }
      else if (l.n == 4 && !strcmp (l.w[2], "iov"))
      {
        /* element array: "-" = no elements; "N<cnt>" = NULL array pointer with iovcnt = cnt; otherwise a comma list of
           z (NULL base, length 0) | d (length 0, base = a foreign one-byte heap block) | n<len> (NULL base, length len)
           | <off>:<len> (len bytes at offset off of one shared pattern block, allocated with the exact size needed) */
        struct MHD_IoVec v[MAXP]; uint64_t offs[MAXP]; int isl[MAXP]; unsigned n = 0; int okk = 1, nullarr = 0; uint64_t cnt = 0, need = 0;
        struct iovmem *mem = (struct iovmem *) calloc (1, sizeof(*mem));
        memset (v, 0, sizeof(v)); memset (isl, 0, sizeof(isl));
        if (l.w[3][0] == 'N') { nullarr = 1; if (!lp_u64 (l.w[3] + 1, &cnt) || cnt > 1000) okk = 0; }
        else if (strcmp (l.w[3], "-"))
        {
          char *p = l.w[3];
          while (okk && *p)
          {
            char *e = strchr (p, ','), *c; uint64_t a1, a2;
            if (e) *e = 0;
            if (n >= MAXP) { okk = 0; break; }
            if (!strcmp (p, "z")) { v[n].iov_base = NULL; v[n].iov_len = 0; }
            else if (!strcmp (p, "d")) { char *dd = (char *) malloc (1); dd[0] = '#'; mem->decoy[mem->nd++] = dd; v[n].iov_base = dd; v[n].iov_len = 0; }
            else if (p[0] == 'n' && lp_u64 (p + 1, &a1)) { v[n].iov_base = NULL; v[n].iov_len = (size_t) a1; }
            else if ((c = strchr (p, ':')) != NULL)
            {
              *c = 0;
              if (!lp_u64 (p, &a1) || !lp_u64 (c + 1, &a2) || a1 > (1u << 20) || a2 > (1u << 20)) { okk = 0; break; }
              offs[n] = a1; isl[n] = 1; v[n].iov_len = (size_t) a2;
              if (a1 + a2 > need) need = a1 + a2;
            }
            else okk = 0;
            n++;
            if (!e) break;
            p = e + 1;
          }
        }
        if (!okk) { puts ("bad-op"); iov_free (mem); continue; }
        mem->pool = malloc (need ? need : 1);
        for (size_t j = 0; j < need; j++) ((char *) mem->pool)[j] = (char) pat (j);
        for (unsigned j = 0; j < n; j++) if (isl[j]) v[j].iov_base = (char *) mem->pool + offs[j];
        slot_free (i);
        slots[i].r = MHD_create_response_from_iovec (nullarr ? NULL : v, nullarr ? (unsigned) cnt : n, &iov_free, mem);
        if (!slots[i].r) { iov_free (mem); puts ("null"); }
        else puts ("ok");
      }
      else if (l.n == 4 && !strcmp (l.w[2], "bufnull") && lp_u64 (l.w[3], &b) && b < (1u << 24))
      {
        slot_free (i);
        slots[i].r = (i % 2) ? MHD_create_response_from_buffer ((size_t) b, NULL, MHD_RESPMEM_PERSISTENT)
                     : MHD_create_response_from_buffer_static ((size_t) b, NULL);
        puts (slots[i].r ? "ok" : "null");
      }
      else if (l.n == 6 && !strcmp (l.w[2], "fd"))
      {
        uint64_t size, off, fsize; FILE *f; int fd;
        if (!lp_u64 (l.w[3], &size) || !lp_u64 (l.w[4], &off) || !lp_u64 (l.w[5], &fsize) || fsize > (1u << 22)) { puts ("bad-op"); continue; }
        f = tmpfile ();
        if (!f) { puts ("fault tmpfile"); continue; }
        for (size_t j = 0; j < fsize; j++) fputc ((int) pat (j), f);
        fflush (f);
        fd = dup (fileno (f)); fclose (f);
        slot_free (i);
        slots[i].r = (0 == off && (i % 2)) ? MHD_create_response_from_fd64 (size, fd)
                     : MHD_create_response_from_fd_at_offset64 (size, fd, off);
        if (!slots[i].r) { close (fd); puts ("null"); } else puts ("ok");
      }
      else if (l.n == 4 && !strcmp (l.w[2], "pipe") && lp_u64 (l.w[3], &b) && b <= 4096)
      {
        int pf[2];
        if (0 != pipe (pf)) { puts ("fault pipe"); continue; }
        for (size_t j = 0; j < b; j++) { char ch = (char) pat (j); if (1 != write (pf[1], &ch, 1)) break; }
        close (pf[1]);
        slot_free (i);
        slots[i].r = MHD_create_response_from_pipe (pf[0]);
        if (!slots[i].r) { close (pf[0]); puts ("null"); } else puts ("ok");
      }
      else if (l.n == 3 && !strcmp (l.w[2], "upg"))
      {
        slot_free (i);
        slots[i].r = MHD_create_response_for_upgrade (&upg_cb, NULL);
        puts (slots[i].r ? "ok" : "fault new");
      }
      else puts ("bad-op");
    }
    else if ((!strcmp (op, "add") || !strcmp (op, "del") || !strcmp (op, "foot")) && l.n == 4
             && lp_u64 (l.w[1], &a) && a < NSLOT && slots[a].r)
    {
      char *n = hexstr (l.w[2]), *v = hexstr (l.w[3]);
      if (!n || !v) { puts ("bad-op"); free (n); free (v); continue; }
      enum MHD_Result r = (op[0] == 'a') ? MHD_add_response_header (slots[a].r, n, v)
                          : (op[0] == 'd') ? MHD_del_response_header (slots[a].r, n, v)
                          : MHD_add_response_footer (slots[a].r, n, v);
      dump (r, slots[a].r);
      free (n); free (v);
    }
    else if (!strcmp (op, "opt") && l.n == 3 && lp_u64 (l.w[1], &a) && a < NSLOT && slots[a].r && lp_u64 (l.w[2], &b) && b < 32)
    {
      enum MHD_Result r = MHD_set_response_options (slots[a].r, c2rf ((unsigned) b), MHD_RO_END);
      dump (r, slots[a].r);
    }
    /* ---------------- decision functions */
    else if (!strcmp (op, "kp") && l.n == 7 && p_int (l.w[1], &ka) && ok_ka (ka) && p_b (l.w[2], &upg) && p_b (l.w[3], &rc)
             && p_b (l.w[4], &dr) && p_int (l.w[5], &ver) && ok_ver (ver) && lp_u64 (l.w[6], &a) && a < 4)
    {
      char out[1025];
      fake_reset ();
      set_conn_tokens ((unsigned) a);
      fc.rp.response = grid_r;
      for (unsigned i = 0; i < 1024; i++)
      {
        fc.keepalive = (enum MHD_ConnKeepAlive) ka; fc.read_closed = rc; fc.discard_request = dr;
        fc.rq.http_ver = (enum MHD_HTTP_Version) ver; fc.rq.http_mthd = MHD_HTTP_MTHD_GET;
        grid_r->flags = c2rf (i / 32); grid_r->flags_auto = c2raf (i % 32);
        grid_r->upgrade_handler = upg ? &upg_cb : NULL;
        out[i] = (char) ('0' + (int) keepalive_possible (&fc) + 1);
      }
      out[1024] = 0;
      grid_r->flags = 0; grid_r->flags_auto = 0; grid_r->upgrade_handler = NULL;
      puts (out);
    }
    else if (!strcmp (op, "rb") && l.n == 2 && p_int (l.w[1], &m) && ok_mthd (m))
    {
      char out[901];
      fake_reset ();
      fc.rq.http_mthd = (enum MHD_HTTP_Method) m;
      for (unsigned i = 0; i < 900; i++) out[i] = (char) ('0' + (int) is_reply_body_needed (&fc, 100 + i));
      out[900] = 0;
      puts (out);
    }
    else if (!strcmp (op, "sp") && l.n == 10 && p_int (l.w[1], &ka) && ok_ka (ka) && p_b (l.w[2], &upg) && p_b (l.w[3], &rc)
             && p_b (l.w[4], &dr) && p_int (l.w[5], &ver) && ok_ver (ver) && lp_u64 (l.w[6], &a) && a < 4
             && p_int (l.w[7], &m) && ok_mthd (m) && lp_u64 (l.w[9], &b) && b >= 100 && b <= 999
             && (!strcmp (l.w[8], "0") || !strcmp (l.w[8], "n") || !strcmp (l.w[8], "u")))
    {
      char out[1025];
      uint64_t size = (l.w[8][0] == '0') ? 0 : (l.w[8][0] == 'n') ? 7 : MHD_SIZE_UNKNOWN;
      fake_reset ();
      set_conn_tokens ((unsigned) a);
      fc.rp.response = grid_r;
      for (unsigned i = 0; i < 1024; i++)
      {
        fc.keepalive = (enum MHD_ConnKeepAlive) ka; fc.read_closed = rc; fc.discard_request = dr;
        fc.rq.http_ver = (enum MHD_HTTP_Version) ver; fc.rq.http_mthd = (enum MHD_HTTP_Method) m;
        fc.rp.responseCode = (unsigned) b;
        grid_r->flags = c2rf (i / 32); grid_r->flags_auto = c2raf (i % 32);
        grid_r->upgrade_handler = upg ? &upg_cb : NULL; grid_r->total_size = size;
        setup_reply_properties (&fc);
        out[i] = props_char ();
      }
      out[1024] = 0;
      grid_r->flags = 0; grid_r->flags_auto = 0; grid_r->upgrade_handler = NULL; grid_r->total_size = 0;
      puts (out);
    }
    else if (!strcmp (op, "n100") && l.n == 4 && p_int (l.w[1], &ver) && ok_ver (ver) && lp_u64 (l.w[2], &a))
    {
      char *e = strcmp (l.w[3], "none") ? hexstr (l.w[3]) : NULL;
      if (strcmp (l.w[3], "none") && !e) { puts ("bad-op"); continue; }
      fake_reset ();
      fc.rq.http_ver = (enum MHD_HTTP_Version) ver;
      fc.rq.remaining_upload_size = a;
      memset (rh, 0, sizeof(rh));
      if (e)
      {
        rh[0].header = "expect"; rh[0].header_size = 6; rh[0].value = e; rh[0].value_size = strlen (e); rh[0].kind = MHD_HEADER_KIND;
        fc.rq.headers_received = &rh[0]; fc.rq.headers_received_tail = &rh[0];
      }
      puts (need_100_continue (&fc) ? "1" : "0");
      free (e);
    }
    else if (!strcmp (op, "qr") && l.n == 9 && lp_u64 (l.w[1], &a) && a < NSLOT && slots[a].r && p_b (l.w[3], &i1) && p_b (l.w[4], &i2)
             && p_b (l.w[5], &i3) && p_int (l.w[6], &ver) && ok_ver (ver) && p_int (l.w[7], &m) && ok_mthd (m)
             && lp_u64 (l.w[8], &b) && b <= 0xFFFFFFFFu
             && (!strcmp (l.w[2], "hp") || !strcmp (l.w[2], "fr") || !strcmp (l.w[2], "ot")))
    {
      enum MHD_Result r;
      struct MHD_Response *resp = slots[a].r;
      fake_reset ();
      fc.state = (l.w[2][0] == 'h') ? MHD_CONNECTION_HEADERS_PROCESSED : (l.w[2][0] == 'f') ? MHD_CONNECTION_FULL_REQ_RECEIVED
                 : MHD_CONNECTION_BODY_RECEIVING;
      if (i1) fc.rp.response = grid_r;
      fdaemon.shutdown = i2;
      if (i3) fdaemon.options = MHD_ALLOW_UPGRADE;
      fc.rq.http_ver = (enum MHD_HTTP_Version) ver; fc.rq.http_mthd = (enum MHD_HTTP_Method) m;
      fc.rp.rsp_write_position = 12345;
      fc.rq.remaining_upload_size = 77;
      r = MHD_queue_response (&fc, (unsigned) b, resp);
      if (MHD_NO == r) puts ("N");
      else
      {
        printf ("Y code=%u icy=%d pret=%d early=%d\n", fc.rp.responseCode, fc.rp.responseIcy ? 1 : 0,
                (fc.rp.rsp_write_position == resp->total_size) ? 1 : 0,
                (MHD_CONNECTION_START_REPLY == fc.state && fc.discard_request && 0 == fc.rq.remaining_upload_size) ? 1 : 0);
        if (fc.rp.response == resp) MHD_destroy_response (resp); /* drop the reference taken by the queue */
      }
    }
    else if (!strcmp (op, "hdr") && l.n == 13 && lp_u64 (l.w[1], &a) && a < NSLOT && slots[a].r && p_int (l.w[2], &ka) && ok_ka (ka)
             && p_b (l.w[3], &rc) && p_b (l.w[4], &dr) && p_int (l.w[5], &ver) && ok_ver (ver) && lp_u64 (l.w[6], &b) && b < 4
             && p_int (l.w[7], &m) && ok_mthd (m) && p_b (l.w[9], &i1) && p_b (l.w[10], &i2) && p_b (l.w[11], &i3))
    {
      uint64_t code, bs;
      enum MHD_Result r;
      if (!lp_u64 (l.w[8], &code) || code < 100 || code > 999 || !lp_u64 (l.w[12], &bs) || bs > (1u << 24)) { puts ("bad-op"); continue; }
      fake_reset ();
      set_conn_tokens ((unsigned) b);
      fc.keepalive = (enum MHD_ConnKeepAlive) ka; fc.read_closed = rc; fc.discard_request = dr;
      fc.rq.http_ver = (enum MHD_HTTP_Version) ver; fc.rq.http_mthd = (enum MHD_HTTP_Method) m;
      fc.rp.response = slots[a].r; fc.rp.responseCode = (unsigned) code; fc.rp.responseIcy = i1;
      if (i2) fdaemon.options = MHD_USE_SUPPRESS_DATE_NO_CLOCK;
      verif_time_fail = i3;
      fc.write_buffer = (char *) malloc (bs ? bs : 1);   /* exact size: ASan sees any overrun */
      fc.write_buffer_size = (size_t) bs;
      r = build_header_response (&fc);
      verif_time_fail = 0;
      printf ("ka=%d p=%c ", (int) fc.keepalive, props_char ());
      if (MHD_NO == r) puts ("NO");
      else { printf ("out="); lp_puthex (stdout, fc.write_buffer, fc.write_buffer_append_offset); putchar ('\n'); }
      free (fc.write_buffer);
    }
    else if (!strcmp (op, "crb") && l.n == 5 && lp_u64 (l.w[1], &a) && a >= 128 && a < (1u << 26))
    {
      uint64_t tot, pos, dlen; bool fin = false;
      struct MHD_Response *r; char *buf; enum MHD_Result ret;
      if (!strcmp (l.w[2], "u")) tot = MHD_SIZE_UNKNOWN; else if (!lp_u64 (l.w[2], &tot)) { puts ("bad-op"); continue; }
      if (!lp_u64 (l.w[3], &pos) || !lp_u64 (l.w[4], &dlen) || pos >= dlen || pos > tot || dlen > (1u << 26)) { puts ("bad-op"); continue; }
      buf = (char *) malloc (dlen);
      for (size_t j = 0; j < dlen; j++) buf[j] = (char) pat (j);
      r = MHD_create_response_from_buffer_with_free_callback ((size_t) dlen, buf, &free);
      r->total_size = tot;
      fake_reset ();
      fc.rp.response = r; fc.rp.rsp_write_position = pos;
      fc.write_buffer = (char *) malloc (a); fc.write_buffer_size = (size_t) a;
      ret = try_ready_chunked_body (&fc, &fin);
      if (MHD_NO == ret) puts ("NO");
      else if (fin) puts ("finished");
      else { printf ("chunk "); lp_puthex (stdout, fc.write_buffer + fc.write_buffer_send_offset,
                                          fc.write_buffer_append_offset - fc.write_buffer_send_offset); putchar ('\n'); }
      free (fc.write_buffer);
      MHD_destroy_response (r);
    }
    else if (!strcmp (op, "foot?") && l.n == 3 && lp_u64 (l.w[1], &a) && a < NSLOT && slots[a].r && lp_u64 (l.w[2], &b) && b < (1u << 24))
    {
      enum MHD_Result r;
      fake_reset ();
      fc.rp.response = slots[a].r; fc.rp.props.chunked = true; fc.rp.props.send_reply_body = true;
      fc.state = MHD_CONNECTION_CHUNKED_BODY_SENT;
      fc.write_buffer = (char *) malloc (b ? b : 1); fc.write_buffer_size = (size_t) b;
      r = build_connection_chunked_response_footer (&fc);
      if (MHD_NO == r) puts ("NO");
      else { printf ("out="); lp_puthex (stdout, fc.write_buffer, fc.write_buffer_append_offset); putchar ('\n'); }
      free (fc.write_buffer);
    }
    /* ---------------- error reply generated by the daemon itself (white box) */
    else if (!strcmp (op, "terr") && l.n == 17 && p_b (l.w[1], &i1) && p_b (l.w[2], &i2) && p_b (l.w[3], &i3)
             && p_int (l.w[4], &ka) && ok_ka (ka) && p_b (l.w[5], &rc) && p_int (l.w[6], &ver) && ok_ver (ver)
             && lp_u64 (l.w[7], &a) && a < 4 && p_int (l.w[8], &m) && ok_mthd (m))
    {
      int sup, nodate; uint64_t code, wb1, wb2; size_t ml, hnl = 0, hvl = 0;
      uint8_t *msg, *hn = NULL, *hv = NULL; char *hn_m = NULL, *hv_m = NULL;
      if (!p_b (l.w[9], &sup) || !p_b (l.w[10], &nodate) || !lp_u64 (l.w[11], &code) || code > 0xFFFFFFFFu
          || !lp_u64 (l.w[15], &wb1) || !lp_u64 (l.w[16], &wb2) || wb1 > wb2 || wb2 > (1u << 20) || wb2 < 16
          || !(msg = lp_unhex (l.w[12], &ml))) { puts ("bad-op"); continue; }
      if (strcmp (l.w[13], "none"))
      {
        hn = lp_unhex (l.w[13], &hnl); hv = lp_unhex (l.w[14], &hvl);
        if (!hn || !hv || !hnl || !hvl) { puts ("bad-op"); free (hn); free (hv); free (msg); continue; }
        hn_m = (char *) malloc (hnl + 1); memcpy (hn_m, hn, hnl); hn_m[hnl] = 0;
        hv_m = (char *) malloc (hvl + 1); memcpy (hv_m, hv, hvl); hv_m[hvl] = 0;
        free (hn); free (hv);
      }
      fake_reset ();
      set_conn_tokens ((unsigned) a);
      fc.pool = MHD_pool_create ((size_t) wb2);
      if (!fc.pool) { puts ("fault pool"); free (hn_m); free (hv_m); free (msg); continue; }
      if (wb2 > wb1) (void) MHD_pool_allocate (fc.pool, (size_t) (wb2 - wb1), false);  /* request data still in the pool */
      fc.stop_with_error = i1;
      fc.state = i2 ? MHD_CONNECTION_HEADERS_SENDING : MHD_CONNECTION_REQ_HEADERS_RECEIVING;
      fdaemon.shutdown = i3;
      fc.keepalive = (enum MHD_ConnKeepAlive) ka; fc.read_closed = rc;
      fc.rq.http_ver = (enum MHD_HTTP_Version) ver; fc.rq.http_mthd = (enum MHD_HTTP_Method) m;
      if (sup) fdaemon.options = MHD_USE_SUPPRESS_DATE_NO_CLOCK;
      verif_time_fail = nodate;
      transmit_error_response_len (&fc, (unsigned) code, (const char *) msg, ml, hn_m, hnl, hv_m, hvl);
      verif_time_fail = 0;
      if (MHD_CONNECTION_CLOSED == fc.state) puts ("closed");
      else if (MHD_CONNECTION_HEADERS_SENDING != fc.state || NULL == fc.rp.response) printf ("fault state=%d\n", (int) fc.state);
      else
      {
        printf ("sent ka=%d p=%c dr=%d swe=%d pos=%llu total=%llu hdr=", (int) fc.keepalive, props_char (), fc.discard_request ? 1 : 0,
                fc.stop_with_error ? 1 : 0, (unsigned long long) fc.rp.rsp_write_position,
                (unsigned long long) fc.rp.response->total_size);
        lp_puthex (stdout, fc.write_buffer, fc.write_buffer_append_offset); putchar ('\n');
      }
      if (fc.rp.response) { MHD_destroy_response (fc.rp.response); fc.rp.response = NULL; }
      if (fc.pool) { MHD_pool_destroy (fc.pool); fc.pool = NULL; }
      fc.pool = zpool;
      free (msg);
    }
    /* ---------------- the token helpers of mhd_str.c used by the response code */
    else if (!strcmp (op, "rt") && l.n == 3)
    {
      size_t sl, tl; uint8_t *sb = lp_unhex (l.w[1], &sl), *tb = lp_unhex (l.w[2], &tl);
      if (!sb || !tb || 0 == tl) { puts ("bad-op"); free (sb); free (tb); continue; }
      {
        ssize_t bs = (ssize_t) (sl + sl / 2 + 1);
        char *out = (char *) malloc ((size_t) bs);
        bool r = MHD_str_remove_token_caseless_ ((const char *) sb, sl, (const char *) tb, tl, out, &bs);
        if (bs < 0) puts ("toosmall");
        else { printf ("r=%d out=", r ? 1 : 0); lp_puthex (stdout, out, (size_t) bs); putchar ('\n'); }
        free (out);
      }
      free (sb); free (tb);
    }
    else if (!strcmp (op, "rts") && l.n == 3)
    {
      size_t sl, tl; uint8_t *sb = lp_unhex (l.w[1], &sl), *tb = lp_unhex (l.w[2], &tl);
      if (!sb || !tb) { puts ("bad-op"); free (sb); free (tb); continue; }
      {
        char *buf = (char *) malloc (sl + 1);   /* as in response.c: value_size + 1 */
        size_t len = sl; bool r;
        memcpy (buf, sb, sl); buf[sl] = 0;
        r = MHD_str_remove_tokens_caseless_ (buf, &len, (const char *) tb, tl);
        printf ("r=%d out=", r ? 1 : 0); lp_puthex (stdout, buf, len); putchar ('\n');
        free (buf);
      }
      free (sb); free (tb);
    }
    else if (!strcmp (op, "ht") && l.n == 3)
    {
      char *sv = hexstr (l.w[1]); size_t tl; uint8_t *tb = lp_unhex (l.w[2], &tl);
      if (!sv || !tb || 0 == tl) { puts ("bad-op"); free (sv); free (tb); continue; }
      puts (MHD_str_has_token_caseless_ (sv, (const char *) tb, tl) ? "1" : "0");
      free (sv); free (tb);
    }
    /* ---------------- complete exchange through the real daemon */
    else if (!strcmp (op, "x") && l.n == 8)
    {
      int sv[2], closed, okk = 1, early;
      char req[1024]; size_t rn = 0;
      char *conn = NULL, *expect = NULL;
      uint64_t up;
      struct sockaddr_in sa;
      const char *vs = !strcmp (l.w[2], "10") ? "HTTP/1.0" : !strcmp (l.w[2], "11") ? "HTTP/1.1" : !strcmp (l.w[2], "12") ? "HTTP/1.2" : NULL;
      if (!vs || strlen (l.w[1]) > 16 || !lp_u64 (l.w[5], &up) || up > 4096 || !p_b (l.w[6], &early)) { puts ("bad-op"); continue; }
      if (strcmp (l.w[3], "none") && !(conn = hexstr (l.w[3]))) okk = 0;
      if (strcmp (l.w[4], "none") && !(expect = hexstr (l.w[4]))) okk = 0;
      memset (&xs, 0, sizeof(xs));
      xs.early = early;
      if (okk)
      {
        char *p = l.w[7];
        while (*p && okk)
        {
          char *e = strchr (p, ','), *c; uint64_t s, code;
          if (e) *e = 0;
          c = strchr (p, ':');
          if (!c || xs.n >= 8) { okk = 0; break; }
          *c = 0;
          if (!lp_u64 (p, &s) || s >= NSLOT || !slots[s].r || !lp_u64 (c + 1, &code) || code > 0xFFFFFFFFu) { okk = 0; break; }
          xs.slot[xs.n] = (int) s; xs.code[xs.n] = (unsigned) code; xs.n++;
          slots[s].cb.idx = 0;
          if (!e) break;
          p = e + 1;
        }
      }
      if (!okk || (conn && strlen (conn) > 300) || (expect && strlen (expect) > 300)) { puts ("bad-op"); free (conn); free (expect); continue; }
      rn = (size_t) snprintf (req, sizeof(req), "%s / %s\r\nHost: h\r\n", l.w[1], vs);
      if (conn) rn += (size_t) snprintf (req + rn, sizeof(req) - rn, "Connection: %s\r\n", conn);
      if (expect) rn += (size_t) snprintf (req + rn, sizeof(req) - rn, "Expect: %s\r\n", expect);
      if (up) rn += (size_t) snprintf (req + rn, sizeof(req) - rn, "Content-Length: %u\r\n", (unsigned) up);
      rn += (size_t) snprintf (req + rn, sizeof(req) - rn, "\r\n");
      free (conn); free (expect);
      if (0 != socketpair (AF_UNIX, SOCK_STREAM, 0, sv)) { puts ("fault socketpair"); continue; }
      memset (&sa, 0, sizeof(sa)); sa.sin_family = AF_INET; sa.sin_addr.s_addr = htonl (INADDR_LOOPBACK);
      if (MHD_YES != MHD_add_connection (d, sv[0], (struct sockaddr *) &sa, sizeof(sa))) { puts ("fault add_connection"); close (sv[1]); continue; }
      wire_n = 0;
      send_all (sv[1], req, rn);
      closed = pump (sv[1]);
      if (up && !closed)
      {
        char *body = (char *) malloc (up);
        memset (body, 'x', up);
        send_all (sv[1], body, up);
        free (body);
        closed = pump (sv[1]);
      }
      xs.q[xs.qn] = 0;
      printf ("q=%s wire=", xs.q); lp_puthex (stdout, wire, wire_n); printf (" closed=%d\n", closed);
      close (sv[1]);
      for (int i = 0; i < 6; i++) MHD_run (d);
      {
        const union MHD_DaemonInfo *di = MHD_get_daemon_info (d, MHD_DAEMON_INFO_CURRENT_CONNECTIONS);
        if (di && di->num_connections != 0) { for (int i = 0; i < 50; i++) MHD_run (d); }
      }
    }
    else puts ("bad-op");
    fflush (stdout);
  }
  for (int i = 0; i < NSLOT; i++) slot_free (i);
  MHD_stop_daemon (d);
  MHD_destroy_response (grid_r);
  MHD_pool_destroy (zpool);
  free (wire); free (l.buf);
  return 0;
}
