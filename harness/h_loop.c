/* Engine "loop" (property C06): copy of h_daemon.c extended with
 *  - white-box snapshots of the daemon's connection lists / flags / per-connection
 *    state, event_loop_info and epoll_state after every handler call and every round,
 *  - link-time wrappers (-Wl,--wrap=...) around MHD_connection_handle_read/_write/_idle
 *    and MHD_connection_close_ as called by daemon.c: one `H` line per call,
 *  - `round-ready <c>:<r|w|e>...`: one external-select round whose fd_sets are
 *    MHD_get_fdset2()'s result intersected with the scripted readiness,
 *  - interposed epoll_wait() that logs the delivered events (`ev` lines),
 *  - after each round the watched sets (`fdset`) and the kernel's true readiness of the
 *    watched descriptors (`kready`).
 *
 * Scripted in-process daemon harness (engines "conn" and "daemon").
 *
 * The real library objects are linked except mhd_mono_clock.c: the clock is
 * virtual (script op `tick`).  Connections are socketpairs handed to the
 * daemon with MHD_add_connection(); event-loop rounds are scripted.  Every
 * callback the library makes is logged as one line; after every round the
 * bytes each client received, EOF/reset, the timeout hint and the connection
 * count are logged.  See DESIGN.md Appendix F for the vocabulary.
 *
 * No address, fd number or Date value is ever printed.
 */
#include "MHD_config.h"
#include "internal.h"
#include "mhd_itc.h"
#include <microhttpd.h>
#include <sys/epoll.h>
#include <dlfcn.h>
#include <sys/types.h>
#include <sys/socket.h>
#include <sys/select.h>
#include <netinet/in.h>
#include <netinet/tcp.h>
#include <arpa/inet.h>
#include <fcntl.h>
#include <unistd.h>
#include <errno.h>
#include <signal.h>
#include <pthread.h>
#include <stdarg.h>
#include "common/lp.h"

/* ---------------------------------------------------------------- clock */
static uint64_t vclock_ms = 1000000;
void MHD_monotonic_sec_counter_init (void) {}
void MHD_monotonic_sec_counter_finish (void) {}
time_t MHD_monotonic_sec_counter (void) { return (time_t) (vclock_ms / 1000); }
uint64_t MHD_monotonic_msec_counter (void) { return vclock_ms; }

/* ---------------------------------------------------------------- config */
static struct {
  char mode[16]; size_t mem, incr; int lvl; unsigned limit, perip, timeout;
  int upgrade, suspend, have_lvl; unsigned nonce_tbl; int sigpipe; int tcp;
} cfg = { "select", 0, 0, 0, 0, 0, 0, 0, 0, 0, 0, 0, 0 };

static struct MHD_Daemon *d;

#define MAXC 16
#define MAXR 32
#define MAXRESP 32
#define MAXKV 64

struct beh {           /* behaviour for one request */
  int used;
  char f[16];          /* first call: c | r<rid> | no | s<k> */
  char l[16];          /* final call: r<rid> | no | s<k> */
  long take[8]; int ntake;    /* -1 = all */
  int ur_n, ur_rid;    /* reply at upload call n (or -1) */
  int us_n, us_k;      /* suspend at upload call n for k rounds */
};

struct snap { const char *p; size_t len; uint8_t *copy; };

struct req {           /* per-request application context */
  int c, r;
  int ncalls, nupload, nfinal;
  int replied, suspended_once_final, suspended_once_first;
  struct snap snaps[3 + 2 * MAXKV]; int nsnap;
  int upg_pending;
};

struct conn {
  int used, cfd, started, closed_seen, eof_seen, addr;
  int nreq;                 /* requests presented so far */
  struct MHD_Connection *mc;
  int resume_in;            /* rounds until auto-resume; -1 none */
  struct beh beh[MAXR];
  /* upgrade */
  struct MHD_UpgradeResponseHandle *urh; MHD_socket usock; int upgraded;
  int ctx_serial;
};
static struct conn conns[MAXC];

struct hdrspec { int kind; /* 0 add hdr, 1 add footer, 2 del hdr */ uint8_t *n, *v; };
struct resp {
  int used; char kind[16]; unsigned code; size_t size; unsigned flags;
  size_t cbmax; int cbnr; int cberr_at; /* content callback: max per call, not-ready count, error at pos (-1) */
  struct hdrspec h[16]; int nh;
};
static struct resp resps[MAXRESP];
static int freecb_count[MAXRESP];

static void out (const char *fmt, ...)
{
  va_list ap; va_start (ap, fmt); vprintf (fmt, ap); va_end (ap); putchar ('\n');
}

static void puthexs (const char *s, size_t n)
{ if (NULL == s) { putchar ('~'); return; } lp_puthex (stdout, s, n); }

static uint8_t pat (int rid, size_t off) { return (uint8_t) ('a' + ((size_t) rid * 7 + off) % 26); }

/* ---------------------------------------------------------------- responses */
struct cbctx { int rid; int calls; };

static ssize_t content_cb (void *cls, uint64_t pos, char *buf, size_t max)
{
  struct cbctx *x = (struct cbctx *) cls;
  struct resp *r = &resps[x->rid];
  size_t n, i;
  x->calls++;
  if (x->calls <= r->cbnr) { out ("reader rid=%d pos=%" PRIu64 " -> 0", x->rid, pos); return 0; }
  if (r->cberr_at >= 0 && pos >= (uint64_t) r->cberr_at)
  { out ("reader rid=%d pos=%" PRIu64 " -> err", x->rid, pos); return MHD_CONTENT_READER_END_WITH_ERROR; }
  if (pos >= r->size) { out ("reader rid=%d pos=%" PRIu64 " -> eos", x->rid, pos); return MHD_CONTENT_READER_END_OF_STREAM; }
  n = r->size - (size_t) pos;
  if (n > max) n = max;
  if (r->cbmax && n > r->cbmax) n = r->cbmax;
  for (i = 0; i < n; i++) buf[i] = (char) pat (x->rid, (size_t) pos + i);
  out ("reader rid=%d pos=%" PRIu64 " -> %zu", x->rid, pos, n);
  return (ssize_t) n;
}
static void content_free (void *cls) { struct cbctx *x = (struct cbctx *) cls; out ("free-cb rid=%d", x->rid); freecb_count[x->rid]++; free (x); }
static void buf_free (void *cls) { struct cbctx *x = (struct cbctx *) cls; out ("free-cb rid=%d", x->rid); freecb_count[x->rid]++; free (x); }

static void upgrade_cb (void *cls, struct MHD_Connection *connection, void *req_cls,
                        const char *extra_in, size_t extra_in_size, MHD_socket sock,
                        struct MHD_UpgradeResponseHandle *urh)
{
  struct req *rq = (struct req *) req_cls;
  (void) cls; (void) connection;
  printf ("upgrade c=%d extra=", rq->c); puthexs (extra_in, extra_in_size); putchar ('\n');
  conns[rq->c].urh = urh; conns[rq->c].usock = sock; conns[rq->c].upgraded = 1;
}

static struct MHD_Response *make_resp (int rid)
{
  struct resp *r = &resps[rid];
  struct MHD_Response *m = NULL;
  size_t i;
  if (!r->used) { /* default response */
    r->used = 1; strcpy (r->kind, "copy"); r->code = 200; r->size = 5; r->cberr_at = -1; }
  if (!strcmp (r->kind, "static") || !strcmp (r->kind, "copy") || !strcmp (r->kind, "freecb"))
  {
    char *b = (char *) malloc (r->size ? r->size : 1);
    for (i = 0; i < r->size; i++) b[i] = (char) pat (rid, i);
    if (!strcmp (r->kind, "copy")) { m = MHD_create_response_from_buffer_copy (r->size, b); free (b); }
    else if (!strcmp (r->kind, "freecb"))
    { /* buffer freed together with ctx: use with-free-callback-cls */
      struct cbctx *x = (struct cbctx *) calloc (1, sizeof(*x)); x->rid = rid;
      m = MHD_create_response_from_buffer_with_free_callback_cls (r->size, b, &buf_free, x);
      /* note: b leaks by design of this tiny harness unless tracked */
      (void) b;
    }
    else { static char *keep[4096]; static int nkeep; if (nkeep < 4096) keep[nkeep++] = b;
           m = MHD_create_response_from_buffer_static (r->size, b); }
  }
  else if (!strcmp (r->kind, "empty")) m = MHD_create_response_empty (MHD_RF_NONE);
  else if (!strcmp (r->kind, "cb-known") || !strcmp (r->kind, "cb-unknown"))
  {
    struct cbctx *x = (struct cbctx *) calloc (1, sizeof(*x)); x->rid = rid;
    m = MHD_create_response_from_callback (!strcmp (r->kind, "cb-known") ? (uint64_t) r->size : MHD_SIZE_UNKNOWN,
                                           1024, &content_cb, x, &content_free);
  }
  else if (!strcmp (r->kind, "fd") || !strcmp (r->kind, "fdoff"))
  {
    char name[] = "/tmp/vhXXXXXX"; int fd = mkstemp (name); size_t off = !strcmp (r->kind, "fdoff") ? 3 : 0;
    unlink (name);
    { char *fb = (char *) malloc (r->size + off + 1);
      for (i = 0; i < r->size + off; i++) fb[i] = (i < off) ? '#' : (char) pat (rid, i - off);
      if ((ssize_t) (r->size + off) != write (fd, fb, r->size + off)) abort ();
      free (fb); }
    m = off ? MHD_create_response_from_fd_at_offset64 (r->size, fd, off) : MHD_create_response_from_fd (r->size, fd);
  }
  else if (!strcmp (r->kind, "pipe"))
  {
    int p[2]; if (0 != pipe (p)) abort ();
    for (i = 0; i < r->size; i++) { char ch = (char) pat (rid, i); if (1 != write (p[1], &ch, 1)) abort (); }
    close (p[1]);
    m = MHD_create_response_from_pipe (p[0]);
  }
  else if (!strcmp (r->kind, "iovec"))
  {
    struct MHD_IoVec iov[3]; static char *keep[4096]; static int nkeep;
    char *b = (char *) malloc (r->size ? r->size : 1); size_t a = r->size / 3, c2 = r->size / 3;
    for (i = 0; i < r->size; i++) b[i] = (char) pat (rid, i);
    if (nkeep < 4096) keep[nkeep++] = b;
    iov[0].iov_base = b; iov[0].iov_len = a; iov[1].iov_base = b + a; iov[1].iov_len = c2;
    iov[2].iov_base = b + a + c2; iov[2].iov_len = r->size - a - c2;
    m = MHD_create_response_from_iovec (iov, 3, NULL, NULL);
  }
  else if (!strcmp (r->kind, "upgrade")) m = MHD_create_response_for_upgrade (&upgrade_cb, NULL);
  if (NULL == m) return NULL;
  if (r->flags) MHD_set_response_options (m, (enum MHD_ResponseFlags) r->flags, MHD_RO_END);
  for (i = 0; i < (size_t) r->nh; i++)
  {
    enum MHD_Result q;
    if (0 == r->h[i].kind) q = MHD_add_response_header (m, (char *) r->h[i].n, (char *) r->h[i].v);
    else if (1 == r->h[i].kind) q = MHD_add_response_footer (m, (char *) r->h[i].n, (char *) r->h[i].v);
    else q = MHD_del_response_header (m, (char *) r->h[i].n, (char *) r->h[i].v);
    out ("resp-hdr rid=%d op=%d -> %d", rid, r->h[i].kind, (int) q);
  }
  return m;
}

/* ---------------------------------------------------------------- callbacks */
struct kvacc { int n; };
static enum MHD_Result kv_iter (void *cls, enum MHD_ValueKind kind, const char *key, size_t key_size,
                                const char *value, size_t value_size)
{
  struct kvacc *a = (struct kvacc *) cls;
  if (a->n++) putchar (',');
  printf ("%d:", (int) kind); puthexs (key, key_size); putchar ('='); puthexs (value, value_size);
  return MHD_YES;
}

struct snapacc { struct req *rq; };
static void add_snap (struct req *rq, const char *p, size_t len)
{
  if (NULL == p || rq->nsnap >= (int) (sizeof(rq->snaps) / sizeof(rq->snaps[0]))) return;
  rq->snaps[rq->nsnap].p = p; rq->snaps[rq->nsnap].len = len;
  rq->snaps[rq->nsnap].copy = (uint8_t *) malloc (len ? len : 1); memcpy (rq->snaps[rq->nsnap].copy, p, len);
  rq->nsnap++;
}
static enum MHD_Result snap_iter (void *cls, enum MHD_ValueKind kind, const char *key, size_t key_size,
                                  const char *value, size_t value_size)
{
  struct snapacc *a = (struct snapacc *) cls; (void) kind;
  add_snap (a->rq, key, key_size + 1); /* incl. terminating NUL */
  if (value) add_snap (a->rq, value, value_size + 1);
  return MHD_YES;
}
static void check_snaps (struct req *rq, const char *when)
{
  int i;
  for (i = 0; i < rq->nsnap; i++)
    if (0 != memcmp (rq->snaps[i].p, rq->snaps[i].copy, rq->snaps[i].len))
    { printf ("unstable c=%d r=%d at=%s idx=%d was=", rq->c, rq->r, when, i);
      lp_puthex (stdout, rq->snaps[i].copy, rq->snaps[i].len); printf (" now=");
      lp_puthex (stdout, rq->snaps[i].p, rq->snaps[i].len); putchar ('\n'); return; }
}
static void free_req (struct req *rq)
{ int i; for (i = 0; i < rq->nsnap; i++) free (rq->snaps[i].copy); free (rq); }

static int conn_index (struct MHD_Connection *mc)
{
  const union MHD_ConnectionInfo *ci = MHD_get_connection_info (mc, MHD_CONNECTION_INFO_SOCKET_CONTEXT);
  if (ci && ci->socket_context) return (int) (intptr_t) ci->socket_context - 1;
  return -1;
}

static void t_expect (int c);
static void notify_conn (void *cls, struct MHD_Connection *mc, void **socket_context,
                         enum MHD_ConnectionNotificationCode toe)
{
  (void) cls;
  if (MHD_CONNECTION_NOTIFY_STARTED == toe)
  {
    int c = -1;
    const union MHD_ConnectionInfo *ci = MHD_get_connection_info (mc, MHD_CONNECTION_INFO_CLIENT_ADDRESS);
    if (ci && ci->client_addr && AF_INET == ci->client_addr->sa_family)
      c = (int) ntohs (((const struct sockaddr_in *) ci->client_addr)->sin_port) - 1000;
    if (c < 0 || c >= MAXC) c = -1;
    *socket_context = (void *) (intptr_t) (c + 1);
    if (c >= 0) { conns[c].mc = mc; conns[c].started = 1; t_expect (c); }
    out ("conn-start c=%d", c);
  }
  else
  {
    int c = (int) (intptr_t) *socket_context - 1;
    out ("conn-close c=%d", c);
    if (c >= 0) { conns[c].mc = NULL; conns[c].started = 2; }
  }
}

static void *uri_log (void *cls, const char *uri, struct MHD_Connection *mc)
{
  (void) cls;
  printf ("uri-log c=%d uri=", conn_index (mc)); puthexs (uri, strlen (uri)); putchar ('\n');
  return NULL;
}

static void completed (void *cls, struct MHD_Connection *mc, void **req_cls, enum MHD_RequestTerminationCode toe)
{
  struct req *rq = (struct req *) *req_cls;
  (void) cls;
  if (NULL == rq) { out ("completed c=%d r=? code=%d ctx=null", conn_index (mc), (int) toe); return; }
  check_snaps (rq, "completed");
  out ("completed c=%d r=%d code=%d", rq->c, rq->r, (int) toe);
  *req_cls = NULL;
  free_req (rq);
}

static int parse_rid (const char *s) { return atoi (s + 1); }

static enum MHD_Result do_reply (struct MHD_Connection *mc, struct req *rq, int rid)
{
  struct MHD_Response *m = make_resp (rid);
  enum MHD_Result q;
  if (NULL == m) { out ("queued c=%d r=%d rid=%d -> no-response-object", rq->c, rq->r, rid); return MHD_NO; }
  q = MHD_queue_response (mc, resps[rid].code, m);
  out ("queued c=%d r=%d rid=%d code=%u -> %d", rq->c, rq->r, rid, resps[rid].code, (int) q);
  MHD_destroy_response (m);
  if (MHD_YES == q) rq->replied = 1;
  return q;
}

static void do_suspend (struct MHD_Connection *mc, struct req *rq, int k)
{
  MHD_suspend_connection (mc);
  conns[rq->c].resume_in = k;
  out ("suspend c=%d r=%d", rq->c, rq->r);
}

static enum MHD_Result handler (void *cls, struct MHD_Connection *mc, const char *url, const char *method,
                                const char *version, const char *upload_data, size_t *upload_data_size,
                                void **req_cls)
{
  int c = conn_index (mc);
  struct req *rq = (struct req *) *req_cls;
  struct beh *b;
  struct kvacc acc = {0};
  const union MHD_ConnectionInfo *ci;
  const char *phase;
  static struct beh defbeh;
  (void) cls;
  if (c < 0) { out ("handler c=? (no socket context)"); return MHD_NO; }
  if (NULL == rq)
  {
    struct snapacc sa;
    rq = (struct req *) calloc (1, sizeof(*rq));
    rq->c = c; rq->r = conns[c].nreq++;
    *req_cls = rq;
    phase = "first";
    add_snap (rq, url, strlen (url) + 1); add_snap (rq, method, strlen (method) + 1); add_snap (rq, version, strlen (version) + 1);
    sa.rq = rq;
    MHD_get_connection_values_n (mc, (enum MHD_ValueKind) (MHD_HEADER_KIND | MHD_COOKIE_KIND | MHD_GET_ARGUMENT_KIND), &snap_iter, &sa);
  }
  else phase = (0 != *upload_data_size) ? "upload" : "final";
  if (rq->replied) printf ("protocol-error c=%d r=%d handler-called-after-reply\n", rq->c, rq->r);
  check_snaps (rq, phase);
  rq->ncalls++;
  b = (rq->r < MAXR && conns[c].beh[rq->r].used) ? &conns[c].beh[rq->r] : &defbeh;
  if (!defbeh.used) { defbeh.used = 1; strcpy (defbeh.f, "c"); strcpy (defbeh.l, "r0"); defbeh.ntake = 0; defbeh.ur_n = -1; defbeh.us_n = -1; }

  printf ("handler c=%d r=%d phase=%s method=", rq->c, rq->r, phase); puthexs (method, strlen (method));
  printf (" url="); puthexs (url, strlen (url)); printf (" ver="); puthexs (version, strlen (version));
  printf (" up=");
  if (0 != *upload_data_size) lp_puthex (stdout, upload_data, *upload_data_size); else putchar ('-');
  if (rq->ncalls == 1)
  {
    printf (" kv=[");
    MHD_get_connection_values_n (mc, (enum MHD_ValueKind) (MHD_HEADER_KIND | MHD_COOKIE_KIND | MHD_GET_ARGUMENT_KIND | MHD_FOOTER_KIND),
                                 &kv_iter, &acc);
    putchar (']');
    ci = MHD_get_connection_info (mc, MHD_CONNECTION_INFO_REQUEST_HEADER_SIZE);
    printf (" hdrsize=%zu", ci ? ci->header_size : (size_t) 0);
  }
  else if (!strcmp (phase, "final"))
  { /* trailers become visible at the final call */
    printf (" footers=[");
    MHD_get_connection_values_n (mc, MHD_FOOTER_KIND, &kv_iter, &acc);
    putchar (']');
  }
  putchar ('\n');

  if (!strcmp (phase, "first"))
  {
    if (b->f[0] == 'r') return do_reply (mc, rq, parse_rid (b->f)) == MHD_YES ? MHD_YES : MHD_NO;
    if (!strcmp (b->f, "no")) return MHD_NO;
    if (b->f[0] == 's') { do_suspend (mc, rq, atoi (b->f + 1)); return MHD_YES; }
    return MHD_YES;
  }
  if (!strcmp (phase, "upload"))
  {
    int n = rq->nupload++;
    long t = (b->ntake > 0) ? b->take[n % b->ntake] : -1;
    size_t avail = *upload_data_size;
    size_t take = (t < 0 || (size_t) t > avail) ? avail : (size_t) t;
    *upload_data_size = avail - take;
    out ("took c=%d r=%d n=%zu of=%zu", rq->c, rq->r, take, avail);
    if (b->ur_n == n) return do_reply (mc, rq, b->ur_rid) == MHD_YES ? MHD_YES : MHD_NO;
    if (b->us_n == n) do_suspend (mc, rq, b->us_k);
    return MHD_YES;
  }
  /* final */
  rq->nfinal++;
  if (b->l[0] == 's' && !rq->suspended_once_final)
  { rq->suspended_once_final = 1; do_suspend (mc, rq, atoi (b->l + 1)); return MHD_YES; }
  if (!strcmp (b->l, "no")) return MHD_NO;
  if (b->l[0] == 'r') return do_reply (mc, rq, parse_rid (b->l)) == MHD_YES ? MHD_YES : MHD_NO;
  return do_reply (mc, rq, 0) == MHD_YES ? MHD_YES : MHD_NO;
}


/* ---------------------------------------------------------------- white box (C06) */
static int cidx (const struct MHD_Connection *mc)
{
  int c;
  if (NULL == mc || NULL == mc->addr || AF_INET != ((const struct sockaddr *) mc->addr)->sa_family) return -1;
  c = (int) ntohs (((const struct sockaddr_in *) mc->addr)->sin_port) - 1000;
  return (c < 0 || c >= MAXC) ? -1 : c;
}

static void put_conn (const struct MHD_Connection *mc, int *first)
{
  if (!*first) putchar (',');
  *first = 0;
  printf ("%d:%d:%d:%d:%d:%d:%d", cidx (mc), (int) mc->state, (int) mc->event_loop_info,
#ifdef EPOLL_SUPPORT
          (int) mc->epoll_state,
#else
          0,
#endif
          (int) mc->resuming, (int) (mc->read_buffer_size > mc->read_buffer_offset), (int) (0 != mc->read_buffer_offset));
}

/* lists head first, i.e. in `next` order; one token per connection: idx:state:eli:epoll_state:resuming:bufspace:buffered
   (buffered = read_buffer_offset != 0: bytes received and not yet consumed by the parser) */
static void put_snap (void)
{
  struct MHD_Connection *p; int first, guard;
  if (NULL == d) { printf ("nodaemon"); return; }
  printf ("A=["); first = 1; guard = 0;
  for (p = d->connections_head; NULL != p && guard < 64; p = p->next, guard++) put_conn (p, &first);
  printf ("] S=["); first = 1; guard = 0;
  for (p = d->suspended_connections_head; NULL != p && guard < 64; p = p->next, guard++) put_conn (p, &first);
  printf ("] C=["); first = 1; guard = 0;
  for (p = d->cleanup_head; NULL != p && guard < 64; p = p->next, guard++) put_conn (p, &first);
  printf ("] N=["); first = 1; guard = 0;
  for (p = d->new_connections_head; NULL != p && guard < 64; p = p->next, guard++) put_conn (p, &first);
  printf ("] E=["); first = 1; guard = 0;
#ifdef EPOLL_SUPPORT
  for (p = d->eready_head; NULL != p && guard < 64; p = p->nextE, guard++) { if (!first) putchar (','); first = 0; printf ("%d", cidx (p)); }
#endif
  printf ("] dap=%d res=%d new=%d", (int) d->data_already_pending, (int) d->resuming, (int) d->have_new);
}

static int in_round;
static pthread_mutex_t out_mx = PTHREAD_MUTEX_INITIALIZER;

/* wrappers around the per-connection entry points as called from daemon.c */
void __real_MHD_connection_handle_read (struct MHD_Connection *c, bool socket_error);
void __real_MHD_connection_handle_write (struct MHD_Connection *c);
enum MHD_Result __real_MHD_connection_handle_idle (struct MHD_Connection *c);
void __real_MHD_connection_close_ (struct MHD_Connection *c, enum MHD_RequestTerminationCode rtc);

static int free_running (void);
static void hline (const char *kind, struct MHD_Connection *c, int arg, int ret)
{
  pthread_mutex_lock (&out_mx);
  printf ("H %s c=%d arg=%d ret=%d | ", kind, cidx (c), arg, ret);
  /* thread-per-connection after the gate has been opened for MHD_stop_daemon: the threads run concurrently and the
     daemon thread frees connections, so the lists must not be walked from here */
  if (free_running ()) printf ("free-running"); else put_snap ();
  putchar ('\n');
  pthread_mutex_unlock (&out_mx);
}
void __wrap_MHD_connection_handle_read (struct MHD_Connection *c, bool socket_error)
{ __real_MHD_connection_handle_read (c, socket_error); hline ("read", c, (int) socket_error, 0); }
void __wrap_MHD_connection_handle_write (struct MHD_Connection *c)
{ __real_MHD_connection_handle_write (c); hline ("write", c, 0, 0); }
static void t_idle_hook (struct MHD_Connection *c);
enum MHD_Result __wrap_MHD_connection_handle_idle (struct MHD_Connection *c)
{ enum MHD_Result r = __real_MHD_connection_handle_idle (c); hline ("idle", c, 0, (int) r); t_idle_hook (c); return r; }
void __wrap_MHD_connection_close_ (struct MHD_Connection *c, enum MHD_RequestTerminationCode rtc)
{ __real_MHD_connection_close_ (c, rtc); hline ("close", c, (int) rtc, 0); }

/* interposed epoll_wait: logs the events delivered for connections */
static int is_conn_ptr (const void *ptr)
{
  struct MHD_Connection *p; int guard = 0;
  if (NULL == d) return 0;
  for (p = d->connections_head; NULL != p && guard < 64; p = p->next, guard++) if ((const void *) p == ptr) return 1;
  for (p = d->suspended_connections_head; NULL != p && guard < 128; p = p->next, guard++) if ((const void *) p == ptr) return 1;
  for (p = d->cleanup_head; NULL != p && guard < 192; p = p->next, guard++) if ((const void *) p == ptr) return 1;
  return 0;
}
int epoll_wait (int epfd, struct epoll_event *events, int maxevents, int timeout)
{
  static int (*real) (int, struct epoll_event *, int, int);
  int n, i, first = 1;
  if (NULL == real) real = (int (*)(int, struct epoll_event *, int, int)) dlsym (RTLD_NEXT, "epoll_wait");
  n = real (epfd, events, maxevents, timeout);
  if (!in_round || NULL == d) return n;
  pthread_mutex_lock (&out_mx);
  printf ("ev [");
  for (i = 0; i < n; i++)
  {
    uint32_t e = events[i].events;
    if (!is_conn_ptr (events[i].data.ptr)) continue;
    if (!first) putchar (',');
    first = 0;
    printf ("%d:%s%s%s%s", cidx ((struct MHD_Connection *) events[i].data.ptr), (e & EPOLLIN) ? "i" : "", (e & EPOLLOUT) ? "o" : "",
            (e & (EPOLLPRI | EPOLLERR | EPOLLHUP)) ? "e" : "", (e & EPOLLRDHUP) ? "h" : "");
  }
  printf ("]\n");
  pthread_mutex_unlock (&out_mx);
  return n;
}

static void put_fdlist (const char *tag, const fd_set *s)
{
  int c, first = 1;
  printf ("%s=[", tag);
  for (c = 0; c < MAXC; c++)
    if (conns[c].used && conns[c].mc && FD_ISSET (conns[c].mc->socket_fd, s)) { if (!first) putchar (','); first = 0; printf ("%d", c); }
  putchar (']');
}

/* watched descriptors as MHD reports them now, and which of them the kernel says are ready */
static void report_watch (void)
{
  fd_set rs, ws, es; MHD_socket maxfd = 0; struct timeval tv = {0, 0};
  if (NULL == d) return;
  if (strstr (cfg.mode, "-thr") || !strcmp (cfg.mode, "tpc")) return;
  FD_ZERO (&rs); FD_ZERO (&ws); FD_ZERO (&es);
  if (MHD_YES != MHD_get_fdset2 (d, &rs, &ws, &es, &maxfd, FD_SETSIZE)) { out ("fdset failed"); return; }
  if (!strcmp (cfg.mode, "epoll"))
  {
    select ((int) maxfd + 1, &rs, NULL, NULL, &tv);
    out ("fdset ep"); out ("kready ep=%d", FD_ISSET (d->epoll_fd, &rs) ? 1 : 0);
    return;
  }
  printf ("fdset "); put_fdlist ("r", &rs); putchar (' '); put_fdlist ("w", &ws); putchar (' '); put_fdlist ("e", &es); putchar ('\n');
  select ((int) maxfd + 1, &rs, &ws, &es, &tv);
  printf ("kready "); put_fdlist ("r", &rs); putchar (' '); put_fdlist ("w", &ws); putchar (' '); put_fdlist ("e", &es);
  /* the inter-thread channel (present with MHD_ALLOW_SUSPEND_RESUME) is a watched descriptor too */
  printf (" itc=%d\n", (MHD_ITC_IS_VALID_ (d->itc) && FD_ISSET (MHD_itc_r_fd_ (d->itc), &rs)) ? 1 : 0);
}


/* ---------------------------------------------------------------- gated poll() (mode poll-thr)
 * The daemon's polling thread blocks in this shim until the script releases one cycle.  While it is parked the
 * main thread may look at the daemon (white box) and act as "another thread" (add / resume).  The timeout the thread
 * asked for is the daemon's own answer to "may I sleep?"; a real poll() with that timeout returns only when it
 * expires or a descriptor of the array is ready, which is what `gate_wanted` decides. */
#include <poll.h>
static pthread_t main_thr;
static int gate_on, gate_free;
static pthread_mutex_t gate_mx = PTHREAD_MUTEX_INITIALIZER;
static pthread_cond_t gate_cv = PTHREAD_COND_INITIALIZER;
static int gate_parked, gate_go;
static struct pollfd *gate_fds; static nfds_t gate_n; static int gate_timeout;
static int (*real_poll) (struct pollfd *, nfds_t, int);

static void put_pollset (const char *tag, const struct pollfd *f, nfds_t n, int use_revents, short mask)
{
  int c, first = 1; nfds_t i;
  printf ("%s=[", tag);
  for (c = 0; c < MAXC; c++)
  {
    if (!conns[c].used || !conns[c].mc) continue;
    for (i = 0; i < n; i++)
      if (f[i].fd == conns[c].mc->socket_fd && 0 != ((use_revents ? f[i].revents : f[i].events) & mask))
      { if (!first) putchar (','); first = 0; printf ("%d", c); break; }
  }
  putchar (']');
}

/* ---------------------------------------------------------------- gated poll() for thread-per-connection (mode tpc-poll)
 * Every thread of the daemon (the daemon's own thread and one per connection) parks in this shim; the script releases
 * one thread at a time and waits until it is parked again (or has left its thread function), so the interleaving is
 * the script's.  One extra scheduling point: right after the MHD_connection_handle_idle call in which the handler
 * suspended the connection (`race <c>`): there the script resumes the connection and lets the daemon thread process
 * the resume before the connection's thread is back at its loop head. */
#define TD MAXC
struct tslot { int live, parked, go, exited, mid, expect; struct pollfd *fds; nfds_t n; int timeout;
               int sel, snf; fd_set *srs, *sws, *ses; };   /* sel: the thread is parked in select() (mode tpc-select) */
static struct tslot ts[MAXC + 1];
static int tgate_on;
static __thread int my_slot = -1;
static int race_arm[MAXC];
static pthread_key_t t_key; static int t_key_ok;

static void t_thread_gone (void *v)
{
  int s = (int) (intptr_t) v - 1;
  if (s < 0 || s > MAXC) return;
  pthread_mutex_lock (&gate_mx);
  ts[s].exited = 1; ts[s].live = 0; ts[s].parked = 0;
  pthread_cond_broadcast (&gate_cv);
  pthread_mutex_unlock (&gate_mx);
}

static int t_itc_fd (void) { return (d && MHD_ITC_IS_VALID_ (d->itc)) ? (int) MHD_itc_r_fd_ (d->itc) : -1; }
static int (*real_select) (int, fd_set *, fd_set *, fd_set *, struct timeval *);
static int t_sock_fd (int s) { return (s >= 0 && s < MAXC && conns[s].mc) ? (int) conns[s].mc->socket_fd : -1; }
static int t_on_itc (int s)
{
  if (ts[s].sel) return NULL != ts[s].srs && t_itc_fd () >= 0 && FD_ISSET (t_itc_fd (), ts[s].srs) && NULL == ts[s].sws;
  return ts[s].n >= 1 && ts[s].fds[0].fd == t_itc_fd ();
}

/* the same gate for select(): the daemon thread (MHD_select on the ITC) and the connections' threads */
static int tgate_select (int nfds, fd_set *rs, fd_set *ws, fd_set *es, struct timeval *tv)
{
  int s = my_slot, r, c, fd;
  struct timeval zero = {0, 0};
  if (s < 0)
  {
    s = TD;
    for (c = 0; c < MAXC; c++)
    {
      fd = (conns[c].used && conns[c].mc) ? (int) conns[c].mc->socket_fd : -1;
      if (fd >= 0 && fd < nfds && ((rs && FD_ISSET (fd, rs)) || (ws && FD_ISSET (fd, ws)) || (es && FD_ISSET (fd, es)))) { s = c; break; }
    }
    my_slot = s;
    if (t_key_ok && s != TD) pthread_setspecific (t_key, (void *) (intptr_t) (s + 1));
  }
  pthread_mutex_lock (&gate_mx);
  ts[s].sel = 1; ts[s].snf = nfds; ts[s].srs = rs; ts[s].sws = ws; ts[s].ses = es;
  ts[s].timeout = (NULL == tv) ? -1 : (int) (tv->tv_sec * 1000 + tv->tv_usec / 1000);
  ts[s].live = 1; ts[s].parked = 1;
  pthread_cond_broadcast (&gate_cv);
  while (!ts[s].go && !gate_free) pthread_cond_wait (&gate_cv, &gate_mx);
  ts[s].go = 0; ts[s].parked = 0;
  pthread_mutex_unlock (&gate_mx);
  if (gate_free) return real_select (nfds, rs, ws, es, tv);
  r = real_select (nfds, rs, ws, es, &zero);
  pthread_mutex_lock (&out_mx);
  fd = t_sock_fd (s);
  if (TD == s) printf ("passed who=D itc=%d\n", (rs && t_itc_fd () >= 0 && FD_ISSET (t_itc_fd (), rs)) ? 1 : 0);
  else if (NULL == ws) printf ("passed who=%d on=itc itc=%d\n", s, (rs && t_itc_fd () >= 0 && FD_ISSET (t_itc_fd (), rs)) ? 1 : 0);
  else printf ("passed who=%d on=sock r=%d w=%d e=%d\n", s, (fd >= 0 && rs && FD_ISSET (fd, rs)) ? 1 : 0, (fd >= 0 && ws && FD_ISSET (fd, ws)) ? 1 : 0,
               (fd >= 0 && es && FD_ISSET (fd, es)) ? 1 : 0);
  pthread_mutex_unlock (&out_mx);
  return r;
}

int select (int nfds, fd_set *rs, fd_set *ws, fd_set *es, struct timeval *tv)
{
  if (NULL == real_select) real_select = (int (*)(int, fd_set *, fd_set *, fd_set *, struct timeval *)) dlsym (RTLD_NEXT, "select");
  if (tgate_on && !gate_free && !pthread_equal (pthread_self (), main_thr)) return tgate_select (nfds, rs, ws, es, tv);
  return real_select (nfds, rs, ws, es, tv);
}

static int tgate_poll (struct pollfd *fds, nfds_t nfds, int timeout)
{
  int s = my_slot, r, c;
  if (s < 0)
  {
    s = TD;
    for (c = 0; c < MAXC; c++)
      if (conns[c].used && conns[c].mc && nfds >= 1 && fds[0].fd == conns[c].mc->socket_fd) { s = c; break; }
    my_slot = s;
    if (t_key_ok && s != TD) pthread_setspecific (t_key, (void *) (intptr_t) (s + 1));
  }
  pthread_mutex_lock (&gate_mx);
  ts[s].sel = 0; ts[s].fds = fds; ts[s].n = nfds; ts[s].timeout = timeout; ts[s].live = 1; ts[s].parked = 1;
  pthread_cond_broadcast (&gate_cv);
  while (!ts[s].go && !gate_free) pthread_cond_wait (&gate_cv, &gate_mx);
  ts[s].go = 0; ts[s].parked = 0;
  pthread_mutex_unlock (&gate_mx);
  if (gate_free) return real_poll (fds, nfds, timeout);
  r = real_poll (fds, nfds, 0);
  pthread_mutex_lock (&out_mx);
  if (TD == s) printf ("passed who=D itc=%d\n", (nfds >= 1 && 0 != (fds[nfds - 1].revents & POLLIN)) ? 1 : 0);
  else if (nfds >= 1 && fds[0].fd == t_itc_fd ()) printf ("passed who=%d on=itc itc=%d\n", s, 0 != (fds[0].revents & POLLIN));
  else printf ("passed who=%d on=sock r=%d w=%d e=%d\n", s, 0 != (fds[0].revents & POLLIN), 0 != (fds[0].revents & POLLOUT),
               0 != (fds[0].revents & MHD_POLL_REVENTS_ERR_DISC));
  pthread_mutex_unlock (&out_mx);
  return r;
}

/* the connection's own thread stops here, inside the wrapper of the idle call that suspended the connection */
static void t_pause_mid (int s)
{
  pthread_mutex_lock (&gate_mx);
  ts[s].mid = 1;
  pthread_cond_broadcast (&gate_cv);
  while (!ts[s].go && !gate_free) pthread_cond_wait (&gate_cv, &gate_mx);
  ts[s].go = 0; ts[s].mid = 0;
  pthread_mutex_unlock (&gate_mx);
}

static void t_release (int s)
{
  pthread_mutex_lock (&gate_mx);
  ts[s].go = 1; ts[s].parked = 0; ts[s].mid = 0;
  pthread_cond_broadcast (&gate_cv);
  pthread_mutex_unlock (&gate_mx);
}

static int t_wait (int s)
{
  struct timespec tsp; int ok = 1;
  clock_gettime (CLOCK_REALTIME, &tsp); tsp.tv_sec += 10;
  pthread_mutex_lock (&gate_mx);
  while (!ts[s].parked && !ts[s].exited && !ts[s].mid)
    if (0 != pthread_cond_timedwait (&gate_cv, &gate_mx, &tsp)) { ok = 0; break; }
  pthread_mutex_unlock (&gate_mx);
  if (!ok) printf ("park-timeout who=%d\n", s);
  return ok;
}

/* would the blocking call this thread is parked in return now?  A finite timeout is a reason, except for the bounded
 * wait of a suspended connection's thread: that one only re-checks and blocks again. */
static int t_wanted (int s, int advance)
{
  struct pollfd cp[4]; nfds_t n;
  if (!ts[s].live || !ts[s].parked) return 0;
  if (0 == ts[s].timeout) return 1;
  if (ts[s].sel)
  {
    fd_set a, b, c; struct timeval zero = {0, 0};
    FD_ZERO (&a); FD_ZERO (&b); FD_ZERO (&c);
    if (ts[s].srs) a = *ts[s].srs;
    if (ts[s].sws) b = *ts[s].sws;
    if (ts[s].ses) c = *ts[s].ses;
    if (real_select (ts[s].snf, &a, &b, &c, &zero) > 0) return 1;
  }
  else
  {
    n = ts[s].n < 4 ? ts[s].n : 4;
    memcpy (cp, ts[s].fds, n * sizeof(cp[0]));
    if (real_poll (cp, n, 0) > 0) return 1;
  }
  if (ts[s].timeout > 0 && !(TD != s && t_on_itc (s)))
  { if (advance) { vclock_ms += (uint64_t) ts[s].timeout; printf ("slept %d\n", ts[s].timeout); } return 1; }
  return 0;
}

static void t_put_block (int s)
{
  if (ts[s].exited) { printf ("texit who=%d\n", s); return; }
  if (TD == s) { printf ("tpark who=D tmo=%d\n", ts[s].timeout); return; }
  if (t_on_itc (s)) { printf ("tpark who=%d on=itc ev=r tmo=%d\n", s, ts[s].timeout); return; }
  if (ts[s].sel)
  { int fd = t_sock_fd (s);
    int r = fd >= 0 && ts[s].srs && FD_ISSET (fd, ts[s].srs), w = fd >= 0 && ts[s].sws && FD_ISSET (fd, ts[s].sws), e = fd >= 0 && ts[s].ses && FD_ISSET (fd, ts[s].ses);
    printf ("tpark who=%d on=sock ev=%s%s%s tmo=%d\n", s, r ? "r" : "", w ? "w" : "", (e && !r && !w) ? "e" : "", ts[s].timeout); return; }
  printf ("tpark who=%d on=sock ev=%s%s%s tmo=%d\n", s, (ts[s].fds[0].events & POLLIN) ? "r" : "", (ts[s].fds[0].events & POLLOUT) ? "w" : "",
          (0 == (ts[s].fds[0].events & (POLLIN | POLLOUT))) ? "e" : "", ts[s].timeout);
}

static int free_running (void) { return tgate_on && gate_free; }
static void t_expect (int c) { if (tgate_on && c >= 0 && c < MAXC) { memset (&ts[c], 0, sizeof(ts[c])); ts[c].expect = 1; } }

static void t_idle_hook (struct MHD_Connection *c)
{
  int s = my_slot;
  if (!tgate_on || gate_free || s < 0 || s >= MAXC || !race_arm[s] || !c->suspended) return;
  race_arm[s] = 0;
  t_pause_mid (s);
}

static void t_step (int s)
{
  int c;
  if (TD == s) printf ("tstep who=D\n"); else printf ("tstep who=%d\n", s);
  fflush (stdout);
  t_release (s); t_wait (s);
  if (TD != s && ts[s].mid)
  { /* the handler has just suspended the connection: another thread resumes it and the daemon thread processes the
       resume before this thread looks at `suspended` again */
    printf ("tmid who=%d\n", s);
    if (conns[s].mc && conns[s].mc->suspended && !conns[s].mc->resuming)
    { conns[s].resume_in = -1; printf ("resume c=%d\n", s); MHD_resume_connection (conns[s].mc); t_step (TD); }
    printf ("tcont who=%d\n", s); fflush (stdout);
    t_release (s); t_wait (s);
  }
  t_put_block (s);
  for (c = 0; c < MAXC; c++)     /* threads created in this step run up to their first blocking call */
    if (ts[c].expect) { ts[c].expect = 0; t_wait (c); printf ("tnew who=%d\n", c); t_put_block (c); }
  printf ("tstate "); put_snap (); putchar ('\n');
}

/* one sweep: the daemon thread, every connection's thread, the daemon thread again — each only if its blocking call
 * would return now */
static int t_sweep (void)
{
  int c, any = 0;
  if (t_wanted (TD, 1)) { t_step (TD); any = 1; }
  for (c = 0; c < MAXC; c++) if (t_wanted (c, 1)) { t_step (c); any = 1; }
  if (t_wanted (TD, 1)) { t_step (TD); any = 1; }
  return any;
}

static int t_any_wanted (void)
{ int s; for (s = 0; s <= MAXC; s++) if (t_wanted (s, 0)) return 1; return 0; }

int poll (struct pollfd *fds, nfds_t nfds, int timeout)
{
  int r;
  if (NULL == real_poll) real_poll = (int (*)(struct pollfd *, nfds_t, int)) dlsym (RTLD_NEXT, "poll");
  if (tgate_on && !gate_free && !pthread_equal (pthread_self (), main_thr)) return tgate_poll (fds, nfds, timeout);
  if (!gate_on || gate_free || pthread_equal (pthread_self (), main_thr)) return real_poll (fds, nfds, timeout);
  pthread_mutex_lock (&gate_mx);
  gate_fds = fds; gate_n = nfds; gate_timeout = timeout; gate_parked = 1;
  pthread_cond_broadcast (&gate_cv);
  while (!gate_go && !gate_free) pthread_cond_wait (&gate_cv, &gate_mx);
  gate_go = 0; gate_parked = 0;
  pthread_mutex_unlock (&gate_mx);
  if (gate_free) return real_poll (fds, nfds, timeout);
  r = real_poll (fds, nfds, 0);
  pthread_mutex_lock (&out_mx);
  printf ("passed "); put_pollset ("r", fds, nfds, 1, POLLIN); putchar (' '); put_pollset ("w", fds, nfds, 1, POLLOUT); putchar (' ');
  put_pollset ("e", fds, nfds, 1, MHD_POLL_REVENTS_ERR_DISC); putchar ('\n');
  pthread_mutex_unlock (&out_mx);
  return r;
}

static int gate_wait_parked (void)
{
  struct timespec ts; int ok = 1;
  clock_gettime (CLOCK_REALTIME, &ts); ts.tv_sec += 10;
  pthread_mutex_lock (&gate_mx);
  while (!gate_parked) if (0 != pthread_cond_timedwait (&gate_cv, &gate_mx, &ts)) { ok = 0; break; }
  pthread_mutex_unlock (&gate_mx);
  if (!ok) out ("park-timeout");
  return ok;
}

/* would the poll() the thread is parked in return now? */
static int gate_wanted (void)
{
  struct pollfd cp[2 + MAXC]; nfds_t n = gate_n < 2 + MAXC ? gate_n : 2 + MAXC;
  memcpy (cp, gate_fds, n * sizeof(cp[0]));
  if (0 == gate_timeout) return 1;
  if (real_poll (cp, n, 0) > 0) return 1;
  if (gate_timeout > 0) { vclock_ms += (uint64_t) gate_timeout; out ("slept %d", gate_timeout); return 1; }
  return 0;
}

static void gate_release (void)
{
  pthread_mutex_lock (&gate_mx);
  gate_go = 1; gate_parked = 0;
  pthread_cond_broadcast (&gate_cv);
  pthread_mutex_unlock (&gate_mx);
}

static void gate_open (void)
{
  pthread_mutex_lock (&gate_mx);
  gate_free = 1;
  pthread_cond_broadcast (&gate_cv);
  pthread_mutex_unlock (&gate_mx);
}

static void gate_report (void)
{
  struct pollfd cp[2 + MAXC]; nfds_t n = gate_n < 2 + MAXC ? gate_n : 2 + MAXC; nfds_t i; int itc = 0;
  memcpy (cp, gate_fds, n * sizeof(cp[0]));
  printf ("fdset "); put_pollset ("r", cp, n, 0, POLLIN); putchar (' '); put_pollset ("w", cp, n, 0, POLLOUT); putchar (' ');
  put_pollset ("e", cp, n, 0, (short) (POLLIN | POLLOUT | MHD_POLL_EVENTS_ERR_DISC)); putchar ('\n');
  real_poll (cp, n, 0);
  for (i = 0; i < n; i++) if (MHD_ITC_IS_VALID_ (d->itc) && cp[i].fd == MHD_itc_r_fd_ (d->itc) && 0 != (cp[i].revents & POLLIN)) itc = 1;
  printf ("kready "); put_pollset ("r", cp, n, 1, POLLIN); putchar (' '); put_pollset ("w", cp, n, 1, POLLOUT); putchar (' ');
  put_pollset ("e", cp, n, 1, MHD_POLL_REVENTS_ERR_DISC); printf (" itc=%d\n", itc);
  if (gate_timeout < 0) out ("hint none"); else out ("hint %d", gate_timeout);
}

/* ---------------------------------------------------------------- rounds */
static void drain_clients (void)
{
  int c;
  if (cfg.tcp) usleep (300);   /* loopback delivery is practically synchronous; be generous */
  for (c = 0; c < MAXC; c++)
  {
    static uint8_t buf[1 << 16];
    if (!conns[c].used || conns[c].cfd < 0 || conns[c].eof_seen) continue;
    for (;;)
    {
      ssize_t r = recv (conns[c].cfd, buf, sizeof(buf), MSG_DONTWAIT);
      if (r > 0) { printf ("wire c=%d ", c); lp_puthex (stdout, buf, (size_t) r); putchar ('\n'); continue; }
      if (0 == r) { out ("eof c=%d", c); conns[c].eof_seen = 1; }
      else if (errno == ECONNRESET || errno == EPIPE) { out ("rst c=%d", c); conns[c].eof_seen = 1; }
      break;
    }
  }
}

static void report (void)
{
  uint64_t to;
  const union MHD_DaemonInfo *di;
  drain_clients ();
  if (NULL == d) return;
  printf ("state "); put_snap (); putchar ('\n');
  if (tgate_on)
  { /* every thread is parked: "quiescent" = no blocking call would return */
    const union MHD_DaemonInfo *di3;
    out ("fdset r=[] w=[] e=[]"); out ("kready r=[] w=[] e=[] itc=0");
    out (t_any_wanted () ? "hint 0" : "hint none");
    di3 = MHD_get_daemon_info (d, MHD_DAEMON_INFO_CURRENT_CONNECTIONS);
    out ("conns %u", di3 ? di3->num_connections : 0u);
    return;
  }
  if (gate_on)
  {
    const union MHD_DaemonInfo *di2;
    gate_report ();
    di2 = MHD_get_daemon_info (d, MHD_DAEMON_INFO_CURRENT_CONNECTIONS);
    out ("conns %u", di2 ? di2->num_connections : 0u);
    return;
  }
  report_watch ();
  if (MHD_YES == MHD_get_timeout64 (d, &to)) out ("hint %" PRIu64, to); else out ("hint none");
  di = MHD_get_daemon_info (d, MHD_DAEMON_INFO_CURRENT_CONNECTIONS);
  out ("conns %u", di ? di->num_connections : 0u);
}

static int threaded (void) { return NULL != strstr (cfg.mode, "-thr") || !strcmp (cfg.mode, "tpc"); }

static void one_round (const struct lp_line *rl)
{
  int c;
  for (c = 0; c < MAXC; c++)
    if (conns[c].used && conns[c].resume_in >= 0 && conns[c].mc)
    {
      if (0 == conns[c].resume_in) { conns[c].resume_in = -1; out ("resume c=%d", c); MHD_resume_connection (conns[c].mc); }
      else conns[c].resume_in--;
    }
  if (tgate_on)
  {
    printf ("round-begin "); put_snap (); putchar ('\n');
    in_round = 1;
    t_sweep ();
    in_round = 0;
    printf ("round-end "); put_snap (); putchar ('\n');
    return;
  }
  if (gate_on)
  { /* one cycle of the polling thread, from the poll() it is parked in to the next one */
    printf ("round-begin "); put_snap (); putchar ('\n');
    fflush (stdout);
    in_round = 1;
    gate_release ();
    gate_wait_parked ();
    in_round = 0;
    printf ("round-end "); put_snap (); putchar ('\n');
    return;
  }
  if (threaded ()) { usleep (20000); return; }
  printf ("round-begin "); put_snap (); putchar ('\n');
  in_round = 1;
  if (!strcmp (cfg.mode, "select"))
  {
    fd_set rs, ws, es; MHD_socket maxfd = 0; struct timeval tv = {0, 0};
    FD_ZERO (&rs); FD_ZERO (&ws); FD_ZERO (&es);
    if (MHD_YES != MHD_get_fdset2 (d, &rs, &ws, &es, &maxfd, FD_SETSIZE)) { out ("fdset-failed"); in_round = 0; return; }
    if (NULL == rl)
      select ((int) maxfd + 1, &rs, &ws, &es, &tv);
    else
    { /* scripted readiness: watched AND scripted */
      fd_set prs, pws, pes; int i;
      FD_ZERO (&prs); FD_ZERO (&pws); FD_ZERO (&pes);
      for (i = 1; i < rl->n; i++)
      {
        char *colon = strchr (rl->w[i], ':'); int ci; MHD_socket fd;
        if (NULL == colon) continue;
        ci = atoi (rl->w[i]);
        if (ci < 0 || ci >= MAXC || !conns[ci].used || NULL == conns[ci].mc) continue;
        fd = conns[ci].mc->socket_fd;
        if ('r' == colon[1] && FD_ISSET (fd, &rs)) FD_SET (fd, &prs);
        if ('w' == colon[1] && FD_ISSET (fd, &ws)) FD_SET (fd, &pws);
        if ('e' == colon[1] && FD_ISSET (fd, &es)) FD_SET (fd, &pes);
      }
      rs = prs; ws = pws; es = pes;
    }
    printf ("passed "); put_fdlist ("r", &rs); putchar (' '); put_fdlist ("w", &ws); putchar (' '); put_fdlist ("e", &es); putchar ('\n');
    MHD_run_from_select2 (d, &rs, &ws, &es, FD_SETSIZE);
  }
  else MHD_run_wait (d, 0);
  in_round = 0;
  printf ("round-end "); put_snap (); putchar ('\n');
}


/* does the API oblige the application to call the loop again now?  (timeout known, or a watched fd ready) */
static int loop_wanted (void)
{
  uint64_t to = 0; fd_set rs, ws, es; MHD_socket maxfd = 0; struct timeval tv = {0, 0}; int n, have_to;
  have_to = (MHD_YES == MHD_get_timeout64 (d, &to));
  if (have_to && 0 == to) return 1;
  FD_ZERO (&rs); FD_ZERO (&ws); FD_ZERO (&es);
  if (MHD_YES != MHD_get_fdset2 (d, &rs, &ws, &es, &maxfd, FD_SETSIZE)) return 1;
  n = select ((int) maxfd + 1, &rs, &ws, &es, &tv);
  if (n > 0) return 1;
  if (have_to) { vclock_ms += to; out ("slept %" PRIu64, to); return 1; }   /* the application sleeps for the hinted time */
  return 0;
}

/* ---------------------------------------------------------------- script */
static int kv (const char *w, const char *key, const char **val)
{ size_t n = strlen (key); if (!strncmp (w, key, n) && w[n] == '=') { *val = w + n + 1; return 1; } return 0; }

static void start_daemon (void)
{
  unsigned flags = MHD_USE_NO_LISTEN_SOCKET;
  struct MHD_OptionItem ops[16]; int n = 0;
  if (cfg.suspend) flags |= MHD_ALLOW_SUSPEND_RESUME;
  if (cfg.upgrade) flags |= MHD_ALLOW_UPGRADE;
  if (!strcmp (cfg.mode, "epoll")) flags |= MHD_USE_EPOLL;
  else if (!strcmp (cfg.mode, "poll-thr")) flags |= MHD_USE_POLL | MHD_USE_INTERNAL_POLLING_THREAD | MHD_USE_ITC;
  else if (!strcmp (cfg.mode, "select-thr")) flags |= MHD_USE_INTERNAL_POLLING_THREAD | MHD_USE_ITC;
  else if (!strcmp (cfg.mode, "epoll-thr")) flags |= MHD_USE_EPOLL | MHD_USE_INTERNAL_POLLING_THREAD | MHD_USE_ITC;
  else if (!strcmp (cfg.mode, "tpc")) flags |= MHD_USE_THREAD_PER_CONNECTION | MHD_USE_INTERNAL_POLLING_THREAD | MHD_USE_ITC;
  else if (!strcmp (cfg.mode, "tpc-select")) flags |= MHD_USE_THREAD_PER_CONNECTION | MHD_USE_INTERNAL_POLLING_THREAD | MHD_USE_ITC;
  else if (!strcmp (cfg.mode, "tpc-poll")) flags |= MHD_USE_POLL | MHD_USE_THREAD_PER_CONNECTION | MHD_USE_INTERNAL_POLLING_THREAD | MHD_USE_ITC;
  if (cfg.mem) { ops[n].option = MHD_OPTION_CONNECTION_MEMORY_LIMIT; ops[n].value = (intptr_t) cfg.mem; ops[n++].ptr_value = NULL; }
  if (cfg.incr) { ops[n].option = MHD_OPTION_CONNECTION_MEMORY_INCREMENT; ops[n].value = (intptr_t) cfg.incr; ops[n++].ptr_value = NULL; }
  if (cfg.have_lvl) { ops[n].option = MHD_OPTION_CLIENT_DISCIPLINE_LVL; ops[n].value = cfg.lvl; ops[n++].ptr_value = NULL; }
  if (cfg.limit) { ops[n].option = MHD_OPTION_CONNECTION_LIMIT; ops[n].value = cfg.limit; ops[n++].ptr_value = NULL; }
  if (cfg.perip) { ops[n].option = MHD_OPTION_PER_IP_CONNECTION_LIMIT; ops[n].value = cfg.perip; ops[n++].ptr_value = NULL; }
  if (cfg.timeout) { ops[n].option = MHD_OPTION_CONNECTION_TIMEOUT; ops[n].value = cfg.timeout; ops[n++].ptr_value = NULL; }
  if (cfg.nonce_tbl) { ops[n].option = MHD_OPTION_NONCE_NC_SIZE; ops[n].value = cfg.nonce_tbl; ops[n++].ptr_value = NULL; }
  /* the harness ignores SIGPIPE: with this option file responses go through sendfile() also in the application's thread */
  if (cfg.sigpipe) { ops[n].option = MHD_OPTION_SIGPIPE_HANDLED_BY_APP; ops[n].value = 1; ops[n++].ptr_value = NULL; }
  ops[n].option = MHD_OPTION_NOTIFY_COMPLETED; ops[n].value = (intptr_t) &completed; ops[n++].ptr_value = NULL;
  ops[n].option = MHD_OPTION_NOTIFY_CONNECTION; ops[n].value = (intptr_t) &notify_conn; ops[n++].ptr_value = NULL;
  ops[n].option = MHD_OPTION_URI_LOG_CALLBACK; ops[n].value = (intptr_t) &uri_log; ops[n++].ptr_value = NULL;
  ops[n].option = MHD_OPTION_END; ops[n].value = 0; ops[n++].ptr_value = NULL;
  main_thr = pthread_self ();
  gate_free = 0; gate_go = 0; gate_parked = 0;
  gate_on = !strcmp (cfg.mode, "poll-thr");
  tgate_on = !strcmp (cfg.mode, "tpc-poll") || !strcmp (cfg.mode, "tpc-select");
  if (NULL == real_select) real_select = (int (*)(int, fd_set *, fd_set *, fd_set *, struct timeval *)) dlsym (RTLD_NEXT, "select");
  if (NULL == real_poll) real_poll = (int (*)(struct pollfd *, nfds_t, int)) dlsym (RTLD_NEXT, "poll");
  memset (ts, 0, sizeof(ts)); memset (race_arm, 0, sizeof(race_arm));
  if (tgate_on && !t_key_ok) t_key_ok = (0 == pthread_key_create (&t_key, &t_thread_gone));
  d = MHD_start_daemon (flags, 0, NULL, NULL, &handler, NULL, MHD_OPTION_ARRAY, ops, MHD_OPTION_END);
  if (d && gate_on) gate_wait_parked ();
  if (d && tgate_on) t_wait (TD);
  out (d ? "started" : "start-failed");
}

static void elog (void *cls, const char *fmt, va_list ap) { (void) cls; (void) fmt; (void) ap; }

static void reset_all (void)
{
  int c, i, j;
  if (d) { gate_open (); MHD_stop_daemon (d); d = NULL; gate_on = 0; tgate_on = 0; }
  for (c = 0; c < MAXC; c++) { if (conns[c].used && conns[c].cfd >= 0) close (conns[c].cfd); }
  memset (conns, 0, sizeof(conns));
  for (i = 0; i < MAXRESP; i++) { for (j = 0; j < resps[i].nh; j++) { free (resps[i].h[j].n); free (resps[i].h[j].v); } }
  memset (resps, 0, sizeof(resps));
  memset (freecb_count, 0, sizeof(freecb_count));
  memset (&cfg, 0, sizeof(cfg)); strcpy (cfg.mode, "select");
  vclock_ms = 1000000;
}

static uint8_t *unhexz (const char *s)
{ size_t n; uint8_t *b = lp_unhex (s, &n), *z; if (!b) return NULL; z = (uint8_t *) malloc (n + 1); memcpy (z, b, n); z[n] = 0; free (b); return z; }

int main (void)
{
  struct lp_line l = {0};
  signal (SIGPIPE, SIG_IGN);
  setvbuf (stdout, NULL, _IOFBF, 1 << 16);
  MHD_set_panic_func (NULL, NULL);
  (void) elog;
  while (lp_read (stdin, &l))
  {
    const char *v; int i; uint64_t a, b;
    const char *op = l.w[0];
    if (!strcmp (op, "case")) { reset_all (); out ("case %s", l.n > 1 ? l.w[1] : "-"); continue; }
    if (!strcmp (op, "cfg"))
    {
      for (i = 1; i < l.n; i++)
      {
        if (kv (l.w[i], "mode", &v)) { strncpy (cfg.mode, v, sizeof(cfg.mode) - 1); }
        else if (kv (l.w[i], "mem", &v)) cfg.mem = (size_t) atol (v);
        else if (kv (l.w[i], "incr", &v)) cfg.incr = (size_t) atol (v);
        else if (kv (l.w[i], "lvl", &v)) { cfg.lvl = atoi (v); cfg.have_lvl = 1; }
        else if (kv (l.w[i], "limit", &v)) cfg.limit = (unsigned) atoi (v);
        else if (kv (l.w[i], "perip", &v)) cfg.perip = (unsigned) atoi (v);
        else if (kv (l.w[i], "timeout", &v)) cfg.timeout = (unsigned) atoi (v);
        else if (kv (l.w[i], "upgrade", &v)) cfg.upgrade = atoi (v);
        else if (kv (l.w[i], "suspend", &v)) cfg.suspend = atoi (v);
        else if (kv (l.w[i], "nonce_tbl", &v)) cfg.nonce_tbl = (unsigned) atoi (v);
        else if (kv (l.w[i], "sigpipe", &v)) cfg.sigpipe = atoi (v);
        else if (kv (l.w[i], "tcp", &v)) cfg.tcp = atoi (v);
      }
      out ("ok"); continue;
    }
    if (!strcmp (op, "start")) { start_daemon (); continue; }
    if (!strcmp (op, "resp") && l.n >= 2)
    {
      int rid = atoi (l.w[1]); struct resp *r;
      if (rid < 0 || rid >= MAXRESP) { out ("bad-op"); continue; }
      r = &resps[rid]; memset (r, 0, sizeof(*r)); r->used = 1; strcpy (r->kind, "copy"); r->code = 200; r->size = 5; r->cberr_at = -1;
      for (i = 2; i < l.n; i++)
      {
        if (kv (l.w[i], "kind", &v)) strncpy (r->kind, v, sizeof(r->kind) - 1);
        else if (kv (l.w[i], "code", &v)) r->code = (unsigned) atoi (v);
        else if (kv (l.w[i], "size", &v)) r->size = (size_t) atol (v);
        else if (kv (l.w[i], "flags", &v)) r->flags = (unsigned) atoi (v);
        else if (kv (l.w[i], "cbmax", &v)) r->cbmax = (size_t) atol (v);
        else if (kv (l.w[i], "cbnr", &v)) r->cbnr = atoi (v);
        else if (kv (l.w[i], "cberr", &v)) r->cberr_at = atoi (v);
        else if ((kv (l.w[i], "h", &v) || kv (l.w[i], "f", &v) || kv (l.w[i], "d", &v)) && r->nh < 16)
        {
          char *colon = strchr ((char *) v, ':'); struct hdrspec *h = &r->h[r->nh];
          if (!colon) continue;
          *colon = 0;
          h->kind = (l.w[i][0] == 'h') ? 0 : (l.w[i][0] == 'f') ? 1 : 2;
          h->n = unhexz (v); h->v = unhexz (colon + 1);
          if (h->n && h->v) r->nh++;
        }
      }
      out ("ok"); continue;
    }
    if (!strcmp (op, "beh") && l.n >= 3)
    {
      int c = atoi (l.w[1]), r = atoi (l.w[2]); struct beh *bh;
      if (c < 0 || c >= MAXC || r < 0 || r >= MAXR) { out ("bad-op"); continue; }
      bh = &conns[c].beh[r]; memset (bh, 0, sizeof(*bh)); bh->used = 1; strcpy (bh->f, "c"); strcpy (bh->l, "r0"); bh->ur_n = -1; bh->us_n = -1;
      for (i = 3; i < l.n; i++)
      {
        if (kv (l.w[i], "f", &v)) strncpy (bh->f, v, sizeof(bh->f) - 1);
        else if (kv (l.w[i], "l", &v)) strncpy (bh->l, v, sizeof(bh->l) - 1);
        else if (kv (l.w[i], "u", &v))
        { char *s = (char *) v; bh->ntake = 0;
          while (*s && bh->ntake < 8) { bh->take[bh->ntake++] = !strncmp (s, "all", 3) ? -1 : atol (s); s = strchr (s, ','); if (!s) break; s++; } }
        else if (kv (l.w[i], "ur", &v)) { bh->ur_n = atoi (v); v = strchr (v, ':'); bh->ur_rid = v ? atoi (v + 2) : 0; }
        else if (kv (l.w[i], "us", &v)) { bh->us_n = atoi (v); v = strchr (v, ':'); bh->us_k = v ? atoi (v + 1) : 0; }
      }
      out ("ok"); continue;
    }
    if (NULL == d && strcmp (op, "tick")) { out ("bad-op"); continue; }
    if (!strcmp (op, "arrive") && l.n >= 3 && lp_u64 (l.w[1], &a) && lp_u64 (l.w[2], &b) && a < MAXC)
    {
      int sv[2]; struct sockaddr_in sa; enum MHD_Result q;
      if (conns[a].used) { out ("bad-op"); continue; }
      if (cfg.tcp)
      { /* a real TCP connection over loopback: the kernel's edge-triggered write-space notifications are those MHD
           sees in production (an AF_UNIX pair reports EPOLLOUT on every read of the peer, which hides lost edges) */
        static int lfd = -1; static struct sockaddr_in la; socklen_t ll = sizeof(la); int one = 1;
        if (lfd < 0)
        { lfd = socket (AF_INET, SOCK_STREAM, 0); memset (&la, 0, sizeof(la)); la.sin_family = AF_INET; la.sin_addr.s_addr = htonl (INADDR_LOOPBACK);
          if (lfd < 0 || 0 != bind (lfd, (struct sockaddr *) &la, sizeof(la)) || 0 != listen (lfd, 16) || 0 != getsockname (lfd, (struct sockaddr *) &la, &ll))
          { out ("bad-op"); lfd = -1; continue; } }
        sv[0] = socket (AF_INET, SOCK_STREAM, 0);
        if (sv[0] < 0 || 0 != connect (sv[0], (struct sockaddr *) &la, sizeof(la))) { out ("bad-op"); continue; }
        sv[1] = accept (lfd, NULL, NULL);
        if (sv[1] < 0) { out ("bad-op"); continue; }
        setsockopt (sv[0], IPPROTO_TCP, TCP_NODELAY, &one, sizeof(one));
        fcntl (sv[0], F_SETFL, fcntl (sv[0], F_GETFL) | O_NONBLOCK); fcntl (sv[1], F_SETFL, fcntl (sv[1], F_GETFL) | O_NONBLOCK);
      }
      else
      if (0 != socketpair (AF_UNIX, SOCK_STREAM | SOCK_NONBLOCK, 0, sv)) { out ("bad-op"); continue; }
      memset (&sa, 0, sizeof(sa)); sa.sin_family = AF_INET; sa.sin_port = htons ((uint16_t) (1000 + a));
      sa.sin_addr.s_addr = htonl (0x0a000000u + (uint32_t) b);
      { int saved = conns[a].resume_in; (void) saved; }
      conns[a].used = 1; conns[a].cfd = sv[0]; conns[a].addr = (int) b; conns[a].resume_in = -1;
      q = MHD_add_connection (d, sv[1], (struct sockaddr *) &sa, sizeof(sa));
      out ("arrive c=%d -> %d", (int) a, (int) q);
      if (MHD_YES != q) { /* MHD closed sv[1] itself */ }
      report ();
      continue;
    }
    if (!strcmp (op, "send") && l.n >= 3 && lp_u64 (l.w[1], &a) && a < MAXC && conns[a].used)
    {
      size_t n, offn = 0; uint8_t *bytes = lp_unhex (l.w[2], &n);
      if (!bytes) { out ("bad-op"); continue; }
      while (offn < n) { ssize_t r = send (conns[a].cfd, bytes + offn, n - offn, MSG_DONTWAIT | MSG_NOSIGNAL); if (r <= 0) break; offn += (size_t) r; }
      free (bytes);
      out ("sent c=%d n=%zu", (int) a, offn); continue;
    }
    if (!strcmp (op, "shutwr") && l.n >= 2 && lp_u64 (l.w[1], &a) && a < MAXC && conns[a].used)
    { shutdown (conns[a].cfd, SHUT_WR); out ("ok"); continue; }
    if (!strcmp (op, "cclose") && l.n >= 2 && lp_u64 (l.w[1], &a) && a < MAXC && conns[a].used)
    { drain_clients (); close (conns[a].cfd); conns[a].cfd = -1; conns[a].eof_seen = 1; out ("ok"); continue; }
    if (tgate_on && (!strcmp (op, "round") || !strcmp (op, "roundw")))
    { if (!t_any_wanted ()) { out ("skipped"); report (); continue; }
      one_round (NULL); report (); continue; }
    if (tgate_on && !strcmp (op, "drain") && l.n >= 2 && lp_u64 (l.w[1], &a))
    { for (i = 0; i < (int) a; i++) { if (!t_any_wanted ()) break; one_round (NULL); report (); }
      out (i < (int) a ? "quiescent after=%d" : "drain-exhausted after=%d", i); continue; }
    if (tgate_on && !strcmp (op, "race") && l.n >= 2 && lp_u64 (l.w[1], &a) && a < MAXC)
    { race_arm[a] = 1; out ("ok"); continue; }
    if (gate_on && (!strcmp (op, "round") || !strcmp (op, "roundw")))
    { /* the thread really sleeps in poll(): a cycle happens only when that poll() would return */
      if (!gate_wanted ()) { out ("skipped"); report (); continue; }
      one_round (NULL); report (); continue;
    }
    if (gate_on && !strcmp (op, "drain") && l.n >= 2 && lp_u64 (l.w[1], &a))
    { for (i = 0; i < (int) a; i++) { if (!gate_wanted ()) break; one_round (NULL); report (); }
      out (i < (int) a ? "quiescent after=%d" : "drain-exhausted after=%d", i); continue; }
    if ((!strcmp (op, "roundw") || !strcmp (op, "round-ready-w")) && !threaded ())
    { /* an application that calls the loop only when the API obliges it to */
      if (!loop_wanted ()) { out ("skipped"); report (); continue; }
      op = (!strcmp (op, "roundw")) ? "round" : "round-ready";
    }
    if (!strcmp (op, "round")) { one_round (NULL); report (); continue; }
    if (!strcmp (op, "round-ready")) { if (strcmp (cfg.mode, "select")) { out ("bad-op"); continue; } one_round (&l); report (); continue; }
    if (!strcmp (op, "drain") && l.n >= 2 && lp_u64 (l.w[1], &a) && !threaded ())
    { for (i = 0; i < (int) a; i++) { if (!loop_wanted ()) break; one_round (NULL); report (); }
      out (i < (int) a ? "quiescent after=%d" : "drain-exhausted after=%d", i); continue; }
    if (!strcmp (op, "rounds") && l.n >= 2 && lp_u64 (l.w[1], &a))
    { for (i = 0; i < (int) a; i++) { one_round (NULL); drain_clients (); } report (); continue; }
    if (!strcmp (op, "tick") && l.n >= 2 && lp_u64 (l.w[1], &a)) { vclock_ms += a; out ("ok"); continue; }
    if (!strcmp (op, "tickback") && l.n >= 2 && lp_u64 (l.w[1], &a)) { vclock_ms -= a; out ("ok"); continue; }
    if (!strcmp (op, "set-timeout") && l.n >= 3 && lp_u64 (l.w[1], &a) && lp_u64 (l.w[2], &b) && a < MAXC && conns[a].mc)
    { out ("set-timeout c=%d -> %d", (int) a, (int) MHD_set_connection_option (conns[a].mc, MHD_CONNECTION_OPTION_TIMEOUT, (unsigned int) b)); continue; }
    if (!strcmp (op, "resume") && l.n >= 2 && lp_u64 (l.w[1], &a) && a < MAXC && conns[a].mc)
    { /* resuming a connection that is not suspended is undefined behaviour by the API: skip it */
      if (!conns[a].mc->suspended || conns[a].mc->resuming) { out ("resume-skipped c=%d", (int) a); continue; }
      conns[a].resume_in = -1; out ("resume c=%d", (int) a); MHD_resume_connection (conns[a].mc); report (); continue; }
    if (!strcmp (op, "up-close") && l.n >= 2 && lp_u64 (l.w[1], &a) && a < MAXC && conns[a].upgraded)
    { out ("up-close c=%d -> %d", (int) a, (int) MHD_upgrade_action (conns[a].urh, MHD_UPGRADE_ACTION_CLOSE)); conns[a].upgraded = 0; continue; }
    if (!strcmp (op, "up-recv") && l.n >= 2 && lp_u64 (l.w[1], &a) && a < MAXC && conns[a].upgraded)
    { static uint8_t ub[65536]; ssize_t r = recv (conns[a].usock, ub, sizeof(ub), MSG_DONTWAIT);
      printf ("up-data c=%d ", (int) a); if (r > 0) lp_puthex (stdout, ub, (size_t) r); else putchar ('-'); putchar ('\n'); continue; }
    if (!strcmp (op, "up-send") && l.n >= 3 && lp_u64 (l.w[1], &a) && a < MAXC && conns[a].upgraded)
    { size_t n; uint8_t *bytes = lp_unhex (l.w[2], &n); ssize_t r = bytes ? send (conns[a].usock, bytes, n, MSG_NOSIGNAL) : -1; free (bytes);
      out ("up-sent c=%d n=%zd", (int) a, r); continue; }
    if (!strcmp (op, "stop")) {
      /* the API forbids stopping with suspended connections: resume them first */
      int any = 0;
      for (i = 0; i < MAXC; i++)
        if (conns[i].used && conns[i].resume_in >= 0 && conns[i].mc)
        { conns[i].resume_in = -1; out ("resume c=%d", i); MHD_resume_connection (conns[i].mc); any = 1; }
      if (tgate_on) { gate_open (); if (any) usleep (50000); }
      else if (any && !threaded ()) { one_round (NULL); one_round (NULL); }
      else if (any) usleep (50000);
      drain_clients (); gate_open (); MHD_stop_daemon (d); d = NULL; gate_on = 0; tgate_on = 0; drain_clients (); out ("stopped");
      for (i = 0; i < MAXRESP; i++) if (freecb_count[i]) out ("free-cb-total rid=%d n=%d", i, freecb_count[i]);
      continue; }
    out ("bad-op");
  }
  reset_all ();
  free (l.buf);
  return 0;
}
