/* Correspondence harness for src/microhttpd/mhd_str.c (engine "str", property C17).
   White-box include (toxdigitvalue / charsequalcaseless are static inline).
   One function call per input line, one output line per input line.
   Every input and output buffer is an exact-size heap allocation, so that ASan
   sees any read past the stated input length / write past the stated output
   size.  A zero-length buffer is a pointer into a redzone (malloc(0) would give
   one addressable byte under ASan). */
#include "MHD_config.h"
#include "mhd_str.c"
#include "common/lp.h"
#include <sanitizer/common_interface_defs.h>

/* stdout is fully buffered (millions of lines); make sure the lines already
   produced are not lost when a sanitizer kills the process: the number of
   output lines identifies the offending input line */
static void flush_on_death (void) { fflush (stdout); }

#define MAXB 16
static void *bases[MAXB];
static int nbases;

/* exact-size buffer of n bytes; n == 0 -> pointer just past an 8-byte block */
static uint8_t *xbuf (size_t n)
{
  uint8_t *b = (uint8_t *) malloc (n ? n : 8);
  if (! b) abort ();
  bases[nbases++] = b;
  if (n) { memset (b, 0xAA, n); return b; }
  return b + 8;
}

static void xfree_all (void)
{
  while (nbases) free (bases[--nbases]);
}

/* hex word -> exact-size buffer of len + extra bytes (extra bytes = NUL) */
static uint8_t *in_bytes (const char *w, size_t extra, size_t *len)
{
  size_t n, i;
  uint8_t *b;
  if (0 == strcmp (w, "-")) n = 0;
  else
  {
    n = strlen (w);
    if (n % 2) return NULL;
    for (i = 0; i < n; i++) if (lp_hexval (w[i]) < 0) return NULL;
    n /= 2;
  }
  b = xbuf (n + extra);
  for (i = 0; i < n; i++) b[i] = (uint8_t) (lp_hexval (w[2*i]) * 16 + lp_hexval (w[2*i+1]));
  for (i = 0; i < extra; i++) b[n + i] = 0;
  *len = n;
  return b;
}

static void out_r (size_t r) { printf ("r=%zu", r); }
static void out_o (const void *p, size_t n) { printf (" o="); lp_puthex (stdout, p, n); }

#define OP(name, nw) (l.n == (nw) && 0 == strcmp (l.w[0], name))
#define BAD do { puts ("bad-op"); goto next; } while (0)

int main (void)
{
  struct lp_line l = {0};
  static char obuf[1 << 16];
  setvbuf (stdout, obuf, _IOFBF, sizeof(obuf));
  __sanitizer_set_death_callback (flush_on_death);
  while (lp_read (stdin, &l))
  {
    size_t n = 0, m = 0, r;
    uint64_t a, b, c;
    uint8_t *s, *t, *o;

    /* ---- number parsing ---- */
    if (OP ("d64", 2) || OP ("d64n", 2) || OP ("x64", 2) || OP ("x64n", 2))
    {
      uint64_t v = 0x5555555555555555u;
      int z = (l.w[0][3] != 'n');
      if (! (s = in_bytes (l.w[1], z ? 1 : 0, &n))) BAD;
      if (l.w[0][0] == 'd')
        r = z ? MHD_str_to_uint64_ ((const char *) s, &v) : MHD_str_to_uint64_n_ ((const char *) s, n, &v);
      else
        r = z ? MHD_strx_to_uint64_ ((const char *) s, &v) : MHD_strx_to_uint64_n_ ((const char *) s, n, &v);
      out_r (r);
      if (r) printf (" v=%" PRIu64, v);
      putchar ('\n');
    }
    else if (OP ("x32", 2) || OP ("x32n", 2))
    {
      uint32_t v = 0x55555555u;
      int z = (l.w[0][3] != 'n');
      if (! (s = in_bytes (l.w[1], z ? 1 : 0, &n))) BAD;
      r = z ? MHD_strx_to_uint32_ ((const char *) s, &v) : MHD_strx_to_uint32_n_ ((const char *) s, n, &v);
      out_r (r);
      if (r) printf (" v=%" PRIu32, v);
      putchar ('\n');
    }
    /* ---- number printing ---- */
    else if (OP ("p32x", 3) || OP ("p16", 3) || OP ("p64", 3))
    {
      if (! lp_u64 (l.w[1], &a) || ! lp_u64 (l.w[2], &b) || b > 4096) BAD;
      o = xbuf ((size_t) b);
      if (l.w[0][1] == '3') { if (a > UINT32_MAX) BAD; r = MHD_uint32_to_strx ((uint32_t) a, (char *) o, (size_t) b); }
      else if (l.w[0][1] == '1') { if (a > UINT16_MAX) BAD; r = MHD_uint16_to_str ((uint16_t) a, (char *) o, (size_t) b); }
      else r = MHD_uint64_to_str (a, (char *) o, (size_t) b);
      if (r > b) { printf ("fault ret-beyond-size %zu\n", r); goto next; }
      out_r (r); out_o (o, r); putchar ('\n');
    }
    else if (OP ("p8", 4))
    {
      if (! lp_u64 (l.w[1], &a) || ! lp_u64 (l.w[2], &b) || ! lp_u64 (l.w[3], &c) || a > 255 || b > 3 || c > 4096) BAD;
      o = xbuf ((size_t) c);
      r = MHD_uint8_to_str_pad ((uint8_t) a, (uint8_t) b, (char *) o, (size_t) c);
      if (r > c) { printf ("fault ret-beyond-size %zu\n", r); goto next; }
      out_r (r); out_o (o, r); putchar ('\n');
    }
    /* ---- hex ---- */
    else if (OP ("b2h", 2))
    {
      if (! (s = in_bytes (l.w[1], 0, &n))) BAD;
      o = xbuf (2 * n);
      r = MHD_bin_to_hex (s, n, (char *) o);
      if (r > 2 * n) { printf ("fault ret-beyond-size %zu\n", r); goto next; }
      out_r (r); out_o (o, r); putchar ('\n');
    }
    else if (OP ("h2b", 2))
    {
      if (! (s = in_bytes (l.w[1], 0, &n))) BAD;
      o = xbuf ((n + 1) / 2);
      r = MHD_hex_to_bin ((const char *) s, n, o);
      if (r > (n + 1) / 2) { printf ("fault ret-beyond-size %zu\n", r); goto next; }
      out_r (r); out_o (o, r); putchar ('\n');
    }
    /* ---- percent decoding ---- */
    else if (OP ("pcs", 3) || OP ("pcl", 3))
    {
      bool broken = false;
      int len = (l.w[0][2] == 'l');
      if (! lp_u64 (l.w[2], &b) || b > (1u << 20)) BAD;
      if (! (s = in_bytes (l.w[1], 0, &n))) BAD;
      o = xbuf ((size_t) b);
      r = len ? MHD_str_pct_decode_lenient_n_ ((const char *) s, n, (char *) o, (size_t) b, &broken)
              : MHD_str_pct_decode_strict_n_ ((const char *) s, n, (char *) o, (size_t) b);
      if (r > b) { printf ("fault ret-beyond-size %zu\n", r); goto next; }
      out_r (r); out_o (o, r);
      if (len) printf (" b=%d", broken ? 1 : 0);
      putchar ('\n');
    }
    else if (OP ("pis", 2) || OP ("pil", 2))
    {
      bool broken = false;
      int len = (l.w[0][2] == 'l');
      if (! (s = in_bytes (l.w[1], 1, &n))) BAD;
      r = len ? MHD_str_pct_decode_in_place_lenient_ ((char *) s, &broken)
              : MHD_str_pct_decode_in_place_strict_ ((char *) s);
      if (r > n) { printf ("fault ret-beyond-size %zu\n", r); goto next; }
      out_r (r); out_o (s, r);
      printf (" z=%d", s[r] == 0 ? 1 : 0);
      if (len) printf (" b=%d", broken ? 1 : 0);
      putchar ('\n');
    }
    /* ---- quoting ---- */
    else if (OP ("eqq", 3) || OP ("eqqc", 3))
    {
      if (! (s = in_bytes (l.w[1], 0, &n)) || ! (t = in_bytes (l.w[2], 0, &m))) BAD;
      r = l.w[0][3] ? MHD_str_equal_caseless_quoted_bin_n ((const char *) s, n, (const char *) t, m)
                    : MHD_str_equal_quoted_bin_n ((const char *) s, n, (const char *) t, m);
      printf ("r=%d\n", r ? 1 : 0);
    }
    else if (OP ("unq", 2))
    {
      if (! (s = in_bytes (l.w[1], 0, &n))) BAD;
      o = xbuf (n);
      r = MHD_str_unquote ((const char *) s, n, (char *) o);
      if (r > n) { printf ("fault ret-beyond-size %zu\n", r); goto next; }
      out_r (r); out_o (o, r); putchar ('\n');
    }
    else if (OP ("quo", 3) || OP ("b64", 3))
    {
      if (! lp_u64 (l.w[2], &b) || b > (1u << 20)) BAD;
      if (! (s = in_bytes (l.w[1], 0, &n))) BAD;
      o = xbuf ((size_t) b);
      r = (l.w[0][0] == 'q') ? MHD_str_quote ((const char *) s, n, (char *) o, (size_t) b)
                             : MHD_base64_to_bin_n ((const char *) s, n, o, (size_t) b);
      if (r > b) { printf ("fault ret-beyond-size %zu\n", r); goto next; }
      out_r (r); out_o (o, r); putchar ('\n');
    }
    /* ---- caseless comparison ---- */
    else if (OP ("eqc", 3))
    {
      if (! (s = in_bytes (l.w[1], 1, &n)) || ! (t = in_bytes (l.w[2], 1, &m))) BAD;
      printf ("r=%d\n", MHD_str_equal_caseless_ ((const char *) s, (const char *) t) ? 1 : 0);
    }
    else if (OP ("eqcn", 4))
    {
      if (! lp_u64 (l.w[3], &c)) BAD;
      if (! (s = in_bytes (l.w[1], 1, &n)) || ! (t = in_bytes (l.w[2], 1, &m))) BAD;
      printf ("r=%d\n", MHD_str_equal_caseless_n_ ((const char *) s, (const char *) t, (size_t) c) ? 1 : 0);
    }
    else if (OP ("eqcb", 3))
    {
      if (! (s = in_bytes (l.w[1], 0, &n)) || ! (t = in_bytes (l.w[2], 0, &m)) || n != m) BAD;
      printf ("r=%d\n", MHD_str_equal_caseless_bin_n_ ((const char *) s, (const char *) t, n) ? 1 : 0);
    }
    /* ---- token lists ---- */
    else if (OP ("tok", 3))
    {
      if (! (s = in_bytes (l.w[1], 1, &n)) || ! (t = in_bytes (l.w[2], 0, &m))) BAD;
      printf ("r=%d\n", MHD_str_has_token_caseless_ ((const char *) s, (const char *) t, m) ? 1 : 0);
    }
    else if (OP ("rmt", 4))
    {
      ssize_t bs;
      bool res;
      if (! lp_u64 (l.w[3], &c) || c > (1u << 20)) BAD;
      if (! (s = in_bytes (l.w[1], 0, &n)) || ! (t = in_bytes (l.w[2], 0, &m))) BAD;
      o = xbuf ((size_t) c);
      bs = (ssize_t) c;
      res = MHD_str_remove_token_caseless_ ((const char *) s, n, (const char *) t, m, (char *) o, &bs);
      if (bs > (ssize_t) c) { printf ("fault ret-beyond-size %zd\n", bs); goto next; }
      printf ("r=%d n=%zd", res ? 1 : 0, bs);
      if (bs >= 0) out_o (o, (size_t) bs);
      putchar ('\n');
    }
    else if (OP ("rmts", 3))
    {
      bool res;
      size_t len;
      if (! (s = in_bytes (l.w[1], 0, &n)) || ! (t = in_bytes (l.w[2], 0, &m))) BAD;
      len = n;
      res = MHD_str_remove_tokens_caseless_ ((char *) s, &len, (const char *) t, m);
      if (len > n) { printf ("fault ret-beyond-size %zu\n", len); goto next; }
      printf ("r=%d", res ? 1 : 0); out_o (s, len); putchar ('\n');
    }
    /* ---- single characters (exhaustive over 256 / 65536) ---- */
    else if (OP ("xd", 2))
    {
      if (! lp_u64 (l.w[1], &a) || a > 255) BAD;
      printf ("r=%d\n", toxdigitvalue ((char) (unsigned char) a));
    }
    else if (OP ("ceq", 3))
    {
      if (! lp_u64 (l.w[1], &a) || ! lp_u64 (l.w[2], &b) || a > 255 || b > 255) BAD;
      printf ("r=%d\n", charsequalcaseless ((char) (unsigned char) a, (char) (unsigned char) b) ? 1 : 0);
    }
    else
      puts ("bad-op");
next:
    xfree_all ();
  }
  fflush (stdout);
  free (l.buf);
  return 0;
}
