/* White-box harness for the request-head parsers of connection.c (C02, engine `conn`).
 *
 * connection.c is #included, so the static parsers are called directly, in the order
 * MHD_connection_handle_idle() calls them, on a connection object whose daemon is a real
 * started daemon (so client_discipline, pool_size, unescape_callback, uri_log_callback are
 * set by the library itself) and whose memory pool is a real MemoryPool.  The part of the
 * read buffer that holds no received data is ASan-poisoned while a parser runs, so any read
 * or write beyond the received bytes aborts.
 *
 * ops (one output line each):
 *   head <lvl> <pool> <rbsize> <chunkhex>...        feed chunks, run the head parsers after each
 *   enum <lvl> <pool> <rbsize> <maxlen> <prehex> <sufhex>
 *                                                   all m over the alphabet, |m| <= maxlen, input pre+m+suf,
 *                                                   one piece and byte by byte; digest of all result lines
 *   args <lvl> <hex>                                MHD_parse_arguments_ on an exact-size heap string
 *   enumargs <lvl> <maxlen> <prehex> <sufhex>
 *   cookie <lvl> <hex>                              parse_cookie_header on "Cookie: <value>"
 *   lookup <kindmask> <keyhex> (<kind> <namehex> <valuehex|~>)*   the elements are added in this order, then
 *                                                   MHD_lookup_connection_value_n (kindmask, key) -> "yes <valuehex|~>" / "no"
 *                                                   (+ " z=<valuehex|~>" : MHD_lookup_connection_value, when the key has no NUL)
 *   enumck <lvl> <maxlen> <prehex> <sufhex>
 */
#include "MHD_config.h"
#include "connection.c"
#include "common/lp.h"
#include <sanitizer/asan_interface.h>

static const uint8_t ALPHA[16] = { 'G', '/', '?', '=', '&', '%', ' ', '\t', '\r', '\n', 0x0b, 0, ':', 'a', '1', ';' };

/* ------------------------------------------------------------------ output buffer */
static char obuf[1 << 20];
static size_t olen;
static void o_reset (void) { olen = 0; obuf[0] = 0; }
static void o_str (const char *s) { size_t n = strlen (s); if (olen + n + 1 < sizeof(obuf)) { memcpy (obuf + olen, s, n + 1); olen += n; } }
static void o_num (uint64_t v) { char t[32]; snprintf (t, sizeof(t), "%" PRIu64, v); o_str (t); }
static void o_int (int v) { char t[32]; snprintf (t, sizeof(t), "%d", v); o_str (t); }
static void o_hex (const void *p, size_t n)
{
  static const char dg[] = "0123456789abcdef";
  const uint8_t *b = (const uint8_t *) p;
  size_t i;
  if (NULL == p) { o_str ("~"); return; }
  if (0 == n) { o_str ("-"); return; }
  if (olen + 2 * n + 1 >= sizeof(obuf)) return;
  for (i = 0; i < n; i++) { obuf[olen++] = dg[b[i] >> 4]; obuf[olen++] = dg[b[i] & 15]; }
  obuf[olen] = 0;
}

static uint64_t fnv (uint64_t h, const char *s, size_t n)
{ size_t i; for (i = 0; i < n; i++) { h ^= (uint8_t) s[i]; h *= 1099511628211ULL; } h ^= 10; h *= 1099511628211ULL; return h; }

/* ------------------------------------------------------------------ daemon + fabricated connection */
static struct MHD_Daemon *dmn;
static int cur_lvl = 99; static size_t cur_pool;
static struct MHD_Connection conn;
static char rawtgt[1 << 16]; static size_t rawtgt_len; static int rawtgt_set;
static char *rb_base; static size_t rb_cap;

/* the read-buffer region may be re-used by the pool (error reply, shrink): lift the poison first */
static void unpoison_all (void) { if (rb_base && rb_cap) ASAN_UNPOISON_MEMORY_REGION (rb_base, rb_cap); }
void *__real_MHD_pool_reallocate (struct MemoryPool *pool, void *old, size_t old_size, size_t new_size);
void *__wrap_MHD_pool_reallocate (struct MemoryPool *pool, void *old, size_t old_size, size_t new_size)
{ unpoison_all (); return __real_MHD_pool_reallocate (pool, old, old_size, new_size); }
void __real_MHD_pool_deallocate (struct MemoryPool *pool, void *block, size_t block_size);
void __wrap_MHD_pool_deallocate (struct MemoryPool *pool, void *block, size_t block_size)
{ unpoison_all (); __real_MHD_pool_deallocate (pool, block, block_size); }
void *__real_MHD_pool_reset (struct MemoryPool *pool, void *keep, size_t copy_bytes, size_t new_size);
void *__wrap_MHD_pool_reset (struct MemoryPool *pool, void *keep, size_t copy_bytes, size_t new_size)
{ unpoison_all (); return __real_MHD_pool_reset (pool, keep, copy_bytes, new_size); }
void __real_MHD_pool_destroy (struct MemoryPool *pool);
void __wrap_MHD_pool_destroy (struct MemoryPool *pool)
{ unpoison_all (); __real_MHD_pool_destroy (pool); }

static void *uri_log_cb (void *cls, const char *uri, struct MHD_Connection *c)
{ (void) cls; (void) c; rawtgt_len = strlen (uri); if (rawtgt_len >= sizeof(rawtgt)) rawtgt_len = sizeof(rawtgt) - 1;
  memcpy (rawtgt, uri, rawtgt_len); rawtgt_set = 1; return NULL; }

static enum MHD_Result dummy_handler (void *cls, struct MHD_Connection *c, const char *url, const char *method,
                                      const char *version, const char *upload_data, size_t *upload_data_size, void **req_cls)
{ (void) cls; (void) c; (void) url; (void) method; (void) version; (void) upload_data; (void) upload_data_size; (void) req_cls; return MHD_NO; }

static int set_daemon (int lvl, size_t pool)
{
  if (dmn && lvl == cur_lvl && pool == cur_pool) return 1;
  if (dmn) { MHD_stop_daemon (dmn); dmn = NULL; }
  dmn = MHD_start_daemon (MHD_USE_NO_LISTEN_SOCKET, 0, NULL, NULL, &dummy_handler, NULL,
                          MHD_OPTION_CLIENT_DISCIPLINE_LVL, lvl,
                          MHD_OPTION_CONNECTION_MEMORY_LIMIT, pool,
                          MHD_OPTION_URI_LOG_CALLBACK, &uri_log_cb, NULL,
                          MHD_OPTION_END);
  cur_lvl = lvl; cur_pool = pool;
  return NULL != dmn;
}

static void conn_release (void)
{
  unpoison_all ();
  if (conn.rp.response) { MHD_destroy_response (conn.rp.response); conn.rp.response = NULL; }
  if (conn.pool) { MHD_pool_destroy (conn.pool); conn.pool = NULL; }
  rb_base = NULL; rb_cap = 0;
}

static int conn_init (size_t rbsize)
{
  conn_release ();
  memset (&conn, 0, sizeof(conn));
  conn.daemon = dmn;
  conn.pool = MHD_pool_create (dmn->pool_size);
  if (NULL == conn.pool) return 0;
  conn.state = MHD_CONNECTION_INIT;
  conn.socket_fd = MHD_INVALID_SOCKET;
  conn.rq.http_mthd = MHD_HTTP_MTHD_NO_METHOD;
  conn.rq.http_ver = MHD_HTTP_VER_UNKNOWN;
  conn.keepalive = MHD_CONN_KEEPALIVE_UNKOWN;
  rawtgt_set = 0; rawtgt_len = 0;
  if (rbsize)
  {
    conn.read_buffer = (char *) MHD_pool_reallocate (conn.pool, NULL, 0, rbsize);
    if (NULL == conn.read_buffer) return 0;
    conn.read_buffer_size = rbsize;
  }
  rb_base = conn.read_buffer; rb_cap = rbsize;
  return 1;
}

/* run the parsers as MHD_connection_handle_idle does, up to HEADERS_RECEIVED + cookies.
   returns 0 = need more data, 1 = head complete, 2 = error (reply queued or closed) */
static int run_head (void)
{
  struct MHD_Connection *c = &conn;
  int r = -1;
  /* poison what has not been received */
  if (c->read_buffer && c->read_buffer_size > c->read_buffer_offset)
    ASAN_POISON_MEMORY_REGION (c->read_buffer + c->read_buffer_offset, c->read_buffer_size - c->read_buffer_offset);
  while (r < 0)
  {
    switch (c->state)
    {
    case MHD_CONNECTION_INIT:
    case MHD_CONNECTION_REQ_LINE_RECEIVING:
      if (get_request_line (c)) continue;
      r = 0; break;
    case MHD_CONNECTION_REQ_LINE_RECEIVED:
      switch_to_rq_headers_processing (c);
      continue;
    case MHD_CONNECTION_REQ_HEADERS_RECEIVING:
      if (get_req_headers (c, false)) continue;
      r = 0; break;
    case MHD_CONNECTION_HEADERS_RECEIVED:
      (void) parse_cookie_header (c);
      r = 1; break;
    default:
      r = 2; break;
    }
  }
  if (NULL != c->pool) unpoison_all ();
  return r;
}

struct kvacc { int n; };
static enum MHD_Result kv_iter (void *cls, enum MHD_ValueKind kind, const char *key, size_t key_size,
                                const char *value, size_t value_size)
{
  struct kvacc *a = (struct kvacc *) cls;
  if (a->n++) o_str (",");
  o_int ((int) kind); o_str (":"); o_hex (key, key_size); o_str ("="); o_hex (value, value_size);
  return MHD_YES;
}

static void print_kv (enum MHD_ValueKind kinds)
{
  struct kvacc acc = {0};
  o_str ("[");
  MHD_get_connection_values_n (&conn, kinds, &kv_iter, &acc);
  o_str ("]");
}

/* feed the chunks; result line into obuf */
static void do_head (size_t nchunks, uint8_t **chunks, const size_t *lens)
{
  struct MHD_Connection *c = &conn;
  size_t i; int r = 0;
  o_reset ();
  for (i = 0; i < nchunks && 2 != r; i++)
  {
    if (lens[i] > c->read_buffer_size - c->read_buffer_offset) { o_str ("bad-op"); return; }
    memcpy (c->read_buffer + c->read_buffer_offset, chunks[i], lens[i]);
    c->read_buffer_offset += lens[i];
    if (0 == r) r = run_head ();  /* after completion further bytes are pipelined data: they just arrive */
  }
  if (0 == r)
  {
    o_str ("more c="); o_num ((uint64_t) (c->read_buffer - rb_base));
    return;
  }
  if (2 == r)
  {
    o_str ("err ");
    if (MHD_CONNECTION_CLOSED == c->state || NULL == c->rp.response) o_str ("close");
    else o_num (c->rp.responseCode);
    return;
  }
  o_str ("ok m="); o_hex (c->rq.method, strlen (c->rq.method));
  o_str (" u="); o_hex (c->rq.url, strlen (c->rq.url));
  o_str (" v="); o_hex (c->rq.version, strlen (c->rq.version));
  o_str (" hv="); o_int ((int) c->rq.http_ver);
  o_str (" raw="); if (rawtgt_set) o_hex (rawtgt, rawtgt_len); else o_str ("~");
  o_str (" kv="); print_kv ((enum MHD_ValueKind) (MHD_HEADER_KIND | MHD_COOKIE_KIND | MHD_GET_ARGUMENT_KIND | MHD_FOOTER_KIND));
  o_str (" hs="); o_num (c->rq.header_size);
  o_str (" rb="); o_num ((uint64_t) (c->read_buffer - rb_base));
  o_str (" rbsz="); o_num (c->read_buffer_size);
  o_str (" rest="); o_hex (c->read_buffer, c->read_buffer_offset);
}

static const char *line_class (const char *s) { return s; }

/* ------------------------------------------------------------------ enumeration */
struct enumst { uint64_t digest, n, nok, nerr, nmore, splitdiff; uint8_t first[64]; size_t firstlen; int havefirst; };

static void classify (struct enumst *e)
{
  if (!strncmp (obuf, "ok", 2) || !strncmp (obuf, "yes", 3) || !strncmp (obuf, "res=1", 5) || !strncmp (obuf, "res=2", 5)) e->nok++;
  else if (!strncmp (obuf, "err", 3) || !strncmp (obuf, "no", 2) || !strncmp (obuf, "res=", 4)) e->nerr++;
  else e->nmore++;
}

static void enum_head_case (struct enumst *e, size_t rbsize, const uint8_t *in, size_t len, const uint8_t *m, size_t mlen)
{
  static char one[1 << 16];
  uint8_t *ch[1]; size_t ln[1];
  static uint8_t *bch[256]; static size_t bln[256];
  size_t i;
  conn_init (rbsize);
  ch[0] = (uint8_t *) in; ln[0] = len;
  do_head (len ? 1 : 0, ch, ln);
  e->digest = fnv (e->digest, obuf, olen); e->n++; classify (e);
  if (olen < sizeof(one)) memcpy (one, obuf, olen + 1); else one[0] = 0;
  conn_init (rbsize);
  if (len > 256) { return; }
  for (i = 0; i < len; i++) { bch[i] = (uint8_t *) in + i; bln[i] = 1; }
  do_head (len, bch, bln);
  e->digest = fnv (e->digest, obuf, olen);
  /* split-independence oracle: same class; identical when accepted or waiting */
  if (!((!strncmp (one, "err", 3) && !strncmp (obuf, "err", 3)) || 0 == strcmp (one, obuf)))
  {
    e->splitdiff++;
    if (!e->havefirst) { e->havefirst = 1; e->firstlen = mlen < sizeof(e->first) ? mlen : sizeof(e->first); memcpy (e->first, m, e->firstlen); }
  }
}

static void do_args (int lvl, const uint8_t *s, size_t n);
static void do_cookie (int lvl, const uint8_t *s, size_t n);

/* kind: 0 head, 1 args, 2 cookie */
static void enum_rec (struct enumst *e, int kind, int lvl, size_t rbsize, uint8_t *work, size_t prelen, size_t mlen, size_t maxlen,
                      const uint8_t *suf, size_t suflen)
{
  size_t a;
  if (mlen <= 3) lp_watchdog_kick ();  /* one script line enumerates up to 16^7 cases: still making progress */
  memcpy (work + prelen + mlen, suf, suflen);
  if (0 == kind) enum_head_case (e, rbsize, work, prelen + mlen + suflen, work + prelen, mlen);
  else
  {
    if (1 == kind) do_args (lvl, work, prelen + mlen + suflen); else do_cookie (lvl, work, prelen + mlen + suflen);
    e->digest = fnv (e->digest, obuf, olen); e->n++; classify (e);
  }
  if (mlen == maxlen) return;
  for (a = 0; a < 16; a++)
  {
    work[prelen + mlen] = ALPHA[a];
    enum_rec (e, kind, lvl, rbsize, work, prelen, mlen + 1, maxlen, suf, suflen);
  }
}

static void print_enum (const struct enumst *e)
{
  printf ("digest=%016" PRIx64 " n=%" PRIu64 " ok=%" PRIu64 " err=%" PRIu64 " more=%" PRIu64 " splitdiff=%" PRIu64 " first=",
          e->digest, e->n, e->nok, e->nerr, e->nmore, e->splitdiff);
  if (e->havefirst) lp_puthex (stdout, e->first, e->firstlen); else putchar ('~');
  putchar ('\n');
}

/* ------------------------------------------------------------------ args / cookies alone */
static void do_args (int lvl, const uint8_t *s, size_t n)
{
  char *str;
  enum MHD_Result r;
  (void) lvl;
  o_reset ();
  conn_init (0);
  conn.state = MHD_CONNECTION_REQ_LINE_RECEIVING;
  str = (char *) malloc (n + 1);       /* exact size: ASan sees any over-read */
  memcpy (str, s, n); str[n] = 0;
  r = MHD_parse_arguments_ (&conn, MHD_GET_ARGUMENT_KIND, str, &connection_add_header, &conn);
  o_str (MHD_NO == r ? "no " : "yes "); print_kv (MHD_GET_ARGUMENT_KIND);
  conn_release ();
  free (str);
}

static void do_cookie (int lvl, const uint8_t *s, size_t n)
{
  char *val;
  enum _MHD_ParseCookie r;
  (void) lvl;
  o_reset ();
  conn_init (0);
  conn.state = MHD_CONNECTION_HEADERS_RECEIVED;
  val = (char *) malloc (n + 1);
  memcpy (val, s, n); val[n] = 0;
  MHD_set_connection_value_n_nocheck_ (&conn, MHD_HEADER_KIND, MHD_HTTP_HEADER_COOKIE,
                                       MHD_STATICSTR_LEN_ (MHD_HTTP_HEADER_COOKIE), val, strlen (val));
  r = parse_cookie_header (&conn);
  o_str ("res="); o_int ((int) r); o_str (" "); print_kv (MHD_COOKIE_KIND);
  conn_release ();
  free (val);
}

/* ------------------------------------------------------------------ main */
int main (void)
{
  struct lp_line l = {0};
  setvbuf (stdout, NULL, _IOFBF, 1 << 16);
  MHD_set_panic_func (NULL, NULL);
  while (lp_read (stdin, &l))
  {
    const char *op = l.w[0];
    int lvl; uint64_t pool, rbsize, maxlen;
    fflush (stdout);   /* a later abort must not swallow the results of completed ops */
    (void) line_class;
    if (!strcmp (op, "head") && l.n >= 4 && lp_u64 (l.w[2], &pool) && lp_u64 (l.w[3], &rbsize) && pool >= 64 && pool <= (1u << 20)
        && rbsize <= pool)
    {
      static uint8_t *ch[LP_MAXW]; static size_t ln[LP_MAXW];
      int i, bad = 0, nch = l.n - 4;
      lvl = atoi (l.w[1]);
      for (i = 0; i < nch; i++) { ch[i] = lp_unhex (l.w[4 + i], &ln[i]); if (!ch[i]) bad = 1; }
      if (bad || !set_daemon (lvl, (size_t) pool) || !conn_init ((size_t) rbsize)) puts ("bad-op");
      else { do_head ((size_t) nch, ch, ln); puts (obuf); conn_release (); }
      for (i = 0; i < nch; i++) free (ch[i]);
      continue;
    }
    if (!strcmp (op, "enum") && l.n == 7 && lp_u64 (l.w[2], &pool) && lp_u64 (l.w[3], &rbsize) && lp_u64 (l.w[4], &maxlen)
        && pool >= 64 && pool <= (1u << 20) && rbsize <= pool && maxlen <= 8)
    {
      size_t prelen, suflen; uint8_t *pre = lp_unhex (l.w[5], &prelen), *suf = lp_unhex (l.w[6], &suflen);
      lvl = atoi (l.w[1]);
      if (!pre || !suf || prelen + maxlen + suflen > rbsize || prelen + maxlen + suflen > 250 || !set_daemon (lvl, (size_t) pool)) puts ("bad-op");
      else
      {
        struct enumst e; static uint8_t work[512];
        memset (&e, 0, sizeof(e)); e.digest = 14695981039346656037ULL;
        memcpy (work, pre, prelen);
        enum_rec (&e, 0, lvl, (size_t) rbsize, work, prelen, 0, (size_t) maxlen, suf, suflen);
        print_enum (&e); conn_release ();
      }
      free (pre); free (suf);
      continue;
    }
    if ((!strcmp (op, "args") || !strcmp (op, "cookie")) && l.n == 3)
    {
      size_t n; uint8_t *s = lp_unhex (l.w[2], &n);
      lvl = atoi (l.w[1]);
      if (!s || !set_daemon (lvl, 32768)) puts ("bad-op");
      else { if (!strcmp (op, "args")) do_args (lvl, s, n); else do_cookie (lvl, s, n); puts (obuf); }
      free (s);
      continue;
    }
    if (!strcmp (op, "lookup") && l.n >= 3 && 0 == (l.n - 3) % 3)
    {
      static uint8_t *nm[LP_MAXW], *vl[LP_MAXW]; static size_t nl[LP_MAXW], vn[LP_MAXW];
      int i, ne = (l.n - 3) / 3, bad = 0;
      size_t klen; uint8_t *key = lp_unhex (l.w[2], &klen);
      unsigned mask = (unsigned) atoi (l.w[1]);
      for (i = 0; i < ne; i++)
      {
        nm[i] = lp_unhex (l.w[3 + 3 * i + 1], &nl[i]);
        if (!strcmp (l.w[3 + 3 * i + 2], "~")) { vl[i] = NULL; vn[i] = 0; }
        else { vl[i] = lp_unhex (l.w[3 + 3 * i + 2], &vn[i]); if (!vl[i]) bad = 1; }
        if (!nm[i]) bad = 1;
      }
      if (bad || !key || !set_daemon (0, 32768) || !conn_init (0)) puts ("bad-op");
      else
      {
        const char *val = NULL; size_t vlen = 0; enum MHD_Result r;
        char *kz = (char *) malloc (klen + 1);            /* exact size + NUL: ASan sees over-reads */
        memcpy (kz, key, klen); kz[klen] = 0;
        o_reset ();
        for (i = 0; i < ne; i++)
        { /* the strings must be NUL-terminated like every string MHD stores */
          char *n2 = (char *) MHD_pool_allocate (conn.pool, nl[i] + 1, false);
          char *v2 = vl[i] ? (char *) MHD_pool_allocate (conn.pool, vn[i] + 1, false) : NULL;
          memcpy (n2, nm[i], nl[i]); n2[nl[i]] = 0;
          if (v2) { memcpy (v2, vl[i], vn[i]); v2[vn[i]] = 0; }
          MHD_set_connection_value_n_nocheck_ (&conn, (enum MHD_ValueKind) atoi (l.w[3 + 3 * i]), n2, nl[i], v2, vn[i]);
        }
        r = MHD_lookup_connection_value_n (&conn, (enum MHD_ValueKind) mask, kz, klen, &val, &vlen);
        if (MHD_NO == r) o_str ("no");
        else { o_str ("yes "); o_hex (val, vlen); }
        if (NULL == memchr (kz, 0, klen))
        {
          const char *z = MHD_lookup_connection_value (&conn, (enum MHD_ValueKind) mask, kz);
          o_str (" z="); o_hex (z, z ? strlen (z) : 0);
        }
        puts (obuf);
        free (kz);
        conn_release ();
      }
      free (key);
      for (i = 0; i < ne; i++) { free (nm[i]); free (vl[i]); }
      continue;
    }
    if ((!strcmp (op, "enumargs") || !strcmp (op, "enumck")) && l.n == 5 && lp_u64 (l.w[2], &maxlen) && maxlen <= 8)
    {
      size_t prelen, suflen; uint8_t *pre = lp_unhex (l.w[3], &prelen), *suf = lp_unhex (l.w[4], &suflen);
      lvl = atoi (l.w[1]);
      if (!pre || !suf || prelen + maxlen + suflen > 250 || !set_daemon (lvl, 32768)) puts ("bad-op");
      else
      {
        struct enumst e; static uint8_t work[512];
        memset (&e, 0, sizeof(e)); e.digest = 14695981039346656037ULL;
        memcpy (work, pre, prelen);
        enum_rec (&e, !strcmp (op, "enumargs") ? 1 : 2, lvl, 0, work, prelen, 0, (size_t) maxlen, suf, suflen);
        print_enum (&e);
      }
      free (pre); free (suf);
      continue;
    }
    puts ("bad-op");
  }
  conn_release ();
  if (dmn) MHD_stop_daemon (dmn);
  free (l.buf);
  return 0;
}
