/* Correspondence harness for the nonce-nc map of src/microhttpd/digestauth.c
   (engine "nonce").  White-box include: the static functions
   get_nonce_timestamp, fast_simple_hash, check_nonce_nc, calculate_add_nonce
   are called directly, and MHD_digest_auth_check3 is called on a fabricated
   connection whose parsed Authorization parameters are supplied by the script.
   The monotonic clock is virtual (mhd_mono_clock.c is not linked).
   No source change in /repo is needed. */
#include "MHD_config.h"
#include <stdlib.h>
/* the pseudo-random source of calculate_add_nonce_with_retry is scripted */
static long verif_random_value;
static long verif_random (void) { return verif_random_value; }
static int verif_rand (void) { return (int) verif_random_value; }
#define random verif_random
#define rand verif_rand
#include "digestauth.c"
#undef random
#undef rand
#include "common/lp.h"

/* ---- virtual clock (replaces mhd_mono_clock.c) ---- */
static uint64_t vclock_ms;
static int vclock_scripted;      /* inside `genr`: the first reading is vclock_ms, later ones vclock_second */
static unsigned int vclock_reads;
static uint64_t vclock_second;
void MHD_monotonic_sec_counter_init (void) { }
void MHD_monotonic_sec_counter_finish (void) { }
time_t MHD_monotonic_sec_counter (void) { return (time_t) (vclock_ms / 1000); }
uint64_t MHD_monotonic_msec_counter (void)
{
  if (vclock_scripted && 0 != vclock_reads++) return vclock_second;
  return vclock_ms;
}

/* ---- fabricated daemon and connection ---- */
static struct MHD_Daemon daemon_s;
static struct MHD_Connection conn_s;
static struct sockaddr_storage addr_s;
static struct sockaddr_storage *conn_addr;   /* scripted address, exact size */
static const char rnd_seed[] = "verif-fixed-seed";

static size_t
unescape_nop (void *cls, struct MHD_Connection *c, char *s)
{
  (void) cls; (void) c;
  return strlen (s);
}

static void
set_table (unsigned int n)
{
  free (daemon_s.nnc);
  daemon_s.nnc = NULL;
  daemon_s.nonce_nc_size = n;
  if (n > 0)
  { /* as MHD_start_daemon does */
    daemon_s.nnc = MHD_calloc_ (n, sizeof (struct MHD_NonceNc));
    if (NULL == daemon_s.nnc) abort ();
  }
}

static void
setup (void)
{
  struct sockaddr_in *sa = (struct sockaddr_in *) &addr_s;
  memset (&daemon_s, 0, sizeof (daemon_s));
  memset (&conn_s, 0, sizeof (conn_s));
  memset (&addr_s, 0, sizeof (addr_s));
  sa->sin_family = AF_INET;
  sa->sin_port = htons (4242);
  sa->sin_addr.s_addr = htonl (0x7f000001);
  if (! MHD_mutex_init_ (&daemon_s.nnc_lock)) abort ();
  daemon_s.digest_auth_random = rnd_seed;
  daemon_s.digest_auth_rand_size = sizeof (rnd_seed) - 1;
  daemon_s.dauth_bind_type = MHD_DAUTH_BIND_NONCE_NONE;
  daemon_s.dauth_def_nonce_timeout = MHD_DAUTH_DEF_TIMEOUT_;
  daemon_s.dauth_def_max_nc = MHD_DAUTH_DEF_MAX_NC_;
  daemon_s.unescape_callback = &unescape_nop;
  conn_s.daemon = &daemon_s;
  conn_s.addr = &addr_s;
  conn_s.addr_len = (socklen_t) sizeof (struct sockaddr_in);
  conn_s.rq.http_mthd = MHD_HTTP_MTHD_GET;
  conn_s.rq.method = "GET";
  conn_s.rq.url = "/";
  conn_s.rq.url_len = 1;
  conn_s.rq.headers_received = NULL;
  conn_s.state = MHD_CONNECTION_HEADERS_PROCESSED;
}

/* ---- scripted request (what calculate_nonce may bind a nonce to) ---- */
static char *rq_method, *rq_url, *rq_rnd;
static int have_daemon, have_rq;   /* `gen` / `genr` need both lines first */
static struct MHD_HTTP_Req_Header *rq_args;

static void
free_args (void)
{
  while (NULL != rq_args)
  {
    struct MHD_HTTP_Req_Header *n = rq_args->next;
    free ((void *) rq_args->header); free ((void *) rq_args->value); free (rq_args);
    rq_args = n;
  }
  conn_s.rq.headers_received = NULL;
}

/* "none" or k[=v],k[=v]… (hex); a header-kind entry is put in front of every argument so that
   the kind filter of calculate_nonce is exercised */
static int
set_args (const char *spec)
{
  struct MHD_HTTP_Req_Header **tail = &rq_args;
  char *copy, *tok, *save = NULL;
  free_args ();
  if (0 == strcmp (spec, "none")) return 1;
  copy = strdup (spec);
  for (tok = strtok_r (copy, ",", &save); NULL != tok; tok = strtok_r (NULL, ",", &save))
  {
    struct MHD_HTTP_Req_Header *h, *g;
    char *eq = strchr (tok, '=');
    size_t kl, vl = 0; uint8_t *k, *v = NULL;
    if (eq) *eq = 0;
    k = lp_unhex (tok, &kl);
    if (eq) v = lp_unhex (eq + 1, &vl);
    if (NULL == k || (eq && NULL == v)) { free (k); free (v); free (copy); return 0; }
    g = (struct MHD_HTTP_Req_Header *) calloc (1, sizeof (*g));
    g->kind = MHD_HEADER_KIND; g->header = strdup ("X"); g->header_size = 1; g->value = strdup ("y"); g->value_size = 1;
    h = (struct MHD_HTTP_Req_Header *) calloc (1, sizeof (*h));
    h->kind = MHD_GET_ARGUMENT_KIND;
    h->header = (char *) k; h->header_size = kl;      /* exact size, not terminated */
    h->value = (char *) v; h->value_size = vl;
    *tail = g; g->next = h; tail = &h->next;
  }
  free (copy);
  conn_s.rq.headers_received = rq_args;
  return 1;
}

static int
base_algo (uint64_t a, enum MHD_DigestBaseAlgo *b, enum MHD_DigestAuthAlgo3 *a3)
{
  switch (a)
  {
  case 0: *b = MHD_DIGEST_BASE_ALGO_MD5; *a3 = MHD_DIGEST_AUTH_ALGO3_MD5; return 1;
  case 1: *b = MHD_DIGEST_BASE_ALGO_SHA256; *a3 = MHD_DIGEST_AUTH_ALGO3_SHA256; return 1;
  case 2: *b = MHD_DIGEST_BASE_ALGO_SHA512_256; *a3 = MHD_DIGEST_AUTH_ALGO3_SHA512_256; return 1;
  default: return 0;
  }
}

/* run the real calculate_add_nonce; the produced nonce goes to out (exact size) */
static int
do_add (uint64_t ts, enum MHD_DigestBaseAlgo b, const uint8_t *salt, size_t salt_len,
        char **out, size_t *out_len)
{
  struct DigestAlgorithm da;
  bool r;
  digest_setup_zero (&da);
  if (! digest_init_one_time (&da, b)) abort ();
  *out_len = NONCE_STD_LEN (digest_get_size (&da));
  *out = (char *) malloc (*out_len);   /* exact size: "NOT zero-terminated" */
  r = calculate_add_nonce (&conn_s, ts, (const char *) salt, salt_len, &da, *out);
  digest_deinit (&da);
  return r ? 1 : 0;
}

static const char *
nc_name (enum MHD_CheckNonceNC_ r)
{
  switch (r)
  {
  case MHD_CHECK_NONCENC_OK: return "ok";
  case MHD_CHECK_NONCENC_STALE: return "stale";
  case MHD_CHECK_NONCENC_WRONG: return "wrong";
  default: return "other";
  }
}

static void
set_param (struct MHD_RqDAuthParam *p, const void *data, size_t len)
{
  /* exact-size heap copy, not terminated, so that ASan sees any over-read */
  char *b = (char *) malloc (len ? len : 1);
  if (len) memcpy (b, data, len);
  p->value.str = b;
  p->value.len = len;
  p->quoted = false;
}

int main (void)
{
  struct lp_line l = {0};
  setup ();
  while (lp_read (stdin, &l))
  {
    uint64_t a, b, c;
    if (l.n == 2 && !strcmp (l.w[0], "table") && lp_u64 (l.w[1], &a) && a <= 64)
    {
      set_table ((unsigned int) a);
      puts ("ok");
    }
    else if (l.n == 2 && !strcmp (l.w[0], "clock") && lp_u64 (l.w[1], &a))
    {
      vclock_ms = a;
      puts ("ok");
    }
    else if (l.n == 4 && !strcmp (l.w[0], "mknonce") && lp_u64 (l.w[1], &a) && lp_u64 (l.w[2], &b))
    { /* pre-query used by the script generator only: what nonce does the real
         calculate_add_nonce produce for (timestamp, algorithm, realm)?  A
         zero-size table makes it return right after calculate_nonce. */
      enum MHD_DigestBaseAlgo ba; enum MHD_DigestAuthAlgo3 a3;
      size_t sl, ol; char *o;
      uint8_t *salt = lp_unhex (l.w[3], &sl);
      if (!salt || !base_algo (b, &ba, &a3)) { free (salt); puts ("bad-op"); continue; }
      {
        unsigned int keep_n = daemon_s.nonce_nc_size;
        daemon_s.nonce_nc_size = 0;
        (void) do_add (a, ba, salt, sl, &o, &ol);
        daemon_s.nonce_nc_size = keep_n;
      }
      printf ("nonce "); lp_puthex (stdout, o, ol); putchar ('\n');
      free (o); free (salt);
    }
    else if (l.n == 5 && !strcmp (l.w[0], "add") && lp_u64 (l.w[1], &a) && lp_u64 (l.w[2], &b))
    {
      enum MHD_DigestBaseAlgo ba; enum MHD_DigestAuthAlgo3 a3;
      size_t sl, el, ol; char *o; int r;
      uint8_t *salt = lp_unhex (l.w[3], &sl);
      uint8_t *exp = lp_unhex (l.w[4], &el);
      if (!salt || !exp || !base_algo (b, &ba, &a3)) { free (salt); free (exp); puts ("bad-op"); continue; }
      r = do_add (a, ba, salt, sl, &o, &ol);
      if (ol != el || 0 != memcmp (o, exp, ol))
        puts ("nonce-mismatch");
      else
        puts (r ? "added" : "refused");
      free (o); free (salt); free (exp);
    }
    else if (l.n == 3 && !strcmp (l.w[0], "check") && lp_u64 (l.w[2], &c))
    { /* as the caller does: the time stamp is read from the presented nonce */
      size_t nl; uint64_t t = 0;
      uint8_t *n = lp_unhex (l.w[1], &nl);
      if (!n || 0 == nl) { free (n); puts ("bad-op"); continue; }
      if (! get_nonce_timestamp ((const char *) n, nl, &t))
        puts ("wrong");
      else
        puts (nc_name (check_nonce_nc (&conn_s, (const char *) n, nl, t, c)));
      free (n);
    }
    else if (l.n == 4 && !strcmp (l.w[0], "checkt") && lp_u64 (l.w[2], &b) && lp_u64 (l.w[3], &c))
    {
      size_t nl;
      uint8_t *n = lp_unhex (l.w[1], &nl);
      if (!n || 0 == nl) { free (n); puts ("bad-op"); continue; }
      puts (nc_name (check_nonce_nc (&conn_s, (const char *) n, nl, b, c)));
      free (n);
    }
    else if (l.n == 2 && !strcmp (l.w[0], "ts"))
    {
      size_t nl; uint64_t t = 0;
      uint8_t *n = lp_unhex (l.w[1], &nl);
      if (!n || 0 == nl) { free (n); puts ("bad-op"); continue; }
      if (get_nonce_timestamp ((const char *) n, nl, &t)) printf ("ts %" PRIu64 "\n", t);
      else puts ("invalid");
      free (n);
    }
    else if (l.n == 2 && !strcmp (l.w[0], "tsz"))
    { /* zero-terminated, length auto-detected (as is_slot_available calls it) */
      size_t nl; uint64_t t = 0;
      uint8_t *n = lp_unhex (l.w[1], &nl);
      char *z;
      if (!n) { puts ("bad-op"); continue; }
      z = (char *) malloc (nl + 1);
      memcpy (z, n, nl); z[nl] = 0;
      if (get_nonce_timestamp (z, 0, &t)) printf ("ts %" PRIu64 "\n", t);
      else puts ("invalid");
      free (z); free (n);
    }
    else if (l.n == 2 && !strcmp (l.w[0], "hash"))
    {
      size_t nl;
      uint8_t *n = lp_unhex (l.w[1], &nl);
      if (!n) { puts ("bad-op"); continue; }
      printf ("hash %" PRIu32 "\n", fast_simple_hash (n, nl));
      free (n);
    }
    else if (l.n == 8 && !strcmp (l.w[0], "auth") && lp_u64 (l.w[2], &a) && lp_u64 (l.w[3], &b)
             && lp_u64 (l.w[4], &c))
    { /* a whole presentation through one of the public entry points (w[1]):
           c3  MHD_digest_auth_check3          d3  MHD_digest_auth_check_digest3
           c2  MHD_digest_auth_check2          dg2 MHD_digest_auth_check_digest2
           c1  MHD_digest_auth_check           dg1 MHD_digest_auth_check_digest
         each called with its own argument convention; the script supplies the already
         parsed Authorization parameters (the header parser is C14's subject) */
      enum MHD_DigestBaseAlgo ba; enum MHD_DigestAuthAlgo3 a3;
      struct MHD_RqDAuth *p;
      enum MHD_DigestAuthResult res = MHD_DAUTH_ERROR;
      int lres = 0, legacy = 1;
      const char *api = l.w[1];
      size_t nl;
      uint8_t udig[MAX_DIGEST];
      size_t udig_size;
      enum MHD_DigestAuthAlgorithm lalgo;
      uint8_t *n = lp_unhex (l.w[5], &nl);
      const char *nctxt = strcmp (l.w[6], "-") ? l.w[6] : "";
      int api_ok;
      if (!n || !base_algo (a, &ba, &a3) || b >= ((uint64_t) 1 << 32) || c >= ((uint64_t) 1 << 32))
      { free (n); puts ("bad-op"); continue; }
      /* the legacy entry points have no max_nc parameter; _check and _check_digest are
         MD5 only; _check_digest2 needs exactly one of MD5 / SHA-256 */
      api_ok = (!strcmp (api, "c3") || !strcmp (api, "d3"))
               || (!strcmp (api, "c2") && 0 == c)
               || (!strcmp (api, "c1") && 0 == c && 0 == a)
               || (!strcmp (api, "dg2") && 0 == c && a <= 1)
               || (!strcmp (api, "dg1") && 0 == c && 0 == a);
      if (!api_ok) { free (n); puts ("bad-op"); continue; }
      lalgo = (0 == a) ? MHD_DIGEST_ALG_MD5 : ((1 == a) ? MHD_DIGEST_ALG_SHA256 : MHD_DIGEST_ALG_AUTO);
      udig_size = digest_get_hash_size (a3);
      if (MHD_YES != MHD_digest_auth_calc_userdigest (a3, "user", "realm", "pass", udig, udig_size)) abort ();
      p = (struct MHD_RqDAuth *) calloc (1, sizeof (*p));
      set_param (&p->nonce, n, nl);
      set_param (&p->response, l.w[7], strlen (l.w[7]));
      set_param (&p->username, "user", 4);
      set_param (&p->realm, "realm", 5);
      set_param (&p->uri, "/", 1);
      set_param (&p->qop_raw, "auth", 4);
      set_param (&p->cnonce, "cn", 2);
      set_param (&p->nc, nctxt, strlen (nctxt));
      p->userhash = false;
      p->algo3 = a3;
      p->qop = MHD_DIGEST_AUTH_QOP_AUTH;
      conn_s.rq.dauth_tried = true;
      conn_s.rq.dauth = p;
      if (!strcmp (api, "c3"))
      {
        legacy = 0;
        res = MHD_digest_auth_check3 (&conn_s, "realm", "user", "pass", (unsigned int) b, (uint32_t) c,
                                      MHD_DIGEST_AUTH_MULT_QOP_AUTH,
                                      MHD_DIGEST_AUTH_MULT_ALGO3_ANY_NON_SESSION);
      }
      else if (!strcmp (api, "d3"))
      {
        legacy = 0;
        res = MHD_digest_auth_check_digest3 (&conn_s, "realm", "user", udig, udig_size,
                                             (unsigned int) b, (uint32_t) c,
                                             MHD_DIGEST_AUTH_MULT_QOP_AUTH,
                                             (enum MHD_DigestAuthMultiAlgo3) a3);
      }
      else if (!strcmp (api, "c2"))
        lres = MHD_digest_auth_check2 (&conn_s, "realm", "user", "pass", (unsigned int) b, lalgo);
      else if (!strcmp (api, "c1"))
        lres = MHD_digest_auth_check (&conn_s, "realm", "user", "pass", (unsigned int) b);
      else if (!strcmp (api, "dg2"))
        lres = MHD_digest_auth_check_digest2 (&conn_s, "realm", "user", udig, udig_size, (unsigned int) b, lalgo);
      else
        lres = MHD_digest_auth_check_digest (&conn_s, "realm", "user", udig, (unsigned int) b);
      if (legacy)
      {
        if (MHD_YES == lres) puts ("yes");
        else if (MHD_INVALID_NONCE == lres) puts ("invalid");
        else if (MHD_NO == lres) puts ("no");
        else printf ("other %d\n", lres);
      }
      else
        switch (res)
        {
        case MHD_DAUTH_OK: puts ("ok"); break;
        case MHD_DAUTH_NONCE_STALE: puts ("stale"); break;
        case MHD_DAUTH_NONCE_WRONG: puts ("wrong"); break;
        case MHD_DAUTH_WRONG_HEADER: puts ("hdr"); break;
        case MHD_DAUTH_RESPONSE_WRONG: puts ("resp-wrong"); break;
        default: printf ("other %d\n", (int) res); break;
        }
      conn_s.rq.dauth = NULL;
      free ((void *) p->nonce.value.str); free ((void *) p->response.value.str);
      free ((void *) p->username.value.str); free ((void *) p->realm.value.str);
      free ((void *) p->uri.value.str); free ((void *) p->qop_raw.value.str);
      free ((void *) p->cnonce.value.str); free ((void *) p->nc.value.str);
      free (p); free (n);
    }
    else if (l.n == 3 && !strcmp (l.w[0], "daemon") && lp_u64 (l.w[1], &a) && a < 16)
    { /* dauth_bind_type as parse_options_va stores it, and the random seed */
      size_t rl; uint8_t *r = lp_unhex (l.w[2], &rl);
      if (!r) { puts ("bad-op"); continue; }
      free (rq_rnd);
      rq_rnd = (char *) r;                      /* exact size */
      daemon_s.digest_auth_random = rq_rnd;
      daemon_s.digest_auth_rand_size = rl;
      daemon_s.dauth_bind_type = (unsigned int) a;
      have_daemon = 1;
      if (0 != (a & MHD_DAUTH_BIND_NONCE_URI_PARAMS)) daemon_s.dauth_bind_type |= MHD_DAUTH_BIND_NONCE_URI;
      puts ("ok");
    }
    else if (l.n == 6 && !strcmp (l.w[0], "rq") && lp_u64 (l.w[1], &a) && a <= 1000)
    { /* rq <http_mthd> <method token> <url-hex> <args> <sockaddr-hex | -> */
      size_t ul, al = 0; uint8_t *u = lp_unhex (l.w[3], &ul);
      uint8_t *ad = strcmp (l.w[5], "-") ? lp_unhex (l.w[5], &al) : NULL;
      if (!u || (strcmp (l.w[5], "-") && !ad) || !(0 == al || sizeof (struct sockaddr_in) == al || sizeof (struct sockaddr_in6) == al)
          || !set_args (l.w[4]))
      { free (u); free (ad); puts ("bad-op"); continue; }
      free (rq_method); free (rq_url);
      rq_method = strdup (l.w[2]);
      rq_url = (char *) u;                      /* exact size, not terminated */
      conn_s.rq.http_mthd = (enum MHD_HTTP_Method) a;
      conn_s.rq.method = rq_method;
      conn_s.rq.url = rq_url;
      conn_s.rq.url_len = ul;
      free (conn_addr);
      conn_addr = (struct sockaddr_storage *) ad;   /* exact size: sockaddr_in / sockaddr_in6 / none */
      conn_s.addr = conn_addr ? conn_addr : &addr_s;
      conn_s.addr_len = (socklen_t) al;
      have_rq = 1;
      puts ("ok");
    }
    else if (l.n == 4 && !strcmp (l.w[0], "gen") && lp_u64 (l.w[1], &a) && lp_u64 (l.w[2], &b))
    { /* gen <algo> <timestamp> <realm-hex>: the real calculate_add_nonce on the scripted request */
      enum MHD_DigestBaseAlgo ba; enum MHD_DigestAuthAlgo3 a3;
      size_t sl, ol; char *o; int r;
      uint8_t *salt = lp_unhex (l.w[3], &sl);
      if (!salt || !base_algo (a, &ba, &a3) || !have_daemon || !have_rq) { free (salt); puts ("bad-op"); continue; }
      r = do_add (b, ba, salt, sl, &o, &ol);
      fputs (r ? "added " : "refused ", stdout); lp_puthex (stdout, o, ol); putchar ('\n');
      free (o); free (salt);
    }
    else if (l.n == 5 && !strcmp (l.w[0], "genr") && lp_u64 (l.w[1], &a) && lp_u64 (l.w[2], &b) && lp_u64 (l.w[3], &c)
             && c <= 0x7fffffff)
    { /* genr <algo> <second clock value> <random ()> <realm-hex>: calculate_add_nonce_with_retry; the first
         clock value is the current `clock` */
      enum MHD_DigestBaseAlgo ba; enum MHD_DigestAuthAlgo3 a3;
      struct DigestAlgorithm da;
      size_t sl, ol; char *o, *realm; bool r;
      uint8_t *salt = lp_unhex (l.w[4], &sl);
      if (!salt || !base_algo (a, &ba, &a3) || NULL != memchr (salt, 0, sl) || !have_daemon || !have_rq)
      { free (salt); puts ("bad-op"); continue; }
      realm = (char *) malloc (sl + 1); memcpy (realm, salt, sl); realm[sl] = 0;
      digest_setup_zero (&da);
      if (! digest_init_one_time (&da, ba)) abort ();
      ol = NONCE_STD_LEN (digest_get_size (&da));
      o = (char *) malloc (ol);
      vclock_scripted = 1; vclock_reads = 0; vclock_second = b; verif_random_value = (long) c;
      r = calculate_add_nonce_with_retry (&conn_s, realm, &da, o);
      vclock_scripted = 0;
      digest_deinit (&da);
      fputs (r ? "true " : "false ", stdout); lp_puthex (stdout, o, ol); putchar ('\n');
      free (o); free (salt); free (realm);
    }
    else if (l.n == 1 && !strcmp (l.w[0], "state"))
    {
      printf ("n=%u", daemon_s.nonce_nc_size);
      for (unsigned int i = 0; i < daemon_s.nonce_nc_size; i++)
      {
        /* canonical form: only what can influence a later answer — mask bits at
           positions >= nc are never read, nor is the buffer compared beyond the NUL
           (the left-over bytes behind it are visible through the answers only) */
        const struct MHD_NonceNc *nn = &daemon_s.nnc[i];
        uint64_t m = nn->nmask;
        if (nn->nc < 64) m &= (UINT64_C (1) << nn->nc) - 1;
        printf (" %" PRIu32 ":%016" PRIx64 ":", nn->nc, m);
        lp_puthex (stdout, nn->nonce, strnlen (nn->nonce, sizeof (nn->nonce)));
      }
      putchar ('\n');
    }
    else puts ("bad-op");
  }
  free (daemon_s.nnc);
  free_args (); free (rq_method); free (rq_url); free (rq_rnd); free (conn_addr);
  free (l.buf);
  return 0;
}
