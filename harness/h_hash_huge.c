/* Huge-single-update harness for the hash functions (engine "hash", property C16).
   The model's `length` is a natural number; the C `length` is a size_t that takes part in comparisons
   with `unsigned int` locals.  This harness feeds ONE update call of >= 2^31 / 2^32 / 2^33 bytes — what no
   hex-encoded script can carry — from a read-only anonymous mapping (all pages are the kernel's zero page:
   no memory is used) and reports the digest, to be compared with the same bytes fed in small pieces and
   with an independent implementation of the standards.

   Built WITHOUT sanitizers and with -O2 (4 GiB through ASan code would take minutes); twice, like h_hash.c:
   with the four files of src/microhttpd, or with -DHASH_WS_H=… and src/microhttpd_ws/sha1.c.

   Script ops (one output line each):
     one    <alg> <off> <prefixhex> <len>                 init; update (prefix); update (zeros + off, len); finish
                                                          -> digest <hex>
     pieces <alg> <off> <prefixhex> <len> <piece>         the same bytes, the zeros in calls of at most <piece> bytes
                                                          -> digest <hex>
     multi  <alg> <off> <prefixhex> <base> <piece> <d>…   init; update (prefix); <base> zeros in pieces; then for every
                                                          d: a COPY of the context gets update (zeros, d); finish
                                                          -> digests <hex> <hex> …
   <len> = 0 makes no second update call. */
#include "MHD_config.h"
#ifdef HASH_WS_H
#include HASH_WS_H
#define HASH_WS 1
#else
#include "md5.h"
#include "sha256.h"
#include "sha512_256.h"
#include "sha1.h"
#endif
#include <sys/mman.h>
#include "common/lp.h"

#define MAXDG 64
#define MAPSZ ((((size_t) 1) << 33) + (((size_t) 1) << 20))

typedef void (*init_fn) (void *);
typedef void (*update_fn) (void *, const uint8_t *, size_t);
typedef void (*finish_fn) (void *, uint8_t *);

struct alg
{
  const char *name;
  size_t ctx_size;
  size_t dg_size;
  init_fn init;
  update_fn update;
  finish_fn finish;
};

#ifdef HASH_WS
static void i_sha1 (void *c) { MHD_SHA1_init (c); }
static void u_sha1 (void *c, const uint8_t *d, size_t n) { MHD_SHA1_update (c, d, n); }
static void f_sha1 (void *c, uint8_t *o) { MHD_SHA1_finish (c, o); }
static struct alg algs[] = {
  { "wssha1", sizeof (struct sha1_ctx), SHA1_DIGEST_SIZE, i_sha1, u_sha1, f_sha1 },
};
#else
static void i_md5 (void *c) { MHD_MD5_init (c); }
static void u_md5 (void *c, const uint8_t *d, size_t n) { MHD_MD5_update (c, d, n); }
static void f_md5 (void *c, uint8_t *o) { MHD_MD5_finish (c, o); }
static void i_sha1 (void *c) { MHD_SHA1_init (c); }
static void u_sha1 (void *c, const uint8_t *d, size_t n) { MHD_SHA1_update (c, d, n); }
static void f_sha1 (void *c, uint8_t *o) { MHD_SHA1_finish (c, o); }
static void i_sha256 (void *c) { MHD_SHA256_init (c); }
static void u_sha256 (void *c, const uint8_t *d, size_t n) { MHD_SHA256_update (c, d, n); }
static void f_sha256 (void *c, uint8_t *o) { MHD_SHA256_finish (c, o); }
static void i_sha512 (void *c) { MHD_SHA512_256_init (c); }
static void u_sha512 (void *c, const uint8_t *d, size_t n) { MHD_SHA512_256_update (c, d, n); }
static void f_sha512 (void *c, uint8_t *o) { MHD_SHA512_256_finish (c, o); }
static struct alg algs[] = {
  { "md5", sizeof (struct Md5Ctx), MD5_DIGEST_SIZE, i_md5, u_md5, f_md5 },
  { "sha1", sizeof (struct sha1_ctx), SHA1_DIGEST_SIZE, i_sha1, u_sha1, f_sha1 },
  { "sha256", sizeof (struct Sha256Ctx), SHA256_DIGEST_SIZE, i_sha256, u_sha256, f_sha256 },
  { "sha512_256", sizeof (struct Sha512_256Ctx), SHA512_256_DIGEST_SIZE, i_sha512, u_sha512, f_sha512 },
};
#endif
#define NALG (sizeof (algs) / sizeof (algs[0]))

static struct alg *find (const char *name)
{
  for (size_t i = 0; i < NALG; i++)
    if (! strcmp (algs[i].name, name))
      return &algs[i];
  return NULL;
}

static void feed_pieces (struct alg *a, void *ctx, const uint8_t *z, uint64_t len, uint64_t piece)
{
  while (len > 0)
  {
    uint64_t n = len < piece ? len : piece;
    a->update (ctx, z, (size_t) n);
    z += n;
    len -= n;
  }
}

int main (void)
{
  struct lp_line l = {0};
  uint8_t *zeros;
  setvbuf (stdout, NULL, _IOLBF, 0);
  if (sizeof (size_t) < 8) { fprintf (stderr, "size_t is not 64 bit\n"); return 3; }
  zeros = mmap (NULL, MAPSZ, PROT_READ, MAP_PRIVATE | MAP_ANONYMOUS | MAP_NORESERVE, -1, 0);
  if (MAP_FAILED == (void *) zeros) { perror ("mmap"); return 3; }
  while (lp_read (stdin, &l))
  {
    struct alg *a = (l.n >= 5) ? find (l.w[1]) : NULL;
    uint64_t off, len, piece = 0;
    size_t plen;
    uint8_t *pre;
    uint8_t dg[MAXDG];
    void *ctx;
    int one = a && l.n == 5 && ! strcmp (l.w[0], "one");
    int pcs = a && l.n == 6 && ! strcmp (l.w[0], "pieces");
    int mul = a && l.n >= 7 && ! strcmp (l.w[0], "multi");
    if (! (one || pcs || mul) || ! lp_u64 (l.w[2], &off) || off >= 4096 || ! lp_u64 (l.w[4], &len)
        || len > MAPSZ - 4096 || ((pcs || mul) && (! lp_u64 (l.w[5], &piece) || 0 == piece)))
    { puts ("bad-op"); continue; }
    pre = lp_unhex (l.w[3], &plen);
    if (! pre) { puts ("bad-op"); continue; }
    ctx = malloc (a->ctx_size);
    a->init (ctx);
    a->update (ctx, pre, plen);
    if (one)
    {
      if (len) a->update (ctx, zeros + off, (size_t) len);
    }
    else
      feed_pieces (a, ctx, zeros + off, len, piece);
    if (! mul)
    {
      a->finish (ctx, dg);
      printf ("digest "); lp_puthex (stdout, dg, a->dg_size); putchar ('\n');
    }
    else
    {
      int bad = 0;
      void *c2 = malloc (a->ctx_size);
      for (int i = 6; i < l.n; i++)
      {
        uint64_t d;
        if (! lp_u64 (l.w[i], &d) || d > 4096) { bad = 1; break; }
      }
      if (bad) puts ("bad-op");
      else
      {
        printf ("digests");
        for (int i = 6; i < l.n; i++)
        {
          uint64_t d = 0;
          lp_u64 (l.w[i], &d);
          memcpy (c2, ctx, a->ctx_size);
          if (d) a->update (c2, zeros + ((off + len) & 4095), (size_t) d);
          a->finish (c2, dg);
          putchar (' '); lp_puthex (stdout, dg, a->dg_size);
        }
        putchar ('\n');
      }
      free (c2);
    }
    free (ctx);
    free (pre);
  }
  free (l.buf);
  munmap (zeros, MAPSZ);
  return 0;
}
