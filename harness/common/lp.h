/* Line-protocol helpers shared by all harnesses (header-only). */
#ifndef VERIF_LP_H
#define VERIF_LP_H
#include <stdio.h>
#include <stdlib.h>
#include <string.h>
#include <stdint.h>
#include <inttypes.h>
#include <signal.h>
#include <unistd.h>

#define LP_MAXW 64

/* Watchdog: no script line may take longer than LP_WATCHDOG seconds (default 120, environment
   variable LP_WATCHDOG overrides, 0 disables).  A daemon that deadlocks or wedges (a violation of
   several properties) then ends the harness with exit code 124 and a line on stderr after two
   minutes instead of blocking the check until its outer timeout. */
static void lp_watchdog_fire (int sig)
{
  static const char msg[] = "lp-watchdog: HANG - the harness made no progress on one script line (deadlock or wedged daemon)\n";
  (void) sig;
  if (write (2, msg, sizeof (msg) - 1)) {}
  fflush (stdout);
  _exit (124);
}

static void lp_watchdog_kick (void)
{
  static int secs = -1;
  if (secs < 0)
  {
    const char *e = getenv ("LP_WATCHDOG");
    secs = (NULL != e) ? atoi (e) : 120;
    if (secs < 0) secs = 0;
    if (secs > 0) signal (SIGALRM, lp_watchdog_fire);
  }
  if (secs > 0) alarm ((unsigned int) secs);
}

struct lp_line {
  char *buf;        /* owned copy of the line */
  size_t cap;
  int n;            /* number of words */
  char *w[LP_MAXW];
};

/* returns 0 at EOF, 1 otherwise; splits on spaces; skips blank lines */
static int lp_read (FILE *f, struct lp_line *l)
{
  for (;;)
  {
    ssize_t r = getline (&l->buf, &l->cap, f);
    lp_watchdog_kick ();
    if (r < 0) return 0;
    while (r > 0 && (l->buf[r-1] == '\n' || l->buf[r-1] == '\r' || l->buf[r-1] == ' ')) l->buf[--r] = 0;
    l->n = 0;
    char *p = l->buf;
    while (*p)
    {
      while (*p == ' ') p++;
      if (!*p) break;
      if (l->n < LP_MAXW) l->w[l->n++] = p;
      while (*p && *p != ' ') p++;
      if (*p) *p++ = 0;
    }
    if (l->n > 0) return 1;
  }
}

static int lp_hexval (int c)
{
  if (c >= '0' && c <= '9') return c - '0';
  if (c >= 'a' && c <= 'f') return c - 'a' + 10;
  if (c >= 'A' && c <= 'F') return c - 'A' + 10;
  return -1;
}

/* decode hex ("-" = empty) into an exact-size malloc'ed buffer (so ASan sees
   any over-read); *len receives the length; returns NULL on syntax error
   (for the empty string a 1-byte allocation is returned and *len = 0) */
static uint8_t *lp_unhex (const char *s, size_t *len)
{
  size_t n;
  uint8_t *b;
  if (0 == strcmp (s, "-")) { *len = 0; return (uint8_t *) malloc (1); }
  n = strlen (s);
  if (n % 2) return NULL;
  b = (uint8_t *) malloc (n / 2 ? n / 2 : 1);
  for (size_t i = 0; i < n / 2; i++)
  {
    int a = lp_hexval (s[2*i]), c = lp_hexval (s[2*i+1]);
    if (a < 0 || c < 0) { free (b); return NULL; }
    b[i] = (uint8_t) (a * 16 + c);
  }
  *len = n / 2;
  return b;
}

static void lp_puthex (FILE *f, const void *p, size_t n)
{
  static const char d[] = "0123456789abcdef";
  const uint8_t *b = (const uint8_t *) p;
  if (0 == n) { fputc ('-', f); return; }
  for (size_t i = 0; i < n; i++) { fputc (d[b[i] >> 4], f); fputc (d[b[i] & 15], f); }
}

/* strict decimal parse of a uint64; returns 0 on error */
static int lp_u64 (const char *s, uint64_t *v)
{
  uint64_t r = 0;
  if (!*s) return 0;
  for (; *s; s++)
  {
    if (*s < '0' || *s > '9') return 0;
    if (r > (UINT64_MAX - (uint64_t) (*s - '0')) / 10) return 0;
    r = r * 10 + (uint64_t) (*s - '0');
  }
  *v = r;
  return 1;
}
#endif
