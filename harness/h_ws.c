/* Engine `ws` (C19): the real WebSocket codec behind the line protocol.
 *
 *   init <flags> <max> <alloclimit> <rngchunk>   new stream (old one freed).  malloc/realloc callbacks
 *                                                refuse requests > alloclimit; rng hands out scripted bytes
 *                                                in pieces of at most <rngchunk> bytes
 *   rng <hex>                                    append bytes to the rng script (zeros when exhausted)
 *   feed <hex>                                   application loop over one received chunk: call
 *                                                MHD_websocket_decode on the unconsumed rest until all is
 *                                                consumed or a negative status is returned
 *   enc_text <hex> <frag> <step|-|=>             MHD_websocket_encode_text (utf8_step pointer NULL for -; = : the
 *                                                application's utf8_step variable as the previous enc_text left it)
 *   enc_bin <hex> <frag> | enc_ping <hex> | enc_pong <hex> | enc_close <code> <hex>
 *   split_close <hex>                            MHD_websocket_split_close_reason
 *   utf8 <hex> <step>                            static MHD_websocket_check_utf8 (white box)
 *   valid?  | invalidate
 *   state                                        white box: the decoder's fields of the stream (decode_step, validity,
 *                                                both utf8 steps, data_type, sizes, payload_index, mask_key, the
 *                                                frame_header bytes received, the payload bytes copied so far)
 *   accept <key-hex>                             MHD_websocket_create_accept_header
 *
 * Every input buffer is an exact-size heap block (ASan sees over-reads); every payload returned
 * by the library is printed together with its terminator byte and released through
 * MHD_websocket_free.  One output line per input line.
 */
#include "MHD_config.h"
#include "mhd_websocket.c"
#include "common/lp.h"

static struct MHD_WebSocketStream *ws;
static size_t alloc_limit = (size_t) -1;
static uint8_t *rng_buf;
static size_t rng_len, rng_pos, rng_chunk = 4;
static int app_utf8_step;   /* the sending application's utf8_step variable (enc_text … =) */

static void *h_malloc (size_t n)
{
  if (n > alloc_limit) return NULL;
  return malloc (n);
}

static void *h_realloc (void *p, size_t n)
{
  if (n > alloc_limit) return NULL;
  return realloc (p, n);
}

static void h_free (void *p)
{
  free (p);
}

static size_t h_rng (void *cls, void *buf, size_t buf_len)
{
  size_t n = buf_len < rng_chunk ? buf_len : rng_chunk;
  (void) cls;
  for (size_t i = 0; i < n; i++)
    ((uint8_t *) buf)[i] = (rng_pos < rng_len) ? rng_buf[rng_pos++] : 0;
  return n;
}

static void put_payload (const char *p, size_t len)
{
  if (NULL == p)
  {
    printf ("null");
    if (0 != len) printf ("!len=%zu", len);
    return;
  }
  if (len > 256)
  {
    /* long payloads are printed as length + FNV-1a digest */
    uint32_t h = 2166136261u;
    for (size_t i = 0; i < len; i++) { h ^= (unsigned char) p[i]; h *= 16777619u; }
    printf ("#%zu:%08x", len, (unsigned) h);
  }
  else
    lp_puthex (stdout, p, len);
  printf (",t=%u", (unsigned) (unsigned char) p[len]);
}

static void do_frame_out (const char *tag, int st, char *frame, size_t frame_len)
{
  printf ("%s %d ", tag, st);
  put_payload (frame, frame_len);
  if (NULL != frame) MHD_websocket_free (ws, frame);
}

int main (void)
{
  struct lp_line l = {0};
  setvbuf (stdout, NULL, _IOLBF, 1 << 16);  /* complete lines survive a sanitizer abort */
  while (lp_read (stdin, &l))
  {
    const char *op = l.w[0];
    uint64_t a, b, c, d;
    if (0 == strcmp (op, "init") && 5 == l.n && lp_u64 (l.w[1], &a) && lp_u64 (l.w[2], &b)
        && lp_u64 (l.w[3], &c) && lp_u64 (l.w[4], &d) && d >= 1 && d <= 4 && a < 0x10000)
    {
      int st;
      if (ws) MHD_websocket_stream_free (ws);
      ws = NULL;
      free (rng_buf); rng_buf = NULL; rng_len = rng_pos = 0;
      app_utf8_step = 0;
      alloc_limit = (size_t) c;
      rng_chunk = (size_t) d;
      st = MHD_websocket_stream_init2 (&ws, (int) a, (size_t) b, h_malloc, h_realloc, h_free, NULL, h_rng);
      printf ("init %d\n", st);
    }
    else if (0 == strcmp (op, "rng") && 2 == l.n)
    {
      size_t n; uint8_t *x = lp_unhex (l.w[1], &n);
      if (!x) { puts ("bad-op"); continue; }
      rng_buf = (uint8_t *) realloc (rng_buf, rng_len + n + 1);
      memcpy (rng_buf + rng_len, x, n);
      rng_len += n;
      free (x);
      puts ("ok");
    }
    else if (NULL == ws && 0 != strcmp (op, "split_close") && 0 != strcmp (op, "utf8") && 0 != strcmp (op, "accept"))
    {
      puts ("bad-op");
    }
    else if (0 == strcmp (op, "feed") && 2 == l.n)
    {
      size_t n, off = 0, calls = 0; uint8_t *x = lp_unhex (l.w[1], &n);
      if (!x) { puts ("bad-op"); continue; }
      printf ("f");
      while (off < n)
      {
        /* exact-size copy of the unconsumed rest: an over-read of even one byte is an ASan report */
        char *rest = (char *) malloc (n - off);
        size_t rd = 0, plen = 0; char *pl = NULL;
        int st;
        memcpy (rest, x + off, n - off);
        st = MHD_websocket_decode (ws, rest, n - off, &rd, &pl, &plen);
        free (rest);
        printf (" %d,%zu,", st, rd);
        put_payload (pl, plen);
        if (pl) MHD_websocket_free (ws, pl);
        if (st < 0) break;
        off += rd;
        if (++calls > n + 8) { printf (" stuck"); break; }
      }
      printf (" v=%d\n", (int) MHD_websocket_stream_is_valid (ws));
      free (x);
    }
    else if (0 == strcmp (op, "enc_text") && 4 == l.n && lp_u64 (l.w[2], &a) && a < 16)
    {
      size_t n, fl = 0; uint8_t *x = lp_unhex (l.w[1], &n); char *fr = NULL;
      int step = 0, usestep = 0, st;
      if (!x) { puts ("bad-op"); continue; }
      if (0 == strcmp (l.w[3], "="))
      {
        step = app_utf8_step; usestep = 1;
      }
      else if (0 != strcmp (l.w[3], "-"))
      {
        if (!lp_u64 (l.w[3], &b) || b > 100) { free (x); puts ("bad-op"); continue; }
        step = (int) b; usestep = 1;
      }
      st = MHD_websocket_encode_text (ws, (const char *) x, n, (int) a, &fr, &fl, usestep ? &step : NULL);
      if (usestep) app_utf8_step = step;
      do_frame_out ("e", st, fr, fl);
      printf (" step=%d\n", step);
      free (x);
    }
    else if (0 == strcmp (op, "enc_bin") && 3 == l.n && lp_u64 (l.w[2], &a) && a < 16)
    {
      size_t n, fl = 0; uint8_t *x = lp_unhex (l.w[1], &n); char *fr = NULL;
      int st;
      if (!x) { puts ("bad-op"); continue; }
      st = MHD_websocket_encode_binary (ws, (const char *) x, n, (int) a, &fr, &fl);
      do_frame_out ("e", st, fr, fl);
      puts ("");
      free (x);
    }
    else if ((0 == strcmp (op, "enc_ping") || 0 == strcmp (op, "enc_pong")) && 2 == l.n)
    {
      size_t n, fl = 0; uint8_t *x = lp_unhex (l.w[1], &n); char *fr = NULL;
      int st;
      if (!x) { puts ("bad-op"); continue; }
      st = ('i' == op[5]) ? MHD_websocket_encode_ping (ws, (const char *) x, n, &fr, &fl)
                          : MHD_websocket_encode_pong (ws, (const char *) x, n, &fr, &fl);
      do_frame_out ("e", st, fr, fl);
      puts ("");
      free (x);
    }
    else if (0 == strcmp (op, "enc_close") && 3 == l.n && lp_u64 (l.w[1], &a) && a < 65536)
    {
      size_t n, fl = 0; uint8_t *x = lp_unhex (l.w[2], &n); char *fr = NULL;
      int st;
      if (!x) { puts ("bad-op"); continue; }
      st = MHD_websocket_encode_close (ws, (unsigned short) a, (const char *) x, n, &fr, &fl);
      do_frame_out ("e", st, fr, fl);
      puts ("");
      free (x);
    }
    else if (0 == strcmp (op, "split_close") && 2 == l.n)
    {
      size_t n; uint8_t *x = lp_unhex (l.w[1], &n);
      unsigned short code = 7; const char *r = NULL; size_t rl = 0;
      int st;
      if (!x) { puts ("bad-op"); continue; }
      st = MHD_websocket_split_close_reason ((const char *) x, n, &code, &r, &rl);
      printf ("s %d %u ", st, (unsigned) code);
      if (NULL == r) printf ("null"); else { printf ("%zu:", (size_t) (r - (const char *) x)); lp_puthex (stdout, r, rl); }
      puts ("");
      free (x);
    }
    else if (0 == strcmp (op, "utf8") && 3 == l.n && lp_u64 (l.w[2], &a) && a < 100)
    {
      size_t n, off = 0; uint8_t *x = lp_unhex (l.w[1], &n);
      int step = (int) a, r;
      if (!x) { puts ("bad-op"); continue; }
      r = MHD_websocket_check_utf8 ((const char *) x, n, &step, &off);
      printf ("u %d %d %zu\n", r, step, off);
      free (x);
    }
    else if (0 == strcmp (op, "state") && 1 == l.n)
    {
      /* only bytes the decoder has written are printed (the rest of the allocations is uninitialised) */
      size_t dn = 0, cn = 0;
      if (NULL != ws->data_payload)
        dn = (MHD_WebSocket_DecodeStep_PayloadOfDataFrame == ws->decode_step)
             ? (size_t) (ws->data_payload_start - ws->data_payload) + ws->payload_index : ws->data_payload_size;
      if (NULL != ws->control_payload && MHD_WebSocket_DecodeStep_PayloadOfControlFrame == ws->decode_step)
        cn = ws->payload_index;
      printf ("s step=%d v=%d du=%d cu=%d dt=%d hs=%zu ds=%zu ps=%zu pi=%zu mask=",
              (int) ws->decode_step, (int) ws->validity, (int) ws->data_utf8_step, (int) ws->control_utf8_step,
              (int) ws->data_type, ws->frame_header_size, ws->data_payload_size, ws->payload_size, ws->payload_index);
      lp_puthex (stdout, ws->mask_key, 4);
      printf (" hdr=");
      lp_puthex (stdout, ws->frame_header, ws->frame_header_size <= 32 ? ws->frame_header_size : 32);
      printf (" data=%s", ws->data_payload ? "" : "null");
      if (ws->data_payload) lp_puthex (stdout, ws->data_payload, dn);
      printf (" ctrl=%s", ws->control_payload ? "" : "null");
      if (ws->control_payload) lp_puthex (stdout, ws->control_payload, cn);
      puts ("");
    }
    else if (0 == strcmp (op, "valid?") && 1 == l.n)
      printf ("v=%d\n", (int) MHD_websocket_stream_is_valid (ws));
    else if (0 == strcmp (op, "invalidate") && 1 == l.n)
    {
      MHD_websocket_stream_invalidate (ws);
      puts ("ok");
    }
    else if (0 == strcmp (op, "accept") && 2 == l.n)
    {
      size_t n; uint8_t *x = lp_unhex (l.w[1], &n);
      char out[29]; char *key;
      int st;
      if (!x) { puts ("bad-op"); continue; }
      if (memchr (x, 0, n)) { free (x); puts ("bad-op"); continue; }
      key = (char *) malloc (n + 1);
      memcpy (key, x, n); key[n] = 0;
      st = MHD_websocket_create_accept_header (key, out);
      printf ("a %d %s\n", st, out);
      free (key); free (x);
    }
    else
      puts ("bad-op");
  }
  if (ws) MHD_websocket_stream_free (ws);
  free (rng_buf);
  free (l.buf);
  return 0;
}
