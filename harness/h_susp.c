/* Scripted in-process daemon harness for C11 (engine "susp").
 *
 * Derived from h_daemon.c (same clock virtualisation, socketpair connections,
 * scripted rounds, callback log) with what the suspend/resume property needs:
 *
 *  - a per-descriptor I/O log: recv/send/sendmsg/writev/sendfile are interposed
 *    in this executable; every call the library makes on the server side of a
 *    scripted connection prints `io c=<c> <recv|send> n=<n>`;
 *  - suspend points at every callback kind: first call (and the repeated first
 *    call after a resume), upload call i, final call, content-reader call j;
 *  - per suspend point an action that says how the resume is issued:
 *      d<k>  the script thread resumes at the start of the k-th following round
 *      i     MHD_resume_connection right after MHD_suspend_connection, in the callback
 *      p     MHD_resume_connection *before* MHD_suspend_connection (the other order
 *            of the race "worker thread resumes right after the handler suspended")
 *      t     a second harness thread resumes as soon as the callback announces the suspend
 *      n     nobody resumes (the script has an explicit `resume <c>`)
 *  - white-box snapshot of the connection's processing state at the suspend and
 *    a comparison at every later round while it is still suspended (`frozen-violation`).
 *
 * No address, fd number or Date value is ever printed (Date is suppressed).
 */
#include "MHD_config.h"
#include "internal.h"
#include "connection.h"
#include <microhttpd.h>
#include <sys/types.h>
#include <sys/socket.h>
#include <sys/select.h>
#include <sys/uio.h>
#include <sys/sendfile.h>
#include <netinet/in.h>
#include <arpa/inet.h>
#include <fcntl.h>
#include <unistd.h>
#include <errno.h>
#include <signal.h>
#include <pthread.h>
#include <stdarg.h>
#include <dlfcn.h>
#include <semaphore.h>
#include "common/lp.h"

/* ---------------------------------------------------------------- clock */
static uint64_t vclock_ms = 1000000;
void MHD_monotonic_sec_counter_init (void) {}
void MHD_monotonic_sec_counter_finish (void) {}
time_t MHD_monotonic_sec_counter (void) { return (time_t) (vclock_ms / 1000); }
uint64_t MHD_monotonic_msec_counter (void) { return vclock_ms; }

/* ---------------------------------------------------------------- config */
static struct {
  char mode[16]; size_t mem, incr; unsigned timeout; int suspend;
} cfg = { "select", 0, 0, 0, 1 };

static struct MHD_Daemon *d;
static volatile int stopping;     /* the application stops suspending once the script asks for the shutdown */

#define MAXC 8
#define MAXR 4
#define MAXRESP 8
#define MAXACT 8

struct act { char kind; int k; };   /* kind: 'd','i','p','t','n' ; 0 = none */

struct beh {           /* behaviour for one request */
  int used;
  struct act fs[MAXACT]; int nfs;          /* suspend cycles at the (repeated) first call */
  struct act ls[MAXACT]; int nls;          /* suspend cycles at the final call, then reply */
  long take[8]; int ntake;                 /* -1 = all */
  struct { int idx; struct act a; } us[MAXACT]; int nus;   /* suspend at upload call idx */
  struct { int idx; struct act a; } rs[MAXACT]; int nrs;   /* suspend at reader call idx */
  int rd;                                  /* 1: the suspending reader call returns data, 0: returns 0 */
  int rid;                                 /* response to queue at the final call */
};

struct req {           /* per-request application context */
  int c, r;
  int ncalls, nupload, nfirst, nfinal;
  int replied;
  int refirst;         /* the next zero-size call is the repeated first call */
};

struct snapst {        /* white-box processing state of a connection */
  int state; size_t rbo, wso, wao; uint64_t rwp, rus, cco, ccs; int have_resp;
};

struct conn {
  int used, cfd, sfd, started, eof_seen, addr;
  int nreq;
  struct MHD_Connection *mc;
  int cto_set, cto_applied; unsigned cto;   /* per-connection timeout (seconds), applied by the handler at the first call */
  int resume_in;            /* rounds until auto-resume; -1 none */
  int is_susp;              /* suspended and no resume issued yet (harness view) */
  int frozen_valid, need_snap; struct snapst frozen;
  struct beh beh[MAXR];
};
static struct conn conns[MAXC];

struct resp { int used; char kind[16]; unsigned code; size_t size; size_t cbmax; };
static struct resp resps[MAXRESP];

/* ---------------------------------------------------------------- log */
static pthread_mutex_t log_mx;
static void LOCK (void) { pthread_mutex_lock (&log_mx); }
static void UNLOCK (void) { pthread_mutex_unlock (&log_mx); }

static void out (const char *fmt, ...)
{
  va_list ap; LOCK (); va_start (ap, fmt); vprintf (fmt, ap); va_end (ap); putchar ('\n'); UNLOCK ();
}

static void puthexs (const char *s, size_t n)
{ if (NULL == s) { putchar ('~'); return; } lp_puthex (stdout, s, n); }

static uint8_t pat (int rid, size_t off) { return (uint8_t) ('a' + ((size_t) rid * 7 + off) % 26); }

/* ---------------------------------------------------------------- I/O interposition */
static int fd_conn (int fd)
{
  int c;
  for (c = 0; c < MAXC; c++) if (conns[c].used && conns[c].sfd == fd) return c;
  return -1;
}
static int io_calls[MAXC], cb_calls[MAXC];   /* per connection: socket calls, application callbacks */
static void io_log (int fd, const char *what, ssize_t n)
{
  int c = fd_conn (fd);
  if (c < 0) return;
  io_calls[c]++;
  out ("io c=%d %s n=%zd", c, what, n);
}
#define NEXT(name, type) static type real; if (!real) real = (type) dlsym (RTLD_NEXT, name)
ssize_t recv (int fd, void *buf, size_t len, int flags)
{ typedef ssize_t (*f_t)(int, void *, size_t, int); NEXT ("recv", f_t);
  ssize_t r = real (fd, buf, len, flags); int e = errno; io_log (fd, "recv", r); errno = e; return r; }
ssize_t send (int fd, const void *buf, size_t len, int flags)
{ typedef ssize_t (*f_t)(int, const void *, size_t, int); NEXT ("send", f_t);
  ssize_t r = real (fd, buf, len, flags); int e = errno; io_log (fd, "send", r); errno = e; return r; }
ssize_t sendmsg (int fd, const struct msghdr *msg, int flags)
{ typedef ssize_t (*f_t)(int, const struct msghdr *, int); NEXT ("sendmsg", f_t);
  ssize_t r = real (fd, msg, flags); int e = errno; io_log (fd, "send", r); errno = e; return r; }
ssize_t writev (int fd, const struct iovec *iov, int cnt)
{ typedef ssize_t (*f_t)(int, const struct iovec *, int); NEXT ("writev", f_t);
  ssize_t r = real (fd, iov, cnt); int e = errno; io_log (fd, "send", r); errno = e; return r; }
ssize_t sendfile (int ofd, int ifd, off_t *off, size_t cnt)
{ typedef ssize_t (*f_t)(int, int, off_t *, size_t); NEXT ("sendfile", f_t);
  ssize_t r = real (ofd, ifd, off, cnt); int e = errno; io_log (ofd, "send", r); errno = e; return r; }
ssize_t sendfile64 (int ofd, int ifd, off64_t *off, size_t cnt)
{ typedef ssize_t (*f_t)(int, int, off64_t *, size_t); NEXT ("sendfile64", f_t);
  ssize_t r = real (ofd, ifd, off, cnt); int e = errno; io_log (ofd, "send", r); errno = e; return r; }

/* ---------------------------------------------------------------- suspend / resume */
static void take_snap (struct MHD_Connection *mc, struct snapst *s)
{
  memset (s, 0, sizeof(*s));   /* padding must compare equal */
  s->state = (int) mc->state; s->rbo = mc->read_buffer_offset;
  s->wso = mc->write_buffer_send_offset; s->wao = mc->write_buffer_append_offset;
  s->rwp = mc->rp.rsp_write_position; s->rus = mc->rq.remaining_upload_size;
  s->cco = mc->rq.current_chunk_offset; s->ccs = mc->rq.current_chunk_size;
  s->have_resp = (NULL != mc->rp.response);
}

/* second thread: resumes as soon as a callback announces a suspend */
static pthread_t resumer; static int resumer_run;
static volatile int want_resume[MAXC];
static sem_t resumer_sem;
static void *resumer_main (void *cls)
{
  (void) cls;
  while (resumer_run)
  {
    int c, any = 0;
    sem_wait (&resumer_sem);
    for (c = 0; c < MAXC; c++)
      if (want_resume[c])
      {
        LOCK ();
        want_resume[c] = 0;
        if (conns[c].mc) { printf ("resume c=%d thr\n", c); conns[c].is_susp = 0; MHD_resume_connection (conns[c].mc); }
        UNLOCK ();
        any = 1;
      }
    (void) any;
  }
  return NULL;
}

/* returns 1 when the connection is really suspended after the call */
static int do_suspend (struct MHD_Connection *mc, int c, int r, const char *where, struct act a)
{
  const union MHD_ConnectionInfo *ci;
  int eff;
  if (conns[c].is_susp)
  { /* only reachable when the library invoked a callback of a suspended connection: suspending twice
       would corrupt the daemon's lists, so the harness only reports it */
    out ("double-suspend c=%d r=%d at=%s (callback invoked while suspended)", c, r, where);
    return 0;
  }
  if (stopping) return 0;
  if ('t' == a.kind) { want_resume[c] = 1; sem_post (&resumer_sem); }   /* race: the other thread may win */
  LOCK ();
  if ('p' == a.kind) { printf ("resume c=%d pre\n", c); MHD_resume_connection (mc); }
  MHD_suspend_connection (mc);
  ci = MHD_get_connection_info (mc, MHD_CONNECTION_INFO_CONNECTION_SUSPENDED);
  eff = (ci && MHD_YES == ci->suspended);
  printf ("suspend c=%d r=%d at=%s act=%c%d eff=%d\n", c, r, where, a.kind, a.k, eff);
  if (eff) { conns[c].is_susp = 1; conns[c].frozen_valid = 0; conns[c].need_snap = 1; }
  if ('i' == a.kind) { printf ("resume c=%d imm\n", c); conns[c].is_susp = 0; MHD_resume_connection (mc); }
  UNLOCK ();
  if ('d' == a.kind && eff) conns[c].resume_in = a.k;
  return eff;
}

/* ---------------------------------------------------------------- responses */
struct cbctx { int rid, c, r; int calls; };

static ssize_t content_cb (void *cls, uint64_t pos, char *buf, size_t max)
{
  struct cbctx *x = (struct cbctx *) cls;
  struct resp *rs = &resps[x->rid];
  struct beh *b = &conns[x->c].beh[x->r];
  cb_calls[x->c]++;
  size_t n, i; int j = x->calls++, k, susp = -1;
  for (k = 0; k < b->nrs; k++) if (b->rs[k].idx == j) susp = k;
  if (susp >= 0 && !b->rd)
  {
    out ("reader c=%d r=%d j=%d pos=%" PRIu64 " -> 0", x->c, x->r, j, pos);
    do_suspend (conns[x->c].mc, x->c, x->r, "reader", b->rs[susp].a);
    return 0;
  }
  if (pos >= rs->size) { out ("reader c=%d r=%d j=%d pos=%" PRIu64 " -> eos", x->c, x->r, j, pos); return MHD_CONTENT_READER_END_OF_STREAM; }
  n = rs->size - (size_t) pos;
  if (n > max) n = max;
  if (rs->cbmax && n > rs->cbmax) n = rs->cbmax;
  for (i = 0; i < n; i++) buf[i] = (char) pat (x->rid, (size_t) pos + i);
  out ("reader c=%d r=%d j=%d pos=%" PRIu64 " -> %zu", x->c, x->r, j, pos, n);
  if (susp >= 0) do_suspend (conns[x->c].mc, x->c, x->r, "reader", b->rs[susp].a);
  return (ssize_t) n;
}
static void content_free (void *cls) { struct cbctx *x = (struct cbctx *) cls; out ("free-cb c=%d r=%d", x->c, x->r); free (x); }

static struct MHD_Response *make_resp (int rid, int c, int r)
{
  struct resp *rs = &resps[rid];
  struct MHD_Response *m = NULL;
  size_t i;
  if (!rs->used) { rs->used = 1; strcpy (rs->kind, "copy"); rs->code = 200; rs->size = 5; }
  if (!strcmp (rs->kind, "copy"))
  {
    char *bb = (char *) malloc (rs->size ? rs->size : 1);
    for (i = 0; i < rs->size; i++) bb[i] = (char) pat (rid, i);
    m = MHD_create_response_from_buffer_copy (rs->size, bb); free (bb);
  }
  else if (!strcmp (rs->kind, "cb-known") || !strcmp (rs->kind, "cb-unknown"))
  {
    struct cbctx *x = (struct cbctx *) calloc (1, sizeof(*x)); x->rid = rid; x->c = c; x->r = r;
    m = MHD_create_response_from_callback (!strcmp (rs->kind, "cb-known") ? (uint64_t) rs->size : MHD_SIZE_UNKNOWN,
                                           1024, &content_cb, x, &content_free);
  }
  return m;
}

/* ---------------------------------------------------------------- callbacks */
static int conn_index (struct MHD_Connection *mc)
{
  const union MHD_ConnectionInfo *ci = MHD_get_connection_info (mc, MHD_CONNECTION_INFO_SOCKET_CONTEXT);
  if (ci && ci->socket_context) return (int) (intptr_t) ci->socket_context - 1;
  return -1;
}

static void notify_conn (void *cls, struct MHD_Connection *mc, void **socket_context,
                         enum MHD_ConnectionNotificationCode toe)
{
  (void) cls;
  if (MHD_CONNECTION_NOTIFY_STARTED == toe)
  {
    int c = -1;
    const union MHD_ConnectionInfo *ci = MHD_get_connection_info (mc, MHD_CONNECTION_INFO_CLIENT_ADDRESS);
    if (ci && ci->client_addr && AF_INET == ci->client_addr->sa_family)
      c = (int) ntohs (((const struct sockaddr_in *) ci->client_addr)->sin_port) - 1000;
    if (c < 0 || c >= MAXC) c = -1;
    *socket_context = (void *) (intptr_t) (c + 1);
    if (c >= 0) { conns[c].mc = mc; conns[c].started = 1; }
    out ("conn-start c=%d", c);
  }
  else
  {
    int c = (int) (intptr_t) *socket_context - 1;
    out ("conn-close c=%d", c);
    if (c >= 0) { LOCK (); conns[c].mc = NULL; conns[c].started = 2; conns[c].sfd = -1; UNLOCK (); }
  }
}

static void completed (void *cls, struct MHD_Connection *mc, void **req_cls, enum MHD_RequestTerminationCode toe)
{
  struct req *rq = (struct req *) *req_cls;
  (void) cls;
  if (NULL == rq) { out ("completed c=%d r=? code=%d ctx=null", conn_index (mc), (int) toe); return; }
  out ("completed c=%d r=%d code=%d", rq->c, rq->r, (int) toe);
  *req_cls = NULL;
  free (rq);
}

static enum MHD_Result do_reply (struct MHD_Connection *mc, struct req *rq, int rid)
{
  struct MHD_Response *m = make_resp (rid, rq->c, rq->r);
  enum MHD_Result q;
  if (NULL == m) { out ("queued c=%d r=%d rid=%d -> no-response-object", rq->c, rq->r, rid); return MHD_NO; }
  q = MHD_queue_response (mc, resps[rid].code, m);
  out ("queued c=%d r=%d rid=%d code=%u -> %d", rq->c, rq->r, rid, resps[rid].code, (int) q);
  MHD_destroy_response (m);
  if (MHD_YES == q) rq->replied = 1;
  return q;
}

static enum MHD_Result handler (void *cls, struct MHD_Connection *mc, const char *url, const char *method,
                                const char *version, const char *upload_data, size_t *upload_data_size,
                                void **req_cls)
{
  int c = conn_index (mc);
  struct req *rq = (struct req *) *req_cls;
  struct beh *b;
  const char *phase;
  static struct beh defbeh;
  (void) cls; (void) version;
  if (c < 0) { out ("handler c=? (no socket context)"); return MHD_NO; }
  if (NULL == rq)
  {
    rq = (struct req *) calloc (1, sizeof(*rq));
    rq->c = c; rq->r = conns[c].nreq++;
    *req_cls = rq;
    phase = "first";
    if (conns[c].cto_set && !conns[c].cto_applied)
    { /* the application's own inactivity timeout for this connection (manual-timeout list when != daemon default) */
      conns[c].cto_applied = 1;
      MHD_set_connection_option (mc, MHD_CONNECTION_OPTION_TIMEOUT, conns[c].cto);
    }
  }
  else if (0 != *upload_data_size) phase = "upload";
  else if (rq->refirst) phase = "refirst";
  else phase = "final";
  rq->refirst = 0;
  rq->ncalls++;
  cb_calls[c]++;
  b = (rq->r < MAXR && conns[c].beh[rq->r].used) ? &conns[c].beh[rq->r] : &defbeh;

  LOCK ();
  if (rq->replied) printf ("protocol-error c=%d r=%d handler-called-after-reply\n", rq->c, rq->r);
  printf ("handler c=%d r=%d phase=%s method=", rq->c, rq->r, phase); puthexs (method, strlen (method));
  printf (" url="); puthexs (url, strlen (url));
  printf (" up=");
  if (0 != *upload_data_size) lp_puthex (stdout, upload_data, *upload_data_size); else putchar ('-');
  putchar ('\n');
  UNLOCK ();

  if (!strcmp (phase, "first") || !strcmp (phase, "refirst"))
  {
    int n = rq->nfirst++;
    if (n < b->nfs) rq->refirst = do_suspend (mc, c, rq->r, "first", b->fs[n]);
    return MHD_YES;
  }
  if (!strcmp (phase, "upload"))
  {
    int n = rq->nupload++, k;
    long t = (b->ntake > 0) ? b->take[n % b->ntake] : -1;
    size_t avail = *upload_data_size;
    size_t take = (t < 0 || (size_t) t > avail) ? avail : (size_t) t;
    *upload_data_size = avail - take;
    out ("took c=%d r=%d n=%zu of=%zu", rq->c, rq->r, take, avail);
    for (k = 0; k < b->nus; k++) if (b->us[k].idx == n) do_suspend (mc, c, rq->r, "upload", b->us[k].a);
    return MHD_YES;
  }
  /* final */
  {
    int n = rq->nfinal++;
    if (n < b->nls) { do_suspend (mc, c, rq->r, "final", b->ls[n]); return MHD_YES; }
    return do_reply (mc, rq, b->rid) == MHD_YES ? MHD_YES : MHD_NO;
  }
}

/* ---------------------------------------------------------------- rounds */
static void drain_clients (void)
{
  int c;
  for (c = 0; c < MAXC; c++)
  {
    static uint8_t buf[1 << 16];
    if (!conns[c].used || conns[c].cfd < 0 || conns[c].eof_seen) continue;
    for (;;)
    {
      ssize_t r = recv (conns[c].cfd, buf, sizeof(buf), MSG_DONTWAIT);
      if (r > 0) { LOCK (); printf ("wire c=%d ", c); lp_puthex (stdout, buf, (size_t) r); putchar ('\n'); UNLOCK (); continue; }
      if (0 == r) { out ("eof c=%d", c); conns[c].eof_seen = 1; }
      else if (errno == ECONNRESET || errno == EPIPE) { out ("rst c=%d", c); conns[c].eof_seen = 1; }
      break;
    }
  }
}

static int threaded (void) { return NULL != strstr (cfg.mode, "-thr"); }

static void check_frozen (void)
{
  int c;
  if (threaded ()) return;   /* reading the fields from this thread would race */
  for (c = 0; c < MAXC; c++)
    if (conns[c].used && conns[c].mc && conns[c].is_susp && conns[c].need_snap)
    { /* the state is taken at the end of the round in which the callback suspended */
      take_snap (conns[c].mc, &conns[c].frozen); conns[c].frozen_valid = 1; conns[c].need_snap = 0;
    }
    else if (conns[c].used && conns[c].mc && conns[c].is_susp && conns[c].frozen_valid)
    {
      struct snapst s; take_snap (conns[c].mc, &s);
      if (0 != memcmp (&s, &conns[c].frozen, sizeof(s)) || !conns[c].mc->suspended)
        out ("frozen-violation c=%d state %d->%d rbo %zu->%zu wso %zu->%zu wao %zu->%zu rwp %" PRIu64 "->%" PRIu64 " rus %" PRIu64 "->%" PRIu64 " susp=%d",
             c, conns[c].frozen.state, s.state, conns[c].frozen.rbo, s.rbo, conns[c].frozen.wso, s.wso,
             conns[c].frozen.wao, s.wao, conns[c].frozen.rwp, s.rwp, conns[c].frozen.rus, s.rus, (int) conns[c].mc->suspended);
    }
}

/* white-box: how often is connection c linked into the default-timeout / manual-timeout XDLL (bounded walk) */
static void tolist_count (struct MHD_Connection *mc, int *n, int *m, int *cyc)
{
  struct MHD_Connection *p; int steps;
  *n = *m = *cyc = 0;
  for (p = d->normal_timeout_head, steps = 0; NULL != p && steps < 64; p = p->nextX, steps++) if (p == mc) (*n)++;
  if (NULL != p) *cyc = 1;
  for (p = d->manual_timeout_head, steps = 0; NULL != p && steps < 64; p = p->nextX, steps++) if (p == mc) (*m)++;
  if (NULL != p) *cyc = 1;
}

/* a suspended connection is in no timeout list; an active one is in exactly one, exactly once: the one its timeout selects.
 * A suspended connection found in a list is taken out again (the violation is reported): the later resume would link the
 * node a second time and every list walk of the daemon (MHD_get_timeout64) would spin.  A corruption that cannot be
 * undone ends the process after the report. */
static void check_tolists (const char *when)
{
  int c;
  if (NULL == d || threaded ()) return;
  for (c = 0; c < MAXC; c++)
  {
    struct MHD_Connection *mc = conns[c].mc; int n, m, cyc, ok;
    if (!conns[c].used || NULL == mc || MHD_CONNECTION_CLOSED == mc->state) continue;
    tolist_count (mc, &n, &m, &cyc);
    if (mc->suspended) ok = (0 == n && 0 == m && !cyc);
    else ok = (!cyc && 1 == n + m && ((1 == n) == (mc->connection_timeout_ms == d->connection_timeout_ms)));
    if (ok) continue;
    out ("tolist-violation c=%d when=%s suspended=%d normal=%d manual=%d cycle=%d", c, when, (int) mc->suspended, n, m, cyc);
    if (mc->suspended && !cyc && n + m == 1)
    {
      if (n) XDLL_remove (d->normal_timeout_head, d->normal_timeout_tail, mc);
      else XDLL_remove (d->manual_timeout_head, d->manual_timeout_tail, mc);
    }
    else { fflush (stdout); _exit (3); }
  }
}

static void report (void)
{
  uint64_t to;
  const union MHD_DaemonInfo *di;
  drain_clients ();
  if (NULL == d) return;
  check_tolists ("round");
  check_frozen ();
  if (!threaded ()) { if (MHD_YES == MHD_get_timeout64 (d, &to)) out ("hint %" PRIu64, to); else out ("hint none"); }
  di = MHD_get_daemon_info (d, MHD_DAEMON_INFO_CURRENT_CONNECTIONS);
  out ("conns %u", di ? di->num_connections : 0u);
}

static void one_round (void)
{
  int c, spin;
  /* the second thread resumes "right after the suspend call": at the latest before the next round */
  for (spin = 0; spin < 2000000; spin++)
  {
    int any = 0;
    for (c = 0; c < MAXC; c++) any |= want_resume[c];
    if (!any) break;
    sched_yield ();
  }
  for (c = 0; c < MAXC; c++)
    if (conns[c].used && conns[c].resume_in >= 0 && conns[c].mc)
    {
      if (0 == conns[c].resume_in)
      { conns[c].resume_in = -1; LOCK (); printf ("resume c=%d tmr\n", c); conns[c].is_susp = 0; MHD_resume_connection (conns[c].mc); UNLOCK (); }
      else conns[c].resume_in--;
    }
  out ("round-begin");   /* pending resume requests are served first thing by the daemon's round */
  if (threaded ()) { fflush (stdout); usleep (4000); return; }
  if (!strcmp (cfg.mode, "select"))
  {
    fd_set rs, ws, es; MHD_socket maxfd = 0; struct timeval tv = {0, 0};
    FD_ZERO (&rs); FD_ZERO (&ws); FD_ZERO (&es);
    if (MHD_YES != MHD_get_fdset2 (d, &rs, &ws, &es, &maxfd, FD_SETSIZE)) { out ("fdset-failed"); return; }
    select ((int) maxfd + 1, &rs, &ws, &es, &tv);
    MHD_run_from_select2 (d, &rs, &ws, &es, FD_SETSIZE);
  }
  else MHD_run_wait (d, 0);
}

/* ---------------------------------------------------------------- script */
static int kv (const char *w, const char *key, const char **val)
{ size_t n = strlen (key); if (!strncmp (w, key, n) && w[n] == '=') { *val = w + n + 1; return 1; } return 0; }

static void on_panic (void *cls, const char *file, unsigned int line, const char *reason)
{
  (void) cls; (void) file; (void) line;
  printf ("panic %s\n", reason ? reason : "?");
  fflush (stdout);
  abort ();
}

static void start_daemon (void)
{
  unsigned flags = MHD_USE_NO_LISTEN_SOCKET | MHD_USE_SUPPRESS_DATE_NO_CLOCK;
  struct MHD_OptionItem ops[16]; int n = 0;
  if (cfg.suspend) flags |= MHD_ALLOW_SUSPEND_RESUME;
  if (!strcmp (cfg.mode, "epoll")) flags |= MHD_USE_EPOLL;
  else if (!strcmp (cfg.mode, "poll-thr")) flags |= MHD_USE_POLL | MHD_USE_INTERNAL_POLLING_THREAD | MHD_USE_ITC;
  else if (!strcmp (cfg.mode, "select-thr")) flags |= MHD_USE_INTERNAL_POLLING_THREAD | MHD_USE_ITC;
  else if (!strcmp (cfg.mode, "epoll-thr")) flags |= MHD_USE_EPOLL | MHD_USE_INTERNAL_POLLING_THREAD | MHD_USE_ITC;
  if (cfg.mem) { ops[n].option = MHD_OPTION_CONNECTION_MEMORY_LIMIT; ops[n].value = (intptr_t) cfg.mem; ops[n++].ptr_value = NULL; }
  if (cfg.incr) { ops[n].option = MHD_OPTION_CONNECTION_MEMORY_INCREMENT; ops[n].value = (intptr_t) cfg.incr; ops[n++].ptr_value = NULL; }
  if (cfg.timeout) { ops[n].option = MHD_OPTION_CONNECTION_TIMEOUT; ops[n].value = cfg.timeout; ops[n++].ptr_value = NULL; }
  ops[n].option = MHD_OPTION_NOTIFY_COMPLETED; ops[n].value = (intptr_t) &completed; ops[n++].ptr_value = NULL;
  ops[n].option = MHD_OPTION_NOTIFY_CONNECTION; ops[n].value = (intptr_t) &notify_conn; ops[n++].ptr_value = NULL;
  ops[n].option = MHD_OPTION_END; ops[n].value = 0; ops[n++].ptr_value = NULL;
  d = MHD_start_daemon (flags, 0, NULL, NULL, &handler, NULL, MHD_OPTION_ARRAY, ops, MHD_OPTION_END);
  MHD_set_panic_func (&on_panic, NULL);   /* the library's lazy initialisation resets it */
  out (d ? "started" : "start-failed");
  if (d && !resumer_run) { resumer_run = 1; pthread_create (&resumer, NULL, &resumer_main, NULL); }
}

static void resume_all_for_stop (void)
{
  int i, any, iter;
  stopping = 1;
  for (iter = 0; iter < 8; iter++)
  {
    any = 0;
    for (i = 0; i < MAXC; i++)
      if (conns[i].used && conns[i].mc && (conns[i].is_susp || conns[i].resume_in >= 0))
      { conns[i].resume_in = -1; LOCK (); printf ("resume c=%d stop\n", i); conns[i].is_susp = 0; MHD_resume_connection (conns[i].mc); UNLOCK (); any = 1; }
    if (!any && iter > 0) break;
    if (!threaded ()) { one_round (); one_round (); }
    else usleep (30000);
  }
}

static void stop_daemon (void)
{
  if (!d) return;
  resume_all_for_stop ();
  drain_clients (); MHD_stop_daemon (d); d = NULL; drain_clients ();
  if (resumer_run) { resumer_run = 0; sem_post (&resumer_sem); pthread_join (resumer, NULL); }
}

static void reset_all (void)
{
  int c;
  stop_daemon ();
  for (c = 0; c < MAXC; c++) { if (conns[c].used && conns[c].cfd >= 0) close (conns[c].cfd); }
  memset (conns, 0, sizeof(conns));
  for (c = 0; c < MAXC; c++) { conns[c].sfd = -1; conns[c].cfd = -1; conns[c].resume_in = -1; }
  memset (resps, 0, sizeof(resps));
  memset (&cfg, 0, sizeof(cfg)); strcpy (cfg.mode, "select"); cfg.suspend = 1;
  for (c = 0; c < MAXC; c++) { want_resume[c] = 0; io_calls[c] = 0; cb_calls[c] = 0; }
  stopping = 0;
  vclock_ms = 1000000;
}

static int parse_act (const char *s, struct act *a)
{
  a->kind = s[0]; a->k = 0;
  if ('d' == s[0]) { if (s[1] < '0' || s[1] > '9') return 0; a->k = atoi (s + 1); return 1; }
  if (('i' == s[0] || 'p' == s[0] || 't' == s[0] || 'n' == s[0]) && (0 == s[1] || ',' == s[1])) return 1;
  return 0;
}

/* "<act>,<act>" */
static int parse_acts (const char *v, struct act *arr, int *n)
{
  *n = 0;
  if (!strcmp (v, "-")) return 1;
  while (*v && *n < MAXACT)
  {
    if (!parse_act (v, &arr[*n])) return 0;
    (*n)++;
    v = strchr (v, ','); if (!v) break; v++;
  }
  return 1;
}

int main (void)
{
  struct lp_line l = {0};
  pthread_mutexattr_t at;
  signal (SIGPIPE, SIG_IGN);
  setvbuf (stdout, NULL, _IOFBF, 1 << 16);
  sem_init (&resumer_sem, 0, 0);
  pthread_mutexattr_init (&at); pthread_mutexattr_settype (&at, PTHREAD_MUTEX_RECURSIVE); pthread_mutex_init (&log_mx, &at);
  MHD_set_panic_func (&on_panic, NULL);
  reset_all ();
  while (lp_read (stdin, &l))
  {
    const char *v; int i; uint64_t a, b;
    const char *op = l.w[0];
    if (!strcmp (op, "case")) { reset_all (); out ("case %s", l.n > 1 ? l.w[1] : "-"); continue; }
    if (!strcmp (op, "cfg"))
    {
      for (i = 1; i < l.n; i++)
      {
        if (kv (l.w[i], "mode", &v)) { strncpy (cfg.mode, v, sizeof(cfg.mode) - 1); }
        else if (kv (l.w[i], "mem", &v)) cfg.mem = (size_t) atol (v);
        else if (kv (l.w[i], "incr", &v)) cfg.incr = (size_t) atol (v);
        else if (kv (l.w[i], "timeout", &v)) cfg.timeout = (unsigned) atoi (v);
        else if (kv (l.w[i], "suspend", &v)) cfg.suspend = atoi (v);
      }
      out ("ok"); continue;
    }
    if (!strcmp (op, "start")) { start_daemon (); continue; }
    if (!strcmp (op, "resp") && l.n >= 2)
    {
      int rid = atoi (l.w[1]); struct resp *r;
      if (rid < 0 || rid >= MAXRESP) { out ("bad-op"); continue; }
      r = &resps[rid]; memset (r, 0, sizeof(*r)); r->used = 1; strcpy (r->kind, "copy"); r->code = 200; r->size = 5;
      for (i = 2; i < l.n; i++)
      {
        if (kv (l.w[i], "kind", &v)) strncpy (r->kind, v, sizeof(r->kind) - 1);
        else if (kv (l.w[i], "code", &v)) r->code = (unsigned) atoi (v);
        else if (kv (l.w[i], "size", &v)) r->size = (size_t) atol (v);
        else if (kv (l.w[i], "cbmax", &v)) r->cbmax = (size_t) atol (v);
      }
      out ("ok"); continue;
    }
    if (!strcmp (op, "req")) { out ("ok"); continue; }   /* declaration for the model only */
    if (!strcmp (op, "cto") && l.n >= 3 && lp_u64 (l.w[1], &a) && lp_u64 (l.w[2], &b) && a < MAXC)
    { conns[a].cto_set = 1; conns[a].cto = (unsigned) b; out ("ok"); continue; }
    if (!strcmp (op, "beh") && l.n >= 3)
    {
      int c = atoi (l.w[1]), r = atoi (l.w[2]), bad = 0; struct beh *bh;
      if (c < 0 || c >= MAXC || r < 0 || r >= MAXR) { out ("bad-op"); continue; }
      bh = &conns[c].beh[r]; memset (bh, 0, sizeof(*bh)); bh->used = 1;
      for (i = 3; i < l.n && !bad; i++)
      {
        if (kv (l.w[i], "fs", &v)) bad = !parse_acts (v, bh->fs, &bh->nfs);
        else if (kv (l.w[i], "ls", &v)) bad = !parse_acts (v, bh->ls, &bh->nls);
        else if (kv (l.w[i], "l", &v)) bh->rid = atoi (v + 1);
        else if (kv (l.w[i], "rd", &v)) bh->rd = atoi (v);
        else if (kv (l.w[i], "u", &v))
        { char *s = (char *) v; bh->ntake = 0;
          while (*s && bh->ntake < 8) { bh->take[bh->ntake++] = !strncmp (s, "all", 3) ? -1 : atol (s); s = strchr (s, ','); if (!s) break; s++; } }
        else if (kv (l.w[i], "us", &v) || kv (l.w[i], "rs", &v))
        {
          int isr = ('r' == l.w[i][0]); const char *s = v;
          while (*s && !bad && strcmp (s, "-"))
          {
            const char *colon = strchr (s, ':'); struct act aa; int idx = atoi (s);
            if (!colon || !parse_act (colon + 1, &aa)) { bad = 1; break; }
            if (isr) { if (bh->nrs < MAXACT) { bh->rs[bh->nrs].idx = idx; bh->rs[bh->nrs++].a = aa; } }
            else { if (bh->nus < MAXACT) { bh->us[bh->nus].idx = idx; bh->us[bh->nus++].a = aa; } }
            s = strchr (s, ','); if (!s) break; s++;
          }
        }
        else bad = 1;
      }
      if (bad) { bh->used = 0; out ("bad-op"); } else out ("ok");
      continue;
    }
    if (NULL == d && strcmp (op, "tick")) { out ("bad-op"); continue; }
    if (!strcmp (op, "arrive") && l.n >= 3 && lp_u64 (l.w[1], &a) && lp_u64 (l.w[2], &b) && a < MAXC)
    {
      int sv[2]; struct sockaddr_in sa; enum MHD_Result q;
      if (conns[a].used) { out ("bad-op"); continue; }
      if (0 != socketpair (AF_UNIX, SOCK_STREAM | SOCK_NONBLOCK, 0, sv)) { out ("bad-op"); continue; }
      memset (&sa, 0, sizeof(sa)); sa.sin_family = AF_INET; sa.sin_port = htons ((uint16_t) (1000 + a));
      sa.sin_addr.s_addr = htonl (0x0a000000u + (uint32_t) b);
      LOCK ();
      conns[a].used = 1; conns[a].cfd = sv[0]; conns[a].sfd = sv[1]; conns[a].addr = (int) b; conns[a].resume_in = -1;
      UNLOCK ();
      q = MHD_add_connection (d, sv[1], (struct sockaddr *) &sa, sizeof(sa));
      out ("arrive c=%d -> %d", (int) a, (int) q);
      continue;
    }
    if (!strcmp (op, "send") && l.n >= 3 && lp_u64 (l.w[1], &a) && a < MAXC && conns[a].used)
    {
      size_t n, offn = 0; uint8_t *bytes = lp_unhex (l.w[2], &n);
      if (!bytes) { out ("bad-op"); continue; }
      while (offn < n) { ssize_t r = send (conns[a].cfd, bytes + offn, n - offn, MSG_DONTWAIT | MSG_NOSIGNAL); if (r <= 0) break; offn += (size_t) r; }
      free (bytes);
      out ("sent c=%d n=%zu", (int) a, offn); continue;
    }
    if (!strcmp (op, "shutwr") && l.n >= 2 && lp_u64 (l.w[1], &a) && a < MAXC && conns[a].used)
    { shutdown (conns[a].cfd, SHUT_WR); out ("ok"); continue; }
    if (!strcmp (op, "round")) { one_round (); report (); out ("round-end"); continue; }
    if (!strcmp (op, "rounds") && l.n >= 2 && lp_u64 (l.w[1], &a))
    { for (i = 0; i < (int) a; i++) { one_round (); drain_clients (); check_frozen (); } report (); out ("round-end"); continue; }
    if (!strcmp (op, "tick") && l.n >= 2 && lp_u64 (l.w[1], &a)) { vclock_ms += a; out ("ok"); continue; }
    if (!strcmp (op, "settimeout") && l.n >= 3 && lp_u64 (l.w[1], &a) && lp_u64 (l.w[2], &b) && a < MAXC && conns[a].mc && !threaded ())
    { /* MHD_set_connection_option (TIMEOUT) from outside a callback, at any time: also while the connection is suspended */
      int su = (int) conns[a].mc->suspended;
      MHD_set_connection_option (conns[a].mc, MHD_CONNECTION_OPTION_TIMEOUT, (unsigned int) b);
      out ("settimeout c=%d sec=%u susp=%d", (int) a, (unsigned int) b, su);
      check_tolists ("settimeout");
      continue; }
    if (!strcmp (op, "tick-if-susp") && l.n >= 3 && lp_u64 (l.w[1], &a) && lp_u64 (l.w[2], &b) && a < MAXC && !threaded ())
    { /* the virtual clock advances only while connection a is suspended (and nobody has resumed it yet) */
      if (conns[a].used && conns[a].is_susp) { vclock_ms += b; out ("ticked c=%d ms=%" PRIu64, (int) a, b); }
      else out ("not-ticked c=%d", (int) a);
      continue; }
    if (!strcmp (op, "resume") && l.n >= 2 && lp_u64 (l.w[1], &a) && a < MAXC && conns[a].mc)
    { conns[a].resume_in = -1; LOCK (); printf ("resume c=%d op\n", (int) a); conns[a].is_susp = 0; MHD_resume_connection (conns[a].mc); UNLOCK (); continue; }
    if (!strcmp (op, "wb") && l.n >= 2 && lp_u64 (l.w[1], &a) && a < MAXC && conns[a].mc && !threaded ())
    { /* white-box view of the flags the model carries */
      struct MHD_Connection *mc = conns[a].mc;
      int tn, tm, tc;
      tolist_count (mc, &tn, &tm, &tc);
      out ("wb c=%d suspended=%d resuming=%d dresuming=%d age=%" PRIu64 " cto=%" PRIu64 " nto=%d mto=%d tocyc=%d eli=%d ep=%d", (int) a, (int) mc->suspended, (int) mc->resuming,
           (int) d->resuming, (uint64_t) (vclock_ms - mc->last_activity), (uint64_t) mc->connection_timeout_ms, tn, tm, tc, (int) mc->event_loop_info,
#ifdef EPOLL_SUPPORT
           (int) mc->epoll_state
#else
           0
#endif
           );
      continue; }
    if (!strcmp (op, "probe") && l.n >= 3 && lp_u64 (l.w[2], &a) && a < MAXC && conns[a].mc && !threaded ())
    { /* call one entry point of the connection state machine directly, as an event loop would,
         and report whether it touched the socket, the application or the event-loop info */
      struct MHD_Connection *mc = conns[a].mc;
      int io0 = io_calls[a], cb0 = cb_calls[a], eli0 = (int) mc->event_loop_info, st0 = (int) mc->state;
      int eli_saved = eli0;
      if (!strcmp (l.w[1], "read")) MHD_connection_handle_read (mc, false);
      else if (!strcmp (l.w[1], "write")) MHD_connection_handle_write (mc);
      else if (!strcmp (l.w[1], "idle"))
      { /* a sentinel shows whether update_event_loop_info wrote the field at all */
        mc->event_loop_info = MHD_EVENT_LOOP_INFO_CLEANUP; eli0 = (int) MHD_EVENT_LOOP_INFO_CLEANUP;
        (void) MHD_connection_handle_idle (mc);
        if (MHD_EVENT_LOOP_INFO_CLEANUP == mc->event_loop_info)
        { int e = eli0; (void) e; }
      }
      else { out ("bad-op"); continue; }
      out ("probe c=%d fn=%s suspended=%d io=%d cb=%d eli=%d->%d state=%d->%d", (int) a, l.w[1], (int) mc->suspended,
           io_calls[a] - io0, cb_calls[a] - cb0, eli0, (int) mc->event_loop_info, st0, (int) mc->state);
      if (!strcmp (l.w[1], "idle") && MHD_EVENT_LOOP_INFO_CLEANUP == mc->event_loop_info)
        mc->event_loop_info = (enum MHD_ConnectionEventLoopInfo) eli_saved;
      continue; }
    if (!strcmp (op, "stop")) { stop_daemon (); out ("stopped"); continue; }
    out ("bad-op");
  }
  reset_all ();
  free (l.buf);
  return 0;
}
