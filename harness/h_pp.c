/* Correspondence harness for src/microhttpd/postprocessor.c (engine "pp").
   Drives the real MHD_create_post_processor / MHD_post_process /
   MHD_destroy_post_processor through a fabricated connection that carries a
   single Content-Type header.  No source change needed.

     create <bufsize> <content-type-hex>   ->  ok | null
     feed <hex>                            ->  ret=<0|1> n=<calls> [k=.. f=.. t=.. e=.. off=.. d=..]...
     destroy                               ->  same format
   `~` = NULL pointer, `-` = empty byte string. */
#include "MHD_config.h"
#include "internal.h"
#include "postprocessor.h"
#include "common/lp.h"

struct ev { char *k, *f, *t, *e; uint64_t off; uint8_t *d; size_t n; };
static struct ev *evs;
static size_t nev, capev;

static char *dupstr (const char *s) { return s ? strdup (s) : NULL; }

static enum MHD_Result
iter (void *cls, enum MHD_ValueKind kind, const char *key, const char *filename,
      const char *content_type, const char *transfer_encoding, const char *data,
      uint64_t off, size_t size)
{
  (void) cls; (void) kind;
  if (nev == capev)
  {
    capev = capev ? capev * 2 : 64;
    evs = (struct ev *) realloc (evs, capev * sizeof (*evs));
  }
  struct ev *e = &evs[nev++];
  e->k = dupstr (key); e->f = dupstr (filename); e->t = dupstr (content_type); e->e = dupstr (transfer_encoding);
  e->off = off; e->n = size;
  /* exact-size copy: a `size` larger than the object behind `data` is an ASan report */
  e->d = (uint8_t *) malloc (size ? size : 1);
  if (size) memcpy (e->d, data, size);
  return MHD_YES;
}

static void putopt (const char *s)
{
  if (! s) { putchar ('~'); return; }
  lp_puthex (stdout, s, strlen (s));
}

static void flush_events (int ret)
{
  printf ("ret=%d n=%zu", ret, nev);
  for (size_t i = 0; i < nev; i++)
  {
    struct ev *e = &evs[i];
    printf (" [k="); putopt (e->k);
    printf (" f="); putopt (e->f);
    printf (" t="); putopt (e->t);
    printf (" e="); putopt (e->e);
    printf (" off=%" PRIu64 " d=", e->off);
    lp_puthex (stdout, e->d, e->n);
    putchar (']');
    free (e->k); free (e->f); free (e->t); free (e->e); free (e->d);
  }
  putchar ('\n');
  nev = 0;
}

int main (void)
{
  struct lp_line l = {0};
  struct MHD_PostProcessor *pp = NULL;
  static struct MHD_Connection conn;
  static struct MHD_HTTP_Req_Header hdr;
  char *ctype = NULL;

  while (lp_read (stdin, &l))
  {
    uint64_t a;
    if (l.n == 3 && ! strcmp (l.w[0], "create") && lp_u64 (l.w[1], &a))
    {
      size_t n;
      uint8_t *raw = lp_unhex (l.w[2], &n);
      if (! raw || a < 256 || a >= ((uint64_t) 1 << 32) || (n && memchr (raw, 0, n)))
      { free (raw); puts ("bad-op"); continue; }
      if (pp) { nev = 0; (void) MHD_destroy_post_processor (pp); pp = NULL; }
      for (size_t i = 0; i < nev; i++) { free (evs[i].k); free (evs[i].f); free (evs[i].t); free (evs[i].e); free (evs[i].d); }
      nev = 0;
      free (ctype);
      ctype = (char *) malloc (n + 1);        /* exact-size C string */
      memcpy (ctype, raw, n); ctype[n] = 0;
      free (raw);
      memset (&conn, 0, sizeof (conn));
      memset (&hdr, 0, sizeof (hdr));
      hdr.header = "Content-Type"; hdr.header_size = strlen ("Content-Type");
      hdr.value = ctype; hdr.value_size = n; hdr.kind = MHD_HEADER_KIND;
      conn.rq.headers_received = &hdr; conn.rq.headers_received_tail = &hdr;
      pp = MHD_create_post_processor (&conn, (size_t) a, &iter, NULL);
      puts (pp ? "ok" : "null");
    }
    else if (l.n == 2 && ! strcmp (l.w[0], "feed") && pp)
    {
      size_t n;
      uint8_t *d = lp_unhex (l.w[1], &n);
      if (! d) { puts ("bad-op"); continue; }
      enum MHD_Result r = MHD_post_process (pp, (const char *) d, n);
      free (d);
      flush_events (r == MHD_YES);
    }
    else if (l.n == 1 && ! strcmp (l.w[0], "destroy") && pp)
    {
      enum MHD_Result r = MHD_destroy_post_processor (pp);
      pp = NULL;
      flush_events (r == MHD_YES);
    }
    else puts ("bad-op");
  }
  if (pp) (void) MHD_destroy_post_processor (pp);
  for (size_t i = 0; i < nev; i++) { free (evs[i].k); free (evs[i].f); free (evs[i].t); free (evs[i].e); free (evs[i].d); }
  free (evs); free (ctype); free (l.buf);
  return 0;
}
