/* Engine "tmo" (C10): scripted in-process daemon under a virtual clock, reduced from
 * h_daemon.c and extended with a white-box dump of everything the timeout logic rests on.
 *
 * Real library objects are linked except mhd_mono_clock.c.  Connections are socketpairs
 * handed to MHD_add_connection(); rounds are scripted (external select / epoll).
 * EXACTLY ONE output line per input line:
 *
 *   <op-echo> ev=[<events in callback order>] hint=<ms|none> now=<ms> fl=<flags>
 *             C=[..] N=[..] M=[..] S=[..] E=[..] | <c>:<la>:<tmo>:<flags> ...
 *
 * events:  st<c>  connection started (notify)      cc<c>  connection closed (notify)
 *          to<c>  completed with TIMEOUT_REACHED    co<c>:<code> completed with another code
 *          su<c>  handler suspended the connection  eof<c> client saw EOF/RST
 * lists (pointer order head -> tail): C connections, N normal_timeout, M manual_timeout,
 *          S suspended_connections, E eready (epoll only)
 * flags of the daemon: d data_already_pending, r resuming, n have_new, c cleanup list non-empty
 * per connection (only connections the library has started and not yet freed):
 *          la = last_activity, tmo = connection_timeout_ms, flags: s suspended, r resuming,
 *          x state == CLOSED, p event_loop_info has the PROCESS bit (work pending without any
 *          socket event), b<n> n unprocessed upload bytes in the read buffer (state BODY_RECEIVING)
 *   get <c> <k>    (select loop only) the client sends a complete request in one piece; the reply is sent
 *                  through an interposed send()/sendmsg()/writev() that passes at most the number of bytes
 *                  granted with `allow` (a slow reader): k = n normal body (3000 bytes), h header block only
 *                  (one 1500 byte header, empty body), c chunked body from a content reader (2 x 1200 bytes),
 *                  f chunked body + footer, e "Expect: 100-continue" POST (the interim reply is sent
 *                  the same way; the connection is a posting one afterwards)
 *   allow <c> <n>  the client reads n more bytes (1..4000): the server side may send n more bytes
 *          events: w<c> a send with progress happened on <c> in this operation, fin<c> the reply (or the
 *          100 Continue) is out completely, wire<c> bytes arrived at the client
 *   round [w=..] [f=..]  annotations are echoed and otherwise ignored
 *   slow <c>       the handler of <c> consumes one upload byte per call from now on (the rest stays in
 *                  MHD's read buffer: *upload_data_size is left non-zero, which is legal)
 *   sendn <c> <k>  like `send`, but k (1..8) body bytes in one piece
 * No address or fd number is printed.
 *
 *   conv <c> <x> <max>   (white-box) with connection <c> the only candidate of MHD_get_timeout64:
 *             its timeout is set to <x> ms (any uint64) and its stamp to the current time for the
 *             duration of the call, so that the hint is <x> (0 = no timeout: MHD_NO if nothing is
 *             pending); prints what the legacy / signed / int wrappers and the two static
 *             get_timeout_millisec_* (cap <max>, -1 = none) make of it:
 *             conv h=<hint|none> ull=<v|none> s64=<v> i=<v> ms=<v> msi=<v>
 */
#include "MHD_config.h"
#include "daemon.c"   /* white-box: the statics get_timeout_millisec_ / get_timeout_millisec_int */
#include "internal.h"
#include <microhttpd.h>
#include <sys/types.h>
#include <sys/socket.h>
#include <sys/select.h>
#include <netinet/in.h>
#include <arpa/inet.h>
#include <fcntl.h>
#include <unistd.h>
#include <errno.h>
#include <signal.h>
#include <stdarg.h>
#include "common/lp.h"

/* ---------------------------------------------------------------- clock */
#define CLOCK0 1000000
static uint64_t vclock_ms = CLOCK0;
void MHD_monotonic_sec_counter_init (void) {}
void MHD_monotonic_sec_counter_finish (void) {}
time_t MHD_monotonic_sec_counter (void) { return (time_t) (vclock_ms / 1000); }
uint64_t MHD_monotonic_msec_counter (void) { return vclock_ms; }

/* ---------------------------------------------------------------- state */
static struct { char mode[16]; unsigned timeout; int suspend; } cfg = { "select", 0, 1 };
static struct MHD_Daemon *d;

#define MAXC 8
struct conn {
  int used, cfd, eof_seen;
  int kind;                 /* 0 nothing sent yet, 1 posting (handler aware), 2 partial request line */
  int want_susp;
  int slow;                 /* handler takes one upload byte per call */
  int sfd;                  /* the server side of the socketpair */
  int limited;              /* sends on sfd are limited to `quota` bytes */
  size_t quota;
  int wrote;                /* a limited send made progress since the last report */
  int rep;                  /* a reply (or 100 Continue) is on its way */
  char rkind;
  int repdone;              /* the reply was completed (callback) */
  int started;              /* the library has reported the connection as started */
  struct MHD_Connection *mc;
};
static struct conn conns[MAXC];

static char evbuf[4096]; static size_t evlen;
static void ev (const char *fmt, ...)
{
  va_list ap; int n;
  if (evlen && evlen < sizeof(evbuf) - 1) evbuf[evlen++] = ',';
  va_start (ap, fmt); n = vsnprintf (evbuf + evlen, sizeof(evbuf) - evlen, fmt, ap); va_end (ap);
  if (n > 0) evlen += (size_t) n;
  if (evlen >= sizeof(evbuf)) evlen = sizeof(evbuf) - 1;
}

static int idx_of (const struct MHD_Connection *mc)
{
  int c;
  for (c = 0; c < MAXC; c++) if (conns[c].used && conns[c].mc == mc) return c;
  return -1;
}

/* ---------------------------------------------------------------- the slow reader: interposed send calls */
#include <sys/syscall.h>
#include <sys/uio.h>
static int limited_idx (int fd)
{
  int c;
  for (c = 0; c < MAXC; c++) if (conns[c].used && conns[c].limited && conns[c].mc && conns[c].sfd == fd) return c;   /* mc: not a stale fd number */
  return -1;
}
ssize_t send (int fd, const void *buf, size_t n, int flags)
{
  int c = limited_idx (fd); long r;
  if (c >= 0) { if (0 == conns[c].quota && 0 != n) { errno = EAGAIN; return -1; } if (n > conns[c].quota) n = conns[c].quota; }
  r = syscall (SYS_sendto, fd, buf, n, flags, NULL, 0);
  if (c >= 0 && r > 0) { conns[c].quota -= (size_t) r; conns[c].wrote = 1; }
  return (ssize_t) r;
}
static ssize_t send_iov (int fd, const struct iovec *iov, size_t cnt, int flags)
{
  int c = limited_idx (fd); long r; struct iovec v[8]; struct msghdr m; size_t i, left, k = 0;
  if (c < 0 || cnt > 8)
  { memset (&m, 0, sizeof(m)); m.msg_iov = (struct iovec *) iov; m.msg_iovlen = cnt; return (ssize_t) syscall (SYS_sendmsg, fd, &m, flags); }
  left = conns[c].quota;
  for (i = 0; i < cnt && left > 0; i++)
  { v[k] = iov[i]; if (v[k].iov_len > left) v[k].iov_len = left; left -= v[k].iov_len; if (v[k].iov_len) k++; }
  if (0 == k) { size_t tot = 0; for (i = 0; i < cnt; i++) tot += iov[i].iov_len; if (0 == tot) return 0; errno = EAGAIN; return -1; }
  memset (&m, 0, sizeof(m)); m.msg_iov = v; m.msg_iovlen = k;
  r = syscall (SYS_sendmsg, fd, &m, flags);
  if (r > 0) { conns[c].quota -= (size_t) r; conns[c].wrote = 1; }
  return (ssize_t) r;
}
ssize_t sendmsg (int fd, const struct msghdr *msg, int flags) { return send_iov (fd, msg->msg_iov, msg->msg_iovlen, flags); }
ssize_t writev (int fd, const struct iovec *iov, int cnt) { return send_iov (fd, iov, (size_t) cnt, MSG_NOSIGNAL); }

/* ---------------------------------------------------------------- callbacks */
static void notify_conn (void *cls, struct MHD_Connection *mc, void **socket_context,
                         enum MHD_ConnectionNotificationCode toe)
{
  (void) cls;
  if (MHD_CONNECTION_NOTIFY_STARTED == toe)
  {
    int c = -1;
    const union MHD_ConnectionInfo *ci = MHD_get_connection_info (mc, MHD_CONNECTION_INFO_CLIENT_ADDRESS);
    if (ci && ci->client_addr && AF_INET == ci->client_addr->sa_family)
      c = (int) ntohs (((const struct sockaddr_in *) ci->client_addr)->sin_port) - 1000;
    if (c < 0 || c >= MAXC) c = -1;
    *socket_context = (void *) (intptr_t) (c + 1);
    if (c >= 0) { conns[c].mc = mc; conns[c].started = 1; }
    ev ("st%d", c);
  }
  else
  {
    int c = (int) (intptr_t) *socket_context - 1;
    ev ("cc%d", c);
    if (c >= 0) conns[c].mc = NULL;
  }
}

static void completed (void *cls, struct MHD_Connection *mc, void **req_cls, enum MHD_RequestTerminationCode toe)
{
  int c = idx_of (mc);
  (void) cls; (void) req_cls;
  if (MHD_REQUEST_TERMINATED_TIMEOUT_REACHED == toe) ev ("to%d", c);
  else ev ("co%d:%d", c, (int) toe);
  if (MHD_REQUEST_TERMINATED_COMPLETED_OK == toe && c >= 0 && conns[c].rep) conns[c].repdone = 1;
}

static ssize_t chunk_reader (void *cls, uint64_t pos, char *buf, size_t max)
{
  (void) cls;
  if (pos >= 2400) return MHD_CONTENT_READER_END_OF_STREAM;
  if (max > 1200) max = 1200;
  memset (buf, 'c', max);
  return (ssize_t) max;
}

static enum MHD_Result queue_reply (struct MHD_Connection *mc, char k)
{
  static char body[3000]; static char big[1501];
  struct MHD_Response *r; enum MHD_Result q;
  if ('n' == k) { memset (body, 'b', sizeof(body)); r = MHD_create_response_from_buffer_static (sizeof(body), body); }
  else if ('h' == k)
  { memset (big, 'v', 1500); big[1500] = 0; r = MHD_create_response_from_buffer_static (0, ""); if (r) MHD_add_response_header (r, "X-Big", big); }
  else
  {
    r = MHD_create_response_from_callback (MHD_SIZE_UNKNOWN, 1200, &chunk_reader, NULL, NULL);
    if (r && 'f' == k) MHD_add_response_footer (r, "X-Foot", "tail");
  }
  if (NULL == r) return MHD_NO;
  q = MHD_queue_response (mc, MHD_HTTP_OK, r);
  MHD_destroy_response (r);
  return q;
}

static enum MHD_Result handler (void *cls, struct MHD_Connection *mc, const char *url, const char *method,
                                const char *version, const char *upload_data, size_t *upload_data_size,
                                void **req_cls)
{
  static int token;
  int c = idx_of (mc);
  (void) cls; (void) version; (void) upload_data;
  if (NULL == *req_cls) { *req_cls = &token; return MHD_YES; }
  if (!strcmp (method, "GET") && '/' == url[0] && url[1]) return queue_reply (mc, url[1]);
  if (0 != *upload_data_size)
  {
    if (c >= 0 && conns[c].slow) *upload_data_size -= 1;   /* take one byte, leave the rest */
    else *upload_data_size = 0;           /* consume everything */
    if (c >= 0 && conns[c].want_susp)
    {
      conns[c].want_susp = 0;
      MHD_suspend_connection (mc);
      ev ("su%d", c);
    }
  }
  return MHD_YES;
}

/* ---------------------------------------------------------------- report */
static void drain_clients (void)
{
  int c;
  for (c = 0; c < MAXC; c++)
  {
    static uint8_t buf[4096]; int got = 0;
    if (!conns[c].used || conns[c].cfd < 0 || conns[c].eof_seen) continue;
    for (;;)
    {
      ssize_t r = recv (conns[c].cfd, buf, sizeof(buf), MSG_DONTWAIT);
      if (r > 0) { if (!got) ev ("wire%d", c); got = 1; continue; }
      if (0 == r) { ev ("eof%d", c); conns[c].eof_seen = 1; }
      else if (errno == ECONNRESET || errno == EPIPE) { ev ("eof%d", c); conns[c].eof_seen = 1; }
      break;
    }
  }
}

static void put_list (const char *name, struct MHD_Connection *head, int which)
{
  struct MHD_Connection *p; int first = 1, guard = 0;
  printf (" %s=[", name);
  for (p = head; NULL != p && guard < 64; guard++)
  {
    printf ("%s%d", first ? "" : ",", idx_of (p)); first = 0;
    p = (0 == which) ? p->next : (1 == which) ? p->nextX : p->nextE;
  }
  putchar (']');
}

static void report (const char *echo)
{
  uint64_t to; int c;
  for (c = 0; c < MAXC; c++) if (conns[c].used && conns[c].wrote) { ev ("w%d", c); conns[c].wrote = 0; }
  for (c = 0; c < MAXC; c++)
    if (conns[c].used && conns[c].rep && conns[c].repdone)
    { ev ("fin%d", c); conns[c].rep = 0; conns[c].repdone = 0; conns[c].kind = 0; }
    else if (conns[c].used && conns[c].rep && conns[c].mc && 'e' == conns[c].rkind)
    { /* 100 Continue out completely: the connection waits for the next request / for the request body again */
      enum MHD_CONNECTION_STATE st = conns[c].mc->state;
      if (1 == conns[c].rep)
      { /* the request has not been read yet */
        if (MHD_CONNECTION_INIT != st && MHD_CONNECTION_REQ_LINE_RECEIVING != st) conns[c].rep = 2;
      }
      else if ((MHD_CONNECTION_BODY_RECEIVING == st)
          && 0 == conns[c].mc->write_buffer_append_offset - conns[c].mc->write_buffer_send_offset)
      { ev ("fin%d", c); conns[c].rep = 0; conns[c].kind = 1; }
    }
    else if (conns[c].used && conns[c].rep && !conns[c].mc && conns[c].started) conns[c].rep = 0;   /* freed (not: not yet started) */
  drain_clients ();
  printf ("%s ev=[%s]", echo, evbuf);
  evlen = 0; evbuf[0] = 0;
  if (NULL == d) { printf (" nodaemon\n"); return; }
  if (MHD_YES == MHD_get_timeout64 (d, &to)) printf (" hint=%" PRIu64, to); else printf (" hint=none");
  printf (" now=%" PRIu64, vclock_ms);
  printf (" fl=%s%s%s%s", d->data_already_pending ? "d" : "", d->resuming ? "r" : "", d->have_new ? "n" : "",
          (NULL != d->cleanup_head) ? "c" : "");
  put_list ("C", d->connections_head, 0);
  put_list ("N", d->normal_timeout_head, 1);
  put_list ("M", d->manual_timeout_head, 1);
  put_list ("S", d->suspended_connections_head, 0);
#ifdef EPOLL_SUPPORT
  put_list ("E", d->eready_head, 2);
#else
  printf (" E=[]");
#endif
  printf (" |");
  for (c = 0; c < MAXC; c++)
    if (conns[c].used && conns[c].mc)
    {
      struct MHD_Connection *m = conns[c].mc;
      printf (" %d:%" PRIu64 ":%" PRIu64 ":%s%s%s%s", c, m->last_activity, m->connection_timeout_ms,
              m->suspended ? "s" : "", m->resuming ? "r" : "", (MHD_CONNECTION_CLOSED == m->state) ? "x" : "",
              (0 != (MHD_EVENT_LOOP_INFO_PROCESS & m->event_loop_info)) ? "p" : "");
      if (MHD_CONNECTION_BODY_RECEIVING == m->state && 0 != m->read_buffer_offset)
        printf ("b%u", (unsigned) m->read_buffer_offset);
    }
  putchar ('\n');
}

/* ---------------------------------------------------------------- rounds */
static void one_round (void)
{
  if (!strcmp (cfg.mode, "select"))
  {
    fd_set rs, ws, es; MHD_socket maxfd = 0; struct timeval tv = {0, 0};
    FD_ZERO (&rs); FD_ZERO (&ws); FD_ZERO (&es);
    if (MHD_YES != MHD_get_fdset2 (d, &rs, &ws, &es, &maxfd, FD_SETSIZE)) { ev ("fdset-failed"); return; }
    select ((int) maxfd + 1, &rs, &ws, &es, &tv);
    MHD_run_from_select2 (d, &rs, &ws, &es, FD_SETSIZE);
  }
  else MHD_run_wait (d, 0);
}

static void start_daemon (void)
{
  unsigned flags = MHD_USE_NO_LISTEN_SOCKET;
  struct MHD_OptionItem ops[8]; int n = 0;
  if (cfg.suspend) flags |= MHD_ALLOW_SUSPEND_RESUME;
  if (!strcmp (cfg.mode, "epoll")) flags |= MHD_USE_EPOLL;
  if (cfg.timeout) { ops[n].option = MHD_OPTION_CONNECTION_TIMEOUT; ops[n].value = cfg.timeout; ops[n++].ptr_value = NULL; }
  ops[n].option = MHD_OPTION_NOTIFY_COMPLETED; ops[n].value = (intptr_t) &completed; ops[n++].ptr_value = NULL;
  ops[n].option = MHD_OPTION_NOTIFY_CONNECTION; ops[n].value = (intptr_t) &notify_conn; ops[n++].ptr_value = NULL;
  ops[n].option = MHD_OPTION_END; ops[n].value = 0; ops[n++].ptr_value = NULL;
  d = MHD_start_daemon (flags, 0, NULL, NULL, &handler, NULL, MHD_OPTION_ARRAY, ops, MHD_OPTION_END);
}

static void reset_all (void)
{
  int c, k;
  if (d)
  {
    /* the API forbids stopping with suspended connections: resume them all first */
    for (c = 0; c < MAXC; c++) conns[c].want_susp = 0;
    for (k = 0; k < 4 && NULL != d->suspended_connections_head; k++)
    {
      for (c = 0; c < MAXC; c++)
        if (conns[c].used && conns[c].mc && conns[c].mc->suspended) MHD_resume_connection (conns[c].mc);
      one_round ();
    }
    MHD_stop_daemon (d); d = NULL;
  }
  for (c = 0; c < MAXC; c++) { if (conns[c].used && conns[c].cfd >= 0) close (conns[c].cfd); }
  memset (conns, 0, sizeof(conns));
  memset (&cfg, 0, sizeof(cfg)); strcpy (cfg.mode, "select"); cfg.suspend = 1;
  vclock_ms = CLOCK0;
  evlen = 0; evbuf[0] = 0;
}

static int kv (const char *w, const char *key, const char **val)
{ size_t n = strlen (key); if (!strncmp (w, key, n) && w[n] == '=') { *val = w + n + 1; return 1; } return 0; }

static const char POST_HEAD[] = "POST /p HTTP/1.1\r\nHost: h\r\nContent-Length: 1000000\r\n\r\nx";

int main (void)
{
  struct lp_line l = {0};
  char echo[128];
  signal (SIGPIPE, SIG_IGN);
  setvbuf (stdout, NULL, _IOFBF, 1 << 16);
  MHD_set_panic_func (NULL, NULL);
  while (lp_read (stdin, &l))
  {
    const char *v; int i; uint64_t a = 0, b = 0;
    const char *op = l.w[0];
    snprintf (echo, sizeof(echo), "%s%s%s%s%s", op, l.n > 1 ? " " : "", l.n > 1 ? l.w[1] : "", l.n > 2 ? " " : "", l.n > 2 ? l.w[2] : "");
    if (!strcmp (op, "case")) { reset_all (); printf ("case %s\n", l.n > 1 ? l.w[1] : "-"); continue; }
    if (!strcmp (op, "cfg"))
    {
      int ok = (NULL == d);
      for (i = 1; i < l.n && ok; i++)
      {
        if (kv (l.w[i], "mode", &v)) { if (strcmp (v, "select") && strcmp (v, "epoll")) ok = 0; else strncpy (cfg.mode, v, sizeof(cfg.mode) - 1); }
        else if (kv (l.w[i], "timeout", &v)) { if (!lp_u64 (v, &a) || a > 4000000) ok = 0; else cfg.timeout = (unsigned) a; }
        else if (kv (l.w[i], "suspend", &v)) cfg.suspend = atoi (v) ? 1 : 0;
        else ok = 0;
      }
      puts (ok ? "ok" : "bad-op"); continue;
    }
    if (!strcmp (op, "start") && NULL == d) { start_daemon (); if (d) report ("start"); else puts ("start-failed"); continue; }
    if (NULL == d) { puts ("bad-op"); continue; }
    if (!strcmp (op, "arrive") && 2 == l.n && lp_u64 (l.w[1], &a) && a < MAXC && !conns[a].used)
    {
      int sv[2]; struct sockaddr_in sa; enum MHD_Result q;
      if (0 != socketpair (AF_UNIX, SOCK_STREAM | SOCK_NONBLOCK, 0, sv)) { puts ("bad-op"); continue; }
      memset (&sa, 0, sizeof(sa)); sa.sin_family = AF_INET; sa.sin_port = htons ((uint16_t) (1000 + a));
      sa.sin_addr.s_addr = htonl (0x0a000001u + (uint32_t) a);
      memset (&conns[a], 0, sizeof(conns[a]));
      conns[a].used = 1; conns[a].cfd = sv[0]; conns[a].sfd = sv[1];
      q = MHD_add_connection (d, sv[1], (struct sockaddr *) &sa, sizeof(sa));
      if (MHD_YES != q) { ev ("add-failed"); }
      report (echo); continue;
    }
    if (!strcmp (op, "sendn") && 3 == l.n && lp_u64 (l.w[1], &a) && a < MAXC && conns[a].used && conns[a].cfd >= 0
        && lp_u64 (l.w[2], &b) && b >= 1 && b <= 8 && 2 != conns[a].kind && 3 != conns[a].kind)
    {
      char data[sizeof(POST_HEAD) + 8]; size_t n = 0;
      if (0 == conns[a].kind) { memcpy (data, POST_HEAD, sizeof(POST_HEAD) - 1); n = sizeof(POST_HEAD) - 1; b--; }
      memset (data + n, 'x', (size_t) b); n += (size_t) b;
      conns[a].kind = 1;
      (void) send (conns[a].cfd, data, n, MSG_DONTWAIT | MSG_NOSIGNAL);
      report (echo); continue;
    }
    if (!strcmp (op, "slow") && 2 == l.n && lp_u64 (l.w[1], &a) && a < MAXC && conns[a].used && !conns[a].want_susp
        && !(conns[a].mc && conns[a].mc->suspended))
    { conns[a].slow = 1; report (echo); continue; }
    if ((!strcmp (op, "send") || !strcmp (op, "sendp")) && 2 == l.n && lp_u64 (l.w[1], &a) && a < MAXC
        && conns[a].used && conns[a].cfd >= 0 && 3 != conns[a].kind)
    {
      int posting = !strcmp (op, "send");
      const char *data; size_t n;
      if ((posting && 2 == conns[a].kind) || (!posting && 1 == conns[a].kind)) { puts ("bad-op"); continue; }
      if (posting) { if (0 == conns[a].kind) { data = POST_HEAD; n = sizeof(POST_HEAD) - 1; } else { data = "x"; n = 1; } conns[a].kind = 1; }
      else { if (0 == conns[a].kind) { data = "GET /"; n = 5; } else { data = "a"; n = 1; } conns[a].kind = 2; }
      (void) send (conns[a].cfd, data, n, MSG_DONTWAIT | MSG_NOSIGNAL); /* fails when the server has closed the socket */
      report (echo); continue;
    }
    if (!strcmp (op, "cclose") && 2 == l.n && lp_u64 (l.w[1], &a) && a < MAXC && conns[a].used && conns[a].cfd >= 0
        && 3 != conns[a].kind)
    { drain_clients (); close (conns[a].cfd); conns[a].cfd = -1; conns[a].eof_seen = 1; report (echo); continue; }
    if (!strcmp (op, "round") && l.n >= 1 && l.n <= 3) { one_round (); report (echo); continue; }
    if (!strcmp (op, "get") && 3 == l.n && lp_u64 (l.w[1], &a) && a < MAXC && conns[a].used && conns[a].cfd >= 0
        && 0 == conns[a].kind && !conns[a].rep && !strcmp (cfg.mode, "select") && 1 == strlen (l.w[2]) && strchr ("nhcfe", l.w[2][0]))
    {
      char rq[160]; int n;
      if ('e' == l.w[2][0]) n = snprintf (rq, sizeof(rq), "POST /p HTTP/1.1\r\nHost: h\r\nContent-Length: 1000000\r\nExpect: 100-continue\r\n\r\n");
      else n = snprintf (rq, sizeof(rq), "GET /%c HTTP/1.1\r\nHost: h\r\n\r\n", l.w[2][0]);
      conns[a].kind = 3; conns[a].rep = 1; conns[a].rkind = l.w[2][0];
      if (!conns[a].limited) { conns[a].limited = 1; conns[a].quota = 0; }
      (void) send (conns[a].cfd, rq, (size_t) n, MSG_DONTWAIT | MSG_NOSIGNAL);
      report (echo); continue;
    }
    if (!strcmp (op, "allow") && 3 == l.n && lp_u64 (l.w[1], &a) && a < MAXC && conns[a].used && conns[a].limited
        && lp_u64 (l.w[2], &b) && b >= 1 && b <= 4000)
    { conns[a].quota += (size_t) b; report (echo); continue; }
    if (!strcmp (op, "tick") && 2 == l.n && lp_u64 (l.w[1], &a)) { vclock_ms += a; report (echo); continue; }
    if (!strcmp (op, "tickback") && 2 == l.n && lp_u64 (l.w[1], &a) && a <= vclock_ms) { vclock_ms -= a; report (echo); continue; }
    if (!strcmp (op, "set-timeout") && 3 == l.n && lp_u64 (l.w[1], &a) && lp_u64 (l.w[2], &b) && a < MAXC
        && conns[a].used && conns[a].mc && b <= 4000000)
    {
      if (MHD_YES != MHD_set_connection_option (conns[a].mc, MHD_CONNECTION_OPTION_TIMEOUT, (unsigned int) b)) ev ("opt-failed");
      else
      { /* what the application can read back */
        const union MHD_ConnectionInfo *ci = MHD_get_connection_info (conns[a].mc, MHD_CONNECTION_INFO_CONNECTION_TIMEOUT);
        ev ("get%u", ci ? ci->connection_timeout : 0u);
      }
      report (echo); continue;
    }
    if (!strcmp (op, "conv") && 4 == l.n && lp_u64 (l.w[1], &a) && a < MAXC && conns[a].used && conns[a].mc
        && !conns[a].mc->suspended && lp_u64 (l.w[2], &b))
    {
      struct MHD_Connection *m = conns[a].mc;
      const uint64_t st = m->connection_timeout_ms, sl = m->last_activity;
      uint64_t h = 0; MHD_UNSIGNED_LONG_LONG ull = 0; enum MHD_Result r1, r2;
      long long cap = strtoll (l.w[3], NULL, 10);
      int64_t s64, ms; int vi, msi;
      if (cap < -1 || cap > INT32_MAX) { puts ("bad-op"); continue; }
      /* the list the connection is in must not change: only the two fields read by the hint */
      m->connection_timeout_ms = b; m->last_activity = vclock_ms;
      r1 = MHD_get_timeout64 (d, &h);
      r2 = MHD_get_timeout (d, &ull);
      s64 = MHD_get_timeout64s (d);
      vi = MHD_get_timeout_i (d);
      ms = get_timeout_millisec_ (d, (int32_t) cap);
      msi = get_timeout_millisec_int (d, (int32_t) cap);
      m->connection_timeout_ms = st; m->last_activity = sl;
      if (MHD_YES == r1) printf ("conv h=%" PRIu64, h); else printf ("conv h=none");
      if (MHD_YES == r2) printf (" ull=%llu", (unsigned long long) ull); else printf (" ull=none");
      printf (" s64=%" PRId64 " i=%d ms=%" PRId64 " msi=%d\n", s64, vi, ms, msi);
      continue;
    }
    if (!strcmp (op, "susp") && 2 == l.n && lp_u64 (l.w[1], &a) && a < MAXC && conns[a].used && !conns[a].slow)
    { conns[a].want_susp = 1; report (echo); continue; }
    if (!strcmp (op, "resume") && 2 == l.n && lp_u64 (l.w[1], &a) && a < MAXC && conns[a].used && conns[a].mc
        && conns[a].mc->suspended && cfg.suspend)
    { MHD_resume_connection (conns[a].mc); report (echo); continue; }
    puts ("bad-op");
  }
  reset_all ();
  free (l.buf);
  return 0;
}
